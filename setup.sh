#!/bin/sh
# offline setup: nothing to fetch; warm the Kani build of gimli + harness crate so the first check is not slowed by it
set -e
cd /verif
mkdir -p build evidence replays
cp /repo/Cargo.lock kani/Cargo.lock 2>/dev/null || true
(cd kani && CARGO_NET_OFFLINE=true cargo kani --only-codegen --output-format terse >/verif/build/setup-kani.log 2>&1 || true)
verus --version >/dev/null
echo setup ok
