#!/usr/bin/env python3
"""Regenerate the wiring table of DESIGN.md 11.7 (between the GEN:wiring markers) from vx/registry.py and kani/harnesses.json."""
import os
import re
import sys

ROOT = os.path.dirname(os.path.abspath(__file__))
sys.path.insert(0, os.path.join(ROOT, 'vx'))
import registry  # noqa: E402


def groups(hs):
    g = {}
    for h in hs:
        c = g.setdefault(h['group'], [0, 0])
        c[0 if h['kind'] == 'complete' else 1] += 1
    return ', '.join(f'{k} ({v[0]} complete, {v[1]} bounded)' for k, v in sorted(g.items())) or '—'


def main():
    rows = ['| property | Verus batches | Kani, quick tier | Kani, thorough tier (all) |', '|---|---|---|---|']
    for p in sorted(registry.PROPS):
        b = ', '.join(f'`{x}`' for x in registry.PROPS[p]['batches'])
        rows.append(f"| {p} | {b} | {groups(registry.kani_for(p, 'quick'))} | {groups(registry.kani_for(p, 'thorough'))} |")
    path = os.path.join(ROOT, 'DESIGN.md')
    s = open(path).read()
    new = '<!-- GEN:wiring -->\n' + '\n'.join(rows) + '\n<!-- /GEN:wiring -->'
    if '<!-- GEN:wiring -->' in s:
        s = re.sub(r'<!-- GEN:wiring -->.*?<!-- /GEN:wiring -->', lambda m: new, s, flags=re.S)
    else:
        s = re.sub(r'\| property \| Verus batches \| Kani, quick tier \|.*?\n\n', lambda m: new + '\n\n', s, count=1, flags=re.S)
    # totals per property from the evidence files written by the last run of each check
    import glob
    import json
    trows = ['| property | tier | obligations discharged / generated | by engine | bounded harnesses (ok) | assumed clauses | functions under contract | known findings reported | wall s |',
             '|---|---|---|---|---|---|---|---|---|']
    tot_ob = tot_fn = 0
    for f in sorted(glob.glob(os.path.join(ROOT, 'evidence', 'C*.json'))):
        e = json.load(open(f))
        c = e['coverage']
        be = ', '.join(f'{k} {v}' for k, v in sorted((c.get('obligations_by_engine') or {}).items()))
        b = c.get('bounded') or []
        trows.append(f"| {e['property_id']} | {e['tier']} | {c['discharged']} / {c['obligations']} | {be} | {len(b)} ({len([x for x in b if x.get('ok')])}) | "
                     f"{len(c.get('assumed_clauses') or [])} | {len(c.get('functions_under_contract') or [])} | {len(c.get('known_findings_reported') or [])} | {e['wall_s']:.0f} |")
        tot_ob += c['obligations']
        tot_fn += len(c.get('functions_under_contract') or [])
    new = '<!-- GEN:totals -->\n' + '\n'.join(trows) + f'\n\n(sums over properties count shared functions once per property: {tot_ob} obligations, {tot_fn} function entries)\n<!-- /GEN:totals -->'
    if '<!-- GEN:totals -->' in s:
        s = re.sub(r'<!-- GEN:totals -->.*?<!-- /GEN:totals -->', lambda m: new, s, flags=re.S)
    open(path, 'w').write(s)


if __name__ == '__main__':
    main()
