//! Native reproducer for observation O-line-hdr-1 of vx/batches/line_hdr.py (precondition [C04:address-size-pre] of
//! `LineProgramHeader::parse` / `DebugLine::program`).
//!
//! Line number program headers of DWARF versions 2-4 have no address_size field; `DebugLine::program(offset, address_size,
//! ..)` takes it from the caller ("must match the compilation unit") and stores it UNCHECKED in the header's `Encoding`
//! (version 5 headers are read with `read_address_size`, which rejects everything but 1/2/4/8).  The line number machine
//! then calls `ReaderAddress::add_sized(.., address_size)` / `ones_sized(address_size)`, whose `!0 >> (64 - size * 8)`
//! overflows the shift for size 0 and the subtraction for size > 8: a debug-build panic on the first address advance.
//! Through `Dwarf::unit` the value comes from a unit header (validated), so this needs a caller that passes its own value:
//! an API precondition rather than an untrusted-input defect.  `valid_line_hdr` (what the machine's proofs require)
//! therefore holds for versions 2-4 only under `requires valid_address_size(address_size)`.
//!
//! Minimal fix: `if version < 5 { validate address_size in {1,2,4,8} else Err(Error::UnsupportedAddressSize(address_size)) }`
//! in `LineProgramHeader::parse`.
//!
//! usage: f_line_hdr_1     exit status 1 if iterating the rows panics for an out-of-range caller-supplied address size
use gimli::{DebugLine, DebugLineOffset, LittleEndian};
use std::panic;

fn section(program: &[u8]) -> Vec<u8> {
    // version 4: min_inst_len 1, max_ops 1, default_is_stmt 1, line_base -1, line_range 4, opcode_base 13
    let mut hdr_rest = vec![1u8, 1, 1, 0xff, 4, 13];
    hdr_rest.extend_from_slice(&[0, 1, 1, 1, 1, 0, 0, 0, 1, 0, 0, 1]);
    hdr_rest.push(0); // no include directories
    hdr_rest.push(0); // no file names
    let mut body = vec![4u8, 0];
    body.extend_from_slice(&(hdr_rest.len() as u32).to_le_bytes());
    body.extend_from_slice(&hdr_rest);
    body.extend_from_slice(program);
    let mut out = (body.len() as u32).to_le_bytes().to_vec();
    out.extend_from_slice(&body);
    out
}

fn main() {
    // DW_LNS_advance_pc 1; DW_LNS_copy; DW_LNE_end_sequence
    let sec = section(&[2, 1, 1, 0, 1, 1]);
    let mut bad = false;
    for size in [0u8, 3, 9, 200] {
        let sec2 = sec.clone();
        let r = panic::catch_unwind(move || {
            let dl = DebugLine::new(&sec2, LittleEndian);
            let program = dl.program(DebugLineOffset(0), size, None, None);
            match program {
                Err(e) => format!("header rejected: {:?}", e),
                Ok(p) => {
                    let mut rows = p.rows();
                    let mut n = 0;
                    loop {
                        match rows.next_row() {
                            Ok(Some(_)) => n += 1,
                            Ok(None) => break format!("{} rows", n),
                            Err(e) => break format!("error after {} rows: {:?}", n, e),
                        }
                    }
                }
            }
        });
        match r {
            Ok(s) => println!("address_size {:3}: {}", size, s),
            Err(_) => {
                println!("address_size {:3}: PANIC while iterating rows (header was accepted)", size);
                bad = true;
            }
        }
    }
    if bad {
        println!("O-line-hdr-1 reproduced: versions 2-4 accept any caller-supplied address size; the machine panics on it");
        std::process::exit(1);
    }
    println!("not reproduced");
}
