//! F-wunit-2 (C11): a reference to an entry id that was RESERVED (`Unit::reserve`) but never added is not reported as
//! `Err(InvalidReference)` like a reference to a deleted entry is (tests test_missing_unit_ref / test_missing_debuginfo_ref):
//! `UnitOffsets::debug_info_offset` indexes `entries[entry.index]` with an index >= entries.len() and PANICS
//! (index out of bounds) from inside `Dwarf::write`, because `Unit::reserve` only bumps a counter and the offsets vector is
//! sized by `entries.len()`. The doc of `reserve` says the id "must later be passed to add_reserved" if it is used in a
//! reference, so this is API misuse, but the outcome is a panic in the writer rather than the error the neighbouring case gets.
//! Obligation: the precondition `self.knows(entry)` of `UnitOffsets::{debug_info_offset, unit_offset}` (wunit), which
//! `Unit::write` / `write_debug_info_fixups` cannot establish for such ids.
//! Minimal fix: `self.entries.get(entry.index)` in `debug_info_offset` (None when out of range), or size the offsets
//! vector by `self.reserved`.
use gimli::write::{AttributeValue, DebugInfoRef, Dwarf, EndianVec, LineProgram, Sections, Unit};
use gimli::{Encoding, Format, LittleEndian};

fn attempt(cross_unit: bool) -> std::thread::Result<gimli::write::Result<()>> {
    std::panic::catch_unwind(move || {
        let encoding = Encoding { format: Format::Dwarf32, version: 5, address_size: 8 };
        let mut dwarf = Dwarf::new();
        let unit_id = dwarf.units.add(Unit::new(encoding, LineProgram::none()));
        let unit = dwarf.units.get_mut(unit_id);
        let sub = unit.add(unit.root(), gimli::DW_TAG_subprogram);
        let reserved = unit.reserve(); // never passed to add_reserved
        let value = if cross_unit {
            AttributeValue::DebugInfoRef(DebugInfoRef::Entry(unit_id, reserved))
        } else {
            AttributeValue::UnitRef(reserved)
        };
        unit.get_mut(sub).set(gimli::DW_AT_type, value);
        let mut sections = Sections::new(EndianVec::new(LittleEndian));
        dwarf.write(&mut sections)
    })
}

fn main() {
    let mut bad = 0;
    for cross in [false, true] {
        let r = attempt(cross);
        match &r {
            Ok(res) => println!("{}: write -> {res:?}", if cross { "DebugInfoRef::Entry" } else { "UnitRef" }),
            Err(_) => {
                println!("{}: write PANICKED", if cross { "DebugInfoRef::Entry" } else { "UnitRef" });
                bad += 1;
            }
        }
    }
    if bad > 0 {
        println!("F-wunit-2: PANIC: {bad} reference(s) to a reserved-but-never-added entry panic instead of Err(InvalidReference)");
        std::process::exit(1);
    }
    println!("F-wunit-2: ok");
}
