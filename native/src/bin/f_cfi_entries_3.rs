//! Finding cfi_entries/3 (C01, C05; DESIGN F6c): `EhHdrTable::pointer_to_offset` computes `ptr - eh_frame_ptr` without a
//! check.  Both come from the untrusted `.eh_frame_hdr`: a table row whose FDE address is below `eh_frame_ptr` makes
//! `fde_for_address` / `pointer_to_offset` panic "attempt to subtract with overflow" (debug); release wraps to a huge offset.
//! Minimal fix: `ptr.checked_sub(eh_frame_ptr).ok_or(Error::OffsetOutOfBounds(ptr))?` (any existing error variant).
use gimli::*;
fn main() {
    // version 1, all udata4; eh_frame_ptr = 0x2000; one row (initial_location 0x1000 -> fde address 0x10 < eh_frame_ptr)
    let mut hdr = vec![1u8, 0x03, 0x03, 0x03];
    hdr.extend_from_slice(&0x2000u32.to_le_bytes());
    hdr.extend_from_slice(&1u32.to_le_bytes());
    hdr.extend_from_slice(&0x1000u32.to_le_bytes());
    hdr.extend_from_slice(&0x10u32.to_le_bytes());
    let bases = BaseAddresses::default();
    let parsed = EhFrameHdr::new(&hdr, LittleEndian).parse(&bases, 8).expect("header parses");
    let table = parsed.table().expect("table present");
    let r = std::panic::catch_unwind(|| {
        let p = table.lookup(0x1000, &bases).expect("lookup ok");
        table.pointer_to_offset(p)
    });
    match r {
        Err(_) => { println!("f_cfi_entries_3: PANIC in EhHdrTable::pointer_to_offset (see message above)"); std::process::exit(1) }
        Ok(v) => println!("f_cfi_entries_3: no panic: {:?}", v),
    }
}
