//! Native reproducers (debug profile, overflow checks on) for the findings of DESIGN.md section 7.
//! usage: findings [name]      prints `<name>: PANIC <message>` or `<name>: ok <detail>`
use gimli::*;
use std::panic::catch_unwind;
use std::sync::Mutex;

static LAST: Mutex<String> = Mutex::new(String::new());

fn try_<F: FnOnce() -> String + std::panic::UnwindSafe>(want: &Option<String>, name: &str, f: F) {
    if let Some(w) = want {
        if w != name {
            return;
        }
    }
    let r = catch_unwind(f);
    match r {
        Err(_) => println!("{name}: PANIC {}", LAST.lock().unwrap()),
        Ok(d) => println!("{name}: ok {d}"),
    }
}

fn uleb(mut v: u64, out: &mut Vec<u8>) {
    loop {
        let mut x = (v & 0x7f) as u8;
        v >>= 7;
        if v != 0 {
            x |= 0x80;
        }
        out.push(x);
        if v == 0 {
            break;
        }
    }
}

fn main() {
    std::panic::set_hook(Box::new(|i| {
        *LAST.lock().unwrap() = format!("{}", i).replace('\n', " ");
    }));
    let want = std::env::args().nth(1);
    // F1: DW_OP_piece with size 2^61 : `8 * size`
    try_(&want, "F1_op_piece_size_2e61", || {
        let mut b = vec![0x93u8];
        uleb(1 << 61, &mut b);
        let mut r = EndianSlice::new(&b, LittleEndian);
        let res = Operation::parse(&mut r, Encoding { format: Format::Dwarf32, version: 4, address_size: 8 });
        format!("{:?}", res)
    });
}
