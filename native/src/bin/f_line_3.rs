//! Native reproducer for finding F-line-3 of vx/batches/line.py (clause [C04:monotone-rows] on `LineRows::next_row`).
//!
//! C04: "For any input whatsoever, row addresses never decrease within a sequence".  A consumer sees a sequence as the
//! rows up to and including a row with `end_sequence()`.  In tombstone mode (`DW_LNE_set_address` below the current
//! address or >= -2) `next_row` suppresses *every* row, including the `DW_LNE_end_sequence` row, and then resets the
//! registers to the initial state (address 0).  If the tombstone starts in the middle of a sequence that has already
//! produced rows, the consumer never sees that sequence end: the rows of the next sequence follow directly, with a
//! lower address, and `IncompleteLineProgram::sequences()` reports one `LineSequence` whose `start` is greater than its
//! `end` and whose instructions span two DW_LNE_end_sequence instructions.
//!
//! program:  set_address 0x100; copy;            -> row 0x100
//!           set_address 0x10  (tombstone); copy; end_sequence      -> both suppressed, registers reset
//!           set_address 0x50; copy; advance_pc 0x10; end_sequence  -> rows 0x50, 0x60(end)
//!
//! Minimal fix (LineRows::next_row): do not suppress the end_sequence row of a sequence that has already emitted rows
//! (i.e. report it with the last valid address), or track "rows emitted in this sequence" and return the
//! end_sequence row before resetting.
//!
//! usage: f_line_3    exit status 1 if a row address decreases without an intervening end_sequence row / start > end
use gimli::{DebugLine, DebugLineOffset, LittleEndian};

fn section(program: &[u8]) -> Vec<u8> {
    let mut hdr_rest = vec![1u8, 1, 1, 0xff, 4, 13];
    hdr_rest.extend_from_slice(&[0, 1, 1, 1, 1, 0, 0, 0, 1, 0, 0, 1]);
    hdr_rest.push(0);
    hdr_rest.push(0);
    let mut body = vec![4u8, 0];
    body.extend_from_slice(&(hdr_rest.len() as u32).to_le_bytes());
    body.extend_from_slice(&hdr_rest);
    body.extend_from_slice(program);
    let mut out = (body.len() as u32).to_le_bytes().to_vec();
    out.extend_from_slice(&body);
    out
}

fn set_address(a: u32, p: &mut Vec<u8>) {
    p.extend_from_slice(&[0, 5, 2]);
    p.extend_from_slice(&a.to_le_bytes());
}

fn main() {
    let mut p = Vec::new();
    set_address(0x100, &mut p);
    p.push(1);
    set_address(0x10, &mut p);
    p.push(1);
    p.extend_from_slice(&[0, 1, 1]);
    set_address(0x50, &mut p);
    p.push(1);
    p.extend_from_slice(&[2, 0x10]);
    p.extend_from_slice(&[0, 1, 1]);
    let sec = section(&p);
    let dl = DebugLine::new(&sec, LittleEndian);
    let mut bad = false;

    let mut rows = dl.program(DebugLineOffset(0), 4, None, None).unwrap().rows();
    let mut prev: Option<(u64, bool)> = None;
    while let Some((_, row)) = rows.next_row().unwrap() {
        let cur = (row.address(), row.end_sequence());
        let dec = matches!(prev, Some((a, false)) if cur.0 < a);
        println!("row address={:#x} end_sequence={}{}", cur.0, cur.1, if dec { "   <-- DECREASES within a sequence" } else { "" });
        bad |= dec;
        prev = Some(cur);
    }
    let (_, seqs) = dl.program(DebugLineOffset(0), 4, None, None).unwrap().sequences().unwrap();
    for s in &seqs {
        let inv = s.start > s.end;
        println!("sequence start={:#x} end={:#x}{}", s.start, s.end, if inv { "   <-- start > end" } else { "" });
        bad |= inv;
    }
    std::process::exit(if bad { 1 } else { 0 });
}
