//! Native reproducer for finding F-wlists-1 (= DESIGN.md F9, extended) of vx/batches/wlists.py: clauses
//! `[C16:pair-reads-as-range]` in `RangeListTable::write_ranges` and `LocationListTable::write_loc`.
//!
//! DWARF 2-4 `.debug_ranges` / `.debug_loc` (DWARF 4 2.17.3 / 2.6.2): a pair of address-size words whose FIRST word is
//! all-ones is a base address selection entry, (0, 0) ends the list, anything else is a range. The writers reject
//! (0, 0) (`begin == end` => InvalidRange) but emit a pair whose first word is the all-ones marker as it is:
//!   a) `Range::OffsetPair { begin: 0xffff_ffff, .. }`, address size 4 (offset -1 from the base: a wrapped range)
//!   b) `Range::StartEnd { begin: Address::Constant(0xffff_ffff), .. }`, address size 4
//!   c) `Location::OffsetPair { begin: 0xffff_ffff, .. }`, address size 4
//! `Dwarf::write` returns Ok and the consumer (gimli's own reader) takes the pair for a base selection: the entry is
//! lost AND every later entry of the list is resolved against a wrong base address.
//! The property (C16) asks for such lists to be rejected ("lists that cannot be represented unambiguously").
//! Minimal fix: in the OffsetPair / StartEnd arms of write_ranges and write_loc return an error (e.g. Error::InvalidRange)
//! when `begin == marker` resp. `begin == Address::Constant(marker)`, `marker = !0 >> (64 - address_size * 8)`.
//!
//! usage: f_wlists_1     one line per case; exit status 1 if a list was written with Ok(()) but reads back differently
use gimli::write::{self, Address, AttributeValue, EndianVec, Expression, LineProgram, Location, LocationList, Range, RangeList, Sections, Unit};
use gimli::{Encoding, Format, LittleEndian};

const ENC: Encoding = Encoding { format: Format::Dwarf32, version: 4, address_size: 4 };

fn roundtrip_ranges(list: Vec<Range>, low_pc: Option<u64>) -> (write::Result<()>, Vec<(u64, u64)>) {
    let mut dwarf = write::Dwarf::new();
    let uid = dwarf.units.add(Unit::new(ENC, LineProgram::none()));
    let unit = dwarf.units.get_mut(uid);
    let id = unit.ranges.add(RangeList(list));
    let root = unit.root();
    unit.get_mut(root).set(gimli::DW_AT_ranges, AttributeValue::RangeListRef(id));
    if let Some(pc) = low_pc {
        unit.get_mut(root).set(gimli::DW_AT_low_pc, AttributeValue::Address(Address::Constant(pc)));
    }
    let mut sections = Sections::new(EndianVec::new(LittleEndian));
    let res = dwarf.write(&mut sections);
    let mut out = vec![];
    if res.is_ok() {
        let rd = gimli::Dwarf::load(|id| -> Result<_, gimli::Error> {
            Ok(gimli::EndianSlice::new(sections.get(id).map(|w| w.slice()).unwrap_or(&[]), LittleEndian))
        })
        .unwrap();
        let u = rd.unit(rd.units().next().unwrap().unwrap()).unwrap();
        let mut c = u.entries();
        let e = c.next_dfs().unwrap().unwrap().clone();
        let mut it = rd.die_ranges(&u, &e).unwrap();
        while let Some(r) = it.next().unwrap() {
            out.push((r.begin, r.end));
        }
    }
    (res, out)
}

fn roundtrip_locations(list: Vec<Location>, low_pc: Option<u64>) -> (write::Result<()>, Vec<(u64, u64)>) {
    let mut dwarf = write::Dwarf::new();
    let uid = dwarf.units.add(Unit::new(ENC, LineProgram::none()));
    let unit = dwarf.units.get_mut(uid);
    let id = unit.locations.add(LocationList(list));
    let root = unit.root();
    unit.get_mut(root).set(gimli::DW_AT_location, AttributeValue::LocationListRef(id));
    if let Some(pc) = low_pc {
        unit.get_mut(root).set(gimli::DW_AT_low_pc, AttributeValue::Address(Address::Constant(pc)));
    }
    let mut sections = Sections::new(EndianVec::new(LittleEndian));
    let res = dwarf.write(&mut sections);
    let mut out = vec![];
    if res.is_ok() {
        let rd = gimli::Dwarf::load(|id| -> Result<_, gimli::Error> {
            Ok(gimli::EndianSlice::new(sections.get(id).map(|w| w.slice()).unwrap_or(&[]), LittleEndian))
        })
        .unwrap();
        let u = rd.unit(rd.units().next().unwrap().unwrap()).unwrap();
        let mut c = u.entries();
        let e = c.next_dfs().unwrap().unwrap().clone();
        let attr = e.attr(gimli::DW_AT_location).unwrap();
        let mut it = rd.attr_locations(&u, attr.value()).unwrap().unwrap();
        loop {
            match it.next() {
                Ok(Some(l)) => out.push((l.range.begin, l.range.end)),
                Ok(None) => break,
                Err(e) => {
                    // the mis-taken base selection has no location description: the reader is out of step with the data
                    println!("   (reader error while iterating the written list: {e:?})");
                    out.push((u64::MAX, u64::MAX));
                    break;
                }
            }
        }
    }
    (res, out)
}

fn expr() -> Expression {
    let mut e = Expression::new();
    e.op_reg(gimli::Register(1));
    e
}

fn main() {
    let mut bad = 0;
    let mut report = |name: &str, res: write::Result<()>, got: Vec<(u64, u64)>, want: Vec<(u64, u64)>| {
        let verdict = if res.is_err() { "rejected (fine)" } else if got == want { "round trip ok" } else { "WRONG RESULT" };
        println!("{name}: write -> {res:?}; read back {got:x?}; the list means {want:x?}: {verdict}");
        if res.is_ok() && got != want {
            bad += 1;
        }
    };
    // control: the same shapes with an innocent first word
    let (r, g) = roundtrip_ranges(vec![
        Range::BaseAddress { address: Address::Constant(0x1000) },
        Range::OffsetPair { begin: 0x10, end: 0x20 },
        Range::OffsetPair { begin: 0x30, end: 0x40 },
    ], Some(0));
    report("control (OffsetPair)", r, g, vec![(0x1010, 0x1020), (0x1030, 0x1040)]);
    // a) DESIGN F9: offset -1 from the base (0x1000 + 0xffff_ffff wraps to 0xfff at address size 4)
    let (r, g) = roundtrip_ranges(vec![
        Range::BaseAddress { address: Address::Constant(0x1000) },
        Range::OffsetPair { begin: 0xffff_ffff, end: 0x20 },
        Range::OffsetPair { begin: 0x30, end: 0x40 },
    ], Some(0));
    report("a) ranges OffsetPair{begin: all-ones}", r, g, vec![(0xfff, 0x1020), (0x1030, 0x1040)]);
    // b) address pair whose first word is the marker; the unit has no base address
    let (r, g) = roundtrip_ranges(vec![
        Range::StartEnd { begin: Address::Constant(0xffff_ffff), end: Address::Constant(0x10) },
        Range::StartEnd { begin: Address::Constant(0x100), end: Address::Constant(0x200) },
    ], None);
    report("b) ranges StartEnd{begin: Constant(all-ones)}", r, g, vec![(0x100, 0x200)]);
    // c) location list
    let (r, g) = roundtrip_locations(vec![
        Location::BaseAddress { address: Address::Constant(0x1000) },
        Location::OffsetPair { begin: 0xffff_ffff, end: 0x20, data: expr() },
        Location::OffsetPair { begin: 0x30, end: 0x40, data: expr() },
    ], Some(0));
    report("c) locations OffsetPair{begin: all-ones}", r, g, vec![(0xfff, 0x1020), (0x1030, 0x1040)]);
    if bad > 0 {
        println!("F-wlists-1: WRONG RESULT: {bad} lists were written with Ok(()) in the ambiguous pair format (expected an error)");
        std::process::exit(1);
    }
    println!("F-wlists-1: ok");
}
