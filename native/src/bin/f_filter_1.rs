//! Native reproducer for the finding of vx/batches/filter.py: clauses [C19:expr-ref-ImplicitPointer],
//! [C19:expr-ref-VariableValue], [C19:expr-ref-EntryValue] on `write::unit::convert::FilterUnit::add_expression_refs`.
//!
//! `FilterUnit::add_expression_refs` records a dependency edge for the entry referenced by `Deref/RegisterOffset/
//! TypedLiteral/Convert/Reinterpret { base_type }`, `ParameterRef` and `Call`, but its `match` ends in `_ => {}` for the
//! three other `read::Operation` variants that name an entry:
//!     ImplicitPointer { value: DebugInfoOffset, .. }     DW_OP_implicit_pointer / DW_OP_GNU_implicit_pointer
//!     VariableValue   { offset: DebugInfoOffset }        DW_OP_GNU_variable_value
//!     EntryValue      { expression }                     DW_OP_entry_value: the nested expression is not walked, so a
//!                                                        DW_OP_regval_type / DW_OP_convert base type inside it is missed
//! The conversion step (`write::Expression::from`) resolves exactly these references through
//! `convert_debug_info_ref` / `convert_unit_ref`, which fail with `InvalidDebugInfoRef` / `InvalidUnitRef` when the
//! target entry was not reserved.  So a filtered conversion of valid DWARF fails (or, with the lenient per-attribute
//! handling of crates/examples/src/bin/convert.rs, silently loses the location attribute) although the unfiltered
//! conversion of the same input succeeds: C19 "the output contains ... everything those entries reference (directly, or
//! from their expressions and location lists)" / "each retained entry carries the same attributes as in an unfiltered
//! conversion" is violated.
//!
//! Minimal fix (src/write/unit.rs, add_expression_refs): add the arms
//!     read::Operation::ImplicitPointer { value: ref_offset, .. } | read::Operation::VariableValue { offset: ref_offset }
//!         => { deps.push(ref_offset.to_unit_section_offset(&self.read_unit).ok_or(ConvertError::InvalidDebugInfoRef)?) }
//!     read::Operation::EntryValue { expression } => self.add_expression_refs(deps, read::Expression(expression))?,
//! (and fold the `Call { DebugInfoRef }` arm into the first one).
//!
//! usage: f_filter_1     prints one line per case:  `<case>: unfiltered=<r> filtered=<r>`  and `DEFECT`/`ok`;
//!                       exit status 1 if any case shows the defect
use gimli::write::{self, Address, AttributeValue, DebugInfoRef, EndianVec, Expression, Sections, UnitEntryId};
use gimli::{constants, Encoding, Format, LittleEndian, Register};

type R<'a> = gimli::EndianSlice<'a, LittleEndian>;

/// Input: one unit.   root CU
///                      +- target   (top level, only reachable through the reference in the expression)
///                      +- subprogram "f" [low_pc, high_pc)           <- the only required entry
///                           +- variable "p"  DW_AT_location = exprloc(expr(target))
fn build(kind: &str) -> Sections<EndianVec<LittleEndian>> {
    let encoding = Encoding { format: Format::Dwarf32, version: 5, address_size: 8 };
    let mut dwarf = write::Dwarf::new();
    let unit_id = dwarf.units.add(write::Unit::new(encoding, write::LineProgram::none()));
    let unit = dwarf.units.get_mut(unit_id);
    let root = unit.root();
    unit.get_mut(root).set(constants::DW_AT_name, AttributeValue::String(b"cu".to_vec()));

    let target: UnitEntryId = match kind {
        "implicit_pointer" | "variable_value" => {
            let t = unit.add(root, constants::DW_TAG_variable);
            unit.get_mut(t).set(constants::DW_AT_name, AttributeValue::String(b"target".to_vec()));
            t
        }
        "call" => {
            let t = unit.add(root, constants::DW_TAG_dwarf_procedure);
            let mut e = Expression::new();
            e.op(constants::DW_OP_nop);
            unit.get_mut(t).set(constants::DW_AT_location, AttributeValue::Exprloc(e));
            t
        }
        _ => {
            let t = unit.add(root, constants::DW_TAG_base_type);
            unit.get_mut(t).set(constants::DW_AT_name, AttributeValue::String(b"double".to_vec()));
            unit.get_mut(t).set(constants::DW_AT_byte_size, AttributeValue::Udata(8));
            unit.get_mut(t).set(constants::DW_AT_encoding, AttributeValue::Encoding(constants::DW_ATE_float));
            t
        }
    };

    let f = unit.add(root, constants::DW_TAG_subprogram);
    unit.get_mut(f).set(constants::DW_AT_name, AttributeValue::String(b"f".to_vec()));
    unit.get_mut(f).set(constants::DW_AT_low_pc, AttributeValue::Address(Address::Constant(0x1000)));
    unit.get_mut(f).set(constants::DW_AT_high_pc, AttributeValue::Udata(0x10));
    let p = unit.add(f, constants::DW_TAG_variable);
    unit.get_mut(p).set(constants::DW_AT_name, AttributeValue::String(b"p".to_vec()));

    let mut e = Expression::new();
    match kind {
        "implicit_pointer" => e.op_implicit_pointer(DebugInfoRef::Entry(unit_id, target), 0),
        "variable_value" => {
            e.op_variable_value(DebugInfoRef::Entry(unit_id, target));
            e.op(constants::DW_OP_stack_value);
        }
        "entry_value_regval_type" => {
            let mut inner = Expression::new();
            inner.op_regval_type(Register(17), target);
            e.op_entry_value(inner);
            e.op(constants::DW_OP_stack_value);
        }
        // controls: reference kinds that add_expression_refs does cover
        "regval_type" => {
            e.op_regval_type(Register(17), target);
            e.op(constants::DW_OP_stack_value);
        }
        "call" => e.op_call(target),
        _ => unreachable!(),
    }
    unit.get_mut(p).set(constants::DW_AT_location, AttributeValue::Exprloc(e));

    let mut sections = Sections::new(EndianVec::new(LittleEndian));
    dwarf.write(&mut sections).expect("writing the input DWARF");
    sections
}

/// Convert (filtered: only the subprogram is required); returns a description of the converted forest or the error.
fn convert(read_dwarf: &gimli::read::Dwarf<R<'_>>, filtered: bool) -> Result<String, write::ConvertError> {
    let mut out = write::Dwarf::new();
    let mut convert = if filtered {
        let mut filter = write::FilterUnitSection::new(read_dwarf)?;
        while let Some(mut unit) = filter.read_unit()? {
            let mut entry = unit.null_entry();
            while unit.read_entry(&mut entry)? {
                if entry.tag == constants::DW_TAG_subprogram {
                    unit.require_entry(entry.offset);
                }
            }
        }
        out.convert_with_filter(filter)?
    } else {
        out.convert(read_dwarf)?
    };
    let mut n = 0;
    while let Some((mut unit, root_entry)) = convert.read_unit()? {
        unit.convert(root_entry, &|a| Some(Address::Constant(a)))?;
        n += unit.unit.count();
    }
    drop(convert);
    let mut sections = Sections::new(EndianVec::new(LittleEndian));
    out.write(&mut sections).map_err(|e| { eprintln!("write error: {e}"); write::ConvertError::InvalidDebugInfoRef })?;
    Ok(format!("Ok({n} entries, {} bytes of .debug_info)", sections.debug_info.slice().len()))
}

fn main() {
    let mut bad = false;
    for kind in ["regval_type", "call", "implicit_pointer", "variable_value", "entry_value_regval_type"] {
        let sections = build(kind);
        let read_dwarf = gimli::read::Dwarf::load(|id| -> Result<R<'_>, gimli::Error> {
            Ok(gimli::EndianSlice::new(sections.get(id).map(|s| s.slice()).unwrap_or(&[]), LittleEndian))
        })
        .unwrap();
        let show = |r: Result<String, write::ConvertError>| match r {
            Ok(s) => (true, s),
            Err(e) => (false, format!("Err({e:?})")),
        };
        let (uok, u) = show(convert(&read_dwarf, false));
        let (fok, f) = show(convert(&read_dwarf, true));
        let defect = uok && !fok;
        bad |= defect;
        println!("{kind}: unfiltered={u} filtered={f}  {}", if defect { "DEFECT (filtered conversion fails for a missing reference)" } else { "ok" });
    }
    std::process::exit(if bad { 1 } else { 0 });
}
