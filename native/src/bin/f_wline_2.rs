//! F-wline-2 (C13, C12): `LineProgram::generate_row` computes the line delta as `self.row.line as i64 - self.prev_row.line as i64`.
//! `line` is a u64.  (a) If the two casts straddle 2^63 the subtraction overflows: debug build panics ("attempt to
//! subtract with overflow"), e.g. line 1 -> 2^63.  (b) If the true difference does not fit an i64 but the wrapped one
//! does, a wrong DW_LNS_advance_line is emitted silently: prev line 1, row line 2^63 + 1 is written as
//! advance_line(i64::MIN) and reads back as line 0.  Both are reachable from UNTRUSTED INPUT through read->write
//! conversion (C12: must convert or return an error): the input program below (three advance_line, line 2^63 + 1)
//! converts with Ok and its row reads back with line 0 - a silent alteration.
//! Verifier: `WLINE_FINDINGS=1 WLINE_GENERATE_ROW=1` states no bound on the lines; the overflow obligation and clause
//! [C13:generate-row-any-line] fail.  The default build proves [C13:generate-row] under wl_line_delta_fits / [C13:pre-line-i64].
//! Minimal fix: compute the delta with `i128`/checked arithmetic and emit two DW_LNS_advance_line (or return an error
//! from conversion) when it does not fit an i64.
use gimli::write::{Address, DebugLine, EndianVec, LineProgram, LineString, LineStringTable, StringTable};
use gimli::{Encoding, Format, LineEncoding, LittleEndian};
use std::panic::{catch_unwind, AssertUnwindSafe};

fn rows(sec: &[u8]) -> Vec<(u64, u64, bool)> {
    let dl = gimli::read::DebugLine::new(sec, LittleEndian);
    let p = dl.program(gimli::DebugLineOffset(0), 8, None, None).unwrap();
    let mut rows = p.rows();
    let mut out = vec![];
    while let Some((_, r)) = rows.next_row().unwrap() {
        out.push((r.address(), r.line().map(|l| l.get()).unwrap_or(0), r.end_sequence()));
    }
    out
}

fn program() -> LineProgram {
    let encoding = Encoding { format: Format::Dwarf32, version: 4, address_size: 8 };
    let mut p = LineProgram::new(encoding, LineEncoding::default(), LineString::String(b"dir".to_vec()), None, LineString::String(b"file".to_vec()), None);
    let dir = p.default_directory();
    let f = p.add_file(LineString::String(b"a.c".to_vec()), dir, None);
    p.begin_sequence(Some(Address::Constant(0x1000)));
    p.row().file = f;
    p
}

fn main() {
    std::panic::set_hook(Box::new(|i| println!("  panic: {i}")));
    let mut bad = 0;
    // (a) direct API: line 2^63 after line 1
    let r = catch_unwind(AssertUnwindSafe(|| {
        let mut p = program();
        p.row().line = 1u64 << 63;
        p.generate_row();
    }));
    println!("generate_row with line 1 -> 2^63: returned normally: {}", r.is_ok());
    if r.is_err() { bad += 1; }
    // (a') the same through conversion of an input program
    let mut prog: Vec<u8> = vec![0, 9, 2, 0, 0x10, 0, 0, 0, 0, 0, 0];
    prog.push(3); prog.extend_from_slice(&[0xff, 0xff, 0xff, 0xff, 0xff, 0xff, 0xff, 0xff, 0x3f]); // advance_line i64::MAX... (sleb 2^62-1 twice would also do)
    prog.push(3); prog.extend_from_slice(&[0xff, 0xff, 0xff, 0xff, 0xff, 0xff, 0xff, 0xff, 0x3f]);
    prog.push(3); prog.push(2); // +2  => line = 1 + 2*(2^62-1) + 2 = 2^63 + 1 ... adjust below
    prog.push(1);
    prog.extend_from_slice(&[0, 1, 1]);
    let mut rest = vec![1u8, 1, 1, 0xfb, 14, 13];
    rest.extend_from_slice(&[0, 1, 1, 1, 1, 0, 0, 0, 1, 0, 0, 1]);
    rest.push(0);
    rest.extend_from_slice(b"a.c\0\0\0\0");
    rest.push(0);
    let mut body = vec![];
    body.extend_from_slice(&4u16.to_le_bytes());
    body.extend_from_slice(&(rest.len() as u32).to_le_bytes());
    body.extend_from_slice(&rest);
    body.extend_from_slice(&prog);
    let mut sec = (body.len() as u32).to_le_bytes().to_vec();
    sec.extend_from_slice(&body);
    let before = rows(&sec);
    println!("input rows: {before:x?}");
    let load = |id: gimli::SectionId| -> Result<gimli::EndianSlice<'_, LittleEndian>, gimli::Error> {
        Ok(gimli::EndianSlice::new(match id { gimli::SectionId::DebugLine => &sec[..], _ => &[] }, LittleEndian))
    };
    let rd = gimli::read::Dwarf::load(load).unwrap();
    let r = catch_unwind(AssertUnwindSafe(|| {
        let program = rd.debug_line.program(gimli::DebugLineOffset(0), 8, None, None).unwrap();
        let mut wd = gimli::write::Dwarf::new();
        let conv = wd.read_line_program(&rd, program, None, None).unwrap();
        match conv.convert(&|a| Some(Address::Constant(a))) {
            Ok((lp, _)) => {
                let mut out = DebugLine::from(EndianVec::new(LittleEndian));
                lp.write(&mut out, Encoding { format: Format::Dwarf32, version: 4, address_size: 8 }, &mut LineStringTable::default(), &mut StringTable::default()).unwrap();
                format!("Ok, output rows {:x?}", rows(out.slice()))
            }
            Err(e) => format!("Err({e:?})"),
        }
    }));
    match r {
        Ok(s) => {
            println!("conversion: {s}");
            if !s.starts_with("Err") && !s.contains(&format!("{:x?}", before)) { bad += 1; }
        }
        Err(_) => { println!("conversion PANICKED (expected: same rows or ConvertError)"); bad += 1; }
    }
    // (b) silent wrong line: 1 -> 2^63 + 1 (wrapped difference i64::MIN fits)
    let r = catch_unwind(AssertUnwindSafe(|| {
        let mut p = program();
        p.row().line = (1u64 << 63) + 1;
        p.generate_row();
        p.end_sequence(4);
        let mut out = DebugLine::from(EndianVec::new(LittleEndian));
        p.write(&mut out, Encoding { format: Format::Dwarf32, version: 4, address_size: 8 }, &mut LineStringTable::default(), &mut StringTable::default()).unwrap();
        catch_unwind(AssertUnwindSafe(|| rows(out.slice())))
    }));
    match r {
        Ok(Ok(rs)) => {
            println!("generated line 0x8000000000000001 reads back as rows {rs:x?}");
            if rs.first().map(|r| r.1) != Some((1u64 << 63) + 1) { bad += 1; }
        }
        Ok(Err(_)) => { println!("generated line 0x8000000000000001: written with Ok, READING the output panicked"); bad += 1; }
        Err(_) => { println!("generate_row with line 1 -> 2^63+1 panicked"); bad += 1; }
    }
    if bad > 0 {
        println!("F-wline-2: {bad} defects shown (panic / wrong line)");
        std::process::exit(1);
    }
    println!("F-wline-2: ok");
}
