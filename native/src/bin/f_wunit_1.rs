//! F-wunit-1 (C11): `write::AttributeValue::String(bytes)` is emitted as DW_FORM_string (bytes, then one NUL) without
//! looking at the bytes. A value containing a NUL ("Must not include null bytes" in the doc comment, but nothing checks it)
//! is written with Ok(()) and does not read back: the reader stops at the first NUL, takes the rest of the value for the
//! following attributes, and every later attribute / entry of the unit is misparsed. The property asks for an error
//! ("Requests that cannot be encoded are reported as errors rather than producing corrupt or ambiguous output");
//! `StringTable::add` does reject NULs (assert), the inline form does not.
//! Obligation: wunit `write::unit::AttributeValue::write [C11:string-no-nul]`.
//! Minimal fix: in `AttributeValue::write` (or `form`), `if val.contains(&0) { return Err(Error::InvalidAttributeValue); }`
//! for the `String` variant.
use gimli::write::{AttributeValue, DwarfUnit, EndianVec, Sections};
use gimli::{Encoding, Format, LittleEndian};

fn main() {
    let encoding = Encoding { format: Format::Dwarf32, version: 5, address_size: 8 };
    let mut dwarf = DwarfUnit::new(encoding);
    let root = dwarf.unit.root();
    let e = dwarf.unit.get_mut(root);
    e.set(gimli::DW_AT_name, AttributeValue::String(b"a\0bc".to_vec()));
    e.set(gimli::DW_AT_producer, AttributeValue::String(b"producer".to_vec()));
    e.set(gimli::DW_AT_language, AttributeValue::Language(gimli::DW_LANG_Rust));
    let mut sections = Sections::new(EndianVec::new(LittleEndian));
    let res = dwarf.write(&mut sections);
    println!("write -> {res:?}");
    if res.is_err() {
        println!("F-wunit-1: ok (rejected)");
        return;
    }
    let read = gimli::read::Dwarf::load(|id| -> Result<_, gimli::Error> {
        Ok(gimli::EndianSlice::new(sections.get(id).map(|w| w.slice()).unwrap_or(&[]), LittleEndian))
    })
    .unwrap();
    let mut units = read.units();
    let header = units.next().unwrap().unwrap();
    let unit = read.unit(header);
    let mut ok = false;
    match unit {
        Ok(unit) => {
            let mut entries = unit.entries();
            match entries.next_dfs() {
                Ok(Some(entry)) => {
                    let name = entry.attr_value(gimli::DW_AT_name).map(|v| read.attr_string(&unit, v).map(|s| s.slice().to_vec()));
                    let producer = entry.attr_value(gimli::DW_AT_producer).map(|v| read.attr_string(&unit, v).map(|s| s.slice().to_vec()));
                    let lang = entry.attr_value(gimli::DW_AT_language);
                    println!("attributes read back: {:?}", entry.attrs().iter().map(|a| (a.name(), a.raw_value())).collect::<Vec<_>>());
                    println!("read back: name = {:?}, producer = {:?}, language = {:?}", name, producer, lang);
                    ok = matches!(name, Some(Ok(s)) if s == b"a\0bc");
                }
                other => println!("read back: root entry -> {:?}", other.map(|_| ())),
            }
        }
        Err(e) => println!("read back: unit -> Err({e:?})"),
    }
    if !ok {
        println!("F-wunit-1: WRONG RESULT: a String value with an embedded NUL was written with Ok(()) and does not read back");
        std::process::exit(1);
    }
    println!("F-wunit-1: ok");
}
