//! Native reproducer for finding F-dwarf-ranges-1 (= DESIGN.md F5; batch `dwarf_ranges`, properties C01 / C08):
//! `read::Dwarf::die_ranges` (and therefore `unit_ranges`, `UnitRef::die_ranges`) computes the end of the single
//! `[DW_AT_low_pc, DW_AT_low_pc + DW_AT_high_pc)` range of a DIE whose DW_AT_high_pc is of class constant with a plain `+`:
//!
//!     let range = low_pc.and_then(|begin| {
//!         let end = size.map(|size| begin + size).or(high_pc);          // read/dwarf.rs
//!
//! Both operands come straight from the DIE's attributes (untrusted).  Debug build: panic "attempt to add with overflow"
//! (C01: untrusted DWARF never panics).  Release build: the sum wraps and the helper returns the range
//! [0xffff_ffff_ffff_fff0, 0xf0) -- not the range the standard defines (C08).  With 4-byte addresses the 64-bit sum does not
//! overflow but the reported end lies outside the unit's address space (second case, informational).
//!
//! Verus obligation that fails on the pinned tree (python3 vx/run.py dwarf_ranges):
//!   read::dwarf::Dwarf::die_ranges | possible arithmetic underflow/overflow | let end = size.map(|size| begin + size).or(high_pc);
//! (the clause [C08:die-ranges-single] states the end as the mathematical sum low_pc + high_pc, so it is only provable when
//! the machine sum cannot wrap).
//!
//! Minimal fix (existing error variant `AddressOverflow`, the same helper `aranges`, `line` and `cfi` already use; ranges
//! that worked before are unchanged):
//!     let range = match low_pc {
//!         Some(begin) => {
//!             let end = match size {
//!                 Some(size) => Some(begin.add_sized(size, unit.encoding().address_size)?),
//!                 None => high_pc,
//!             };
//!             end.map(|end| Range { begin, end })
//!         }
//!         None => None,
//!     };
//! (+ `ReaderAddress` in the `use crate::read::{..}` list of read/dwarf.rs).  With it the batch exits 0.
//!
//! usage: cd /verif/native && cargo run -q --bin f_dwarf_ranges_1
//! prints `<case>: PANIC <message>` on the defective tree, `<case>: ok <result>` after the fix; exit status 1 on a panic.
use gimli::*;
use std::panic::catch_unwind;
use std::sync::Mutex;

static LAST: Mutex<String> = Mutex::new(String::new());

fn uleb(mut v: u64, out: &mut Vec<u8>) {
    loop {
        let mut x = (v & 0x7f) as u8;
        v >>= 7;
        if v != 0 {
            x |= 0x80;
        }
        out.push(x);
        if v == 0 {
            break;
        }
    }
}

/// a DWARF 4 unit with one DIE: DW_TAG_compile_unit { DW_AT_low_pc (DW_FORM_addr), DW_AT_high_pc (DW_FORM_udata) }
fn die_ranges_of(address_size: u8, low_pc: u64, high_pc: u64, via_unit_ranges: bool) -> String {
    let abbrev = vec![1u8, 0x11, 0, 0x11, 0x01, 0x12, 0x0f, 0, 0, 0];
    let mut die = vec![1u8];
    die.extend_from_slice(&low_pc.to_le_bytes()[..address_size as usize]);
    uleb(high_pc, &mut die);
    let mut unit = vec![];
    let len = (2 + 4 + 1 + die.len()) as u32;
    unit.extend_from_slice(&len.to_le_bytes());
    unit.extend_from_slice(&4u16.to_le_bytes());
    unit.extend_from_slice(&0u32.to_le_bytes());
    unit.push(address_size);
    unit.extend_from_slice(&die);
    let load = |id: SectionId| -> core::result::Result<EndianSlice<'_, LittleEndian>, gimli::Error> {
        Ok(EndianSlice::new(
            match id {
                SectionId::DebugInfo => &unit[..],
                SectionId::DebugAbbrev => &abbrev[..],
                _ => &[],
            },
            LittleEndian,
        ))
    };
    let dwarf = Dwarf::load(load).unwrap();
    let header = dwarf.units().next().unwrap().unwrap();
    let unit = dwarf.unit(header).unwrap();
    if via_unit_ranges {
        return format!("{:x?}", dwarf.unit_ranges(&unit).map(|mut r| r.next()));
    }
    let mut cursor = unit.entries();
    let entry = cursor.next_dfs().unwrap().unwrap().clone();
    format!("{:x?}", dwarf.die_ranges(&unit, &entry).map(|mut r| r.next()))
}

fn case<F: FnOnce() -> String + std::panic::UnwindSafe>(name: &str, f: F) -> bool {
    match catch_unwind(f) {
        Ok(d) => {
            println!("{name}: ok {d}");
            false
        }
        Err(_) => {
            println!("{name}: PANIC {}", LAST.lock().unwrap());
            true
        }
    }
}

fn main() {
    std::panic::set_hook(Box::new(|i| {
        *LAST.lock().unwrap() = format!("{}", i).replace('\n', " ");
    }));
    let mut bad = false;
    bad |= case("F_dwarf_ranges_1_die_ranges_low_fff0_size_100", || die_ranges_of(8, 0xffff_ffff_ffff_fff0, 0x100, false));
    bad |= case("F_dwarf_ranges_1_unit_ranges_low_fff0_size_100", || die_ranges_of(8, 0xffff_ffff_ffff_fff0, 0x100, true));
    // informational: 4-byte addresses, the end leaves the address space (no panic; an error after the fix)
    case("F_dwarf_ranges_1_addr4_end_outside_address_space", || die_ranges_of(4, 0xffff_fff0, 0x100, false));
    // control
    case("F_dwarf_ranges_1_control", || die_ranges_of(8, 0x1000, 0x100, false));
    std::process::exit(if bad { 1 } else { 0 });
}
