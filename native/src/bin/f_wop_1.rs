//! Native reproducer for finding candidate F-wop-1 of vx/batches/wop.py (obligation `[C15:branch-target-in-bounds]`,
//! a precondition of `write::op::Operation::write`; statement `let offset = offsets[target] as i64 - ...` in the
//! `Operation::Skip` / `Operation::Branch` arms of src/write/op.rs).
//!
//! `Expression::op_skip()` / `op_bra()` push `Operation::Skip(!0)` / `Operation::Branch(!0)`; the target stays
//! `usize::MAX` until `set_target` is called.  `Expression::write` builds `offsets` with `operations.len() + 1` entries and
//! `Operation::write` indexes it with the target without a check, so writing an expression whose branch never got a target
//! PANICS ("index out of bounds: the len is 2 but the index is 18446744073709551615") instead of returning a
//! `write::Error`.  The documentation of `op_skip`/`op_bra` says the caller "must call `set_target`", so this is API
//! misuse; it is reported because every other unencodable request in this writer is an `Err` (C15: "unencodable
//! requests are errors, not panics"), and because in a release build `set_target` itself accepts any `new_target`
//! (its range check is a `debug_assert!`), with the same delayed panic.
//!
//! Reached through the public API only: a CFI instruction carrying the expression, `FrameTable::write_debug_frame`;
//! and a DIE attribute `DW_AT_location = Exprloc(expression)`, `Dwarf::write`.
//!
//! Minimal fix: in both arms `let target_offset = *offsets.get(target).ok_or(Error::InvalidBranchTarget)?;` (any error
//! variant), or represent the pending target as `Option<usize>` and fail in `size`/`write`.
//!
//! prints `<case>: PANIC <message>` or `<case>: ok/err <detail>`; exit status 1 if a case panicked
use gimli::write::{
    Address, AttributeValue, CallFrameInstruction, CommonInformationEntry, DebugFrame, Dwarf, EndianVec, Expression,
    FrameDescriptionEntry, FrameTable, LineProgram, Sections, Unit,
};
use gimli::{Encoding, Format, LittleEndian, Register};
use std::panic::catch_unwind;
use std::sync::Mutex;

static LAST: Mutex<String> = Mutex::new(String::new());

fn unset_branch() -> Expression {
    let mut e = Expression::new();
    let _branch = e.op_skip(); // documented: "The caller must call set_target" -- never done
    e.op(gimli::DW_OP_nop);
    e
}

fn case_cfi() -> String {
    let encoding = Encoding { address_size: 8, format: Format::Dwarf32, version: 4 };
    let mut frames = FrameTable::default();
    let cie = frames.add_cie(CommonInformationEntry::new(encoding, 1, -8, Register(16)));
    let mut fde = FrameDescriptionEntry::new(Address::Constant(0x1000), 0x10);
    fde.add_instruction(0, CallFrameInstruction::CfaExpression(unset_branch()));
    frames.add_fde(cie, fde);
    let mut out = DebugFrame::from(EndianVec::new(LittleEndian));
    match frames.write_debug_frame(&mut out) {
        Ok(()) => format!("ok {} bytes", out.slice().len()),
        Err(e) => format!("err {e:?}"),
    }
}

fn case_exprloc() -> String {
    let encoding = Encoding { address_size: 8, format: Format::Dwarf32, version: 5 };
    let mut dwarf = Dwarf::new();
    let id = dwarf.units.add(Unit::new(encoding, LineProgram::none()));
    let unit = dwarf.units.get_mut(id);
    let root = unit.root();
    let var = unit.add(root, gimli::DW_TAG_variable);
    unit.get_mut(var).set(gimli::DW_AT_location, AttributeValue::Exprloc(unset_branch()));
    let mut sections = Sections::new(EndianVec::new(LittleEndian));
    match dwarf.write(&mut sections) {
        Ok(()) => format!("ok {} bytes", sections.debug_info.slice().len()),
        Err(e) => format!("err {e:?}"),
    }
}

fn main() {
    std::panic::set_hook(Box::new(|info| {
        *LAST.lock().unwrap() = info.to_string().replace('\n', " ");
    }));
    let mut panicked = false;
    for (name, f) in [("cfi-expression", case_cfi as fn() -> String), ("exprloc-attribute", case_exprloc)] {
        match catch_unwind(f) {
            Ok(s) => println!("{name}: {s}"),
            Err(_) => {
                panicked = true;
                println!("{name}: PANIC {}", LAST.lock().unwrap());
            }
        }
    }
    std::process::exit(if panicked { 1 } else { 0 });
}
