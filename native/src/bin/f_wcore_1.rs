//! F-wcore-1 (C09, writer half): `Writer::write_initial_length_at(offset, length, Format::Dwarf32)` accepts a length in
//! the RESERVED range 0xffff_fff0..=0xffff_ffff (DWARF 5 section 7.4: a 32-bit initial length must be < 0xffff_fff0;
//! 0xffff_ffff is the 64-bit escape). The 4 bytes written do not read back as that length: `read_initial_length`
//! rejects them (UnknownReservedLength) or takes them for the DWARF64 escape. `write::Error::InitialLengthOverflow`
//! exists for this case but is never returned by any function.
//! FIXED in /repo 3c89b90 (this program now prints `F-wcore-1: ok`). The fix: in `write_initial_length_at`, `if format == Format::Dwarf32 && length >= 0xffff_fff0 { return
//! Err(Error::InitialLengthOverflow); }` before `write_udata_at`.
use gimli::write::{EndianVec, Writer};
use gimli::{EndianSlice, Format, LittleEndian, Reader};

fn main() {
    let mut bad = 0;
    for length in [0xffff_ffefu64, 0xffff_fff0, 0xffff_fff5, 0xffff_ffff] {
        let mut w = EndianVec::new(LittleEndian);
        let off = w.write_initial_length(Format::Dwarf32).unwrap();
        let res = w.write_initial_length_at(off, length, Format::Dwarf32);
        let mut r = EndianSlice::new(w.slice(), LittleEndian);
        let back = r.read_initial_length();
        let round_trip = matches!(back, Ok((l, Format::Dwarf32)) if l as u64 == length);
        println!("length {length:#x}: write -> {res:?}, bytes {:02x?}, read back -> {back:?}, round trip: {round_trip}", w.slice());
        if res.is_ok() && !round_trip {
            bad += 1;
        }
    }
    if bad > 0 {
        println!("F-wcore-1: WRONG RESULT: {bad} lengths were written with Ok(()) but do not read back (expected Err(InitialLengthOverflow))");
        std::process::exit(1);
    }
    println!("F-wcore-1: ok");
}
