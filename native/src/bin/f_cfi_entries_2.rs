//! Finding cfi_entries/2 (C01, C05; DESIGN F6b): `EhHdrTableIter::nth` computes `n * row_size` in u64 without a check;
//! `n` is a caller-supplied index (e.g. derived from untrusted data): `nth(usize::MAX / 4)` with 8-byte fields (row 16)
//! panics "attempt to multiply with overflow" in a debug build; a release build wraps and skips to a wrong row.
//! Minimal fix: `n.checked_mul(row_size).ok_or(Error::UnsupportedOffset)?`.
use gimli::*;
fn main() {
    // version 1, eh_frame_ptr_enc = udata4, fde_count_enc = udata4, table_enc = udata8
    let mut hdr = vec![1u8, 0x03, 0x03, 0x04];
    hdr.extend_from_slice(&[0, 0, 0, 0]); // eh_frame_ptr
    hdr.extend_from_slice(&[2, 0, 0, 0]); // fde_count = 2
    hdr.extend_from_slice(&[0u8; 32]); // two rows
    let bases = BaseAddresses::default();
    let parsed = EhFrameHdr::new(&hdr, LittleEndian).parse(&bases, 8).expect("header parses");
    let table = parsed.table().expect("table present");
    let r = std::panic::catch_unwind(|| {
        let mut it = table.iter(&bases);
        it.nth(usize::MAX / 4)
    });
    match r {
        Err(_) => { println!("f_cfi_entries_2: PANIC in EhHdrTableIter::nth (see message above)"); std::process::exit(1) }
        Ok(v) => println!("f_cfi_entries_2: no panic: {:?}", v),
    }
}
