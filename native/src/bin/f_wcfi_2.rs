//! Native reproducer for finding F-wcfi-2 (= DESIGN F8, `i32::MIN / -1`; batch wcfi, property C14):
//! STATUS: FIXED in /repo eada994 (i32::MIN / -1 => Err(InvalidFrameDataOffset)); exits 0 from that commit on.
//! `write::cfi::factored_data_offset(offset, factor)` computes `offset / factor` in i32.  With
//! `data_alignment_factor = -1` (a legal factor) and an offset of `i32::MIN` (a legal `i32` operand of
//! `CallFrameInstruction::{Offset, ValOffset, Cfa, CfaOffset}`) the quotient 2^31 does not fit: the division panics
//! "attempt to divide with overflow" (in debug AND release builds) instead of returning `InvalidFrameDataOffset`.
//!
//! Verus obligation that fails on the pinned tree (batch `wcfi`):
//!   write::cfi::factored_data_offset | precondition not satisfied | offset / factor
//!   (and, on the same path only, `factored_offset * factor` "possible arithmetic underflow/overflow": the verifier does
//!    not prune the path on which the division has already panicked)
//! Minimal fix: `offset.checked_div(factor).ok_or(Error::InvalidFrameDataOffset(offset))?` (see f_wcfi_1).
//!
//! usage: cd /verif/native && cargo run -q --bin f_wcfi_2
use gimli::write::{Address, CallFrameInstruction, CommonInformationEntry, DebugFrame, EndianVec, FrameDescriptionEntry, FrameTable};
use gimli::{Encoding, Format, LittleEndian, Register};
use std::panic::catch_unwind;
use std::sync::Mutex;

static LAST: Mutex<String> = Mutex::new(String::new());

fn run(name: &str, insn: CallFrameInstruction) -> bool {
    let r = catch_unwind(move || {
        let encoding = Encoding { format: Format::Dwarf32, version: 4, address_size: 8 };
        let mut frames = FrameTable::default();
        let cie = frames.add_cie(CommonInformationEntry::new(encoding, 1, -1, Register(16)));
        let mut fde = FrameDescriptionEntry::new(Address::Constant(0x1000), 0x100);
        fde.add_instruction(0, insn);
        frames.add_fde(cie, fde);
        let mut w = DebugFrame::from(EndianVec::new(LittleEndian));
        frames.write_debug_frame(&mut w)
    });
    match r {
        Ok(res) => {
            println!("{name}: ok {:?}", res.map(|_| ()));
            false
        }
        Err(_) => {
            println!("{name}: PANIC {}", LAST.lock().unwrap());
            true
        }
    }
}

fn main() {
    std::panic::set_hook(Box::new(|i| {
        *LAST.lock().unwrap() = format!("{}", i).replace('\n', " ");
    }));
    let mut bad = false;
    bad |= run("F8_offset_min_div_minus1", CallFrameInstruction::Offset(Register(6), i32::MIN));
    bad |= run("F8_cfa_offset_min_div_minus1", CallFrameInstruction::CfaOffset(i32::MIN));
    bad |= run("control_offset_min_plus1", CallFrameInstruction::Offset(Register(6), i32::MIN + 1));
    std::process::exit(if bad { 1 } else { 0 });
}
