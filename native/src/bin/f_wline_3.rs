//! F-wline-3 (C13, C12): huge operation advances overflow the u64 arithmetic of the opcode selection:
//! `special + op_advance * line_range` in `generate_row` and `address_advance * maximum_operations_per_instruction`
//! in `op_advance`.  Debug build: panic ("attempt to multiply with overflow").  Release build (wrapping): the product
//! can wrap to a small value, e.g. line_range = 16, address advance 2^60: `op_advance * line_range` == 2^64 == 0, the
//! test `special + 0 <= 255` succeeds and the row is emitted with NO address advance (silent wrong row).
//! Reachable through the public API (`row().address_offset = 1 << 60`) and, for 64-bit targets, from an input program
//! through conversion (`advance_pc 2^61`).
//! Verifier: with WLINE_FINDINGS=1 the two overflow obligations of `op_advance` (and of generate_row with
//! WLINE_GENERATE_ROW=1) are reported; the default build states [C13:pre-advance-small] (operation advance < 2^56).
//! Minimal fix: `op_advance.checked_mul(line_range).and_then(|x| x.checked_add(special))` (fall back to DW_LNS_advance_pc
//! on None), `checked_mul` in `op_advance`.
use gimli::write::{Address, DebugLine, EndianVec, LineProgram, LineString, LineStringTable, StringTable};
use gimli::{Encoding, Format, LineEncoding, LittleEndian};
use std::panic::{catch_unwind, AssertUnwindSafe};

fn rows(sec: &[u8]) -> Vec<(u64, u64, bool)> {
    let dl = gimli::read::DebugLine::new(sec, LittleEndian);
    let p = dl.program(gimli::DebugLineOffset(0), 8, None, None).unwrap();
    let mut rows = p.rows();
    let mut out = vec![];
    while let Some((_, r)) = rows.next_row().unwrap() {
        out.push((r.address(), r.line().map(|l| l.get()).unwrap_or(0), r.end_sequence()));
    }
    out
}

fn main() {
    std::panic::set_hook(Box::new(|i| println!("  panic: {i}")));
    let encoding = Encoding { format: Format::Dwarf32, version: 4, address_size: 8 };
    let mut bad = 0;
    for (line_range, max_ops, offset) in [(16u8, 1u8, 1u64 << 60), (14, 1, 1 << 61), (14, 4, 1 << 62)] {
        let le = LineEncoding { minimum_instruction_length: 1, maximum_operations_per_instruction: max_ops, default_is_stmt: true, line_base: -5, line_range };
        let r = catch_unwind(AssertUnwindSafe(|| {
            let mut p = LineProgram::new(encoding, le, LineString::String(b"dir".to_vec()), None, LineString::String(b"file".to_vec()), None);
            let dir = p.default_directory();
            let f = p.add_file(LineString::String(b"a.c".to_vec()), dir, None);
            p.begin_sequence(Some(Address::Constant(0)));
            p.row().file = f;
            p.generate_row();
            p.row().address_offset = offset;
            p.generate_row();
            p.end_sequence(offset);
            let mut out = DebugLine::from(EndianVec::new(LittleEndian));
            p.write(&mut out, encoding, &mut LineStringTable::default(), &mut StringTable::default()).unwrap();
            rows(out.slice())
        }));
        match r {
            Ok(rs) => {
                let ok = rs.len() == 3 && rs[1].0 == offset;
                println!("line_range {line_range}, max_ops {max_ops}, second row at offset {offset:#x}: rows read back {rs:x?} -> {}", if ok { "same" } else { "DIFFERENT" });
                if !ok { bad += 1; }
            }
            Err(_) => { println!("line_range {line_range}, max_ops {max_ops}, second row at offset {offset:#x}: PANIC"); bad += 1; }
        }
    }
    if bad > 0 {
        println!("F-wline-3: {bad} cases panic (debug) or drop the address advance (release)");
        std::process::exit(1);
    }
    println!("F-wline-3: ok");
}
