//! Finding cfi_entries/1 (C01, C05; DESIGN F6a): `EhHdrTable::lookup` computes `(len / 2) * row_size` in u64 without a
//! check.  `fde_count` is read from the untrusted `.eh_frame_hdr` (here as uleb128 2^63), so the product overflows:
//! debug build panics "attempt to multiply with overflow"; a release build wraps to 0 and the search silently degenerates.
//! Minimal fix: `let off = (len / 2).checked_mul(row_size).ok_or(Error::UnexpectedEof(..))?` (or `Error::UnsupportedOffset`).
use gimli::*;
fn main() {
    // version 1, eh_frame_ptr_enc = udata4, fde_count_enc = uleb128, table_enc = udata4
    let mut hdr = vec![1u8, 0x03, 0x01, 0x03];
    hdr.extend_from_slice(&[0, 0, 0, 0]); // eh_frame_ptr
    hdr.extend_from_slice(&[0x80, 0x80, 0x80, 0x80, 0x80, 0x80, 0x80, 0x80, 0x80, 0x01]); // fde_count = 2^63
    hdr.extend_from_slice(&[0u8; 64]); // a few table rows
    let bases = BaseAddresses::default();
    let parsed = EhFrameHdr::new(&hdr, LittleEndian).parse(&bases, 8).expect("header parses");
    let table = parsed.table().expect("table present");
    let r = std::panic::catch_unwind(|| table.lookup(0x1000, &bases));
    match r {
        Err(_) => { println!("f_cfi_entries_1: PANIC in EhHdrTable::lookup (see message above)"); std::process::exit(1) }
        Ok(v) => println!("f_cfi_entries_1: no panic: {:?}", v),
    }
}
