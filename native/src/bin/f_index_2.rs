//! Native reproducer for finding F-index-2 of vx/batches/index.py (clause `[C01:iter-err-empties]` of
//! STATUS: open (known finding): unit tests test_parse_entry_overflow_32/64 pin the undocumented behaviour.
//!
//! `read::aranges::ArangeEntryIter::next`).
//!
//! C01: "iterators documented as stopping after an error yield nothing further".  `ArangeEntryIter::next` is documented:
//! "If an error occurs while parsing the next arange, then this error is returned as `Err(e)`, and all subsequent calls
//! return `Ok(None)`."  The error of `convert_raw` (`begin + length` does not fit the address size, `add_sized`) leaves
//! through `self.convert_raw(raw_entry)?` without `self.input.empty()`, so the calls after the `Err` keep yielding the
//! remaining tuples.  (Termination is not affected: the failing tuple has been consumed.)
//!
//! Minimal fix:   let entry = match self.convert_raw(raw_entry) { Ok(e) => e, Err(e) => { self.input.empty(); return Err(e); } };
//!
//! usage: f_index_2     prints the sequence of results; exit status 1 if something is yielded after the Err
use gimli::{DebugAranges, LittleEndian};

fn main() {
    let mut sec = vec![];
    let tuples: [(u32, u32); 3] = [(0x1000, 0x10), (0xffff_ff00, 0x200), (0x2000, 0x20)];
    let len = (2 + 4 + 1 + 1 + 4 + 8 * tuples.len() + 8) as u32;
    sec.extend_from_slice(&len.to_le_bytes());
    sec.extend_from_slice(&2u16.to_le_bytes());
    sec.extend_from_slice(&0u32.to_le_bytes());
    sec.push(4);
    sec.push(0);
    sec.extend_from_slice(&[0; 4]);
    for (b, l) in tuples {
        sec.extend_from_slice(&b.to_le_bytes());
        sec.extend_from_slice(&l.to_le_bytes());
    }
    sec.extend_from_slice(&[0; 8]);
    let ar = DebugAranges::new(&sec, LittleEndian);
    let h = ar.headers().next().unwrap().unwrap();
    let mut es = h.entries();
    let mut seen_err = false;
    let mut after_err = 0;
    for i in 0..6 {
        let r = es.next();
        println!("next #{i}: {r:?}");
        match r {
            Err(_) => seen_err = true,
            Ok(Some(_)) if seen_err => after_err += 1,
            _ => {}
        }
    }
    if after_err > 0 {
        println!("arange_next_after_error: WRONG {after_err} entries yielded after the Err (documented: all subsequent calls return Ok(None))");
        std::process::exit(1);
    }
    println!("arange_next_after_error: ok");
}
