//! Native reproducer for finding F-reloc-1 (observation O5 of K-RELOCPARSE, property C18; strict Kani harness
//! `k_relocparse_f_fde_cie_pointer`, kani/src/relocparse.rs).
//!
//! C18: "Reading a section through the relocating reader with any relocation set gives the same results as reading a
//! copy of the section in which those relocations have already been applied ... Every address and cross-section offset
//! ... passes through the relocatable primitives."
//!
//! The `CIE_pointer` of a `.debug_frame` FDE is "a constant offset into the .debug_frame section" (DWARF 5, 6.4.1).
//! The WRITER treats it as a section offset: `write::FrameDescriptionEntry::write` emits it with
//! `w.write_offset(cie_offset, SectionId::DebugFrame, format.word_size())` (write/cfi.rs), so a relocation-recording
//! writer (`write::RelocateWriter`) writes 0 into the field and records `Relocation { target: Section(DebugFrame),
//! addend: cie_offset }` — what an assembler does for a relocatable object (RELA: addend in the relocation, field 0).
//! The READER reads the field in `read::cfi::parse_cfi_entry_prefix` with plain `read_u32()` / `read_u64()`, which
//! `RelocateReader` does not intercept: the relocation is never applied.  Every FDE then points to offset 0, i.e. to
//! the FIRST CIE of the section.  With more than one CIE (different return address registers, augmentations, initial
//! instructions, ...) the FDEs of the later CIEs are silently unwound with the wrong CIE.
//!
//! This program writes a frame table with two CIEs (return address registers 16 and 17, one FDE each)
//! with a recording `RelocateWriter` (bytes with zeroed fields + relocations) and reads it
//!   (a) with the bare `EndianSlice` from a copy of the bytes in which the recorded relocations have been applied (what
//!       a linker produces) -> reference;
//!   (b) through `RelocateReader` over the zeroed bytes with the recorded relocations (offset-keyed, value + addend);
//! and prints, for every FDE, the CIE offset and the CIE's return address register seen by both readers.  The initial
//! location (written with `write_address`, read with `read_address`) is shown as the control: it IS relocated.
//!
//! Minimal fix: in `parse_cfi_entry_prefix` read the field with the relocatable primitive,
//!   CieOffsetEncoding::U32 => rest.read_sized_offset(4).map(|o| o.into_u64())?,
//!   CieOffsetEncoding::U64 => rest.read_sized_offset(8).map(|o| o.into_u64())?,
//! (no relocation exists at a CIE id or at an `.eh_frame` CIE pointer, so an offset-keyed `Relocate` leaves them alone);
//! the strict Kani harness passes with it.
//!
//! usage: cd /verif/native && cargo run -q --bin f_reloc_1      exit status 1 if the two reads differ
use gimli::write::{
    Address, CommonInformationEntry, DebugFrame, EndianVec, FrameDescriptionEntry, FrameTable, RelocateWriter, Relocation,
    RelocationTarget,
};
use gimli::{
    BaseAddresses, CieOrFde, Encoding, EndianSlice, Format, LittleEndian, Reader, Register, Relocate,
    RelocateReader, UnwindSection,
};

/// a section writer that records relocations (same as the one in gimli's own test of `RelocateWriter`)
struct Section {
    writer: EndianVec<LittleEndian>,
    relocations: Vec<Relocation>,
}
impl RelocateWriter for Section {
    type Writer = EndianVec<LittleEndian>;
    fn writer(&self) -> &Self::Writer {
        &self.writer
    }
    fn writer_mut(&mut self) -> &mut Self::Writer {
        &mut self.writer
    }
    fn relocate(&mut self, relocation: Relocation) {
        self.relocations.push(relocation);
    }
}

/// applies the recorded relocations: field value + addend (+ the base of the target: sections at 0, the only symbol
/// at SYMBOL_BASE)
const SYMBOL_BASE: u64 = 0x40_0000;
#[derive(Debug, Clone, Copy)]
struct Apply<'a>(&'a [Relocation]);
impl<'a> Apply<'a> {
    fn at(&self, offset: usize) -> Option<u64> {
        self.0.iter().find(|r| r.offset == offset).map(|r| match r.target {
            RelocationTarget::Symbol(_) => SYMBOL_BASE.wrapping_add(r.addend as u64),
            RelocationTarget::Section(_) => r.addend as u64,
        })
    }
}
impl<'a> Relocate<usize> for Apply<'a> {
    fn relocate_address(&self, offset: usize, value: u64) -> gimli::Result<u64> {
        Ok(value.wrapping_add(self.at(offset).unwrap_or(0)))
    }
    fn relocate_offset(&self, offset: usize, value: usize) -> gimli::Result<usize> {
        Ok(value.wrapping_add(self.at(offset).unwrap_or(0) as usize))
    }
}

fn table() -> FrameTable {
    let encoding = Encoding { format: Format::Dwarf32, version: 4, address_size: 8 };
    let mut frames = FrameTable::default();
    let cie1 = frames.add_cie(CommonInformationEntry::new(encoding, 1, -8, Register(16)));
    let cie2 = frames.add_cie(CommonInformationEntry::new(encoding, 1, -8, Register(17)));
    frames.add_fde(cie1, FrameDescriptionEntry::new(Address::Symbol { symbol: 0, addend: 0x1000 }, 0x40));
    frames.add_fde(cie2, FrameDescriptionEntry::new(Address::Symbol { symbol: 0, addend: 0x2000 }, 0x80));
    frames
}

/// (offset of the FDE, CIE offset, return address register of that CIE, initial location) of every FDE
fn fdes<R: Reader<Offset = usize>>(frame: gimli::DebugFrame<R>) -> Vec<(usize, usize, u16, u64)> {
    let bases = BaseAddresses::default();
    let mut out = Vec::new();
    let mut entries = frame.entries(&bases);
    while let Some(entry) = entries.next().expect("entries") {
        if let CieOrFde::Fde(partial) = entry {
            let fde = partial.parse(|s, b, o| s.cie_from_offset(b, o)).expect("fde");
            out.push((partial.offset(), partial.cie_offset().0, fde.cie().return_address_register().0, fde.initial_address()));
        }
    }
    out
}

fn main() {
    let frames = table();

    // write once with the recording writer; the reference is "recorded relocations applied to the bytes"
    let mut rec = DebugFrame::from(Section { writer: EndianVec::new(LittleEndian), relocations: Vec::new() });
    frames.write_debug_frame(&mut rec).expect("write");
    let Section { writer, relocations } = rec.0;
    let zeroed = writer.into_vec();
    let mut applied = zeroed.clone();
    let apply = Apply(&relocations);
    for r in &relocations {
        let v = apply.at(r.offset).unwrap();
        applied[r.offset..r.offset + r.size as usize].copy_from_slice(&v.to_le_bytes()[..r.size as usize]);
    }
    println!("recorded relocations:");
    for r in &relocations {
        println!("  offset {:#04x} size {} target {:?} addend {:#x}", r.offset, r.size, r.target, r.addend);
    }

    let reference = fdes(gimli::DebugFrame::from(EndianSlice::new(&applied, LittleEndian)));
    let relocating = fdes(gimli::DebugFrame::from(RelocateReader::new(EndianSlice::new(&zeroed, LittleEndian), apply)));

    let mut bad = false;
    println!("FDE @offset: (CIE offset, CIE return address register, initial location)");
    for (a, b) in reference.iter().zip(relocating.iter()) {
        let same = a == b;
        bad |= !same;
        println!(
            "  FDE @{:#04x}: relocations pre-applied + bare reader ({:#04x}, r{}, {:#x}) | RelocateReader ({:#04x}, r{}, {:#x})  {}",
            a.0,
            a.1,
            a.2,
            a.3,
            b.1,
            b.2,
            b.3,
            if same { "ok" } else { "DIFFERENT: CIE_pointer relocation not applied by the reader" }
        );
    }
    bad |= reference.len() != relocating.len();
    std::process::exit(if bad { 1 } else { 0 });
}
