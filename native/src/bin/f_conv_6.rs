//! Finding conv/6 (C01 "read-to-write conversion entry points never panic on any section bytes"; C12): a `DW_LNE_define_file`
//! with an EMPTY path name in a DWARF <= 4 line program.  `read::FileEntry::parse` accepts the empty null-terminated name
//! (it is only the header's file_names LIST that an empty name terminates); `write::ConvertLineProgram::read_row` hands the
//! converted name to `write::LineProgram::add_file`, whose documented precondition ("Panics if 'file' is empty or contains a
//! null byte") is an `assert!`.  Section bytes therefore reach a panic through `ConvertLineProgram::convert` / `Dwarf::from`.
//! Reported by batch conv_line: the precondition `[C01:add-file-name-nonempty]` of `add_file` cannot be established at its
//! call in `read_row`.
use gimli::*;
fn main() {
    // v4 program: DW_LNE_define_file "" dir 0 mtime 0 size 0; set_address 0x1000; copy; advance_pc 4; end_sequence
    let mut prog = vec![];
    prog.extend_from_slice(&[0, 5, 3, 0, 0, 0, 0]);
    prog.push(0); prog.push(9); prog.push(2); prog.extend_from_slice(&0x1000u64.to_le_bytes());
    prog.push(1);
    prog.push(2); prog.push(4);
    prog.extend_from_slice(&[0, 1, 1]);
    let mut hdr_rest = vec![1u8, 1, 1, 0xfb, 14, 13];
    hdr_rest.extend_from_slice(&[0, 1, 1, 1, 1, 0, 0, 0, 1, 0, 0, 1]);
    hdr_rest.extend_from_slice(b"dir\0"); hdr_rest.push(0);
    hdr_rest.extend_from_slice(b"a.c\0"); hdr_rest.extend_from_slice(&[1, 0, 0]); hdr_rest.push(0);
    let mut body = vec![]; body.extend_from_slice(&4u16.to_le_bytes()); body.extend_from_slice(&(hdr_rest.len() as u32).to_le_bytes()); body.extend_from_slice(&hdr_rest); body.extend_from_slice(&prog);
    let mut sec = vec![]; sec.extend_from_slice(&(body.len() as u32).to_le_bytes()); sec.extend_from_slice(&body);

    // the reader accepts the program
    let dl = DebugLine::new(&sec, LittleEndian);
    let p = dl.program(DebugLineOffset(0), 8, None, None).unwrap();
    let mut rows = p.rows();
    let mut n = 0;
    while let Some(_) = rows.next_row().unwrap() { n += 1; }
    println!("f_conv_6: the reader yields {n} rows without error");

    let load = |id: SectionId| -> core::result::Result<EndianSlice<'_, LittleEndian>, gimli::Error> {
        Ok(EndianSlice::new(match id { SectionId::DebugLine => &sec[..], _ => &[] }, LittleEndian))
    };
    let rd = Dwarf::load(load).unwrap();
    let program = rd.debug_line.program(DebugLineOffset(0), 8, None, None).unwrap();
    let r = std::panic::catch_unwind(|| {
        let mut wd = gimli::write::Dwarf::new();
        let conv = wd.read_line_program(&rd, program, None, None).unwrap();
        conv.convert(&|a| Some(gimli::write::Address::Constant(a))).map(|_| ())
    });
    match r {
        Err(_) => { println!("f_conv_6: DEFECT: converting section bytes panicked (assert in write::LineProgram::add_file)"); std::process::exit(1) }
        Ok(x) => println!("f_conv_6: conversion returned {:?}", x.is_ok()),
    }
}
