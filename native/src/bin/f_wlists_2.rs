//! Native reproducer for finding F-wlists-2 of vx/batches/wlists.py: the arithmetic-overflow obligations on `begin + length`
//! and `addend + length as i64`, and clause `[C16:start-length-end]`, in `RangeListTable::write_ranges` and
//! `LocationListTable::write_loc` (DESIGN.md C16 "begin + length overflow obligation (finding candidate)").
//!
//! For DWARF 2-4 a `StartLength { begin, length }` entry is written as the address pair (begin, begin + length).
//! The end is computed with unchecked arithmetic BEFORE any validity check:
//!   Address::Constant(begin) => Address::Constant(begin + length)
//!   Address::Symbol { symbol, addend } => Address::Symbol { symbol, addend: addend + length as i64 }
//!   a) Constant(0xffff_ffff_ffff_fff0) + 0x20: debug build panics "attempt to add with overflow"; a release build wraps
//!      to the end 0x10 and writes the backwards pair (0xffff_ffff_ffff_fff0, 0x10) with Ok(())
//!   b) Symbol { addend: i64::MAX } + 1: the same with the addend
//!   c) Symbol { addend: 0x10 } with length 2^63: `length as i64` is i64::MIN, no panic: the end is written as
//!      symbol + (0x10 - 2^63), i.e. BELOW the start - silently wrong output
//! A writer must answer with an error (the property: "error, not panic"; the v5 writer stores the length itself and has
//! no such problem). Minimal fix: `begin.checked_add(length)` / `i64::try_from(length).ok().and_then(|l| addend.checked_add(l))`
//! with `.ok_or(Error::InvalidRange)?` (or a dedicated error) in the four places (2 in range.rs, 2 in loc.rs).
//!
//! usage: f_wlists_2     one line per case; exit status 1 if any case panics or produces a wrong end
use gimli::write::{self, Address, AttributeValue, EndianVec, LineProgram, Range, RangeList, Sections, Unit, Writer};
use gimli::{Encoding, Format, LittleEndian};
use std::panic::catch_unwind;
use std::sync::Mutex;

static LAST: Mutex<String> = Mutex::new(String::new());

/// a writer that accepts symbolic addresses: it records (offset, symbol, addend) and writes a zero placeholder
#[derive(Clone)]
struct SymWriter {
    vec: EndianVec<LittleEndian>,
    relocs: Vec<(usize, usize, i64)>,
}

impl Writer for SymWriter {
    type Endian = LittleEndian;
    fn endian(&self) -> LittleEndian {
        LittleEndian
    }
    fn len(&self) -> usize {
        self.vec.len()
    }
    fn write(&mut self, bytes: &[u8]) -> write::Result<()> {
        self.vec.write(bytes)
    }
    fn write_at(&mut self, offset: usize, bytes: &[u8]) -> write::Result<()> {
        self.vec.write_at(offset, bytes)
    }
    fn write_address(&mut self, address: Address, size: u8) -> write::Result<()> {
        match address {
            Address::Constant(v) => self.write_udata(v, size),
            Address::Symbol { symbol, addend } => {
                self.relocs.push((self.vec.len(), symbol, addend));
                self.write_udata(0, size)
            }
        }
    }
}

const ENC: Encoding = Encoding { format: Format::Dwarf32, version: 4, address_size: 8 };

/// write one unit with the single range list `[StartLength{begin, length}]`; returns the (begin, end) pair that was written:
/// constants as they are, symbolic words as their addends
fn written_pair(begin: Address, length: u64) -> Result<(i128, i128), String> {
    let mut dwarf = write::Dwarf::new();
    let uid = dwarf.units.add(Unit::new(ENC, LineProgram::none()));
    let unit = dwarf.units.get_mut(uid);
    let id = unit.ranges.add(RangeList(vec![Range::StartLength { begin, length }]));
    let root = unit.root();
    unit.get_mut(root).set(gimli::DW_AT_ranges, AttributeValue::RangeListRef(id));
    let mut sections = Sections::new(SymWriter { vec: EndianVec::new(LittleEndian), relocs: vec![] });
    dwarf.write(&mut sections).map_err(|e| format!("Err({e:?})"))?;
    let w = &sections.debug_ranges.0;
    let bytes = w.vec.slice();
    let word = |i: usize| -> i128 {
        match w.relocs.iter().find(|r| r.0 == i * 8) {
            Some(r) => r.2 as i128,
            None => u64::from_le_bytes(bytes[i * 8..i * 8 + 8].try_into().unwrap()) as i128,
        }
    };
    Ok((word(0), word(1)))
}

fn main() {
    std::panic::set_hook(Box::new(|i| {
        *LAST.lock().unwrap() = format!("{}", i).replace('\n', " ");
    }));
    let mut bad = 0;
    let cases: [(&str, Address, u64); 4] = [
        ("control Constant(0x1000) + 0x20", Address::Constant(0x1000), 0x20),
        ("a) Constant(0xffff_ffff_ffff_fff0) + 0x20", Address::Constant(0xffff_ffff_ffff_fff0), 0x20),
        ("b) Symbol{addend: i64::MAX} + 1", Address::Symbol { symbol: 1, addend: i64::MAX }, 1),
        ("c) Symbol{addend: 0x10} + 2^63", Address::Symbol { symbol: 1, addend: 0x10 }, 1 << 63),
    ];
    for (name, begin, length) in cases {
        let b = match begin {
            Address::Constant(v) => v as i128,
            Address::Symbol { addend, .. } => addend as i128,
        };
        let want_end = b + length as i128;
        match catch_unwind(move || written_pair(begin, length)) {
            Err(_) => {
                println!("{name}: PANIC {}", LAST.lock().unwrap());
                bad += 1;
            }
            Ok(Err(e)) => println!("{name}: rejected with {e} (fine)"),
            Ok(Ok((wb, we))) => {
                let ok = wb == b && we == want_end;
                let h = |v: i128| if v < 0 { format!("-{:#x}", -v) } else { format!("{v:#x}") };
                println!("{name}: written pair ({}, {}), the entry means ({}, {}): {}", h(wb), h(we), h(b), h(want_end), if ok { "ok" } else { "WRONG RESULT" });
                if !ok {
                    bad += 1;
                }
            }
        }
    }
    if bad > 0 {
        println!("F-wlists-2: {bad} cases panic or write a wrong end address (expected an error)");
        std::process::exit(1);
    }
    println!("F-wlists-2: ok");
}
