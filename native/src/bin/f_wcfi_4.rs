//! Native reproducer for finding F-wcfi-4 (batch wcfi, property C14 "entries are padded to the address size"):
//! STATUS: FIXED in /repo a12b998 (initial_length_size() in both write_nop calls); exits 0 from that commit on.
//! DWARF 5 section 6.4.1 (CIE field 1 and FDE field 1): "The size of the length field plus the value of length must be an
//! integral multiple of the address size."  `CommonInformationEntry::write` / `FrameDescriptionEntry::write` pad with
//!     write_nop(w, encoding.format.word_size() as usize + w.len() - length_base, encoding.address_size)
//! i.e. they count the OFFSET size (8 in the 64-bit format) where the size of the initial length field (12: 0xffff_ffff
//! escape + 8-byte length) is meant.  For Format::Dwarf64 with 8-byte addresses every CIE and FDE is therefore 4 bytes
//! off: (12 + length) % 8 == 4.  32-bit format (.eh_frame always) and 4-byte addresses are unaffected.
//! gimli's own reader does not depend on the alignment, so the table still reads back; consumers that step through
//! `.debug_frame` assuming aligned entries do not.
//!
//! Verus obligations that fail on the pinned tree (batch `wcfi`):
//!   write::cfi::CommonInformationEntry::write | postcondition not satisfied | [C14:cie-pad]
//!   write::cfi::FrameDescriptionEntry::write  | postcondition not satisfied | [C14:fde-pad]
//! Minimal fix: `encoding.format.initial_length_size() as usize + w.len() - length_base` in both calls
//! (`Format::initial_length_size` exists: 4 / 12).  With it both clauses verify.
//!
//! usage: cd /verif/native && cargo run -q --bin f_wcfi_4
use gimli::write::{Address, CallFrameInstruction, CommonInformationEntry, DebugFrame, EndianVec, FrameDescriptionEntry, FrameTable};
use gimli::{Encoding, Format, LittleEndian, Register};

/// entry sizes (initial length field + length) of every entry in a written .debug_frame
fn entry_sizes(format: Format, address_size: u8) -> Vec<u64> {
    let encoding = Encoding { format, version: 4, address_size };
    let mut frames = FrameTable::default();
    let mut cie = CommonInformationEntry::new(encoding, 1, -8, Register(16));
    cie.add_instruction(CallFrameInstruction::Cfa(Register(7), 8));
    let cie = frames.add_cie(cie);
    let mut fde = FrameDescriptionEntry::new(Address::Constant(0x1000), 0x100);
    fde.add_instruction(1, CallFrameInstruction::CfaOffset(16));
    frames.add_fde(cie, fde);
    let mut w = DebugFrame::from(EndianVec::new(LittleEndian));
    frames.write_debug_frame(&mut w).unwrap();
    let bytes = w.0.slice();
    let mut sizes = vec![];
    let mut pos = 0usize;
    while pos < bytes.len() {
        let w32 = u32::from_le_bytes(bytes[pos..pos + 4].try_into().unwrap());
        let (field, length) = if w32 == 0xffff_ffff {
            (12u64, u64::from_le_bytes(bytes[pos + 4..pos + 12].try_into().unwrap()))
        } else {
            (4u64, w32 as u64)
        };
        sizes.push(field + length);
        pos += (field + length) as usize;
    }
    assert_eq!(pos, bytes.len());
    sizes
}

fn main() {
    let mut bad = false;
    for (name, format, address_size) in [
        ("F_wcfi_4_dwarf64_addr8", Format::Dwarf64, 8u8),
        ("control_dwarf32_addr8", Format::Dwarf32, 8),
        ("control_dwarf64_addr4", Format::Dwarf64, 4),
    ] {
        let sizes = entry_sizes(format, address_size);
        let off: Vec<u64> = sizes.iter().map(|s| s % address_size as u64).collect();
        if off.iter().any(|&r| r != 0) {
            println!("{name}: WRONG entry sizes {sizes:?} are not multiples of the address size {address_size} (remainders {off:?})");
            bad = true;
        } else {
            println!("{name}: ok entry sizes {sizes:?}");
        }
    }
    std::process::exit(if bad { 1 } else { 0 });
}
