//! Finding conv/1 (C12; DESIGN F7): `write::CommonInformationEntry::from` (write/cfi.rs, mod convert) narrows the CIE's
//! alignment factors with `from_cie.code_alignment_factor() as u8` / `from_cie.data_alignment_factor() as i8`.
//! The reader accepts any uleb128/sleb128 factor, so a CIE with code_alignment_factor 257 converts to one with factor 1
//! and data_alignment_factor 264 converts to 8: `FrameTable::from` returns Ok, the written section is well-formed, and the
//! CIE read back from it has different factors (silent truncation).  With a factor that is a multiple of 256 the
//! truncated factor is 0 and `FrameTable::write_debug_frame` later panics with "attempt to divide by zero" (DESIGN F8).
//! Verus obligations: write::cfi::convert::CommonInformationEntry::from [C12:cie-code-alignment], [C12:cie-data-alignment].
//! Possible repairs (API decision): return the existing `ConvertError::...`/a new error when the factor does not fit
//! (`u8::try_from(..)`), or widen the write-side fields to u64/i64.
use gimli::{write, BaseAddresses, DebugFrame, LittleEndian, UnwindSection};

fn uleb(mut v: u64, out: &mut Vec<u8>) { loop { let b = (v & 0x7f) as u8; v >>= 7; if v == 0 { out.push(b); break } out.push(b | 0x80) } }
fn sleb(mut v: i64, out: &mut Vec<u8>) { loop { let b = (v & 0x7f) as u8; v >>= 7; let done = (v == 0 && b & 0x40 == 0) || (v == -1 && b & 0x40 != 0); if done { out.push(b); break } out.push(b | 0x80) } }

fn section(caf: u64, daf: i64, fde_insns: &[u8]) -> Vec<u8> {
    let mut cie = vec![]; cie.extend_from_slice(&0xffff_ffffu32.to_le_bytes()); cie.push(1); cie.push(0);
    uleb(caf, &mut cie); sleb(daf, &mut cie); cie.push(16 /* return address register */);
    while (cie.len() + 4) % 8 != 0 { cie.push(0) }
    let mut sec = vec![]; sec.extend_from_slice(&(cie.len() as u32).to_le_bytes()); sec.extend_from_slice(&cie);
    let mut fde = vec![]; fde.extend_from_slice(&0u32.to_le_bytes()); fde.extend_from_slice(&0x1000u64.to_le_bytes()); fde.extend_from_slice(&0x100u64.to_le_bytes());
    fde.extend_from_slice(fde_insns);
    while (fde.len() + 4) % 8 != 0 { fde.push(0) }
    sec.extend_from_slice(&(fde.len() as u32).to_le_bytes()); sec.extend_from_slice(&fde);
    sec
}

fn factors(sec: &[u8]) -> (u64, i64) {
    let mut df = DebugFrame::new(sec, LittleEndian); df.set_address_size(8);
    let bases = BaseAddresses::default();
    let mut it = df.entries(&bases);
    while let Some(e) = it.next().unwrap() {
        if let gimli::CieOrFde::Cie(c) = e { return (c.code_alignment_factor(), c.data_alignment_factor()) }
    }
    unreachable!()
}

fn main() {
    let mut bad = false;
    // (a) silent alteration: 257 -> 1, 264 -> 8
    let sec = section(257, 264, &[]);
    let mut df = DebugFrame::new(&sec, LittleEndian); df.set_address_size(8);
    let table = write::FrameTable::from(&df, &|a| Some(write::Address::Constant(a)));
    println!("f_conv_1(a): input CIE factors {:?}; FrameTable::from -> {}", factors(&sec), if table.is_ok() { "Ok" } else { "Err" });
    if let Ok(table) = table {
        let mut out = write::DebugFrame::from(write::EndianVec::new(LittleEndian));
        table.write_debug_frame(&mut out).expect("write");
        let f = factors(out.0.slice());
        println!("f_conv_1(a): converted+written CIE factors {:?}", f);
        if f != (257, 264) { println!("f_conv_1(a): DEFECT: alignment factors silently truncated"); bad = true }
    }
    // (b) factor 256 -> 0, then the writer divides by it
    let sec = section(256, -8, &[0x41 /* advance_loc 1 */, 0x0e, 0x10 /* def_cfa_offset 16 */]);
    let mut df = DebugFrame::new(&sec, LittleEndian); df.set_address_size(8);
    let table = write::FrameTable::from(&df, &|a| Some(write::Address::Constant(a)));
    println!("f_conv_1(b): caf 256: FrameTable::from -> {}", if table.is_ok() { "Ok" } else { "Err" });
    if let Ok(table) = table {
        let r = std::panic::catch_unwind(move || {
            let mut out = write::DebugFrame::from(write::EndianVec::new(LittleEndian));
            table.write_debug_frame(&mut out).map(|_| ())
        });
        match r { Err(_) => { println!("f_conv_1(b): DEFECT: PANIC while writing the converted table (truncated factor 0)"); bad = true } Ok(r) => println!("f_conv_1(b): write -> {:?}", r) }
    }
    std::process::exit(if bad { 1 } else { 0 })
}
