//! Native reproducer for finding F3 / F-line-1 of vx/batches/line.py (built-in overflow obligation of
//! `LineRow::apply_line_advance`, owners C01/C04).
//!
//! `apply_line_advance(line_increment: i64)` computes `-line_increment as u64` for a negative increment.  For
//! `DW_LNS_advance_line` with the operand i64::MIN (SLEB128 `80 80 80 80 80 80 80 80 80 7f`) the negation overflows:
//! debug build: panic "attempt to negate with overflow" (C01: untrusted DWARF never panics); release build: the wrapped
//! value happens to be right (2^63 as u64).
//!
//! Minimal fix:  `let decrement = line_increment.unsigned_abs();`
//!
//! usage: f_line_1     prints `<case>: PANIC <message>` or `<case>: ok <detail>`; exit status 1 if the case panicked
use gimli::{DebugLine, DebugLineOffset, LittleEndian};
use std::panic::catch_unwind;
use std::sync::Mutex;

static LAST: Mutex<String> = Mutex::new(String::new());

/// a version-4 line program: header (min_inst_len, max_ops, line_base -1, line_range 4, opcode_base 13) + `program`
fn section(min_inst_len: u8, max_ops: u8, program: &[u8]) -> Vec<u8> {
    let mut hdr_rest = vec![min_inst_len, max_ops, 1, 0xff, 4, 13];
    hdr_rest.extend_from_slice(&[0, 1, 1, 1, 1, 0, 0, 0, 1, 0, 0, 1]); // standard_opcode_lengths
    hdr_rest.push(0); // include_directories
    hdr_rest.push(0); // file_names
    let mut body = vec![4u8, 0]; // version
    body.extend_from_slice(&(hdr_rest.len() as u32).to_le_bytes());
    body.extend_from_slice(&hdr_rest);
    body.extend_from_slice(program);
    let mut out = (body.len() as u32).to_le_bytes().to_vec();
    out.extend_from_slice(&body);
    out
}

fn main() {
    std::panic::set_hook(Box::new(|info| {
        *LAST.lock().unwrap() = info.to_string().replace('\n', " ");
    }));
    // DW_LNS_advance_line(i64::MIN); DW_LNS_copy
    let program = [0x03, 0x80, 0x80, 0x80, 0x80, 0x80, 0x80, 0x80, 0x80, 0x80, 0x7f, 0x01];
    let sec = section(1, 1, &program);
    let r = catch_unwind(move || {
        let dl = DebugLine::new(&sec, LittleEndian);
        let prog = dl.program(DebugLineOffset(0), 8, None, None).expect("header");
        let mut rows = prog.rows();
        match rows.next_row() {
            Ok(Some((_, row))) => format!("row line={:?} (standard + gimli's saturation: line 0 = None)", row.line()),
            Ok(None) => "no row".to_string(),
            Err(e) => format!("Err({e:?})"),
        }
    });
    match r {
        Ok(s) => println!("advance_line_i64_min: ok {s}"),
        Err(_) => {
            println!("advance_line_i64_min: PANIC {}", LAST.lock().unwrap());
            std::process::exit(1);
        }
    }
}
