//! Native reproducer for finding F-units-1 (batch units, property C01; anchor C02 "offset bookkeeping"):
//! `read::EntriesRaw::new(input, encoding, abbreviations, offset)` is a public constructor documented with
//!     "`offset` may be any value. It is used as the initial value returned by [`Self::next_offset`]."
//! but computes `end_offset = UnitOffset(offset.0 + input.len())` with a plain `+`.  For an offset within `input.len()` of
//! `usize::MAX` (e.g. a `UnitOffset` taken from an untrusted `DW_FORM_ref_udata` attribute and used as the label of a reader
//! positioned elsewhere) the sum overflows: a panic ("attempt to add with overflow") in a debug build; a release build wraps,
//! and `next_offset()` (`end_offset - input.len()`) wraps back, so release builds "work" — the two build modes differ.
//!
//! Verus obligation that fails on the pinned tree: batch `units`,
//!   read::unit::EntriesRaw::new | possible arithmetic underflow/overflow | let end_offset = UnitOffset(offset.0 + input.len());
//! (the contract of `new` is written from the doc comment: no precondition on `offset`).
//!
//! Minimal fix: either make the documented freedom real,
//!     let end_offset = UnitOffset(offset.0.wrapping_add(input.len()));       // and `wrapping_sub` in next_offset()
//! or document the precondition `offset + input.len()` must not overflow (all internal callers satisfy it: they pass an
//! offset validated by `UnitHeader::range_from`, so `offset + input.len()` is the length of the unit).
//!
//! usage: cd /verif/native && cargo run -q --bin f_units_1
//! prints `F_units_1_entries_raw_new_any_offset: PANIC ...` on the defective tree, `... ok next_offset=...` after the fix.
use gimli::*;
use std::panic::catch_unwind;
use std::sync::Mutex;

static LAST: Mutex<String> = Mutex::new(String::new());

fn main() {
    std::panic::set_hook(Box::new(|i| {
        *LAST.lock().unwrap() = format!("{}", i).replace('\n', " ");
    }));
    // an empty abbreviation table is enough: the constructor panics before anything is read
    let debug_abbrev = DebugAbbrev::new(&[0u8], LittleEndian);
    let abbrevs = debug_abbrev.abbreviations(DebugAbbrevOffset(0)).unwrap();
    let encoding = Encoding { format: Format::Dwarf32, version: 4, address_size: 8 };
    let r = catch_unwind(|| {
        let input = EndianSlice::new(&[0u8, 0u8], LittleEndian);
        // "offset may be any value"
        let raw = EntriesRaw::new(input, encoding, &abbrevs, UnitOffset(usize::MAX));
        raw.next_offset().0
    });
    match r {
        Ok(o) => println!("F_units_1_entries_raw_new_any_offset: ok next_offset={:#x}", o),
        Err(_) => println!("F_units_1_entries_raw_new_any_offset: PANIC {}", LAST.lock().unwrap()),
    }
}
