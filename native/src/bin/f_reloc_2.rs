//! Native reproducer for finding F-reloc-2 (observation O3 of K-RELOCPARSE, property C18; strict Kani harness
//! `k_relocparse_f_gnu_secoff_data4`, kani/src/relocparse.rs).
//!
//! C18: "Reading a section through the relocating reader with any relocation set gives the same results as reading a
//! copy of the section in which those relocations have already been applied ... Every address and cross-section offset
//! ... passes through the relocatable primitives."
//!
//! DWARF 2/3 have no DW_FORM_sec_offset: section offsets (lineptr, loclistptr, macptr, rangelistptr) are encoded as
//! DW_FORM_data4 (32-bit DWARF) / DW_FORM_data8 (64-bit DWARF).  `read::unit::parse_attribute` therefore reads data4/data8
//! with `read_offset` when `allow_section_offset(name, version)` says the attribute can hold a section offset
//! ("This is required to correctly handle relocations").  That list has the standard names (DW_AT_stmt_list,
//! DW_AT_ranges, DW_AT_macro_info, DW_AT_location, ...) but not the GNU extension attributes that GCC emits in exactly
//! the same way for `-gdwarf-2` / `-gdwarf-3` (dwarf2out.c `value_format`: classes lineptr / macptr / loclistptr /
//! range_list / view_list return DW_FORM_sec_offset only `if (dwarf_version >= 4)` and fall through to DW_FORM_data4):
//!   DW_AT_GNU_macros       (-g3: offset into .debug_macro)
//!   DW_AT_GNU_locviews     (-gvariable-location-views, on by default: offset into .debug_loc)
//!   DW_AT_GNU_ranges_base  (-gsplit-dwarf skeleton unit: offset into .debug_ranges)
//!   DW_AT_GNU_addr_base    (-gsplit-dwarf skeleton unit: offset into .debug_addr)
//! For these the value is read with plain `read_u32` (`AttributeValue::Data4`), which `RelocateReader` does not
//! intercept: in a relocatable object (RELA: field 0, offset in the addend) the consumer gets 0 instead of the offset.
//!
//! This program parses one DW_FORM_data4 attribute of a 32-bit DWARF 3 unit whose field is 0 in the section and has a
//! relocation with addend 0x40 (a) with the bare reader from bytes with the relocation applied, (b) through
//! `RelocateReader` from the zeroed bytes, for the four GNU names and, as controls, DW_AT_macro_info and DW_AT_ranges
//! (relocated) and DW_AT_byte_size (a constant, correctly not relocated: no relocation exists for it).
//!
//! Minimal fix: add the four names to `allow_section_offset` (read/unit.rs); the strict Kani harness passes with it.
//!
//! usage: cd /verif/native && cargo run -q --bin f_reloc_2      exit status 1 if a relocation is lost
use gimli::constants::*;
use gimli::{
    Abbreviations, AttributeSpecification, AttributeValue, DwAt, Encoding, EndianSlice, EntriesRaw, Format, LittleEndian,
    Reader, Relocate, RelocateReader, UnitOffset,
};

const FIELD: usize = 3; // section offset of the attribute value
const ADDEND: u32 = 0x40;

/// one relocation, at FIELD
#[derive(Debug, Clone, Copy)]
struct OneReloc;
impl Relocate<usize> for OneReloc {
    fn relocate_address(&self, offset: usize, value: u64) -> gimli::Result<u64> {
        Ok(if offset == FIELD { value.wrapping_add(ADDEND as u64) } else { value })
    }
    fn relocate_offset(&self, offset: usize, value: usize) -> gimli::Result<usize> {
        Ok(if offset == FIELD { value.wrapping_add(ADDEND as usize) } else { value })
    }
}

fn read<R: Reader<Offset = usize>>(mut section: R, name: DwAt) -> AttributeValue<R> {
    let encoding = Encoding { format: Format::Dwarf32, version: 3, address_size: 8 };
    let abbrevs = Abbreviations::default();
    section.skip(FIELD).unwrap();
    let mut raw = EntriesRaw::new(section, encoding, &abbrevs, UnitOffset(FIELD));
    raw.read_attribute(AttributeSpecification::new(name, DW_FORM_data4, None)).expect("attribute").raw_value()
}

/// the numeric payload, whatever the variant
fn num<R: Reader<Offset = usize>>(v: &AttributeValue<R>) -> u64 {
    match v {
        AttributeValue::Data4(x) => *x as u64,
        AttributeValue::SecOffset(x) => *x as u64,
        _ => panic!("unexpected value"),
    }
}

fn main() {
    let mut zeroed = [0xaau8; 8];
    zeroed[FIELD..FIELD + 4].copy_from_slice(&0u32.to_le_bytes());
    let mut applied = zeroed;
    applied[FIELD..FIELD + 4].copy_from_slice(&ADDEND.to_le_bytes());

    // (name, has a relocation in a relocatable object)
    let names = [
        (DW_AT_GNU_macros, true),
        (DW_AT_GNU_locviews, true),
        (DW_AT_GNU_ranges_base, true),
        (DW_AT_GNU_addr_base, true),
        (DW_AT_macro_info, true),
        (DW_AT_ranges, true),
        (DW_AT_byte_size, false),
    ];
    let mut bad = false;
    for (name, relocated) in names {
        // what a consumer of the linked (or pre-relocated) section sees; a constant has no relocation: the field stays 0
        let reference = read(EndianSlice::new(if relocated { &applied } else { &zeroed }, LittleEndian), name);
        let relocating = read(RelocateReader::new(EndianSlice::new(&zeroed, LittleEndian), OneReloc), name);
        let same = num(&reference) == num(&relocating);
        // a constant must not be passed through the relocation at all: the field is read through a reader that WOULD
        // relocate it, so equality with the zeroed read shows it was not
        let lost = !same;
        bad |= lost;
        println!(
            "DWARF 3, 32-bit, {} DW_FORM_data4: relocation pre-applied + bare reader {:?} | RelocateReader {:?}  {}",
            name,
            reference,
            AttrDebug(&relocating),
            if lost { "DIFFERENT: relocation not applied by the reader" } else { "ok" }
        );
    }
    std::process::exit(if bad { 1 } else { 0 });
}

/// `AttributeValue<RelocateReader<..>>` prints the whole reader for reader-carrying variants; only numbers occur here
struct AttrDebug<'a, R: Reader<Offset = usize>>(&'a AttributeValue<R>);
impl<'a, R: Reader<Offset = usize>> std::fmt::Debug for AttrDebug<'a, R> {
    fn fmt(&self, f: &mut std::fmt::Formatter<'_>) -> std::fmt::Result {
        match self.0 {
            AttributeValue::Data4(x) => write!(f, "Data4({x})"),
            AttributeValue::SecOffset(x) => write!(f, "SecOffset({x})"),
            _ => write!(f, "?"),
        }
    }
}
