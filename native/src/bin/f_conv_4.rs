//! Finding conv/4 (C12 safety obligations; DESIGN F7): unchecked arithmetic in `write::CallFrameInstruction::from`
//! (write/cfi.rs, mod convert) on values taken from the input section:
//!   (a) `factored_offset * from_cie.data_alignment_factor()` (i64 x i64; def_cfa_sf, def_cfa_offset_sf, offset_extended_sf,
//!       val_offset_sf, and `factored_offset as i64 * daf` for offset / val_offset)
//!   (b) `delta * from_cie.code_alignment_factor() as u32` (u32 x u32 after truncating the factor)
//!   (c) `*offset += ..` (u32 accumulation over all advance_loc of an FDE)
//! A debug build panics ("attempt to multiply/add with overflow") inside `FrameTable::from`; a release build wraps and the
//! converted instruction carries a wrong offset / location (silent alteration).
//! Verus obligations: 8 x "possible arithmetic underflow/overflow" in write::cfi::convert::CallFrameInstruction::from, and
//! [C12:cfi-advance-loc].
//! Minimal repair: `checked_mul` / `checked_add` and an existing ConvertError (e.g. `UnsupportedCfiInstruction`) or a new
//! `ConvertError::InvalidCfiOffset`; the narrowing half is finding conv/3.
use gimli::{write, DebugFrame, LittleEndian};

fn uleb(mut v: u64, out: &mut Vec<u8>) { loop { let b = (v & 0x7f) as u8; v >>= 7; if v == 0 { out.push(b); break } out.push(b | 0x80) } }
fn sleb(mut v: i64, out: &mut Vec<u8>) { loop { let b = (v & 0x7f) as u8; v >>= 7; let done = (v == 0 && b & 0x40 == 0) || (v == -1 && b & 0x40 != 0); if done { out.push(b); break } out.push(b | 0x80) } }

fn section(caf: u64, daf: i64, insns: &[u8]) -> Vec<u8> {
    let mut cie = vec![]; cie.extend_from_slice(&0xffff_ffffu32.to_le_bytes()); cie.push(1); cie.push(0);
    uleb(caf, &mut cie); sleb(daf, &mut cie); cie.push(16);
    while (cie.len() + 4) % 8 != 0 { cie.push(0) }
    let mut sec = vec![]; sec.extend_from_slice(&(cie.len() as u32).to_le_bytes()); sec.extend_from_slice(&cie);
    let mut fde = vec![]; fde.extend_from_slice(&0u32.to_le_bytes()); fde.extend_from_slice(&0x1000u64.to_le_bytes()); fde.extend_from_slice(&0x100u64.to_le_bytes());
    fde.extend_from_slice(insns);
    while (fde.len() + 4) % 8 != 0 { fde.push(0) }
    sec.extend_from_slice(&(fde.len() as u32).to_le_bytes()); sec.extend_from_slice(&fde);
    sec
}

fn convert(name: &str, sec: Vec<u8>) -> bool {
    let r = std::panic::catch_unwind(move || {
        let mut df = DebugFrame::new(&sec, LittleEndian); df.set_address_size(8);
        write::FrameTable::from(&df, &|a| Some(write::Address::Constant(a))).map(|t| t.fde_count())
    });
    match r {
        Err(_) => { println!("f_conv_4({name}): DEFECT: PANIC inside FrameTable::from (see message above)"); true }
        Ok(v) => { println!("f_conv_4({name}): no panic: {:?}", v); false }
    }
}

fn main() {
    let mut bad = false;
    // (a) def_cfa_sf r7, factored 2^62 with data_alignment_factor 4
    let mut i = vec![0x12]; uleb(7, &mut i); sleb(1 << 62, &mut i);
    bad |= convert("a: factored_offset * daf", section(1, 4, &i));
    // (a') offset r1, factored 2^62 (u64 -> i64 fits) with daf 4
    let mut i = vec![0x81]; uleb(1 << 62, &mut i);
    bad |= convert("a': factored_offset as i64 * daf", section(1, 4, &i));
    // (b) advance_loc4 0x10000 with code_alignment_factor 0x10000
    let mut i = vec![0x04]; i.extend_from_slice(&0x10000u32.to_le_bytes());
    bad |= convert("b: delta * caf as u32", section(0x10000, -8, &i));
    // (c) two advance_loc4 0x8000_0000 with code_alignment_factor 1
    let mut i = vec![0x04]; i.extend_from_slice(&0x8000_0000u32.to_le_bytes()); i.push(0x04); i.extend_from_slice(&0x8000_0000u32.to_le_bytes());
    bad |= convert("c: *offset +=", section(1, -8, &i));
    std::process::exit(if bad { 1 } else { 0 })
}
