//! Native reproducer for finding F-op-eval-1 of vx/batches/op_eval.py (built-in overflow obligation of
//! `Evaluation::evaluate_internal`, statement `self.iteration += 1;`, owners C01/C07).
//!
//! `iteration` is a `u32` that is incremented once per loop iteration, *before* the limit test
//! `if let Some(max) = self.max_iterations && self.iteration > max`.  Without a limit (the default), or with the limit
//! `u32::MAX`, nothing stops the counter, so a looping expression overflows it after 2^32 operations:
//! overflow-checked build: panic "attempt to add with overflow" (C01: untrusted DWARF never panics); release build: the
//! counter wraps silently (harmless without a limit; with limit u32::MAX the limit error is never reported).
//! The expression is the 3-byte loop `DW_OP_skip -3` (2f fd ff).
//!
//! Fixed in /repo commit 58e76a9 (`self.iteration = self.iteration.saturating_add(1);`): on a fixed tree `nolimit` runs
//! forever (documented behaviour without a limit) and `maxlimit` likewise (the limit u32::MAX is never exceeded); use
//! `probe N` there.  On the pinned pre-fix tree both cases panic.
//!
//! usage: f_op_eval_1 [nolimit|maxlimit] [probe N]
//!   default `nolimit`: evaluates until the panic; this needs 2^32 iterations -- about 2-4 minutes in a release build
//!   with `-C overflow-checks=on`, roughly an hour in the dev profile.  `probe N` instead sets the limit N, measures the
//!   iteration rate and prints the extrapolated time (a finite stand-in that does not show the panic).
//!   prints `<case>: PANIC <message>` or `<case>: ok <detail>`; exit status 1 if the case panicked
use gimli::{EndianSlice, Evaluation, Format, LittleEndian};
use std::panic::catch_unwind;
use std::sync::Mutex;
use std::time::Instant;

static LAST: Mutex<String> = Mutex::new(String::new());

fn main() {
    std::panic::set_hook(Box::new(|info| {
        *LAST.lock().unwrap() = info.to_string().replace('\n', " ");
    }));
    let args: Vec<String> = std::env::args().collect();
    let mode = args.get(1).map(|s| s.as_str()).unwrap_or("nolimit").to_string();
    let encoding = gimli::Encoding { address_size: 8, format: Format::Dwarf32, version: 5 };
    // DW_OP_skip -3 : branch back to the start of this operation, forever
    static PROGRAM: [u8; 3] = [0x2f, 0xfd, 0xff];
    if mode == "probe" {
        let n: u32 = args.get(2).and_then(|s| s.parse().ok()).unwrap_or(50_000_000);
        let mut eval = Evaluation::new(EndianSlice::new(&PROGRAM, LittleEndian), encoding);
        eval.set_max_iterations(n);
        let t = Instant::now();
        let r = eval.evaluate();
        let dt = t.elapsed().as_secs_f64();
        println!("probe: ok {:?} after {} iterations in {:.2} s => 2^32 iterations need about {:.0} s", r.err(), n, dt, dt * 4294967296.0 / n as f64);
        return;
    }
    let case = mode.clone();
    let r = catch_unwind(move || {
        let mut eval = Evaluation::new(EndianSlice::new(&PROGRAM, LittleEndian), encoding);
        if mode == "maxlimit" {
            eval.set_max_iterations(u32::MAX);
        }
        let t = Instant::now();
        let r = eval.evaluate();
        format!("{:?} after {:.0} s", r.err(), t.elapsed().as_secs_f64())
    });
    match r {
        Ok(d) => println!("{case}: ok {d}"),
        Err(_) => {
            println!("{case}: PANIC {}", LAST.lock().unwrap());
            std::process::exit(1);
        }
    }
}
