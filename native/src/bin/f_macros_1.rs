//! Native reproducer for finding F-macros-1 of vx/batches/macros.py (clauses `[C01:iter-finish]` and
//! `[C01:iter-err-empties]` of `read::macros::MacroIter::next`).
//! STATUS: open.
//!
//! C01: "Every lazy iterator finishes within a number of steps bounded by the input size even when the caller ignores
//! errors".  `MacroIter::next` starts with `self.input.read_u8()?` and has no `is_empty()` test:
//!   (a) on exhausted input every call returns `Err(UnexpectedEof)`: after the `Ok(None)` that ends a unit (the 0 entry
//!       type *empties* the input), and -- worse -- when the unit is truncated before its terminator, where no `Ok(None)`
//!       is ever returned.  Through `impl Iterator for MacroIter` (`next().transpose()`) the latter is an endless stream
//!       of `Some(Err(UnexpectedEof))`: a consumer that skips errors (`filter_map(Result::ok)`,
//!       `for e in iter { let Ok(e) = e else { continue }; .. }`, `.count()`) never terminates.
//!   (b) errors of operand reads leave through `?` without `input.empty()` (only the two unknown-type arms empty the
//!       input): after a `define` whose string lacks its NUL the following calls decode the bytes of the string as entries.
//!
//! Minimal fix (verified: with it `python3 vx/run.py macros` exits 0):
//!     pub fn next(&mut self) -> Result<Option<MacroEntry<R>>> {
//!         if self.input.is_empty() { return Ok(None); }
//!         let result = self.next_entry();              // the present body
//!         if !matches!(result, Ok(Some(_))) { self.input.empty(); }
//!         result
//!     }
//!
//! usage: f_macros_1     prints the observed sequences; exit status 1 if the defect is present
use gimli::{DebugMacinfo, DebugMacinfoOffset, DebugMacro, DebugMacroOffset, LittleEndian};

fn main() {
    let mut bad = false;

    // (a) a well-formed .debug_macro unit: version 5, flags 0, one DW_MACRO_end_file, terminator
    let sec = [0x05, 0x00, 0x00, 0x04, 0x00];
    let dm = DebugMacro::new(&sec, LittleEndian);
    let mut it = dm.get_macros(DebugMacroOffset(0)).unwrap();
    for i in 0..5 {
        let r = it.next();
        println!("(a) next #{i}: {r:?}");
    }
    let after_end = it.next();
    if after_end != Ok(None) {
        println!("macro_iter_after_end: WRONG next() after the end of the unit is {after_end:?} (protocol: Ok(None))");
        bad = true;
    }
    // the same unit truncated before its terminator, seen through `impl Iterator`: a well-behaved iterator yields a
    // number of items bounded by the input size (4 bytes) and then None
    let dm = DebugMacro::new(&sec[..4], LittleEndian);
    let it = dm.get_macros(DebugMacroOffset(0)).unwrap();
    let limit = 1_000_000;
    let n = Iterator::take(it, limit).count();
    println!("(a) items yielded by the truncated 4-byte unit through `impl Iterator` (cut off at {limit}): {n}");
    if n >= limit {
        println!("macro_iter_unbounded: WRONG the iterator never returns None (endless Some(Err(UnexpectedEof)))");
        bad = true;
    }

    // (b) .debug_macinfo: DW_MACINFO_define, line 1, string "\x04\x04\x04" without its NUL
    let sec = [0x01, 0x01, 0x04, 0x04, 0x04];
    let mi = DebugMacinfo::new(&sec, LittleEndian);
    let mut it = mi.get_macinfo(DebugMacinfoOffset(0)).unwrap();
    let mut seen_err = false;
    let mut after_err = 0;
    for i in 0..5 {
        let r = it.next();
        println!("(b) next #{i}: {r:?}");
        match r {
            Err(_) => seen_err = true,
            Ok(Some(_)) if seen_err => after_err += 1,
            _ => {}
        }
    }
    if after_err > 0 {
        println!("macro_iter_after_error: WRONG {after_err} entries decoded from the middle of the entry that failed");
        bad = true;
    }
    if bad {
        std::process::exit(1);
    }
    println!("macro_iter_protocol: ok");
}
