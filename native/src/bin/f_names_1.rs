//! Native reproducer for finding F-names-1 of vx/batches/names.py (built-in overflow obligation of
//! `read::names::NameIndex::type_unit_count`).
//! STATUS: open (low severity: needs a name index of at least 32 GiB).
//!
//! C01: "never panics ... in overflow-checked (debug) and release builds alike ... extreme count values".
//! `NameIndex::type_unit_count` returns `self.local_type_unit_count + self.foreign_type_unit_count`, the unchecked sum of two
//! u32 header fields.  `NameIndex::new` accepts every pair of counts whose lists fit into the unit (8 bytes per foreign
//! signature, 4/8 bytes per local offset); in the 64-bit DWARF format a unit may be that large, so
//! local = 0xffff_ffff, foreign = 1 is accepted and the sum overflows: panic in debug builds, 0 in release builds (where
//! the documented bound "index must be less than type_unit_count" of `type_unit` then excludes every valid index).
//!
//! The section is a sparse file mapped read-only (only the header page is ever touched); nothing is allocated.
//!
//! Minimal fix: reject the header in `NameIndex::new` when the sum does not fit
//!     header.local_type_unit_count.checked_add(header.foreign_type_unit_count).ok_or(Error::...)?
//! (or return u64 from `type_unit_count`).
//!
//! usage: f_names_1     exit status 1 if the defect is present (overflow panic or wrapped count)
use gimli::{DebugNames, LittleEndian};
use std::io::{Seek, SeekFrom, Write};
use std::os::fd::AsRawFd;

extern "C" {
    fn mmap(addr: *mut u8, len: usize, prot: i32, flags: i32, fd: i32, off: i64) -> *mut u8;
    fn munmap(addr: *mut u8, len: usize) -> i32;
}

fn main() {
    let local: u32 = 0xffff_ffff;
    let foreign: u32 = 1;
    let lists = (local as u64 + foreign as u64) * 8; // 64-bit format: 8-byte offsets, 8-byte signatures
    let unit_length = 32 + lists; // version .. augmentation_string_size, then the lists; all other tables empty
    let total = 12 + unit_length;

    let mut hdr = vec![];
    hdr.extend_from_slice(&0xffff_ffffu32.to_le_bytes());
    hdr.extend_from_slice(&unit_length.to_le_bytes());
    hdr.extend_from_slice(&5u16.to_le_bytes());
    hdr.extend_from_slice(&0u16.to_le_bytes());
    for v in [0u32, local, foreign, 0, 0, 0, 0] {
        // comp_unit_count, local_type_unit_count, foreign_type_unit_count, bucket_count, name_count, abbrev_table_size, augmentation_string_size
        hdr.extend_from_slice(&v.to_le_bytes());
    }

    let path = std::env::temp_dir().join(format!("f_names_1_{}.bin", std::process::id()));
    let mut f = std::fs::OpenOptions::new().read(true).write(true).create(true).truncate(true).open(&path).unwrap();
    f.set_len(total).unwrap(); // sparse
    f.seek(SeekFrom::Start(0)).unwrap();
    f.write_all(&hdr).unwrap();
    f.flush().unwrap();
    let len = total as usize;
    let ptr = unsafe { mmap(std::ptr::null_mut(), len, 1 /* PROT_READ */, 2 /* MAP_PRIVATE */, f.as_raw_fd(), 0) };
    let _ = std::fs::remove_file(&path);
    if ptr as isize == -1 {
        println!("type_unit_count_overflow: SKIPPED cannot map a {total}-byte sparse file");
        std::process::exit(2);
    }
    let section: &[u8] = unsafe { std::slice::from_raw_parts(ptr, len) };

    let names = DebugNames::new(section, LittleEndian);
    let header = names.headers().next().expect("header parses").expect("one header");
    println!(
        "header: format {:?}, local_type_unit_count {:#x}, foreign_type_unit_count {}",
        header.format(),
        header.local_type_unit_count(),
        header.foreign_type_unit_count()
    );
    let index = header.index().expect("NameIndex::new accepts the unit");
    // both lists are really there: the last local entry and the one foreign entry can be fetched
    println!("local_type_unit({:#x}) = {:?}", local - 1, index.local_type_unit(local - 1));
    println!("foreign_type_unit(0) = {:?}", index.foreign_type_unit(0));
    let r = std::panic::catch_unwind(|| index.type_unit_count());
    let bad = match r {
        Err(_) => {
            println!("type_unit_count_overflow: WRONG NameIndex::type_unit_count() panicked (attempt to add with overflow)");
            true
        }
        Ok(n) if (n as u64) != local as u64 + foreign as u64 => {
            println!("type_unit_count_overflow: WRONG NameIndex::type_unit_count() = {n}, the index has {} type units", local as u64 + foreign as u64);
            true
        }
        Ok(n) => {
            println!("type_unit_count_overflow: ok ({n})");
            false
        }
    };
    unsafe { munmap(ptr, len) };
    std::process::exit(if bad { 1 } else { 0 });
}
