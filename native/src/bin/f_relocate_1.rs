//! (FIXED in /repo ffd31c4: every case prints `ok` now.)
//! Native reproducer for the finding of vx/batches/relocate.py ([C10:reloc-wf-kept] on `RelocateReader::empty`,
//! twin Kani harnesses k_eslice_empty_position / k_reloc_empty_then_read).
//!
//! `EndianSlice::empty()` replaces the slice by the literal `&[]`, i.e. it drops the reader's position inside the
//! section.  `RelocateReader::{read_address, read_offset, read_sized_offset}` compute
//! `self.reader.offset_from(&self.section)` *before* reading, so on an emptied `RelocateReader<EndianSlice, _>` they
//! hit `debug_assert!(base_ptr <= ptr)` in `EndianSlice::offset_from` (debug build: panic; release build: a wrapped
//! garbage offset that is discarded because the inner read then fails).  The bare `EndianSlice` returns
//! `Err(UnexpectedEof)` for the same operation sequence, so "identity-relocating readers give identical results under
//! every sequence of reader operations" (C10) and "never panics" (C01) fail for the sequence `empty(); read_address(n)`.
//! `EndianReader::empty()` is `truncate(0)` and keeps the position: the reference-counted readers are not affected.
//!
//! Minimal fix: `EndianSlice::empty`:  `self.slice = &self.slice[..0];`  (keeps the position, as EndianReader does);
//! or, local to relocate.rs, `RelocateReader::empty`: `let n = self.reader.len(); let _ = self.reader.skip(n);`.
//!
//! usage: f_relocate_1      prints `<case>: PANIC <message>` or `<case>: ok <detail>`; exit status 1 if any case panicked
use gimli::{EndianReader, EndianSlice, Format, LittleEndian, Reader, Relocate, RelocateReader, Result};
use std::panic::catch_unwind;
use std::rc::Rc;
use std::sync::Mutex;

static LAST: Mutex<String> = Mutex::new(String::new());

#[derive(Debug, Clone, Copy)]
struct Identity;
impl Relocate<usize> for Identity {
    fn relocate_address(&self, _offset: usize, value: u64) -> Result<u64> {
        Ok(value)
    }
    fn relocate_offset(&self, _offset: usize, value: usize) -> Result<usize> {
        Ok(value)
    }
}

fn case<F: FnOnce() -> String + std::panic::UnwindSafe>(name: &str, f: F) -> bool {
    match catch_unwind(f) {
        Err(_) => {
            println!("{name}: PANIC {}", LAST.lock().unwrap());
            true
        }
        Ok(d) => {
            println!("{name}: ok {d}");
            false
        }
    }
}

fn main() {
    std::panic::set_hook(Box::new(|i| {
        *LAST.lock().unwrap() = format!("{}", i).replace('\n', " ");
    }));
    // heap buffer: its address is unrelated to (and on the usual targets far above) the address of the `&[]` literal
    let data: Vec<u8> = (1..=16u8).collect();
    let mut bad = false;

    // reference behaviour: the bare borrowed reader
    bad |= case("bare_eslice_empty_read_address", || {
        let mut r = EndianSlice::new(&data, LittleEndian);
        r.empty();
        format!("{:?}", r.read_address(4).map_err(|e| format!("{e}")))
    });
    // the identity-relocating reader over the reference-counted reader (position kept by empty())
    bad |= case("reloc_rc_empty_read_address", || {
        let mut r = RelocateReader::new(EndianReader::new(Rc::<[u8]>::from(&data[..]), LittleEndian), Identity);
        r.empty();
        format!("{:?}", r.read_address(4).map_err(|e| format!("{e}")))
    });
    // the identity-relocating reader over the borrowed reader: the three relocating reads
    bad |= case("reloc_eslice_empty_read_address", || {
        let mut r = RelocateReader::new(EndianSlice::new(&data, LittleEndian), Identity);
        r.empty();
        format!("{:?}", r.read_address(4).map_err(|e| format!("{e}")))
    });
    bad |= case("reloc_eslice_empty_read_offset", || {
        let mut r = RelocateReader::new(EndianSlice::new(&data, LittleEndian), Identity);
        r.empty();
        format!("{:?}", r.read_offset(Format::Dwarf32).map_err(|e| format!("{e}")))
    });
    bad |= case("reloc_eslice_empty_read_sized_offset", || {
        let mut r = RelocateReader::new(EndianSlice::new(&data, LittleEndian), Identity);
        r.empty();
        format!("{:?}", r.read_sized_offset(8).map_err(|e| format!("{e}")))
    });
    // the positional half of the same defect on the bare reader (Reader::offset_from "may panic" by its documentation)
    bad |= case("bare_eslice_empty_offset_from", || {
        let base = EndianSlice::new(&data, LittleEndian);
        let mut r = base;
        r.skip(4).unwrap();
        r.empty();
        format!("{}", Reader::offset_from(&r, &base))
    });
    std::process::exit(if bad { 1 } else { 0 });
}
