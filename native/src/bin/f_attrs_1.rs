//! Native reproducer for finding F2 (batch attrs, properties C01/C03):
//! `read::unit::skip_attributes` accumulates the sizes of fixed-size forms into the pending skip count with
//! `skip_bytes += R::Offset::from_u8(len)`.  After a `DW_FORM_block`/`DW_FORM_exprloc` (or block1/2/4) the pending count is
//! the untrusted block length; a length of 2^64-1 followed by any fixed-size form of non-zero size overflows `usize`:
//! a panic ("attempt to add with overflow") in a debug build, and in a release build the sum wraps to a small number, so the
//! skip "succeeds" and leaves the cursor at a position unrelated to what reading the attributes would consume (skip != read).
//!
//! Verus obligation that fails on the pinned tree: batch `attrs`,
//!   read::unit::skip_attributes | possible arithmetic underflow/overflow | skip_bytes += R::Offset::from_u8(len);
//!
//! Minimal fix (keeps the behaviour for every input that worked before; no new trait method):
//!     let sum = skip_bytes.wrapping_add(R::Offset::from_u8(len));
//!     if sum < skip_bytes {
//!         // The pending skip exceeds any possible input length.
//!         return Err(Error::UnexpectedEof(input.offset_id()));
//!     }
//!     skip_bytes = sum;
//! With this change the whole contract of skip_attributes ([C03:skip-eq-read], no overflow, termination) verifies.
//!
//! usage: cd /verif/native && cargo run -q --bin f_attrs_1
//! prints `F2_skip_attributes_block_max_then_data1: PANIC ...` on the defective tree, `... ok Err(UnexpectedEof(..))` after the fix.
use gimli::*;
use std::panic::catch_unwind;
use std::sync::Mutex;

static LAST: Mutex<String> = Mutex::new(String::new());

fn main() {
    std::panic::set_hook(Box::new(|i| {
        *LAST.lock().unwrap() = format!("{}", i).replace('\n', " ");
    }));
    // .debug_abbrev: code 1, DW_TAG_compile_unit, no children,
    //   (DW_AT_name, DW_FORM_block = 0x09), (DW_AT_language, DW_FORM_data1 = 0x0b), (0, 0); end of abbreviations
    let abbrev = [1u8, 0x11, 0, 0x03, 0x09, 0x13, 0x0b, 0, 0, 0];
    // DIE: abbreviation code 1, block length 2^64-1 as a 10-byte ULEB128, then the data1 byte
    let mut die = vec![1u8];
    die.extend_from_slice(&[0xff, 0xff, 0xff, 0xff, 0xff, 0xff, 0xff, 0xff, 0xff, 0x01]);
    die.push(7);
    // DWARF 4 unit header: unit_length, version, debug_abbrev_offset, address_size
    let mut unit = vec![];
    let len = (2 + 4 + 1 + die.len()) as u32;
    unit.extend_from_slice(&len.to_le_bytes());
    unit.extend_from_slice(&4u16.to_le_bytes());
    unit.extend_from_slice(&0u32.to_le_bytes());
    unit.push(8);
    unit.extend_from_slice(&die);

    let r = catch_unwind(move || {
        let abbrevs = DebugAbbrev::new(&abbrev, LittleEndian)
            .abbreviations(DebugAbbrevOffset(0))
            .unwrap();
        let debug_info = DebugInfo::new(&unit, LittleEndian);
        let header = debug_info.units().next().unwrap().unwrap();
        let mut raw = header.entries_raw(&abbrevs, None).unwrap();
        let ab = raw.read_abbreviation().unwrap().unwrap();
        // reading the same attributes fails cleanly ...
        let mut raw2 = raw.clone();
        let read = raw2.read_attribute(ab.attributes()[0]).map(|_| ());
        // ... skipping them must not panic either
        let skip = raw.skip_attributes(ab.attributes());
        format!("read_attribute: {:?}; skip_attributes: {:?}", read, skip)
    });
    let name = "F2_skip_attributes_block_max_then_data1";
    match r {
        Err(_) => {
            println!("{name}: PANIC {}", LAST.lock().unwrap());
            std::process::exit(1);
        }
        Ok(d) => println!("{name}: ok {d}"),
    }
}
