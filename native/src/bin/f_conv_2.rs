//! Finding conv/2 (C12; DESIGN F7): `write::FrameDescriptionEntry::from` (write/cfi.rs, mod convert) stores
//! `from_fde.len() as u32`.  With 8-byte addresses the reader accepts any u64 address range, so an FDE covering
//! 0x1_0000_0010 bytes converts (Ok) to an FDE covering 0x10 bytes: the unwind rows of the written table apply to a
//! different address range than those of the input (silent truncation).
//! Verus obligation: write::cfi::convert::FrameDescriptionEntry::from [C12:fde-length].
//! Possible repairs (API decision): `u32::try_from(len).map_err(..)` with a ConvertError, or a u64 `length` field.
use gimli::{write, BaseAddresses, DebugFrame, LittleEndian, UnwindSection};

fn section(range: u64) -> Vec<u8> {
    let mut cie = vec![]; cie.extend_from_slice(&0xffff_ffffu32.to_le_bytes()); cie.push(1); cie.push(0);
    cie.push(1); cie.push(0x78 /* daf -8 */); cie.push(16);
    while (cie.len() + 4) % 8 != 0 { cie.push(0) }
    let mut sec = vec![]; sec.extend_from_slice(&(cie.len() as u32).to_le_bytes()); sec.extend_from_slice(&cie);
    let mut fde = vec![]; fde.extend_from_slice(&0u32.to_le_bytes()); fde.extend_from_slice(&0x1000u64.to_le_bytes()); fde.extend_from_slice(&range.to_le_bytes());
    while (fde.len() + 4) % 8 != 0 { fde.push(0) }
    sec.extend_from_slice(&(fde.len() as u32).to_le_bytes()); sec.extend_from_slice(&fde);
    sec
}

fn fde_range(sec: &[u8]) -> (u64, u64) {
    let mut df = DebugFrame::new(sec, LittleEndian); df.set_address_size(8);
    let bases = BaseAddresses::default();
    let mut it = df.entries(&bases);
    while let Some(e) = it.next().unwrap() {
        if let gimli::CieOrFde::Fde(p) = e { let f = p.parse(DebugFrame::cie_from_offset).unwrap(); return (f.initial_address(), f.len()) }
    }
    unreachable!()
}

fn main() {
    let sec = section(0x1_0000_0010);
    let mut df = DebugFrame::new(&sec, LittleEndian); df.set_address_size(8);
    let table = write::FrameTable::from(&df, &|a| Some(write::Address::Constant(a)));
    println!("f_conv_2: input FDE (address, length) = {:x?}; FrameTable::from -> {}", fde_range(&sec), if table.is_ok() { "Ok" } else { "Err" });
    let Ok(table) = table else { std::process::exit(0) };
    let mut out = write::DebugFrame::from(write::EndianVec::new(LittleEndian));
    table.write_debug_frame(&mut out).expect("write");
    let r = fde_range(out.0.slice());
    println!("f_conv_2: converted+written FDE (address, length) = {:x?}", r);
    if r != (0x1000, 0x1_0000_0010) { println!("f_conv_2: DEFECT: FDE address range silently truncated"); std::process::exit(1) }
}
