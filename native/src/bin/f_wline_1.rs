//! F-wline-1 (C13, C12): `write::LineProgram::new` documents "Panics if `line_base` > 0. Panics if `line_base + line_range`
//! <= 0", but asserts `line_encoding.line_base + line_encoding.line_range as i8 > 0`: the `as i8` cast makes every
//! `line_range >= 128` negative, so every such header (legal DWARF: line_range is a ubyte) panics - either on the assert
//! or, in a debug build, on `attempt to add with overflow` (line_base = -128, line_range = 255).
//! The same expression is `debug_assert!`ed in `generate_row`.  Through `ConvertLineProgram::new` (which only guards
//! `line_base > 0`) a well-formed INPUT program with line_range >= 128 makes read->write conversion panic instead of
//! converting or returning an error (C12).
//! Verifier: `WLINE_FINDINGS=1 WLINE_GENERATE_ROW=1 python3 vx/run.py wline` states the documented precondition and reports
//! the `as i8` debug_assert of generate_row as a failed obligation.
//! Minimal fix: compare in a wider type (`i16::from(line_base) + i16::from(line_range) > 0`) in `new` and `generate_row`,
//! and in `generate_row` only use a special opcode for the line when `special_base + special_line <= 255`
//! (with line_range >= 244 the unguarded sum exceeds 255, second latent defect behind the first).
use gimli::write::{LineProgram, LineString};
use gimli::{Encoding, Format, LineEncoding};
use std::panic::catch_unwind;

fn try_new(line_base: i8, line_range: u8) -> bool {
    let encoding = Encoding { format: Format::Dwarf32, version: 4, address_size: 8 };
    let line_encoding = LineEncoding { minimum_instruction_length: 1, maximum_operations_per_instruction: 1, default_is_stmt: true, line_base, line_range };
    catch_unwind(|| {
        LineProgram::new(encoding, line_encoding, LineString::String(b"dir".to_vec()), None, LineString::String(b"file".to_vec()), None);
    })
    .is_ok()
}

fn main() {
    std::panic::set_hook(Box::new(|i| println!("  panic: {i}")));
    let mut bad = 0;
    for (lb, lr) in [(-5i8, 14u8), (-5, 127), (-5, 128), (0, 200), (-128, 255), (-3, 255)] {
        let documented_ok = lb <= 0 && (lb as i32 + lr as i32) > 0;
        let ok = try_new(lb, lr);
        println!("LineProgram::new(line_base = {lb}, line_range = {lr}): documented precondition holds: {documented_ok}, returned normally: {ok}");
        if documented_ok && !ok {
            bad += 1;
        }
    }
    // C12: a well-formed input line program with line_range = 200 through read -> write conversion
    let header: Vec<u8> = {
        let mut p = vec![];
        p.extend_from_slice(&4u16.to_le_bytes()); // version
        let mut rest = vec![1u8, 1, 1, 0 /* line_base */, 200 /* line_range */, 13];
        rest.extend_from_slice(&[0, 1, 1, 1, 1, 0, 0, 0, 1, 0, 0, 1]);
        rest.push(0); // no include directories
        rest.extend_from_slice(b"a.c\0\0\0\0");
        rest.push(0); // end of files
        p.extend_from_slice(&(rest.len() as u32).to_le_bytes());
        p.extend_from_slice(&rest);
        p.extend_from_slice(&[0, 9, 2, 0, 0x10, 0, 0, 0, 0, 0, 0, 1, 0, 1, 1]); // set_address 0x1000; copy; end_sequence
        let mut s = (p.len() as u32).to_le_bytes().to_vec();
        s.extend_from_slice(&p);
        s
    };
    let debug_line = gimli::read::DebugLine::new(&header, gimli::LittleEndian);
    let program = debug_line.program(gimli::DebugLineOffset(0), 8, None, None).expect("input parses");
    println!("input header: line_base {} line_range {}", program.header().line_base(), program.header().line_range());
    let load = |id: gimli::SectionId| -> Result<gimli::EndianSlice<'_, gimli::LittleEndian>, gimli::Error> {
        Ok(gimli::EndianSlice::new(match id { gimli::SectionId::DebugLine => &header[..], _ => &[] }, gimli::LittleEndian))
    };
    let dwarf = gimli::read::Dwarf::load(load).unwrap();
    let converted = catch_unwind(std::panic::AssertUnwindSafe(|| {
        let mut out = gimli::write::Dwarf::new();
        let conv = out.read_line_program(&dwarf, program, None, None);
        match conv {
            Ok(_) => "Ok".to_string(),
            Err(e) => format!("Err({e:?})"),
        }
    }));
    match converted {
        Ok(r) => println!("conversion of the line_range = 200 program returned {r}"),
        Err(_) => {
            println!("conversion of the line_range = 200 program PANICKED (expected: converted program or ConvertError)");
            bad += 1;
        }
    }
    if bad > 0 {
        println!("F-wline-1: PANIC on {bad} inputs that satisfy the documented preconditions");
        std::process::exit(1);
    }
    println!("F-wline-1: ok");
}
