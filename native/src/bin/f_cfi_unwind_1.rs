//! Observation at the precondition boundary of the cfi_unwind batch (a stated `requires`, not a failing obligation):
//! [C06:storage-nonempty]: an `UnwindContextStorage` whose `Stack` is `[UnwindTableRow; 0]` (accepted by the sealed `ArrayLike`
//! impl for every `[T; N]`) makes `UnwindContext::new_in()` panic on `self.stack.try_push(UnwindTableRow::default()).unwrap()`
//! (cfi.rs `reset`).  Minimal fix: document `Stack` capacity >= 1 (or >= 2 to hold initial rules), or make `new_in` fallible.
use gimli::*;
use std::panic::catch_unwind;

struct S0;
impl<T: ReaderOffset> UnwindContextStorage<T> for S0 {
    type Rules = [(Register, RegisterRule<T>); 4];
    type Stack = [UnwindTableRow<T, Self>; 0];
}

fn main() {
    let r = catch_unwind(|| {
        let _ = UnwindContext::<usize, S0>::new_in();
    });
    println!("zero-row storage, UnwindContext::new_in(): {}", if r.is_err() { "PANIC" } else { "no panic" });
}
