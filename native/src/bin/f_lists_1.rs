//! Native reproducer for finding F-lists-1 (= DESIGN.md F4; batch `lists`, properties C01 / C08 / C17):
//! the indexed table lookups multiply an untrusted index by the entry size with a plain `*`, and the list-offset
//! lookups add the table entry to the base with a plain `+`:
//!
//!   read/addr.rs     DebugAddr::get_address         index.0.into_u64() * u64::from(address_size)
//!   read/str.rs      DebugStrOffsets::get_str_offset index.0.into_u64() * u64::from(format.word_size())
//!   read/rnglists.rs RangeLists::get_offset         index.0.into_u64() * u64::from(format.word_size())   and   base.0 + x
//!   read/loclists.rs LocationLists::get_offset      (same two expressions)
//!
//! The index is a ULEB128 taken from the DWARF input (DW_FORM_addrx/strx/rnglistx/loclistx, DW_RLE_*x / DW_LLE_*x operands),
//! `x` is a word read from the section.  Debug build: panic "attempt to multiply with overflow" / "attempt to add with
//! overflow" (C01: untrusted DWARF never panics).  Release build: the product wraps, so index 2^61 with 8-byte entries
//! silently reads entry 0 -- a *wrong entry* is returned instead of an error (C08 / C17: "each return exactly the entries
//! present"); the sum wraps to a small in-bounds list offset.
//!
//! Verus obligations that fail on the pinned tree (python3 vx/run.py lists):
//!   read::addr::DebugAddr::get_address          | possible arithmetic underflow/overflow | index.0.into_u64() * u64::from(address_size)
//!   read::str::DebugStrOffsets::get_str_offset  | possible arithmetic underflow/overflow | index.0.into_u64() * u64::from(format.word_size())
//!   read::rnglists::RangeLists::get_offset      | possible arithmetic underflow/overflow | (product)  and  base.0 + x
//!   read::loclists::LocationLists::get_offset   | possible arithmetic underflow/overflow | (product)  and  base.0 + x
//! (the postconditions `[C08:indexed-address]`, `[C17:str-offset-lookup]`, `[C08:offset-table]` state the position with a
//! mathematical product, so they are only provable when the machine product does not wrap).
//!
//! Minimal fix (existing error variant, behaviour unchanged for every input that worked before):
//!     let off = index.0.into_u64().checked_mul(u64::from(address_size)).ok_or(Error::UnsupportedOffset)?;
//!     input.skip(R::Offset::from_u64(off)?)?;
//! and in the two `get_offset`s
//!     let x = input.read_offset(format)?;
//!     let sum = base.0.into_u64().checked_add(x.into_u64()).ok_or(Error::UnsupportedOffset)?;
//!     Ok(RangeListsOffset(R::Offset::from_u64(sum)?))
//!
//! usage: cd /verif/native && cargo run -q --bin f_lists_1
//! prints one line per case: `<case>: PANIC <message>` on the defective tree, `<case>: ok <result>` after the fix;
//! exit status 1 if any case panicked.
use gimli::*;
use std::panic::catch_unwind;
use std::sync::Mutex;

static LAST: Mutex<String> = Mutex::new(String::new());

fn uleb(mut v: u64, out: &mut Vec<u8>) {
    loop {
        let mut x = (v & 0x7f) as u8;
        v >>= 7;
        if v != 0 {
            x |= 0x80;
        }
        out.push(x);
        if v == 0 {
            break;
        }
    }
}

fn case<F: FnOnce() -> String + std::panic::UnwindSafe>(name: &str, f: F) -> bool {
    match catch_unwind(f) {
        Ok(d) => {
            println!("{name}: ok {d}");
            false
        }
        Err(_) => {
            println!("{name}: PANIC {}", LAST.lock().unwrap());
            true
        }
    }
}

fn main() {
    std::panic::set_hook(Box::new(|i| {
        *LAST.lock().unwrap() = format!("{}", i).replace('\n', " ");
    }));
    let mut bad = false;
    let enc64 = Encoding { format: Format::Dwarf64, version: 5, address_size: 8 };
    let enc32 = Encoding { format: Format::Dwarf32, version: 5, address_size: 8 };

    // 1. from bytes only: a DWARF 5 range list `DW_RLE_startx_endx(2^61, 0)`; the resolving iterator looks the
    //    index up in .debug_addr:  2^61 * 8 == 2^64
    bad |= case("F_lists_1_rnglist_startx_index_2e61", || {
        let mut list = vec![0x02u8]; // DW_RLE_startx_endx
        uleb(1 << 61, &mut list);
        uleb(0, &mut list);
        list.push(0); // DW_RLE_end_of_list
        let addrs = [0x11u8; 16];
        let range_lists = RangeLists::new(DebugRanges::new(&[], LittleEndian), DebugRngLists::new(&list, LittleEndian));
        let debug_addr = DebugAddr::from(EndianSlice::new(&addrs, LittleEndian));
        let mut it = range_lists.ranges(RangeListsOffset(0), enc32, 0, &debug_addr, DebugAddrBase(0)).unwrap();
        format!("{:?}", it.next())
    });
    // 2. the same product in the location-list resolver: DW_LLE_base_addressx(2^61)
    bad |= case("F_lists_1_loclist_base_addressx_index_2e61", || {
        let mut list = vec![0x01u8]; // DW_LLE_base_addressx
        uleb(1 << 61, &mut list);
        list.push(0);
        let addrs = [0x11u8; 16];
        let loc_lists = LocationLists::new(DebugLoc::new(&[], LittleEndian), DebugLocLists::new(&list, LittleEndian));
        let debug_addr = DebugAddr::from(EndianSlice::new(&addrs, LittleEndian));
        let mut it = loc_lists.locations(LocationListsOffset(0), enc32, 0, &debug_addr, DebugAddrBase(0)).unwrap();
        format!("{:?}", it.next().map(|x| x.map(|e| e.range)))
    });
    // 3. DebugAddr::get_address directly (DW_FORM_addrx / DW_OP_addrx path): index usize::MAX/4 with 8-byte addresses
    bad |= case("F_lists_1_get_address_index_max_div_4", || {
        let addrs = [0x22u8; 16];
        let debug_addr = DebugAddr::from(EndianSlice::new(&addrs, LittleEndian));
        format!("{:?}", debug_addr.get_address(8, DebugAddrBase(0), DebugAddrIndex(usize::MAX / 4)))
    });
    // 4. DebugStrOffsets::get_str_offset (DW_FORM_strx): 2^62 * 4
    bad |= case("F_lists_1_get_str_offset_index_2e62", || {
        let tab = [0x33u8; 16];
        let so = DebugStrOffsets::from(EndianSlice::new(&tab, LittleEndian));
        format!("{:?}", so.get_str_offset(Format::Dwarf32, DebugStrOffsetsBase(0), DebugStrOffsetsIndex(1usize << 62)))
    });
    // 5. RangeLists::get_offset (DW_FORM_rnglistx): product, then base + entry
    bad |= case("F_lists_1_rnglists_get_offset_index_2e61", || {
        let sec = [0u8; 32];
        let rl = RangeLists::new(DebugRanges::new(&[], LittleEndian), DebugRngLists::new(&sec, LittleEndian));
        format!("{:?}", rl.get_offset(enc64, DebugRngListsBase(0), DebugRngListsIndex(1usize << 61)))
    });
    bad |= case("F_lists_1_rnglists_get_offset_base_plus_entry", || {
        let mut sec = vec![0u8; 8];
        sec.extend_from_slice(&0xffff_ffff_ffff_fffeu64.to_le_bytes()); // offset-table entry 0 (64-bit DWARF)
        let rl = RangeLists::new(DebugRanges::new(&[], LittleEndian), DebugRngLists::new(&sec, LittleEndian));
        format!("{:?}", rl.get_offset(enc64, DebugRngListsBase(8), DebugRngListsIndex(0)))
    });
    // 6. LocationLists::get_offset (DW_FORM_loclistx)
    bad |= case("F_lists_1_loclists_get_offset_index_2e62", || {
        let sec = [0u8; 32];
        let ll = LocationLists::new(DebugLoc::new(&[], LittleEndian), DebugLocLists::new(&sec, LittleEndian));
        format!("{:?}", ll.get_offset(enc32, DebugLocListsBase(0), DebugLocListsIndex(1usize << 62)))
    });
    bad |= case("F_lists_1_loclists_get_offset_base_plus_entry", || {
        let mut sec = vec![0u8; 8];
        sec.extend_from_slice(&0xffff_ffff_ffff_fffeu64.to_le_bytes());
        let ll = LocationLists::new(DebugLoc::new(&[], LittleEndian), DebugLocLists::new(&sec, LittleEndian));
        format!("{:?}", ll.get_offset(enc64, DebugLocListsBase(8), DebugLocListsIndex(0)))
    });
    // control: an in-range lookup works
    case("F_lists_1_control_get_address_index_1", || {
        let mut addrs = vec![0u8; 8];
        addrs.extend_from_slice(&0x1234u64.to_le_bytes());
        let debug_addr = DebugAddr::from(EndianSlice::new(&addrs, LittleEndian));
        format!("{:x?}", debug_addr.get_address(8, DebugAddrBase(0), DebugAddrIndex(1)))
    });
    std::process::exit(if bad { 1 } else { 0 });
}
