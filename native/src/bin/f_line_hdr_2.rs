//! Native reproducer for observation O-line-hdr-2 of vx/batches/line_hdr.py (`FileEntryFormat::parse`,
//! clause [C04:entry-format][C01:entry-format-one-path]).
//!
//! DWARF 5 section 6.2.4, items 9 and 11: "directory_entry_format_count (ubyte) ... If this field is zero, then the
//! directories_count field must also be zero" (and the same for file_name_entry_format_count / file_names_count): a
//! version 5 header with EMPTY directory / file tables is permitted by the text of the standard.  gimli's
//! `FileEntryFormat::parse` returns `Err(MissingFileEntryFormatPath)` unless exactly one descriptor has content type
//! DW_LNCT_path - for every format_count, 0 included - so such a header is rejected as a whole.
//!
//! The check is what makes the two `path_name.unwrap()` in parse_directory_v5 / parse_file_v5 safe (proved in Verus:
//! [C01:path-unwrap]); relaxing it to `format_count != 0 && path_count != 1` re-opens the panic (one of the seeded
//! mutants of the batch: a header with format_count 0 and directories_count 1 then panics).  A fix that accepts the empty
//! tables has to be made in `LineProgramHeader::parse` (accept an empty format only together with a zero entry count).
//! Since the same section of the standard also says that entry 0 of both tables is the compilation directory / primary
//! source file of the unit (so real units always have one entry and one path descriptor), this is reported as an
//! observation, not as a failing obligation.
//!
//! usage: f_line_hdr_2     exit status 1 if the empty-table version 5 header is rejected
use gimli::{DebugLine, DebugLineOffset, LittleEndian};

fn main() {
    // header proper (after header_length): min_inst_len 1, max_ops 1, default_is_stmt 1, line_base -1, line_range 4,
    // opcode_base 13, standard_opcode_lengths[12], directory_entry_format_count 0, directories_count 0,
    // file_name_entry_format_count 0, file_names_count 0
    let mut hdr_rest = vec![1u8, 1, 1, 0xff, 4, 13];
    hdr_rest.extend_from_slice(&[0, 1, 1, 1, 1, 0, 0, 0, 1, 0, 0, 1]);
    hdr_rest.extend_from_slice(&[0, 0, 0, 0]);
    let mut body = vec![5u8, 0, 8, 0]; // version 5, address_size 8, segment_selector_size 0
    body.extend_from_slice(&(hdr_rest.len() as u32).to_le_bytes());
    body.extend_from_slice(&hdr_rest);
    body.extend_from_slice(&[0, 1, 1]); // program: DW_LNE_end_sequence
    let mut sec = (body.len() as u32).to_le_bytes().to_vec();
    sec.extend_from_slice(&body);

    let dl = DebugLine::new(&sec, LittleEndian);
    match dl.program(DebugLineOffset(0), 8, None, None) {
        Ok(p) => {
            println!(
                "accepted: {} directories, {} files",
                p.header().include_directories().len(),
                p.header().file_names().len()
            );
            println!("not reproduced");
        }
        Err(e) => {
            println!("version 5 header with empty directory and file tables: Err({:?})", e);
            println!("O-line-hdr-2 reproduced: DWARF 5 6.2.4 allows format_count == 0 with entry count == 0; gimli rejects it");
            std::process::exit(1);
        }
    }
}
