//! Native reproducer for finding F-index-3 of vx/batches/index.py (clause `[C17:find-zero-id-absent]` of
//! STATUS: fixed in /repo commit 9360055 (`if self.slot_count == 0 || id == 0 { return None; }`); on the fixed tree this prints `ok`.
//!
//! `read::index::UnitIndex::find`).
//!
//! C17: accelerated lookups "each return exactly the entries present".  In a package index an all-zero signature marks an
//! *unused* slot (DWARF 5 7.3.5.3), so the key 0 is never present.  `UnitIndex::find` compares `hash_id == id` before it
//! tests `hash_id == 0`; for `id == 0` the first probed slot of any well-formed table that is unused "matches" and its row
//! field (0) is returned as `Some(0)` instead of `None`.  `DwarfPackage::find_cu(DwoId(0))` then turns this into
//! `Err(InvalidIndexRow(0))` instead of `Ok(None)`.
//!
//! Minimal fix in `find`:   if id == 0 { return None; }     (or test `hash_id == 0` first)
//!
//! usage: f_index_3     prints the results; exit status 1 if find(0) is not None
use gimli::{DebugCuIndex, LittleEndian};

fn main() {
    // version 5 index, 1 column (DW_SECT_INFO), 1 unit, 2 slots; slot 0 unused, slot 1 holds signature 0x1111_2222_3333_4445 -> row 1
    let mut sec = vec![];
    sec.extend_from_slice(&5u16.to_le_bytes());
    sec.extend_from_slice(&0u16.to_le_bytes());
    sec.extend_from_slice(&1u32.to_le_bytes()); // section_count
    sec.extend_from_slice(&1u32.to_le_bytes()); // unit_count
    sec.extend_from_slice(&2u32.to_le_bytes()); // slot_count
    sec.extend_from_slice(&0u64.to_le_bytes());
    sec.extend_from_slice(&0x1111_2222_3333_4445u64.to_le_bytes());
    sec.extend_from_slice(&0u32.to_le_bytes());
    sec.extend_from_slice(&1u32.to_le_bytes());
    sec.extend_from_slice(&1u32.to_le_bytes()); // DW_SECT_INFO
    sec.extend_from_slice(&0x40u32.to_le_bytes()); // offset
    sec.extend_from_slice(&0x80u32.to_le_bytes()); // size
    let index = DebugCuIndex::new(&sec, LittleEndian).index().expect("index");
    let present = index.find(0x1111_2222_3333_4445);
    let absent = index.find(0x1111_2222_3333_4447);
    let zero = index.find(0);
    println!("find(present key) = {present:?}; find(absent key) = {absent:?}; find(0) = {zero:?}");
    if let Some(row) = zero {
        println!("index_find_zero: WRONG find(0) = Some({row}) on a table whose slot 0 is unused; sections({row}) = {:?}", index.sections(row).map(|_| ()));
        std::process::exit(1);
    }
    println!("index_find_zero: ok");
}
