//! Native reproducer for finding F-wlists-3 of vx/batches/wlists.py: the built-in obligations (overflow of `address_size * 8`,
//! underflow of `64 - ..`, shift amount < 64) on
//!     let marker = !0 >> (64 - address_size * 8);
//! in the BaseAddress arm of `RangeListTable::write_ranges` and `LocationListTable::write_loc`.
//!
//! `address_size` is `Unit::encoding().address_size`, a public field the user sets and that nothing validates before the
//! lists are written (the lists are written before the DIEs). Every other path answers an unsupported size with
//! `Err(UnsupportedWordSize(size))` (Writer::write_udata); this expression panics in a debug build instead:
//!   address_size = 0            `!0 >> 64`            "attempt to shift right with overflow"
//!   address_size = 9 ..= 31     `64 - 72`             "attempt to subtract with overflow"
//!   address_size >= 32          `32 * 8` in u8        "attempt to multiply with overflow"
//! (a release build wraps and then fails in write_udata with UnsupportedWordSize, which is the right answer).
//! Minimal fix: validate first, e.g. `if !matches!(address_size, 1 | 2 | 4 | 8) { return Err(Error::UnsupportedWordSize(address_size)); }`
//! at the top of write_ranges / write_loc (or compute the marker with checked operations).
//!
//! usage: f_wlists_3     one line per address size; exit status 1 if any of them panics
use gimli::write::{self, Address, AttributeValue, EndianVec, LineProgram, Range, RangeList, Sections, Unit};
use gimli::{Encoding, Format, LittleEndian};
use std::panic::catch_unwind;
use std::sync::Mutex;

static LAST: Mutex<String> = Mutex::new(String::new());

fn write_with(address_size: u8) -> write::Result<()> {
    let enc = Encoding { format: Format::Dwarf32, version: 4, address_size };
    let mut dwarf = write::Dwarf::new();
    let uid = dwarf.units.add(Unit::new(enc, LineProgram::none()));
    let unit = dwarf.units.get_mut(uid);
    let id = unit.ranges.add(RangeList(vec![
        Range::BaseAddress { address: Address::Constant(0x1000) },
        Range::OffsetPair { begin: 0x10, end: 0x20 },
    ]));
    let root = unit.root();
    unit.get_mut(root).set(gimli::DW_AT_ranges, AttributeValue::RangeListRef(id));
    let mut sections = Sections::new(EndianVec::new(LittleEndian));
    dwarf.write(&mut sections)
}

fn main() {
    std::panic::set_hook(Box::new(|i| {
        *LAST.lock().unwrap() = format!("{}", i).replace('\n', " ");
    }));
    let mut bad = 0;
    for size in [4u8, 8, 3, 0, 9, 16, 32, 255] {
        match catch_unwind(move || write_with(size)) {
            Err(_) => {
                println!("address_size {size}: PANIC {}", LAST.lock().unwrap());
                bad += 1;
            }
            Ok(r) => println!("address_size {size}: {r:?}"),
        }
    }
    if bad > 0 {
        println!("F-wlists-3: {bad} address sizes make Dwarf::write panic (expected Err(UnsupportedWordSize(..)))");
        std::process::exit(1);
    }
    println!("F-wlists-3: ok");
}
