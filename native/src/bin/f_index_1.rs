//! Native reproducer for finding F10 / F-index-1 of vx/batches/index.py (C01 "never ... overflows the stack", carrier
//! STATUS: fixed in /repo commit 67ea7a2 (tail call replaced by `continue` in a loop); on the fixed tree both cases print `ok`.
//!
//! `read::aranges::ArangeEntry::parse`, owners C01/C17).
//!
//! `ArangeEntry::parse` handles a (0, 0) tuple that is not the last one by calling itself (`(0, 0) => Self::parse(input,
//! encoding)`).  Verus accepts the function only with `decreases old(input).rv().len`: the recursion depth is the number of
//! consecutive zero tuples, i.e. proportional to the input.  A `.debug_aranges` set holding 1 MiB of zero tuples (address size
//! 4: 131072 tuples) overflows an ordinary 256 KiB thread stack in a debug build; rustc does not guarantee tail calls, so
//! the release build is safe only by courtesy of the optimiser.  The process is aborted by the stack guard (SIGSEGV /
//! SIGABRT), so the case runs in a child process.
//!
//! Minimal fix: turn the tail recursion into a loop
//!     loop { if tuple_length > input.len() { input.empty(); return Ok(None); }
//!            let begin = ..; let length = ..;
//!            match (begin, length) { (0, 0) => continue, _ => return Ok(Some(ArangeEntry { range, length })) } }
//!
//! usage: f_index_1          prints `aranges_zero_tuples: ABORT <status>` (exit 1) or `aranges_zero_tuples: ok <detail>`
use gimli::{DebugAranges, LittleEndian};
use std::process::Command;

fn section(zero_bytes: usize) -> Vec<u8> {
    // unit_length, version 2, debug_info_offset 0, address_size 4, segment_size 0, 4 bytes padding (header 12 -> 16)
    let mut sec = vec![];
    let len = (2 + 4 + 1 + 1 + 4 + zero_bytes + 8) as u32;
    sec.extend_from_slice(&len.to_le_bytes());
    sec.extend_from_slice(&2u16.to_le_bytes());
    sec.extend_from_slice(&0u32.to_le_bytes());
    sec.push(4);
    sec.push(0);
    sec.extend_from_slice(&[0; 4]);
    sec.extend(std::iter::repeat(0u8).take(zero_bytes));
    // one real tuple after the zero tuples: the iterator has to read through them
    sec.extend_from_slice(&0x1000u32.to_le_bytes());
    sec.extend_from_slice(&0x10u32.to_le_bytes());
    sec
}

fn child(zero_bytes: usize) {
    let sec = section(zero_bytes);
    // an ordinary small thread stack (256 KiB), as used by thread pools; the main-thread default of 8 MiB only moves the limit
    let t = std::thread::Builder::new().stack_size(256 * 1024).spawn(move || {
        let ar = DebugAranges::new(&sec, LittleEndian);
        let mut hs = ar.headers();
        let h = hs.next().unwrap().unwrap();
        let mut es = h.entries();
        format!("{:?}", es.next())
    }).unwrap();
    println!("{}", t.join().unwrap());
}

fn main() {
    let args: Vec<String> = std::env::args().collect();
    if args.len() == 3 && args[1] == "--child" {
        child(args[2].parse().unwrap());
        return;
    }
    let mut failed = false;
    for zero_bytes in [1usize << 10, 1 << 20] {
        let out = Command::new(std::env::current_exe().unwrap()).arg("--child").arg(zero_bytes.to_string()).output().unwrap();
        if out.status.success() {
            println!("aranges_zero_tuples({zero_bytes} bytes): ok {}", String::from_utf8_lossy(&out.stdout).trim());
        } else {
            failed = true;
            let err = String::from_utf8_lossy(&out.stderr);
            println!("aranges_zero_tuples({zero_bytes} bytes): ABORT {:?} {}", out.status, err.lines().find(|l| l.contains("overflow")).unwrap_or("").trim());
        }
    }
    std::process::exit(if failed { 1 } else { 0 });
}
