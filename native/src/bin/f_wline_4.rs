//! F-wline-4 (C13): `LineProgram::set_address` in the middle of a sequence emits DW_LNE_set_address, which sets the
//! reader's op_index register to 0 (DWARF 5 6.2.5.3), but leaves `prev_row.op_index` unchanged.  For VLIW encodings
//! (maximum_operations_per_instruction > 1) the next `generate_row` computes the operation advance relative to the
//! stale op_index, so the row reads back with a different op_index (and possibly address).
//! Verifier: clause [C13:set-address-model-vliw] (WLINE_FINDINGS=1) fails; [C13:set-address-model] is proved for
//! prev_row.op_index == 0.  Minimal fix: `self.prev_row.op_index = 0;` in `set_address` (and in `begin_sequence`).
use gimli::write::{Address, DebugLine, EndianVec, LineProgram, LineString, LineStringTable, StringTable};
use gimli::{Encoding, Format, LineEncoding, LittleEndian};

fn main() {
    let encoding = Encoding { format: Format::Dwarf32, version: 4, address_size: 8 };
    let le = LineEncoding { minimum_instruction_length: 1, maximum_operations_per_instruction: 4, default_is_stmt: true, line_base: -5, line_range: 14 };
    let mut p = LineProgram::new(encoding, le, LineString::String(b"dir".to_vec()), None, LineString::String(b"file".to_vec()), None);
    let dir = p.default_directory();
    let f = p.add_file(LineString::String(b"a.c".to_vec()), dir, None);
    p.begin_sequence(Some(Address::Constant(0x1000)));
    p.row().file = f;
    p.row().op_index = 2;
    p.generate_row(); // (0x1000, op 2)
    p.set_address(Address::Constant(0x2000));
    p.row().op_index = 3;
    p.row().line = 2;
    p.generate_row(); // intended: (0x2000, op 3)
    p.end_sequence(0);
    let mut out = DebugLine::from(EndianVec::new(LittleEndian));
    p.write(&mut out, encoding, &mut LineStringTable::default(), &mut StringTable::default()).unwrap();
    let dl = gimli::read::DebugLine::new(out.slice(), LittleEndian);
    let prog = dl.program(gimli::DebugLineOffset(0), 8, None, None).unwrap();
    let mut rows = prog.rows();
    let mut got = vec![];
    while let Some((_, r)) = rows.next_row().unwrap() {
        got.push((r.address(), r.op_index(), r.end_sequence()));
    }
    println!("generated rows (address, op_index): [(0x1000, 2), (0x2000, 3), end]");
    println!("read back                          : {got:x?}");
    if got.len() < 2 || got[1].0 != 0x2000 || got[1].1 != 3 {
        println!("F-wline-4: WRONG RESULT: the row after set_address reads back with op_index {} instead of 3", got.get(1).map(|r| r.1).unwrap_or(0));
        std::process::exit(1);
    }
    println!("F-wline-4: ok");
}
