//! Native reproducer for finding F-wcfi-1 (= DESIGN F8, zero factor; batch wcfi, property C14):
//! STATUS: FIXED in /repo eada994 (zero factor => Err); this program prints `ok Err(..)` lines and exits 0 from that commit on.
//! `write::cfi::factored_code_delta` computes `delta / factor` and `factored_data_offset` computes `offset / factor`
//! without checking the factor.  `CommonInformationEntry::new(encoding, 0, 0, ra)` is accepted by the public API, so
//! writing an FDE with an instruction at a non-zero code offset (code factor 0) or with any offset-carrying instruction
//! (data factor 0) panics "attempt to divide by zero" instead of returning `InvalidFrameCodeOffset/InvalidFrameDataOffset`
//! ("offsets that cannot be expressed with the alignment factors ... are rejected with an error", C14).
//!
//! Verus obligations that fail on the pinned tree (batch `wcfi`):
//!   write::cfi::factored_code_delta  | possible division by zero   | delta / factor
//!   write::cfi::factored_data_offset | precondition not satisfied  | offset / factor      (vstd DivSpec for i32: rhs != 0 && !(MIN / -1))
//!
//! Minimal fix (keeps the behaviour for every input that worked before):
//!   factored_code_delta:   if factor == 0 { return Err(Error::InvalidFrameCodeOffset(offset)); }
//!   factored_data_offset:  let factored_offset = offset.checked_div(factor).ok_or(Error::InvalidFrameDataOffset(offset))?;
//! With it every clause of both functions verifies ([C14:code-delta-*], [C14:data-offset-*]).
//!
//! usage: cd /verif/native && cargo run -q --bin f_wcfi_1
use gimli::write::{Address, CallFrameInstruction, CommonInformationEntry, DebugFrame, EndianVec, FrameDescriptionEntry, FrameTable};
use gimli::{Encoding, Format, LittleEndian, Register};
use std::panic::catch_unwind;
use std::sync::Mutex;

static LAST: Mutex<String> = Mutex::new(String::new());

fn table(caf: u8, daf: i8, offset: u32, insn: CallFrameInstruction) -> FrameTable {
    let encoding = Encoding { format: Format::Dwarf32, version: 4, address_size: 8 };
    let mut frames = FrameTable::default();
    let cie = frames.add_cie(CommonInformationEntry::new(encoding, caf, daf, Register(16)));
    let mut fde = FrameDescriptionEntry::new(Address::Constant(0x1000), 0x100);
    fde.add_instruction(offset, insn);
    frames.add_fde(cie, fde);
    frames
}

fn run(name: &str, frames: FrameTable) -> bool {
    let r = catch_unwind(move || {
        let mut w = DebugFrame::from(EndianVec::new(LittleEndian));
        frames.write_debug_frame(&mut w)
    });
    match r {
        Ok(res) => {
            println!("{name}: ok {:?}", res.map(|_| ()));
            false
        }
        Err(_) => {
            println!("{name}: PANIC {}", LAST.lock().unwrap());
            true
        }
    }
}

fn main() {
    std::panic::set_hook(Box::new(|i| {
        *LAST.lock().unwrap() = format!("{}", i).replace('\n', " ");
    }));
    let mut bad = false;
    // code alignment factor 0, instruction at code offset 4: delta / 0
    bad |= run("F8_code_factor_zero", table(0, -8, 4, CallFrameInstruction::RememberState));
    // data alignment factor 0, DW_CFA_offset needs offset / 0
    bad |= run("F8_data_factor_zero", table(1, 0, 0, CallFrameInstruction::Offset(Register(6), -16)));
    // control: the same tables with usable factors are written
    bad |= run("control_factors_1_-8", table(1, -8, 4, CallFrameInstruction::Offset(Register(6), -16)));
    std::process::exit(if bad { 1 } else { 0 });
}
