//! Native reproducer for finding F-wcfi-3 (batch wcfi, property C14; part of DESIGN F8 "write_nop align - 1"):
//! STATUS: FIXED in /repo 9595d4a (address size validated => Err(UnsupportedWordSize)); exits 0 from that commit on.
//! `CommonInformationEntry::write` never validates `encoding.address_size` (a public field of `Encoding`) before it
//! passes it to `write_nop(w, len, align)`, which computes `align - 1` and `debug_assert_eq!(align & (align - 1), 0)`.
//!   address_size = 0: `align - 1` panics "attempt to subtract with overflow" (debug) / pads with (usize::MAX & ..) nops (release)
//!   address_size = 3: the debug assertion panics; in a release build the entry is padded to a wrong multiple
//! instead of `Err(Error::UnsupportedWordSize(address_size))`.  (With version 4 the invalid size is even written into the CIE.)
//!
//! Verus obligations that fail on the pinned tree (batch `wcfi`), all in write::cfi::CommonInformationEntry::write:
//!   precondition not satisfied | write_nop(..)                       | [C14:nop-align]
//!   postcondition not satisfied | res is Ok ==> valid_address_size(..) | [C14:cie-address-size]
//!   precondition not satisfied | verif_assert(augmentation_length < 0x80)   (an absptr personality pointer is address_size bytes)
//!   postcondition not satisfied | [C14:cie-pad]  (also fails for F-wcfi-4)
//! Minimal fix, at the top of CommonInformationEntry::write:
//!     match encoding.address_size { 1 | 2 | 4 | 8 => {} _ => return Err(Error::UnsupportedWordSize(encoding.address_size)) }
//! (FrameDescriptionEntry::write is only reached after its CIE was written, so it needs no check of its own.)
//!
//! usage: cd /verif/native && cargo run -q --bin f_wcfi_3
use gimli::write::{Address, CommonInformationEntry, DebugFrame, EndianVec, FrameDescriptionEntry, FrameTable};
use gimli::{Encoding, Format, LittleEndian, Register};
use std::panic::catch_unwind;
use std::sync::Mutex;

static LAST: Mutex<String> = Mutex::new(String::new());

fn run(name: &str, address_size: u8) -> bool {
    let r = catch_unwind(move || {
        let encoding = Encoding { format: Format::Dwarf32, version: 1, address_size };
        let mut frames = FrameTable::default();
        let cie = frames.add_cie(CommonInformationEntry::new(encoding, 1, -8, Register(16)));
        frames.add_fde(cie, FrameDescriptionEntry::new(Address::Constant(0x1000), 0x10));
        let mut w = DebugFrame::from(EndianVec::new(LittleEndian));
        frames.write_debug_frame(&mut w)
    });
    match r {
        Ok(res) => {
            println!("{name}: ok {:?}", res.map(|_| ()));
            false
        }
        Err(_) => {
            println!("{name}: PANIC {}", LAST.lock().unwrap());
            true
        }
    }
}

fn main() {
    std::panic::set_hook(Box::new(|i| {
        *LAST.lock().unwrap() = format!("{}", i).replace('\n', " ");
    }));
    let mut bad = false;
    bad |= run("F_wcfi_3_address_size_0", 0);
    bad |= run("F_wcfi_3_address_size_3", 3);
    bad |= run("control_address_size_8", 8);
    std::process::exit(if bad { 1 } else { 0 });
}
