//! Finding conv/5 (C12; DESIGN F11): `write::ConvertLineProgram::read_row` (write/line.rs, mod convert) replays every
//! `DW_LNE_set_address` into its reader-side row as `SetAddress(0)` ("so that all addresses are offsets").  The reader's
//! own rule in `read::LineRow::execute` treats an address that is *lower than the current one* inside a sequence as a
//! tombstone.  So after any advance in a sequence (row address > 0) a mid-sequence `set_address` puts `from_row` into the
//! reader's tombstone state while the converter's own `tombstone` flag stays false; from then on `from_row` ignores
//! `advance_pc` / special-opcode address advances, and the rows the converter emits keep the address offset 0.
//! Broken invariant (the loop invariant of `read_row` one would state for C12): "`self.from_row` is in the reader's
//! tombstone state  ==>  the converter's `tombstone` flag is set", it is falsified by the statement
//! `self.from_row.execute(read::LineInstruction::SetAddress(0), &mut self.from_program)?` whenever `from_row.address() > 0`.
//! Effect through the public API: `convert` returns Ok, `LineProgram::write` succeeds, and the written program's rows
//! end at 0x2000 where the input's rows end at 0x2004 (advances after the second set_address are dropped) - silent alteration.
//! Not decided by the Verus batch (read_row needs models of the whole reader-side line state machine); native only.
//! Possible repair (design decision): `self.from_row.reset(header)`-style re-initialisation of the address to 0 that
//! bypasses the tombstone heuristic (e.g. a dedicated `LineRow::set_address_offset_base()`), or tracking the base
//! address in the converter and executing the real `SetAddress(val)` followed by subtracting the base when emitting rows.
use gimli::*;
fn uleb(mut v: u64, out: &mut Vec<u8>) { loop { let mut x = (v & 0x7f) as u8; v >>= 7; if v != 0 { x |= 0x80; } out.push(x); if v == 0 { break; } } }
fn rows(sec: &[u8]) -> Vec<(u64, u64, bool)> {
    let dl = DebugLine::new(sec, LittleEndian);
    let p = dl.program(DebugLineOffset(0), 8, None, None).unwrap();
    let mut rows = p.rows();
    let mut out = vec![];
    while let Some((_, r)) = rows.next_row().unwrap() { out.push((r.address(), r.line().map(|l| l.get()).unwrap_or(0), r.end_sequence())); }
    out
}
fn main() {
    // v4 program: set_address 0x1000; copy; advance_pc 4; advance_line +1; copy; set_address 0x2000 (mid-sequence); advance_line +1; copy; advance_pc 4; end_sequence
    let mut prog = vec![];
    let set_addr = |a: u64, p: &mut Vec<u8>| { p.push(0); p.push(9); p.push(2); p.extend_from_slice(&a.to_le_bytes()); };
    set_addr(0x1000, &mut prog);
    prog.push(1);
    prog.push(2); uleb(4, &mut prog);
    prog.push(3); prog.push(1);
    prog.push(1);
    set_addr(0x2000, &mut prog);
    prog.push(3); prog.push(1);
    prog.push(1);
    prog.push(2); uleb(4, &mut prog);
    prog.extend_from_slice(&[0, 1, 1]);
    let mut hdr_rest = vec![1u8, 1, 1, 0xfb, 14, 13];
    hdr_rest.extend_from_slice(&[0,1,1,1,1,0,0,0,1,0,0,1]);
    hdr_rest.extend_from_slice(b"dir\0"); hdr_rest.push(0);
    hdr_rest.extend_from_slice(b"a.c\0"); hdr_rest.extend_from_slice(&[1, 0, 0]); hdr_rest.push(0);
    let mut body = vec![]; body.extend_from_slice(&4u16.to_le_bytes()); body.extend_from_slice(&(hdr_rest.len() as u32).to_le_bytes()); body.extend_from_slice(&hdr_rest); body.extend_from_slice(&prog);
    let mut sec = vec![]; sec.extend_from_slice(&(body.len() as u32).to_le_bytes()); sec.extend_from_slice(&body);
    let before = rows(&sec);
    println!("f_conv_5: input rows  (address, line, end_sequence): {:x?}", before);

    let load = |id: SectionId| -> core::result::Result<EndianSlice<'_, LittleEndian>, gimli::Error> {
        Ok(EndianSlice::new(match id { SectionId::DebugLine => &sec[..], _ => &[] }, LittleEndian))
    };
    let rd = Dwarf::load(load).unwrap();
    let program = rd.debug_line.program(DebugLineOffset(0), 8, None, None).unwrap();
    let mut wd = gimli::write::Dwarf::new();
    let conv = wd.read_line_program(&rd, program, None, None).unwrap();
    let (lp, _files) = conv.convert(&|a| Some(gimli::write::Address::Constant(a))).unwrap();
    let mut out = gimli::write::DebugLine::from(gimli::write::EndianVec::new(LittleEndian));
    let mut ls = gimli::write::LineStringTable::default();
    let mut st = gimli::write::StringTable::default();
    let enc = Encoding { format: Format::Dwarf32, version: 4, address_size: 8 };
    lp.write(&mut out, enc, &mut ls, &mut st).unwrap();
    let after = rows(out.slice());
    println!("f_conv_5: output rows (address, line, end_sequence): {:x?}", after);
    if before != after { println!("f_conv_5: DEFECT: converted line program has different rows (advances after a mid-sequence set_address dropped)"); std::process::exit(1) }
}
