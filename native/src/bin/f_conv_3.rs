//! Finding conv/3 (C12; DESIGN F7): `write::CallFrameInstruction::from` (write/cfi.rs, mod convert; the code carries
//! `// TODO: validate integer type conversions`) narrows decoded operands with `as i32` / `as u32`:
//!   DW_CFA_def_cfa r7, 0x1_0000_0008          -> Cfa(r7, 8)                 [C12:cfi-def-cfa]
//!   DW_CFA_def_cfa_offset 0x8000_0000         -> CfaOffset(-0x8000_0000)    [C12:cfi-def-cfa-offset]
//!   DW_CFA_offset r1, factored 0x4000_0001 (daf 4: byte offset 0x1_0000_0004) -> Offset(r1, 4)   [C12:cfi-offset]
//!   DW_CFA_val_offset r2, factored 0x4000_0001 -> ValOffset(r2, 4)          [C12:cfi-val-offset]
//!   DW_CFA_def_cfa_sf r7, factored 0x4000_0001 -> Cfa(r7, 4)                [C12:cfi-def-cfa-sf]  (same for
//!       def_cfa_offset_sf / offset_extended_sf / val_offset_sf: [C12:cfi-def-cfa-offset-sf], [C12:cfi-offset-extended-sf], [C12:cfi-val-offset-sf])
//!   DW_CFA_GNU_args_size 0x1_0000_0004        -> ArgsSize(4)                [C12:cfi-args-size]
//! `FrameTable::from` returns Ok, the table writes without error, and the instructions read back from the written
//! section denote different CFA / register rules than the input (silent alteration of unwind rows).
//! Possible repairs (API decision): `i32::try_from(..)` / `u32::try_from(..)` + a ConvertError, or wider write-side operands.
use gimli::{write, BaseAddresses, CallFrameInstruction as I, DebugFrame, LittleEndian, UnwindSection};

fn uleb(mut v: u64, out: &mut Vec<u8>) { loop { let b = (v & 0x7f) as u8; v >>= 7; if v == 0 { out.push(b); break } out.push(b | 0x80) } }
fn sleb(mut v: i64, out: &mut Vec<u8>) { loop { let b = (v & 0x7f) as u8; v >>= 7; let done = (v == 0 && b & 0x40 == 0) || (v == -1 && b & 0x40 != 0); if done { out.push(b); break } out.push(b | 0x80) } }

fn section(daf: i64, insns: &[u8]) -> Vec<u8> {
    let mut cie = vec![]; cie.extend_from_slice(&0xffff_ffffu32.to_le_bytes()); cie.push(1); cie.push(0);
    cie.push(1); sleb(daf, &mut cie); cie.push(16);
    while (cie.len() + 4) % 8 != 0 { cie.push(0) }
    let mut sec = vec![]; sec.extend_from_slice(&(cie.len() as u32).to_le_bytes()); sec.extend_from_slice(&cie);
    let mut fde = vec![]; fde.extend_from_slice(&0u32.to_le_bytes()); fde.extend_from_slice(&0x1000u64.to_le_bytes()); fde.extend_from_slice(&0x100u64.to_le_bytes());
    fde.extend_from_slice(insns);
    while (fde.len() + 4) % 8 != 0 { fde.push(0) }
    sec.extend_from_slice(&(fde.len() as u32).to_le_bytes()); sec.extend_from_slice(&fde);
    sec
}

/// the FDE's instructions as (kind, register, *unfactored* offset)
fn meaning(sec: &[u8]) -> Vec<String> {
    let mut df = DebugFrame::new(sec, LittleEndian); df.set_address_size(8);
    let bases = BaseAddresses::default();
    let mut it = df.entries(&bases);
    let mut out = vec![];
    while let Some(e) = it.next().unwrap() {
        if let gimli::CieOrFde::Fde(p) = e {
            let f = p.parse(DebugFrame::cie_from_offset).unwrap();
            let daf = f.cie().data_alignment_factor() as i128;
            let mut ii = f.instructions(&df, &bases);
            while let Some(i) = ii.next().unwrap() {
                out.push(match i {
                    I::DefCfa { register, offset } => format!("def_cfa r{} {:#x}", register.0, offset as i128),
                    I::DefCfaSf { register, factored_offset } => format!("def_cfa r{} {:#x}", register.0, factored_offset as i128 * daf),
                    I::DefCfaOffset { offset } => format!("def_cfa_offset {:#x}", offset as i128),
                    I::DefCfaOffsetSf { factored_offset } => format!("def_cfa_offset {:#x}", factored_offset as i128 * daf),
                    I::Offset { register, factored_offset } => format!("offset r{} {:#x}", register.0, factored_offset as i128 * daf),
                    I::OffsetExtendedSf { register, factored_offset } => format!("offset r{} {:#x}", register.0, factored_offset as i128 * daf),
                    I::ValOffset { register, factored_offset } => format!("val_offset r{} {:#x}", register.0, factored_offset as i128 * daf),
                    I::ValOffsetSf { register, factored_offset } => format!("val_offset r{} {:#x}", register.0, factored_offset as i128 * daf),
                    I::ArgsSize { size } => format!("args_size {:#x}", size),
                    I::Nop => continue,
                    other => format!("{:?}", other),
                });
            }
        }
    }
    out
}

fn main() {
    let mut insns = vec![];
    insns.push(0x0c); uleb(7, &mut insns); uleb(0x1_0000_0008, &mut insns);      // def_cfa r7, 0x1_0000_0008
    insns.push(0x0e); uleb(0x8000_0000, &mut insns);                             // def_cfa_offset 0x8000_0000
    insns.push(0x81); uleb(0x4000_0001, &mut insns);                             // offset r1, factored
    insns.push(0x14); uleb(2, &mut insns); uleb(0x4000_0001, &mut insns);        // val_offset r2, factored
    insns.push(0x12); uleb(7, &mut insns); sleb(0x4000_0001, &mut insns);        // def_cfa_sf r7, factored
    insns.push(0x2e); uleb(0x1_0000_0004, &mut insns);                           // GNU_args_size
    let sec = section(4, &insns);
    let before = meaning(&sec);
    let mut df = DebugFrame::new(&sec, LittleEndian); df.set_address_size(8);
    let table = write::FrameTable::from(&df, &|a| Some(write::Address::Constant(a)));
    println!("f_conv_3: FrameTable::from -> {}", if table.is_ok() { "Ok" } else { "Err" });
    let Ok(table) = table else { std::process::exit(0) };
    let mut out = write::DebugFrame::from(write::EndianVec::new(LittleEndian));
    let w = table.write_debug_frame(&mut out);
    println!("f_conv_3: write_debug_frame -> {:?}", w);
    if w.is_err() { std::process::exit(0) }
    let after = meaning(out.0.slice());
    let mut bad = false;
    for (a, b) in before.iter().zip(after.iter()) {
        println!("  input: {:<34} converted: {:<34}{}", a, b, if a != b { "  <-- DIFFERS" } else { "" });
        bad |= a != b;
    }
    if before.len() != after.len() { println!("  instruction count {} -> {}", before.len(), after.len()); bad = true }
    if bad { println!("f_conv_3: DEFECT: call frame instructions silently altered by narrowing casts"); std::process::exit(1) }
}
