//! Native reproducer for finding F-line-2 of vx/batches/line.py (clauses [C04:advance] / [C04:advance-checked] on
//! `LineRow::apply_operation_advance`).
//!
//! DWARF 5 6.2.5.1:  address += min_inst_len * ((op_index + operation advance) / max_ops),
//!                   op_index = (op_index + operation advance) % max_ops;
//! gimli's documented deviation: an address that does not fit the address size is `Error::AddressOverflow`.
//! The code computes `op_index + operation_advance` and `min_inst_len * (..)` in `Wrapping<u64>` and only checks the final
//! `address.add_sized(..)`.  When the sum or the product exceeds 2^64 they wrap silently and gimli reports a row with a
//! *small, wrong* address (no error, no panic):
//!   mul_wrap: min_inst_len = 2, DW_LNS_advance_pc(2^63 + 1): machine address 2^64 + 2 (> any address size -> must be
//!             AddressOverflow); gimli: row at address 2.
//!   add_wrap: max_ops = 255, op_index = 254, DW_LNS_advance_pc(2^64 - 1): machine address 72340172838076673 and
//!             op_index 254 (fits an 8-byte address); gimli: address 0, op_index 253.
//!
//! Minimal fix (apply_operation_advance): do the two steps in checked/wide arithmetic, e.g.
//!   let t = u128::from(self.op_index.0) + u128::from(operation_advance);
//!   let adv = u128::from(min_inst_len) * (t / u128::from(max_ops));
//!   let adv = u64::try_from(adv).map_err(|_| Error::AddressOverflow)?;   self.op_index.0 = (t % max_ops) as u64;
//!
//! usage: f_line_2     prints one line per case; exit status 1 if any case deviates from the DWARF machine
use gimli::{DebugLine, DebugLineOffset, LittleEndian};

fn uleb(mut v: u64, out: &mut Vec<u8>) {
    loop {
        let b = (v & 0x7f) as u8;
        v >>= 7;
        if v == 0 {
            out.push(b);
            return;
        }
        out.push(b | 0x80);
    }
}

fn section(min_inst_len: u8, max_ops: u8, program: &[u8]) -> Vec<u8> {
    let mut hdr_rest = vec![min_inst_len, max_ops, 1, 0xff, 4, 13];
    hdr_rest.extend_from_slice(&[0, 1, 1, 1, 1, 0, 0, 0, 1, 0, 0, 1]);
    hdr_rest.push(0);
    hdr_rest.push(0);
    let mut body = vec![4u8, 0];
    body.extend_from_slice(&(hdr_rest.len() as u32).to_le_bytes());
    body.extend_from_slice(&hdr_rest);
    body.extend_from_slice(program);
    let mut out = (body.len() as u32).to_le_bytes().to_vec();
    out.extend_from_slice(&body);
    out
}

/// first row of the program: Ok((address, op_index)) or Err(text)
fn first_row(sec: &[u8], address_size: u8) -> Result<(u64, u64), String> {
    let dl = DebugLine::new(sec, LittleEndian);
    let prog = dl.program(DebugLineOffset(0), address_size, None, None).map_err(|e| format!("header {e:?}"))?;
    let mut rows = prog.rows();
    match rows.next_row() {
        Ok(Some((_, row))) => Ok((row.address(), row.op_index())),
        Ok(None) => Err("no row".into()),
        Err(e) => Err(format!("{e:?}")),
    }
}

fn main() {
    let mut bad = false;
    // mul_wrap
    let mut p = vec![0x02];
    uleb((1u64 << 63) + 1, &mut p);
    p.push(0x01);
    for size in [4u8, 8] {
        let got = first_row(&section(2, 1, &p), size);
        let ok = matches!(&got, Err(e) if e == "AddressOverflow");
        println!("mul_wrap(address_size={size}): expected Err(AddressOverflow), got {got:?} {}", if ok { "ok" } else { "WRONG" });
        bad |= !ok;
    }
    // add_wrap
    let mut p = vec![0x02];
    uleb(254, &mut p);
    p.push(0x02);
    uleb(u64::MAX, &mut p);
    p.push(0x01);
    let got = first_row(&section(1, 255, &p), 8);
    let t = 254u128 + u64::MAX as u128;
    let want = ((t / 255) as u64, (t % 255) as u64);
    let ok = got == Ok(want);
    println!("add_wrap(address_size=8): expected Ok({want:?}), got {got:?} {}", if ok { "ok" } else { "WRONG" });
    bad |= !ok;
    std::process::exit(if bad { 1 } else { 0 });
}
