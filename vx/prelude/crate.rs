// ---- crate-level prelude (trusted; DESIGN.md 3.1.3)
pub fn verif_assert(b: bool) requires b {}

#[verifier::external_body]
pub fn verif_unreachable() -> ! requires false { panic!() }

pub assume_specification<T, E, U, F: FnOnce(T) -> core::result::Result<U, E>>[core::result::Result::<T,E>::and_then](r: core::result::Result<T,E>, op: F) -> (res: core::result::Result<U,E>)
  requires r is Ok ==> op.requires((r->Ok_0,)),
  ensures match r { Ok(v) => op.ensures((v,), res), Err(e) => res == Err::<U,E>(e) };

// std functions without a vstd specification (each listed in core.TRUSTED)
pub assume_specification[i64::unsigned_abs](x: i64) -> (r: u64)
  ensures r as int == (if x < 0 { -(x as int) } else { x as int });
