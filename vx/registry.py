"""Wiring: property -> Verus batches, Kani harness groups, not-decided text (DESIGN.md 6.21)."""
import json
import os

ROOT = os.path.dirname(os.path.dirname(os.path.abspath(__file__)))

ASSUMPTIONS = [
    'A-TOOLS: soundness of Verus 0.2026.09.13/Z3, Kani 0.68/CBMC 6.11, rustc front ends',
    'A-EXTRACT: the extractor cuts items by brace matching on comment-stripped text and applies only the logged rewrite rules '
    '(R-ATTR, R-CFG, R-ASSERT strengthens, R-OFFSET/R-GLOBAL restrict, R-CLOSURE, R-LETCHAIN, R-DROP, R-REQUIRED, R-DELEGATE, R-EQ, '
    'R-EXTBODY, R-STUB, R-REJREC, R-DW); checked per run: generated text minus sentinel-delimited insertions == rewritten source text',
    'A-OFFSET: proofs are for Reader::Offset = usize; A-USIZE: 64-bit usize; A-CFG: default feature set, little-endian host',
    'A-READER: third-party Reader/Writer implementations satisfy the trait contracts; proofs cover generic code against the '
    'contracts plus EndianSlice (Verus) and EndianSlice/EndianReader<Rc<[u8]>> (Kani)',
    'A-DEPS: alloc/core/hashbrown/indexmap/fnv/stable_deref_trait behave as documented; vstd specs for Vec, slices, Option, Result',
    'machine integers are NOT treated as mathematical: exec arithmetic is checked at its Rust width; spec functions use int/nat',
    'termination is claimed only under Verus decreases clauses, never from Kani',
]
ASSUMPTIONS_TCB = [
    'vx/prelude/*.rs models (verif_assert, verif_unreachable, Result::and_then specification)',
    'vx/specs/*.rs spec functions are the oracle (written from the DWARF 5 standard); lemmas in them are proved, not assumed',
]

PROPS = {}
# verus fn label -> kani harness that searches for a concrete failing input of the same obligation (the harness states the same
# clause on the real crate; if it fails too, its counterexample is replayed natively and attached to the VIOLATION)
TWINS = {
    'read::reader::Reader::read_initial_length': 'k_prim_slice_initial_length',
    'read::reader::Reader::read_address': 'k_prim_slice_sized',
    'read::reader::Reader::read_sized_offset': 'k_prim_slice_sized',
    'read::reader::Reader::read_word': 'k_prim_slice_word',
    'read::reader::Reader::read_offset': 'k_prim_slice_word',
    'read::reader::Reader::read_length': 'k_prim_slice_word',
    'leb128::read::unsigned': 'k_leb_uleb_decode_spec',
    'leb128::read::signed': 'k_leb_sleb_decode_spec',
    'leb128::read::u16': 'k_leb_u16_decode_spec',
    'leb128::read::skip': 'k_leb_skip_spec_b12',
    'read::cfi::EhHdrTable::lookup': 'k_ehhdr_lookup_scan_le3',
}

# batches that are wired into checks (a batch under construction is simply not listed here yet)
READY = ['core', 'eslice', 'op_eval', 'cfi_lookup', 'cfi_uctx', 'cfi_uctx_link', 'line_hdr', 'attrs', 'units', 'dwarf_ranges', 'index', 'relocate',
         'conv', 'filter', 'wcore', 'wreloc', 'wop', 'wlists', 'wunit', 'wunit_layout', 'wcfi', 'wline', 'wline_insn', 'leb', 'macros', 'names', 'bases', 'wabbrev', 'filter_reserve', 'wline_prog', 'conv_attrs', 'conv_expr', 'wlists_add', 'wunit_tree', 'dwp', 'wunit_table', 'conv_line', 'wcfi_table']
# batch -> batches whose items it re-verifies completely (so the smaller one need not run as well)
SUPERSEDES = {'wline_prog': ['wline_insn'], 'op_eval': ['op'], 'dwarf_ranges': ['lists'], 'cfi_uctx_link': ['cfi_unwind'], 'line_hdr': ['line'], 'cfi_lookup': ['cfi_entries']}
# tags that only quote another property's vocabulary inside a batch (not obligations of that property)
IGNORE = {('line_hdr', 'C03'), ('wline', 'C12'), ('filter', 'C01'), ('filter', 'C07'), ('wunit', 'C03'), ('wunit', 'C15'), ('conv', 'C05'), ('index', 'C09'), ('macros', 'C10'), ('names', 'C10'), ('wunit_layout', 'C16'), ('bases', 'C10'), ('wabbrev', 'C02'), ('filter_reserve', 'C02'), ('conv_attrs', 'C19'), ('conv_expr', 'C07'), ('dwp', 'C10'), ('wunit_table', 'C15'), ('conv_line', 'C04'), ('conv_line', 'C10'), ('conv_line', 'C20'), ('conv_line', 'C03'), ('conv_line', 'C09')}

ND = {
    'C01': 'entry points not extracted (MacroString::string, Dwarf/DwarfSections loaders, DwarfPackage::load, ConvertUnit::convert*), stack depth '
           '(Verus models an unbounded stack), EndianReader over user buffer types, wall-clock time; see DESIGN.md 6 C01 and 11.',
    'C02': 'whole-forest equality of the five traversal styles as a statement about sequences (only the step contracts are decided); '
           'validity of DW_AT_sibling targets is an input well-formedness assumption; llvm-dwarfdump agreement.',
    'C03': 'skip == read only in the direction skip Ok => same consumption; error kinds of primitive failures; llvm-dwarfdump agreement.',
    'C04': 'rows equal the iterated line_step as a whole-sequence statement (per-instruction contracts + invariants are decided); '
           'llvm-dwarfdump agreement.',
    'C05': 'agreement of the three lookup paths with an exhaustive scan as a whole-section statement; readelf agreement.',
    'C06': 'next_row equals iterated cfa_step over the decoded stream (needs a spec-level decoder); readelf agreement; '
           'RegisterRuleMap capacities beyond the model.',
    'C07': 'whole-program equality with a reference interpreter for arbitrary-length programs (follows from the step contracts by '
           'induction, not mechanised); totality of steps whose operands are LEB128/address/offset/block sized.',
    'C08': 'unit_ranges (needs the DIE cursor end to end); die_ranges single-range tombstone filtering is not part of the statement.',
    'C09': 'u128/f32/f64 writers are not in the API; the LEB128 contract of the delegating Reader trait methods is proved for the default '
           'bodies (batch leb, over the read_u8 contract) but remains an assumption for a user reader that overrides them.',
    'C10': 'EndianReader over arbitrary user buffer types (CloneStableDeref is the user\'s contract); AddressSanitizer-style whole-run '
           'checks; positional clauses of EndianSlice are discharged by Kani on bounded buffers only.',
    'C11': 'the head of UnitTable::write (unit loop; its fix-up tail is decided in batch wunit_table), DebuggingInformationEntry::{set, delete, delete_child, get} (closures: assumed contracts), Unit::new, AbbreviationTable::add de-duplication, StringTable, LineStringTable (IndexSet/IndexMap), Dwarf::write section order, and the end-to-end '
           'statement "reads back as the same forest": only the size model and per-kind emission are decided.',
    'C12': 'ConvertUnit::{convert, convert_attributes, read_entry, add_entry} (that every attribute is fed through convert_attribute_value, decided in batch conv_attrs, and stored under the same name), the two loops of Expression::from (operation order, the offsets table; the per-operation match is decided in batch conv_expr), ConvertLineProgram::{new, convert_row, convert_file, read_sequence, convert} (the tombstone / pending-address discipline is decided in batch conv_line; the content of a converted Row and finding F11 are not), idempotence '
           'of a second conversion, corpus round trips.',
    'C13': 'LineProgram::write header/tables/FileInfo emission and the two length patches (closure + IndexMap; only a syntactic check that they use the program\'s own encoding), add_file/add_directory identity (IndexMap).',
    'C14': 'that the derived Eq/Hash of CommonInformationEntry is field-wise equality (CIE de-duplication is decided in batch wcfi_table over a model of IndexSet::insert_full), FrameTable::default, the partial section after an Err, whole-table round trip.',
    'C15': 'Expression::write body (iterator adapters: assumed contract), evaluation equivalence (follows from decode equality).',
    'C16': 'RangeListTable::get / LocationListTable::get (IndexSet indexing; add is decided in batch wlists_add over a model of IndexSet::insert_full), end-to-end attr_ranges round trip.',
    'C17': 'NameBucketIter/NameHashIter beyond batch index, case_folding_djb_hash, name_string, DwarfPackage::load/from_sections and loader wiring (closures; the assembly DwarfPackage::{sections, cu_sections, tu_sections, find_cu, find_tu} and Section::dwp_range are decided in batch dwp), distinctness of a row\'s section identifiers (an input property), dwp corpus.',
    'C18': 'that no parser/writer outside the extracted set uses a plain integer primitive for a relocatable field; the '
           'event-to-lowered refinement argument of the relocating writer is stated, not mechanised.',
    'C19': 'FilterUnit::read_entry parent stack, the unfiltered ConvertUnitSection::new and the split-unit path, that FilterUnitSection establishes the section well-formedness new_with_filter requires, ConvertUnit::{read_entry, add_entry}, '
           '"writing never fails for a missing reference", attribute equality with the unfiltered conversion.',
    'C20': 'AbbreviationsCache (sort/dedup/retain closures, Arc, BTreeMap); "iterators are plain Clone values" is a type-system fact.',
}


def _discover():
    import re
    bdir = os.path.join(ROOT, 'vx', 'batches')
    superseded = set(x for b in READY for x in SUPERSEDES.get(b, []))
    for b in READY:
        if b in superseded:
            continue
        t = open(os.path.join(bdir, b + '.py')).read()
        for imp in SUPERSEDES.get(b, []):
            t += open(os.path.join(bdir, imp + '.py')).read()
        props = set(re.findall(r'\[(C\d\d):', t))
        for line in t.splitlines():
            if 'own' in line.lower():
                props |= set(re.findall(r"'(C\d\d)'", line))
        for p in sorted(props):
            if (b, p) in IGNORE:
                continue
            PROPS.setdefault(p, {'batches': [], 'nd': ND.get(p, '')})['batches'].append(b)


def kani_for(pid, tier):
    hs = json.load(open(os.path.join(ROOT, 'kani', 'harnesses.json')))['harnesses']
    out = []
    for h in hs:
        if h.get('disabled'):
            continue
        if pid in h['props'] and (tier == 'thorough' or h.get('tier', 'quick') == 'quick' and pid in h.get('quick_for', h['props'])):
            out.append(h)
    return out


_discover()
