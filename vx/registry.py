"""Wiring: property -> Verus batches, Kani harness groups, not-decided text (DESIGN.md 6.21)."""
import json
import os

ROOT = os.path.dirname(os.path.dirname(os.path.abspath(__file__)))

ASSUMPTIONS = [
    'A-TOOLS: soundness of Verus 0.2026.09.13/Z3, Kani 0.68/CBMC 6.11, rustc front ends',
    'A-EXTRACT: the extractor cuts items by brace matching on comment-stripped text and applies only the logged rewrite rules '
    '(R-ATTR, R-CFG, R-ASSERT strengthens, R-OFFSET/R-GLOBAL restrict, R-CLOSURE, R-LETCHAIN, R-DROP, R-REQUIRED, R-DELEGATE, R-EQ, '
    'R-EXTBODY, R-STUB, R-REJREC, R-DW); checked per run: generated text minus sentinel-delimited insertions == rewritten source text',
    'A-OFFSET: proofs are for Reader::Offset = usize; A-USIZE: 64-bit usize; A-CFG: default feature set, little-endian host',
    'A-READER: third-party Reader/Writer implementations satisfy the trait contracts; proofs cover generic code against the '
    'contracts plus EndianSlice (Verus) and EndianSlice/EndianReader<Rc<[u8]>> (Kani)',
    'A-DEPS: alloc/core/hashbrown/indexmap/fnv/stable_deref_trait behave as documented; vstd specs for Vec, slices, Option, Result',
    'machine integers are NOT treated as mathematical: exec arithmetic is checked at its Rust width; spec functions use int/nat',
    'termination is claimed only under Verus decreases clauses, never from Kani',
]
ASSUMPTIONS_TCB = [
    'vx/prelude/*.rs models (verif_assert, verif_unreachable, Result::and_then specification)',
    'vx/specs/*.rs spec functions are the oracle (written from the DWARF 5 standard); lemmas in them are proved, not assumed',
]

PROPS = {}
TWINS = {}     # verus fn label -> kani harness that searches for a concrete failing input of the same obligation


def prop(pid, batches, nd=''):
    PROPS[pid] = {'batches': batches, 'nd': nd}


def kani_for(pid, tier):
    hs = json.load(open(os.path.join(ROOT, 'kani', 'harnesses.json')))['harnesses']
    out = []
    for h in hs:
        if pid in h['props'] and (tier == 'thorough' or h.get('tier', 'quick') == 'quick' and pid in h.get('quick_for', h['props'])):
            out.append(h)
    return out


prop('C09', ['core', 'eslice'],
     nd='u128/f32/f64 writers are not in the API. LEB128 functional value is proved by Kani on EndianSlice (complete) and assumed as the '
        'contract of the R-DELEGATE trait methods in Verus; the generic leb128::read::* bodies are proved in Verus for safety, '
        'termination, progress and frame only.')

prop('C07', ['op'],
     nd='whole-program equality with a reference interpreter for arbitrary-length programs (follows from the step contracts by '
        'induction, not mechanised); nested call/entry-value evaluation is the caller\'s loop.')
prop('C01', ['core', 'eslice', 'op'],
     nd='entry points not extracted are listed in DESIGN.md 6 C01; stack depth is outside Verus (unbounded stack model).')

prop('C10', ['core', 'eslice', 'op'],
     nd='EndianReader over arbitrary user buffer types (the CloneStableDeref safety contract is the user\'s); AddressSanitizer-style '
        'whole-run checks; positional clauses of EndianSlice are discharged by Kani on bounded buffers only.')

prop('C05', ['cfi_entries'],
     nd='agreement of the three lookup paths with an exhaustive scan (needs an iterator-as-sequence spec of the whole section); '
        'UnwindSection::{fde_for_address, unwind_info_for_address} (trait default methods calling generic functions bounded by the '
        'same trait: rejected by Verus as a cycle); readelf agreement.')
