#!/usr/bin/env python3
"""Verus extraction library (DESIGN.md 3.1).

Everything here is syntactic.  Source text is taken from $GIMLI_REPO/src (default /repo/src)
on every call; nothing is cached across processes.

Pipeline for one item:
   source file --strip comments, evaluate #[cfg]--> stripped text
   Item(src, header)            : cut by brace matching                      (orig)
   .drop/.required/.extbody/... : per-method directives (R-DROP, R-REQUIRED, R-EXTBODY) - logged by name
   .clean()                     : rewrite rules R-ATTR, R-ASSERT, R-CLOSURE, R-LETCHAIN, R-OFFSET (counted)
   .splice/.insert_*            : contract text is only ever *inserted*, wrapped in /*+*/ ... /*-*/ sentinels
   provenance check             : final text with the sentinel regions removed == text after .clean()
"""
import os
import re
import sys

REPO = os.environ.get("GIMLI_REPO", "/repo")
SRC = REPO + "/src/"
FEATURES = {"read-core", "read", "write", "std", "endian-reader"}
INS_O, INS_C = "/*+*/", "/*-*/"


class Lost(Exception):
    """an anchor (item / loop / statement) was not found -> exit 2, never a violation"""


# ----------------------------------------------------------------------------- lexing helpers
def strip_comments(text):
    out = []
    i = 0
    n = len(text)
    while i < n:
        c = text[i]
        if c == '"':
            j = i + 1
            while text[j] != '"':
                if text[j] == '\\':
                    j += 1
                j += 1
            out.append(text[i:j + 1])
            i = j + 1
        elif c == 'r' and re.match(r'r#*"', text[i:i + 6]) and (i == 0 or not (text[i - 1].isalnum() or text[i - 1] == '_')):
            m = re.match(r'r(#*)"', text[i:i + 6])
            close = '"' + m.group(1)
            j = text.find(close, i + len(m.group(0)))
            out.append(text[i:j + len(close)])
            i = j + len(close)
        elif c == "'":
            m = re.match(r"'(\\.|\\x..|\\u\{[0-9a-fA-F]+\}|[^\\'])'", text[i:i + 12])
            if m:
                out.append(m.group(0))
                i += len(m.group(0))
            else:
                out.append(c)
                i += 1
        elif text.startswith("//", i):
            j = text.find("\n", i)
            if j < 0:
                j = n
            i = j
        elif text.startswith("/*", i):
            j = text.find("*/", i)
            i = j + 2
        else:
            out.append(c)
            i += 1
    return "".join(out)


def skip_string(text, k):
    k += 1
    while text[k] != '"':
        if text[k] == '\\':
            k += 1
        k += 1
    return k


def skip_charlit(text, k):
    """text[k] == "'" ; if it is a char literal return index of its closing quote, else k"""
    m = re.match(r"'(\\.|\\x..|\\u\{[0-9a-fA-F]+\}|[^\\'])'", text[k:k + 12])
    if m:
        return k + len(m.group(0)) - 1
    return k


def match_close(text, k):
    """text[k] is an opening bracket; return index of the matching closer"""
    depth = 0
    n = len(text)
    while k < n:
        c = text[k]
        if c in '([{':
            depth += 1
        elif c in ')]}':
            depth -= 1
            if depth == 0:
                return k
        elif c == '"':
            k = skip_string(text, k)
        elif c == "'":
            k = skip_charlit(text, k)
        elif text.startswith(INS_O, k):
            pass
        k += 1
    raise Lost('unbalanced brackets')


def body_open(text, k):
    """from the start of an item header, index of its body '{' (or of ';' for body-less items)"""
    depth = 0
    while True:
        c = text[k]
        if c in '([':
            depth += 1
        elif c in ')]':
            depth -= 1
        elif c == '"':
            k = skip_string(text, k)
        elif c == "'":
            k = skip_charlit(text, k)
        elif depth == 0 and c in '{;':
            return k
        k += 1


def item_span(text, k):
    """k = start of header (after attributes). return end index (exclusive)"""
    b = body_open(text, k)
    if text[b] == ';':
        return b + 1
    e = match_close(text, b) + 1
    m = re.match(r"\s*;", text[e:])
    if m and re.match(r"\s*(pub(\([a-z]+\))?\s+)?(struct|const|static|type)\b", text[k:k + 40]):
        e += m.end()
    return e


def attrs_start(text, k):
    """extend k backwards over preceding #[...] attribute lines"""
    while True:
        m = re.search(r"(#\[[^\n]*\]\s*)$", text[:k])
        if not m:
            return k
        k = m.start()


# ----------------------------------------------------------------------------- cfg  (R-CFG)
def _split_top(s, sep=','):
    parts, d, cur, i = [], 0, '', 0
    while i < len(s):
        c = s[i]
        if c in '([{':
            d += 1
        elif c in ')]}':
            d -= 1
        elif c == '"':
            j = skip_string(s, i)
            cur += s[i:j + 1]
            i = j + 1
            continue
        elif c == "'":
            j = skip_charlit(s, i)
            cur += s[i:j + 1]
            i = j + 1
            continue
        if d == 0 and s.startswith(sep, i):
            parts.append(cur)
            cur = ''
            i += len(sep)
            continue
        cur += c
        i += 1
    parts.append(cur)
    return [p for p in parts if p.strip()]


def eval_cfg(expr):
    expr = expr.strip()
    m = re.fullmatch(r'feature\s*=\s*"([^"]+)"', expr)
    if m:
        return m.group(1) in FEATURES
    if expr in ('test', 'kani', 'verus_keep_ghost'):
        return False
    if expr == 'debug_assertions':
        return True      # the overflow-/assertion-checked build is the stricter one
    m = re.fullmatch(r'target_endian\s*=\s*"(\w+)"', expr)
    if m:
        return m.group(1) == 'little'
    m = re.fullmatch(r'target_pointer_width\s*=\s*"(\w+)"', expr)
    if m:
        return m.group(1) == '64'
    m = re.fullmatch(r'(not|all|any)\((.*)\)', expr, re.S)
    if m:
        vals = [eval_cfg(p) for p in _split_top(m.group(2))]
        return {'not': lambda v: not v[0], 'all': all, 'any': any}[m.group(1)](vals)
    raise Lost('cfg expression not understood: ' + expr)


def apply_cfg(text, log=None):
    pat = re.compile(r'#\[cfg\(')
    i, out = 0, ''
    while True:
        m = pat.search(text, i)
        if not m:
            return out + text[i:]
        out += text[i:m.start()]
        k = match_close(text, m.end() - 1)
        expr = text[m.end():k]
        assert text[k + 1] == ']'
        k += 2
        if log is not None:
            log['R-CFG'] = log.get('R-CFG', 0) + 1
        if eval_cfg(expr):
            i = k
            continue
        j = k
        while True:
            mm = re.match(r'\s*#\[', text[j:])
            if not mm:
                break
            j = match_close(text, j + mm.end() - 1) + 1
        mm = re.match(r'\s*', text[j:])
        j += mm.end()
        e = item_span(text, j)
        if text[e:e + 1] == ',':
            e += 1
        i = e


# ----------------------------------------------------------------------------- context
class Ctx:
    """per-batch bookkeeping: rule counts, directives, items, trusted ledger"""

    def __init__(self, name):
        self.name = name
        self.rules = {}          # rule id -> count
        self.dropped = []        # "Item::method" dropped (R-DROP)
        self.required = []       # R-REQUIRED / R-DELEGATE / R-EQ
        self.extbody = []        # R-EXTBODY / R-STUB (unverified, contract assumed)
        self.custom = []         # (rule id, where, old, new)
        self.items = []          # Item objects (for provenance check)
        self.files = set()

    def count(self, rule, n=1):
        if n:
            self.rules[rule] = self.rules.get(rule, 0) + n


_src_cache = {}


class Source:
    def __init__(self, rel, ctx):
        self.rel = rel
        self.ctx = ctx
        key = (SRC, rel)
        if key not in _src_cache:
            raw = open(SRC + rel).read()
            log = {}
            _src_cache[key] = (apply_cfg(strip_comments(raw), log), log)
        self.text, log = _src_cache[key]
        if rel not in ctx.files:
            ctx.files.add(rel)
            ctx.count('R-CFG', log.get('R-CFG', 0))

    def _find(self, header_re, lo, hi):
        m = re.compile(header_re, re.M).search(self.text, lo, hi)
        if not m:
            raise Lost(f'{self.rel}: item `{header_re}` not found')
        return m.start()

    def item(self, header_re, within=None, with_attrs=True, label=None):
        text = self.text
        lo, hi = 0, len(text)
        if within is not None:
            a = self._find(within, 0, len(text))
            b = body_open(text, a)
            lo, hi = b + 1, match_close(text, b)
        k = self._find(header_re, lo, hi)
        e = item_span(text, k)
        s = attrs_start(text, k) if with_attrs else k
        it = Item(self.ctx, self.rel, header_re, text[s:e], label)
        return it

    def items(self, headers):
        return [self.item(h) for h in headers]


# ----------------------------------------------------------------------------- method lookup inside impl/trait text
def method_span(text, name, nth=0):
    """(start,end) of method `name` (with attributes) inside an impl/trait/mod text"""
    ms = [m for m in re.finditer(r'\bfn\s+%s\b' % re.escape(name), text)]
    if len(ms) <= nth:
        raise Lost(f'method {name} not found')
    k = ms[nth].start()
    mm = re.search(r'((pub(\([a-z]+\))?\s+)?(const\s+)?(unsafe\s+)?)$', text[:k])
    k = mm.start() if mm else k
    e = item_span(text, k)
    return attrs_start(text, k), e


# ----------------------------------------------------------------------------- rewrite rules
KEEP_DERIVES = ['Debug', 'Clone', 'Copy', 'PartialEq', 'Eq']
DROP_ATTRS = [r'#\[inline(\([a-z]+\))?\]', r'#\[doc\(hidden\)\]', r'#\[non_exhaustive\]', r'#\[repr\(C\)\]',
              r'#\[allow\([^\]]*\)\]', r'#\[must_use[^\]]*\]', r'#\[repr\(u64\)\]', r'#\[cold\]',
              r'#\[deprecated[^\]]*\]', r'#\[track_caller\]', r'#\[default\]']


def r_attr(s, ctx):
    def derive(m):
        ctx.count('R-ATTR')
        keep = [x for x in KEEP_DERIVES if re.search(r'\b%s\b' % x, m.group(0))]
        return '#[derive(%s)]' % ', '.join(keep) if keep else ''
    s = re.sub(r'#\[derive\([^\]]*\)\]', derive, s)
    for a in DROP_ATTRS:
        s, n = re.subn(a, '', s)
        ctx.count('R-ATTR', n)
    return s


def _args(s, p):
    e = match_close(s, p)
    return _split_top(s[p + 1:e]), e


def r_assert(s, ctx):
    pat = re.compile(r'\b(debug_assert_eq|debug_assert_ne|debug_assert|assert_eq|assert_ne|assert)!\s*\(')
    out, i = '', 0
    while True:
        m = pat.search(s, i)
        if not m:
            out += s[i:]
            break
        out += s[i:m.start()]
        args, e = _args(s, m.end() - 1)
        kind = m.group(1)
        if kind.endswith('_eq'):
            cond = f'({args[0].strip()}) == ({args[1].strip()})'
        elif kind.endswith('_ne'):
            cond = f'({args[0].strip()}) != ({args[1].strip()})'
        else:
            cond = args[0].strip()
        out += f'crate::verif_assert({cond})'
        ctx.count('R-ASSERT')
        i = e + 1
    out, n = re.subn(r'\b(unreachable|unimplemented)!\(\s*\)', 'crate::verif_unreachable()', out)
    ctx.count('R-ASSERT', n)
    # panic!("...") with a plain string message
    out, n = re.subn(r'\bpanic!\(\s*"[^"]*"\s*\)', 'crate::verif_unreachable()', out)
    ctx.count('R-ASSERT', n)
    return out


def r_closure(s, ctx):
    s, n = re.subn(r'\|\s*_\s*\|', '|_verif_unused|', s)
    ctx.count('R-CLOSURE', n)
    return s


def r_offset(s, ctx):
    """R-OFFSET: `R: Reader` bounds become `R: Reader<Offset = usize>`"""
    s, n = re.subn(r'\b([A-Z]\w*)\s*:\s*Reader\b(?!\s*<)(?!Offset)(?!Address)', r'\1: Reader<Offset = usize>', s)
    ctx.count('R-OFFSET', n)
    return s


def r_letchain(s, ctx):
    """R-LETCHAIN: else-less `if A && let P = e && B { body }` -> nested ifs (Verus has no let chains)."""
    out, i = '', 0
    pat = re.compile(r'\bif\b')
    while True:
        m = pat.search(s, i)
        if not m:
            return out + s[i:]
        k, d = m.end(), 0
        while True:
            c = s[k]
            if c in '([':
                d += 1
            elif c in ')]':
                d -= 1
            elif c == '"':
                k = skip_string(s, k)
            elif c == "'":
                k = skip_charlit(s, k)
            elif c == '{' and d == 0:
                break
            k += 1
        cond = s[m.end():k]
        parts = [p.strip() for p in _split_top(cond, '&&')]
        has_let = any(re.match(r'let\b', p) for p in parts)
        if not (has_let and len(parts) > 1):
            out += s[i:k]
            i = k
            continue
        e = match_close(s, k)
        if re.match(r'\s*else\b', s[e + 1:]):
            raise Lost('R-LETCHAIN: let chain with else branch is outside the rule')
        body = r_letchain(s[k:e + 1], ctx)
        nested = body
        for p in reversed(parts):
            nested = 'if ' + p + ' ' + ('{ ' + nested + ' }' if nested is not body else nested)
        out += s[i:m.start()] + nested
        ctx.count('R-LETCHAIN')
        i = e + 1


def strip_insertions(s):
    out, i = '', 0
    while True:
        a = s.find(INS_O, i)
        if a < 0:
            return out + s[i:]
        out += s[i:a]
        b = s.find(INS_C, a)
        if b < 0:
            raise Lost('unterminated insertion sentinel')
        i = b + len(INS_C)


def ins(text):
    assert INS_O not in text and INS_C not in text
    return INS_O + text + INS_C


def norm_ws(s):
    return re.sub(r'\s+', '', s)


# ----------------------------------------------------------------------------- Item
def parse_tags(clause):
    """'[C09:a][C10:b] expr' -> (['C09:a','C10:b'], 'expr')"""
    tags = []
    clause = clause.strip()
    while True:
        m = re.match(r'\[(C\d\d[^\]]*)\]\s*', clause)
        if not m:
            break
        tags.append(m.group(1))
        clause = clause[m.end():]
    return tags, clause


def one_line(s):
    return re.sub(r'\s*\n\s*', ' ', s.strip())


class Item:
    def __init__(self, ctx, rel, header_re, text, label=None):
        self.ctx = ctx
        self.rel = rel
        self.header_re = header_re
        self.orig = text
        self.text = text
        self.base = None
        self.label = label
        self.owners = {}      # fn name (or '*') -> list of property ids owning built-in obligations
        self.canaries = []    # fn names that got a canary twin
        ctx.items.append(self)

    def _where(self, name):
        return f'{self.rel}:{self.label or self.header_re}::{name}'

    # ---- directives (before clean)
    def drop(self, names, nth=0):
        assert self.base is None
        for n in names:
            s, e = method_span(self.text, n, nth)
            self.text = self.text[:s] + self.text[e:]
            self.ctx.dropped.append(self._where(n))
            self.ctx.count('R-DROP')
        return self

    def fns(self):
        """names of the fns directly inside this impl/trait/mod item (depth 1)"""
        t = self.text
        m = re.search(r'^(pub(\([a-z]+\))?\s+)?(unsafe\s+)?(impl|trait|mod)\b', t, re.M)
        b = body_open(t, m.start())
        end = match_close(t, b)
        out = []
        for m in re.finditer(r'\bfn\s+(\w+)\b', t[b:end]):
            seg = strip_strings(t[b + 1:b + m.start()])
            if seg.count('{') - seg.count('}') == 0:
                out.append(m.group(1))
        return out

    def keep_only(self, names):
        """drop every fn of an impl except `names` (R-DROP)"""
        assert self.base is None
        allfns = self.fns()
        for n in names:
            if n not in allfns:
                raise Lost(f'{self._where(n)}: method not found')
        for n in allfns:
            if n not in names:
                self.drop([n])
        return self

    def required(self, names, rule='R-REQUIRED'):
        assert self.base is None
        for n in names:
            s, e = method_span(self.text, n)
            k = re.search(r'\bfn\s+%s\b' % re.escape(n), self.text[s:e]).start() + s
            b = body_open(self.text, k)
            if self.text[b] == ';':
                continue
            self.text = self.text[:b].rstrip() + ';' + self.text[e:]
            self.ctx.required.append(self._where(n) + f' [{rule}]')
            self.ctx.count(rule)
        return self

    def check_delegates(self, name, pattern):
        """R-DELEGATE guard: the source body of `name` must still match `pattern` (regex on whitespace-free text)"""
        s, e = method_span(self.text, name)
        k = re.search(r'\bfn\s+%s\b' % re.escape(name), self.text[s:e]).start() + s
        b = body_open(self.text, k)
        body = norm_ws(self.text[b:e])
        if not re.fullmatch(pattern, body):
            raise Lost(f'{self._where(name)}: R-DELEGATE body changed: {body}')
        return self

    def extbody(self, names, rule='R-EXTBODY'):
        assert self.base is None
        for n in names:
            s, e = method_span(self.text, n)
            k = re.search(r'\bfn\s+%s\b' % re.escape(n), self.text[s:e]).start() + s
            b = body_open(self.text, k)
            self.text = (self.text[:s] + '\n    #[verifier::external_body]\n    ' + self.text[s:b].lstrip()
                         + '{ unimplemented!() }' + self.text[e:])
            self.ctx.extbody.append(self._where(n) + f' [{rule}]')
            self.ctx.count(rule)
        return self

    def custom(self, rule, old, new, count=1, optional=False):
        """a logged one-off textual rewrite (listed verbatim in the evidence).
        optional=True (rule R-OPTIONAL): the rewrite only brings a construct into Verus' subset (`x.clone()` on a reader, a
        wildcard loop variable); when the construct is no longer in the source there is nothing to rewrite, so an absent
        anchor is logged and skipped instead of being a lost anchor.  If what replaced it is outside the subset, Verus
        rejects the text (exit 2); if it is inside, the contract judges it."""
        assert self.base is None
        if optional and self.text.count(old) < 1:
            self.ctx.custom.append(('R-OPTIONAL(skipped:' + rule + ')', self._where(''), old, '(anchor absent; nothing rewritten)'))
            self.ctx.count('R-OPTIONAL')
            return self
        if self.text.count(old) < 1:
            raise Lost(f'{self._where("")}: custom rewrite anchor `{old[:60]}` not found')
        self.text = self.text.replace(old, new, count)
        self.ctx.custom.append((rule, self._where(''), old, new))
        self.ctx.count(rule)
        return self

    def custom_re(self, rule, pat, repl):
        assert self.base is None
        self.text, n = re.subn(pat, repl, self.text)
        if n == 0:
            raise Lost(f'{self._where("")}: custom rewrite pattern `{pat[:60]}` not found')
        self.ctx.custom.append((rule, self._where(''), pat, repl))
        self.ctx.count(rule, n)
        return self

    def clean(self, offset=True, rejrec=None):
        assert self.base is None
        c = self.ctx
        s = r_attr(self.text, c)
        s = r_assert(s, c)
        s = r_closure(s, c)
        s = r_letchain(s, c)
        if offset:
            s = r_offset(s, c)
        if rejrec:
            pre = ''.join(f'#[verifier::reject_recursive_types({p})]\n' for p in rejrec)
            m = re.search(r'^(pub(\([a-z]+\))?\s+)?(struct|enum)\b', s, re.M)
            if not m:
                raise Lost(f'{self._where("")}: R-REJREC on a non-datatype')
            s = s[:m.start()] + pre + s[m.start():]
            c.count('R-REJREC', len(rejrec))
        self.text = s
        self.base = s
        return self

    # ---- insertions (after clean)
    def own(self, owners, fn='*'):
        self.owners[fn] = list(owners)
        return self

    def insert_after(self, anchor, text, nth=0):
        assert self.base is not None
        idx = -1
        for _ in range(nth + 1):
            idx = self.text.find(anchor, idx + 1)
            if idx < 0:
                raise Lost(f'{self._where("")}: anchor `{anchor[:60]}` not found')
        p = idx + len(anchor)
        self.text = self.text[:p] + ins(text) + self.text[p:]
        return self

    def insert_before(self, anchor, text, nth=0):
        assert self.base is not None
        idx = -1
        for _ in range(nth + 1):
            idx = self.text.find(anchor, idx + 1)
            if idx < 0:
                raise Lost(f'{self._where("")}: anchor `{anchor[:60]}` not found')
        self.text = self.text[:idx] + ins(text) + self.text[idx:]
        return self

    def insert_members(self, text):
        """ghost members right after the opening brace of an impl/trait"""
        assert self.base is not None
        m = re.search(r'^(pub(\([a-z]+\))?\s+)?(unsafe\s+)?(impl|trait)\b', self.text, re.M)
        b = body_open(self.text, m.start())
        self.text = self.text[:b + 1] + ins('\n' + text + '\n') + self.text[b + 1:]
        return self

    def prepend(self, text):
        assert self.base is not None
        self.text = ins(text + '\n') + self.text
        return self

    def _find_anchor(self, body, stmt, name):
        """locate the statement a ghost hint is anchored on.  `stmt` is the verbatim statement text, or a tuple of alternative
        spellings of the same program point (first one present wins), or an `Opt(..)` (of either): a hint that only helps
        the proof of code that may legitimately disappear; when absent the hint is dropped and logged (R-OPTIONAL).
        Anything else that is absent is a lost anchor (exit 2)."""
        alts = list(stmt) if isinstance(stmt, (tuple, list)) else [stmt]
        for a in alts:
            idx = body.find(a)
            if idx >= 0:
                return idx, a
        if isinstance(stmt, Opt) or any(isinstance(a, Opt) for a in alts):
            self.ctx.custom.append(('R-OPTIONAL(skipped hint)', self._where(name), ' | '.join(alts), '(anchor absent; hint dropped)'))
            self.ctx.count('R-OPTIONAL')
            return None, None
        raise Lost(f'splice: anchor `{alts[0]}` in {self._where(name)}')

    def splice(self, name, ret=None, requires=None, ensures=None, loops=None, before=None, after=None,
               decreases=None, nth=0, canary=None, owners=None, opens=None, attrs=None, recommends=None,
               no_unwind=False, split=0):
        """insert a contract on fn `name`.
        ensures/requires: list of clause strings, each optionally prefixed by [Cxx:tag] tags.
        loops: {ordinal: 'invariant ..., decreases ...'} (textual order of loop keywords in the body)
        before/after: [(verbatim statement, ghost text)]   (ghost text may only be proof{}/assert/let ghost)
        canary: True -> also emit a twin `name_verifcanary` with `ensures false` that must fail (vacuity guard)
        split: k > 1 -> R-SPLIT: the ensures clauses are partitioned over k verbatim copies `name_verifpart<i>` of the
               function (each verified on its own: same body, same requires/loop specs/hints, a subset of the postconditions);
               the original keeps its body text but is marked external_body /*R-SPLIT*/ and carries the union, which is
               sound because (body |= A) and (body |= B) give (body |= A && B).  For functions whose single VC is too large.
        """
        assert self.base is not None
        t = self.text
        ms = [m for m in re.finditer(r'\bfn\s+%s\b' % re.escape(name), t)]
        ms = [m for m in ms if not _inside_insertion(t, m.start())]
        if len(ms) <= nth:
            raise Lost(f'splice: fn {self._where(name)}')
        k = ms[nth].start()
        b = body_open(t, k)
        header = t[k:b]
        has_body = t[b] == '{'
        body_end = match_close(t, b) if has_body else b
        body = t[b:body_end + 1]
        if ret:
            i = header.index('(')
            i = match_close(header, i) + 1
            mm = re.match(r'\s*->\s*', header[i:])
            if mm:
                ts = i + mm.end()
                wm = re.search(r'\bwhere\b', header[ts:])
                te = ts + wm.start() if wm else len(header)
                ty = header[ts:te].rstrip()
                header = header[:ts] + ins(f'({ret}: ') + ty + ins(')') + '\n' + header[te:]
            else:
                raise Lost(f'splice: fn {self._where(name)} has no return type to name')
        spec = ''

        def clauses(kw, lst):
            out = f'  {kw}\n'
            for c in lst:
                tags, expr = parse_tags(c)
                out += '    ' + one_line(expr) + ',' + (' // ' + ''.join(f'[{x}]' for x in tags) if tags else '') + '\n'
            return out
        if requires:
            spec += clauses('requires', requires)
        if recommends:
            spec += clauses('recommends', recommends)
        if ensures:
            spec += clauses('ensures', ensures)
        if decreases:
            spec += '  decreases ' + decreases + ',\n'
        if no_unwind:
            spec += '  no_unwind\n'
        if opens:
            spec = '  opens_invariants none\n' + spec
        if loops and not _has_loop(body):
            # R-NOLOOP: the function no longer contains any loop: a loop invariant has nothing to attach to and a loop-free
            # body needs none; the contract itself is still spliced and judges the new body
            self.ctx.custom.append(('R-NOLOOP', self._where(name), 'loop specs ' + repr(sorted(loops)), '(function has no loop; specs dropped)'))
            self.ctx.count('R-NOLOOP')
            loops = None
        if loops:
            body = splice_loops(body, loops, self._where(name))
        for stmt, ghost in (before or []):
            check_ghost(ghost)
            idx, stmt = self._find_anchor(body, stmt, name)
            if idx is None:
                continue
            body = body[:idx] + ins(ghost + '\n') + body[idx:]
        for stmt, ghost in (after or []):
            check_ghost(ghost)
            idx, stmt = self._find_anchor(body, stmt, name)
            if idx is None:
                continue
            idx += len(stmt)
            body = body[:idx] + ins('\n' + ghost + '\n') + body[idx:]
        pre_attr = ''
        if attrs:
            pre_attr = ins(attrs + '\n')
        # the attribute goes before visibility qualifiers
        ks = k
        mm = re.search(r'((pub(\([a-z]+\))?\s+)?(const\s+)?(unsafe\s+)?)$', t[:k])
        if mm:
            ks = mm.start()
        new_fn = t[ks:k] + header.rstrip() + '\n' + (ins(spec) if spec else '') + body
        twin = ''
        if canary and has_body:
            cspec = spec
            if 'ensures\n' in cspec:
                cspec = cspec.replace('  ensures\n', '  ensures\n    false, // [CANARY]\n', 1)
            else:
                # ensures must come before decreases
                if '  decreases ' in cspec:
                    cspec = cspec.replace('  decreases ', '  ensures\n    false, // [CANARY]\n  decreases ', 1)
                else:
                    cspec += '  ensures\n    false, // [CANARY]\n'
            chead = re.sub(r'\bfn\s+%s\b' % re.escape(name), f'fn {name}_verifcanary', header.rstrip(), 1)
            twin_src = strip_sentinels(t[ks:k] + chead + '\n' + cspec + strip_sentinels(body))
            twin = ins('\n' + re.sub(r'^\s*pub(\([a-z]+\))?\s+', '', twin_src) + '\n')
            self.canaries.append(name + '_verifcanary')
        if split and split > 1 and has_body and ensures:
            groups = [ensures[i::split] for i in range(split)]
            parts = ''
            for gi, g in enumerate(groups):
                if not g:
                    continue
                gspec = ''
                if requires:
                    gspec += clauses('requires', requires)
                gspec += clauses('ensures', g)
                if decreases:
                    gspec += '  decreases ' + decreases + ',\n'
                phead = re.sub(r'\bfn\s+%s\b' % re.escape(name), f'fn {name}_verifpart{gi}', header.rstrip(), 1)
                psrc = strip_sentinels(t[ks:k] + phead + '\n' + gspec + strip_sentinels(body))
                parts += '\n' + re.sub(r'^\s*pub(\([a-z]+\))?\s+', '', psrc) + '\n'
            twin += ins(parts)
            pre_attr += ins('#[verifier::external_body] /*R-SPLIT*/\n')
            self.ctx.count('R-SPLIT')
            self.ctx.custom.append(('R-SPLIT', self._where(name), f'{len(ensures)} postconditions', f'{split} verbatim copies'))
        self.text = t[:ks] + pre_attr + new_fn + twin + t[body_end + 1:]
        if owners is not None:
            self.owners[name] = list(owners)
        return self

    def provenance_ok(self):
        if self.base is None:
            return False
        return norm_ws(strip_insertions(self.text)) == norm_ws(self.base)


def strip_sentinels(s):
    return s.replace(INS_O, '').replace(INS_C, '')


def strip_strings(s):
    return re.sub(r'"(\\.|[^"\\])*"', '""', s)


def _inside_insertion(t, pos):
    a = t.rfind(INS_O, 0, pos)
    if a < 0:
        return False
    b = t.find(INS_C, a)
    return b > pos


def check_ghost(g):
    """ghost insertions may only be proof blocks / asserts / ghost lets (the splicer refuses executable text)"""
    s = strip_comments(g).strip()
    if not s:
        return
    # split top-level statements
    i = 0
    while i < len(s):
        m = re.match(r'\s*(proof\s*\{|assert\s*\(|assert\s+forall|let\s+ghost\b|let\s+tracked\b|broadcast\s+use\b|reveal\s*\()', s[i:])
        if not m:
            raise Lost('ghost insertion contains executable text: ' + s[i:i + 60])
        tok = m.group(1)
        j = i + m.end()
        if tok.startswith('proof'):
            j = match_close(s, j - 1) + 1
        else:
            # to the terminating ';' at depth 0 (or a `by {..}` block end)
            d = 0
            while j < len(s):
                c = s[j]
                if c in '([{':
                    d += 1
                elif c in ')]}':
                    d -= 1
                elif c == ';' and d == 0:
                    j += 1
                    break
                j += 1
            # optional trailing `by (..) {..}` handled by depth tracking above
        i = j
        while i < len(s) and s[i].isspace():
            i += 1


class Opt(str):
    """an optional hint anchor, see Item._find_anchor"""


LOOP_RE = re.compile(r'\b(loop|while|for)\b')


def _has_loop(body):
    """does the (comment-stripped) function body contain a loop keyword outside spliced insertions?"""
    i = 0
    while True:
        m = LOOP_RE.search(body, i)
        if not m:
            return False
        if not _inside_insertion(body, m.start()):
            return True
        i = m.end()


def splice_loops(body, loops, where=''):
    """insert loop specs after the loop header of the n-th loop (textual order)"""
    out, i, n = '', 0, 0
    while True:
        m = LOOP_RE.search(body, i)
        if not m:
            out += body[i:]
            break
        if _inside_insertion(body, m.start()):
            out += body[i:m.end()]
            i = m.end()
            continue
        # `for<'a>` higher-ranked bounds and `impl .. for ..` do not occur inside fn bodies of gimli
        k = m.end()
        d = 0
        while True:
            c = body[k]
            if c in '([':
                d += 1
            elif c in ')]':
                d -= 1
            elif c == '"':
                k = skip_string(body, k)
            elif c == "'":
                k = skip_charlit(body, k)
            elif c == '{' and d == 0:
                break
            k += 1
        out += body[i:k]
        if n in loops:
            out += ins('\n' + loops[n] + '\n')
        n += 1
        i = k
    missing = [o for o in loops if o >= n]
    if missing:
        raise Lost(f'splice: loop ordinals {missing} not found in {where}')
    return out


# ----------------------------------------------------------------------------- constants from dw! macro
def dw_consts(ctx, ty, prefix=None):
    src = Source('constants.rs', ctx)
    c = src.text
    m = re.search(r'%s\((\w+)\) \{(.*?)\n\}\);' % ty, c, re.S)
    if not m:
        raise Lost('dw! ' + ty)
    out = ['#[derive(Clone, Copy, PartialEq, Eq, Debug)]\npub struct %s(pub %s);' % (ty, m.group(1))]
    n = 0
    for name, val in re.findall(r'(\w+)\s*=\s*(0x[0-9a-fA-F_]+|\d+)\s*(?:,|$)', m.group(2).strip()):
        out.append(f'pub const {name}: {ty} = {ty}({val});')
        n += 1
    if n == 0:
        raise Lost('dw! no constants for ' + ty)
    ctx.count('R-DW', n)
    return '\n'.join(out)


# ----------------------------------------------------------------------------- skeleton emitter
class Skeleton:
    """module tree mirroring gimli's; items are appended per module"""

    def __init__(self, ctx, crate_prelude):
        self.ctx = ctx
        self.crate_prelude = crate_prelude
        self.mods = {}     # path -> {'uses': str, 'chunks': [(text, label, owners, item)]}
        self.order = []

    def module(self, path, uses=''):
        if path not in self.mods:
            self.mods[path] = {'uses': uses, 'chunks': []}
            self.order.append(path)
        elif uses:
            self.mods[path]['uses'] += '\n' + uses
        return self

    def add(self, path, item, label=None, owners=None):
        """item: Item or raw str (prelude/spec text: trusted or ghost, not from gimli)"""
        if path not in self.mods:
            self.module(path)
        self.mods[path]['chunks'].append((item, label, owners))
        return self

    def emit(self):
        """returns (text, fnmap) ; fnmap = list of dicts(start,end,label,owners,kind)"""
        lines = []
        fnmap = []

        def put(text):
            for l in text.split('\n'):
                lines.append(l)

        put('#![allow(unused, non_upper_case_globals, non_camel_case_types, unreachable_code, unused_parens)]')
        put('use vstd::prelude::*;')
        put('verus! {')
        put('global size_of usize == 8;')
        put(self.crate_prelude)

        def emit_mod(path, depth):
            name = path.split('::')[-1]
            put(f'pub mod {name} {{')
            put('use vstd::prelude::*;')
            put(self.mods[path]['uses'])
            for item, label, owners in self.mods[path]['chunks']:
                if isinstance(item, Item):
                    text = strip_sentinels(item.text)
                    lab = label or item.label or re.sub(r'\s+', ' ', re.sub(r'[\\^$()]|pub(\(crate\))? |\b(fn|struct|enum|impl|trait|const) ', '', item.header_re)).strip(' <{:(')
                    own = dict(item.owners)
                    if owners:
                        own.setdefault('*', owners)
                    src = item.rel
                else:
                    text = item
                    lab = label or 'prelude'
                    own = {'*': owners or []}
                    src = None
                start = len(lines) + 1
                put(text)
                allfns = [x[2] for x in fn_spans(text)]
                for (a, b, fn, hasbody) in fn_spans(text):
                    if not hasbody and (fn + '_verifpart0') in allfns:
                        continue     # R-SPLIT original: its obligations are carried by the verbatim copies
                    fn = re.sub(r'_verifpart\d+$', '', fn)
                    fnmap.append({'start': start + a, 'end': start + b, 'label': f'{path}::{lab}::{fn}' if lab != fn else f'{path}::{fn}',
                                  'fn': fn, 'owners': own.get(fn, own.get('*', [])), 'src': src, 'body': hasbody,
                                  'canary': fn.endswith('_verifcanary')})
            # children
            for p in self.order:
                if p.startswith(path + '::') and p.count('::') == path.count('::') + 1:
                    emit_mod(p, depth + 1)
            put('}')

        for p in self.order:
            if '::' not in p:
                emit_mod(p, 0)
        put('} // verus!')
        put('fn main() {}')
        return '\n'.join(lines) + '\n', fnmap


def fn_spans(text):
    """[(first line idx, last line idx, fn name, has_body)] for every fn in text (0-based line offsets)"""
    out = []
    for m in re.finditer(r'\bfn\s+(\w+)\b', text):
        k = m.start()
        # skip occurrences in comments (contract tag comments never contain `fn`)
        ls = text.rfind('\n', 0, k) + 1
        if '//' in text[ls:k]:
            continue
        try:
            b = body_open(text, k)
            e = match_close(text, b) if text[b] == '{' else b
        except (Lost, IndexError):
            continue
        pre = text[max(0, k - 200):k]
        ext = bool(re.search(r'#\[verifier::external_body\]\s*(/\*R-SPLIT\*/)?\s*((pub(\([a-z]+\))?\s+)?(const\s+)?(unsafe\s+)?)$', pre))
        out.append((text.count('\n', 0, k), text.count('\n', 0, e), m.group(1), text[b] == '{' and not ext))
    return out
