#!/usr/bin/env python3
"""Run one Verus batch: generate from /repo, verify, map errors to obligations (DESIGN.md 3.1.4-3.1.6)."""
import hashlib
import importlib
import json
import os
import re
import subprocess
import sys
import threading
import time

BUILD_LOCK = threading.Lock()

HERE = os.path.dirname(os.path.abspath(__file__))
sys.path.insert(0, HERE)
import lib  # noqa: E402

BUILD = os.path.join(os.path.dirname(HERE), 'build', 'vx')
try:
    VERUS_VERSION = subprocess.run(['verus', '--version'], capture_output=True, text=True).stdout.strip()
except Exception:
    VERUS_VERSION = 'unknown'

VERIF_ERRORS = [
    'postcondition not satisfied', 'precondition not satisfied', 'possible arithmetic underflow/overflow',
    'possible division by zero', 'assertion failed', 'invariant not satisfied', 'loop invariant not satisfied',
    'decreases not satisfied', 'possible bit shift underflow/overflow', 'could not prove termination',
    'unable to prove', 'assertion failure', 'possible overflow', 'failed this', 'cannot prove',
    'recursive function must have a decreases', 'bitvector assertion', 'bit-vector', 'might be out of bounds',
    'constructed value may fail to meet its declared type invariant', 'unable to prove assertion',
    'refinement', 'can\'t be proven', 'precondition of', 'possible',
]
LIMIT_ERRORS = ['Resource limit (rlimit) exceeded', 'resource limit', 'rlimit']


def verus_cmd(path, extra=(), multiple_errors=3):
    return ['verus', path, '--edition', '2024', '--error-format=json', '--output-json', '--time',
            '--multiple-errors', str(multiple_errors), '--no-report-long-running'] + list(extra)


def run_verus(path, extra=(), timeout=3000, multiple_errors=3):
    t0 = time.time()
    env = dict(os.environ)
    p = subprocess.run(verus_cmd(path, extra, multiple_errors), capture_output=True, text=True, cwd=os.path.dirname(path), timeout=timeout, env=env)
    dt = time.time() - t0
    try:
        js = json.loads(p.stdout[p.stdout.index('{'):])
    except Exception:
        js = None
    diags = []
    for l in p.stderr.splitlines():
        if l.startswith('{'):
            try:
                diags.append(json.loads(l))
            except Exception:
                pass
    return js, diags, dt, p.stderr


def classify(diag):
    msg = diag.get('message', '')
    if diag.get('level') != 'error':
        return None
    if msg.startswith('aborting due to'):
        return None
    for l in LIMIT_ERRORS:
        if l.lower() in msg.lower():
            return 'limit'
    for v in VERIF_ERRORS:
        if v in msg:
            return 'verif'
    return 'tool'


def tags_on_line(line):
    m = re.search(r'//\s*((\[[^\]]+\])+)\s*$', line)
    if not m:
        return []
    return re.findall(r'\[([^\]]+)\]', m.group(1))


def build(batch_name):
    mod = importlib.import_module('batches.' + batch_name)
    importlib.reload(mod)
    ctx = lib.Ctx(batch_name)
    sk = mod.build(ctx)
    text, fnmap = sk.emit()
    return mod, ctx, text, fnmap


def scan_trusted(text):
    """names of every assumption construct in the generated file"""
    hits = []
    lines = text.split('\n')
    for i, l in enumerate(lines):
        if 'external_body' in l and '/*R-SPLIT*/' in l:
            continue    # composed from verified verbatim copies (R-SPLIT), not an assumption
        if 'external_body' in l or 'external_fn_specification' in l or 'external_type_specification' in l:
            # name = next fn/struct on this or following lines
            for j in range(i, min(i + 6, len(lines))):
                m = re.search(r'\b(fn|struct|enum)\s+(\w+)', lines[j])
                if m:
                    hits.append(('external_body', m.group(2)))
                    break
            else:
                hits.append(('external_body', f'line{i + 1}'))
        if re.search(r'\bassume_specification\b', l):
            m = re.search(r'\[([^\]]+)\]', l)
            hits.append(('assume_specification', m.group(1).strip() if m else f'line{i + 1}'))
        if re.search(r'\b(assume|admit)\s*\(', l) and not l.lstrip().startswith('//'):
            hits.append(('assume', f'line{i + 1}: {l.strip()[:80]}'))
        if re.search(r'\buninterp\s+spec\s+fn\b', l):
            pass
    return hits


def analyse(text, fnmap, js, diags):
    lines = text.split('\n')

    def fn_at(line):
        best = None
        for f in fnmap:
            if f['start'] <= line <= f['end']:
                if best is None or (f['end'] - f['start']) < (best['end'] - best['start']):
                    best = f
        return best

    errors, tool, limits = [], [], []
    for d in diags:
        k = classify(d)
        if k is None:
            continue
        spans = d.get('spans', [])
        prim = [s for s in spans if s.get('is_primary')] or spans
        line = prim[0]['line_start'] if prim else 0
        ptext = ' '.join(t['text'].strip() for t in prim[0]['text']) if prim else ''
        f = fn_at(line)
        tags = []
        for s in spans:
            for ln in range(s['line_start'], s['line_end'] + 1):
                if 0 < ln <= len(lines):
                    for t in tags_on_line(lines[ln - 1]):
                        if t not in tags:
                            tags.append(t)
        rec = {'msg': d['message'], 'line': line, 'text': ptext[:300], 'fn': f['label'] if f else None,
               'fn_owners': f['owners'] if f else [], 'tags': tags, 'canary': bool(f and f['canary']),
               'rendered': d.get('rendered', '')[:2000]}
        if k == 'tool':
            tool.append(rec)
        elif k == 'limit':
            limits.append(rec)
        else:
            errors.append(rec)
    # clause table
    clauses = []
    for f in fnmap:
        if f['canary']:
            continue
        for ln in range(f['start'], f['end'] + 1):
            for t in tags_on_line(lines[ln - 1]):
                if t == 'CANARY':
                    continue
                clauses.append({'fn': f['label'], 'tag': t, 'line': ln, 'text': lines[ln - 1].strip()[:400],
                                'assumed': not f['body'], 'src': f['src']})
    return errors, tool, limits, clauses


def props_of(err):
    """properties an error is attributed to"""
    ps = []
    tagged = [t.split(':')[0] for t in err['tags'] if re.match(r'C\d\d', t)]
    if 'postcondition' in err['msg'] and tagged:
        ps = tagged
    else:
        ps = tagged + [o for o in err['fn_owners']]
    out = []
    for p in ps:
        if p not in out:
            out.append(p)
    return out


def run_batch(batch_name, seed=0, keep=True, retry=True):
    """returns a result dict; raises lib.Lost for lost anchors"""
    os.makedirs(BUILD, exist_ok=True)
    t0 = time.time()
    # generation is serialised (batches may temporarily wrap lib functions while they build); the Verus runs are parallel
    with BUILD_LOCK:
        mod, ctx, text, fnmap = build(batch_name)
    res = {'batch': batch_name, 'status': 'ok', 'problems': []}
    # provenance: everything outside logged rewrite spans / sentinel insertions is the source text
    bad = [it._where('') for it in ctx.items if it.base is not None and not it.provenance_ok()]
    unclean = [it._where('') for it in ctx.items if it.base is None]
    if bad:
        res['status'] = 'tool'
        res['problems'].append('provenance check failed for: ' + ', '.join(bad))
    # per-process file name: concurrent runs of the same batch (several checks at once) must not overwrite each other's
    # input between the first run and the reseeded retries; <name>.rs is kept as a readable copy of the latest generation
    path = os.path.join(BUILD, f'{batch_name}_p{os.getpid()}.rs')
    open(path, 'w').write(text)
    try:
        open(os.path.join(BUILD, batch_name + '.rs'), 'w').write(text)
    except OSError:
        pass
    trusted = scan_trusted(text)
    declared = set(getattr(mod, 'TRUSTED', []))
    found = set(n for k, n in trusted if k != 'assume')
    assumes = [n for k, n in trusted if k == 'assume']
    if assumes:
        res['status'] = 'tool'
        res['problems'].append('assume/admit in generated file: ' + '; '.join(assumes))
    if found != declared:
        res['status'] = 'tool'
        res['problems'].append('trusted ledger mismatch: undeclared=%s missing=%s' % (sorted(found - declared), sorted(declared - found)))
    extra = list(getattr(mod, 'VERUS_ARGS', []))
    me = int(getattr(mod, 'MULTIPLE_ERRORS', 3))   # how many failed obligations Verus reports per function
    # memoisation by content: the generated file is rebuilt from /repo on every run; if its text (and the verifier
    # arguments) are byte-identical to a file already verified in this sandbox, the recorded verdict is reused
    # (Verus is deterministic for a fixed input).  VERIF_NO_CACHE=1 disables it.
    key = hashlib.sha256((text + '\0' + ' '.join(extra) + '\0' + VERUS_VERSION).encode()).hexdigest()
    cpath = os.path.join(BUILD, 'cache', key + '.json')
    cached = None
    if os.environ.get('VERIF_NO_CACHE') != '1' and os.path.exists(cpath):
        try:
            cached = json.load(open(cpath))
        except Exception:
            cached = None
    if cached:
        js, diags, dt, stderr = cached['js'], cached['diags'], cached['dt'], ''
        res['cache'] = {'hit': True, 'verified_at': cached.get('at'), 'original_verus_s': cached['dt']}
    else:
        js, diags, dt, stderr = run_verus(path, extra, multiple_errors=me)
        res['cache'] = {'hit': False}
    errors, tool, limits, clauses = analyse(text, fnmap, js, diags)
    instab = []
    if retry and ([e for e in errors if not e['canary']] or limits) and not tool:
        # instability policy (3.1.6): reseed with a larger rlimit; an obligation that passes once is discharged
        # an obligation of function F counts as discharged by a retry only if that retry reports NO error and NO
        # resource limit in F (a retry that merely ran out of resources proves nothing)
        still_failing_fns = None
        still_keys = None
        for k in range(2):
            extra2 = []
            skip = False
            for a in extra:       # the batch's own arguments, minus its --rlimit (replaced by the larger retry limit)
                if skip:
                    skip = False
                    continue
                if a == '--rlimit':
                    skip = True
                    continue
                extra2.append(a)
            js2, diags2, dt2, _ = run_verus(path, extra2 + ['--rlimit', str(getattr(mod, 'RETRY_RLIMIT', 120)), '--smt-option', f'smt.random_seed={seed * 7 + k + 1}'], multiple_errors=me)
            e2, t2, l2, _ = analyse(text, fnmap, js2, diags2)
            if t2 or js2 is None:
                # a retry that did not even get to verification proves nothing: everything is still failing
                e2, l2 = list(errors), list(limits)
            fns2 = set(e['fn'] for e in e2 + l2)
            keys2 = set((e['fn'], e['msg'], e['line']) for e in e2)
            limfns2 = set(l['fn'] for l in l2)
            # a limit in F keeps every first-run error of F alive
            for e in errors + limits:
                if e['fn'] in limfns2:
                    keys2.add((e['fn'], e['msg'], e['line']))
            still_keys = keys2 if still_keys is None else (still_keys & keys2)
            still_failing_fns = fns2 if still_failing_fns is None else (still_failing_fns & fns2)
            dt += dt2
        for e in list(errors):
            if (e['fn'], e['msg'], e['line']) not in still_keys and e['fn'] not in still_failing_fns:
                instab.append(e)
                errors.remove(e)
        for e in list(limits):
            if e['fn'] not in still_failing_fns:
                instab.append(e)
                limits.remove(e)
    if not cached and js is not None and not tool and not limits and not [e for e in errors if not e['canary']] and not instab:
        os.makedirs(os.path.join(BUILD, 'cache'), exist_ok=True)
        slim = {'verification-results': js.get('verification-results'), 'times-ms': {'total': (js.get('times-ms') or {}).get('total')}}
        json.dump({'js': slim, 'diags': [d for d in diags if d.get('level') == 'error'], 'dt': dt,
                   'at': time.strftime('%Y-%m-%dT%H:%M:%SZ', time.gmtime())}, open(cpath, 'w'))
    vr = (js or {}).get('verification-results', {})
    if js is None or vr.get('encountered-vir-error') or tool:
        res['status'] = 'tool'
        res['problems'].append('verus front end / tool errors: ' + '; '.join(f"{t['msg']} @{t['line']}" for t in tool[:8]) + ('' if js else ' (no json; stderr tail: ' + stderr[-600:] + ')'))
    # an rlimit hit while Verus searches for *further* errors in a function that already has a genuine failed obligation
    # is a consequence of that failure, not a tool limit of its own
    errfns = set(e['fn'] for e in errors if not e['canary'])
    secondary = [l for l in limits if l['fn'] in errfns]
    limits = [l for l in limits if l['fn'] not in errfns]
    res['secondary_limits'] = [l['fn'] for l in secondary]
    # a canary (`ensures false`) that runs out of resources was not proved either: it counts as failed-as-expected
    canary_limits = [l for l in limits if l.get('canary')]
    limits = [l for l in limits if not l.get('canary')]
    if limits:
        res['status'] = 'tool'
        res['problems'].append('resource limit: ' + '; '.join(f"{t['fn']}" for t in limits[:8]))
    # canaries
    canary_fns = [f for f in fnmap if f['canary']]
    failed_canaries = set(e['fn'] for e in errors if e['canary']) | set(l['fn'] for l in canary_limits)
    passing_canaries = [f['label'] for f in canary_fns if f['label'] not in failed_canaries]
    if passing_canaries and res['status'] == 'ok':
        res['status'] = 'tool'
        res['problems'].append('vacuity canary passed (contradictory precondition or empty body): ' + ', '.join(passing_canaries))
    real_errors = [e for e in errors if not e['canary']]
    for e in real_errors:
        e['props'] = props_of(e)
    fns = [f for f in fnmap if f['body'] and not f['canary'] and f['src'] is not None]
    bad_fns = set(e['fn'] for e in real_errors)
    tm = (js or {}).get('times-ms', {})
    res.update({
        'path': path, 'lines': text.count('\n'), 'wall_s': round(time.time() - t0, 2), 'verus_s': round(dt, 2),
        'verus_verified': vr.get('verified'), 'verus_errors': vr.get('errors'),
        'fns': [{'label': f['label'], 'owners': f['owners'], 'ok': f['label'] not in bad_fns,
                 'bad_props': sorted(set(p for e in real_errors if e['fn'] == f['label'] for p in e.get('props', [])))} for f in fns],
        'clauses': [dict(c, ok=not any(c['tag'] in e['tags'] and e['fn'] == c['fn'] for e in real_errors)) for c in clauses],
        'errors': real_errors, 'instability': instab,
        'canaries': {'total': len(canary_fns), 'failed_as_expected': len(canary_fns) - len(passing_canaries)},
        'rules': ctx.rules, 'dropped': ctx.dropped, 'required': ctx.required, 'extbody': ctx.extbody,
        'custom': [list(c) for c in ctx.custom], 'trusted': sorted(found), 'files': sorted(ctx.files),
        'smt_ms': tm.get('smt', {}).get('total') if isinstance(tm.get('smt'), dict) else tm.get('smt'),
        'total_ms': tm.get('total'),
        'sha256': hashlib.sha256(text.encode()).hexdigest()[:16],
        'cmd': ' '.join(verus_cmd(path, extra, me)),
    })
    try:
        os.remove(path)
    except OSError:
        pass
    res['path'] = os.path.join(BUILD, batch_name + '.rs')
    res['cmd'] = res['cmd'].replace(path, res['path'])
    return res


def main():
    name = sys.argv[1]
    try:
        r = run_batch(name)
    except lib.Lost as e:
        print('LOST:', e)
        sys.exit(2)
    print(json.dumps({k: v for k, v in r.items() if k not in ('fns', 'clauses')}, indent=1)[:6000])
    print('fns', len(r['fns']), 'clauses', len(r['clauses']), 'errors', len(r['errors']))
    for e in r['errors']:
        print('ERR', e['fn'], '|', e['msg'], '|', e['text'][:100], '|', e['tags'], e['props'])
    sys.exit(0 if r['status'] == 'ok' and not r['errors'] else (2 if r['status'] != 'ok' else 1))


if __name__ == '__main__':
    main()
