"""B-leb: functional correctness of the generic LEB128 decoders and encoders -- DESIGN.md 6 C09, appendix A.1.

WHAT THIS BATCH CLOSES.  In core.py the five LEB128 methods of `trait Reader` (`read_uleb128`, `read_uleb128_u16`,
`read_uleb128_u32`, `read_sleb128`, `skip_leb128`) are R-DELEGATE: required methods whose functional contracts (value ==
`O.uleb(0)` / `O.sleb(0)`, consumption == `O.leb_len(0)`, the rejection clause) are ASSUMED in Verus (proved only by Kani on
EndianSlice, K-LEB), and the free functions they delegate to (`leb128::read::{unsigned, signed, u16, skip}`,
/repo/src/leb128.rs) are verified in core only for safety, termination, progress and frame.  Here the SAME clauses (literal
copies in TRAIT below, `self` renamed to `r`; compared at build time with the contract text core.populate generated for
`trait Reader` -- any drift raises Lost -> exit 2) are PROVED on the real text of the four generic functions, for every
`R: Reader` that satisfies the primitive `read_u8` contract (Ok => adv by 1 and value == O.at(0); Err <=> O.len < 1;
Err => unch).  Nothing about EndianSlice is used.

build = core.populate, then the `leb128::read` chunk added by core is REPLACED by a fresh extraction of the same item
(`pub mod read {` of leb128.rs) spliced with core's safety contract + the functional clauses (a second `splice` on core's
Item would emit a second `ensures` block and a second loop-spec block, which Verus rejects).  `check_superset` verifies at
build time that every clause core put on these four functions is still stated on the replacement.

FUNCTIONS UNDER CONTRACT (all verified with their real bodies; O = old(r).rv(), F = final(r).rv())
  leb128::read::skip        [C09:leb-skip]     Ok  => O.leb_ok(0) && adv(O, F, O.leb_len(0));  Err => !O.leb_ok(0)   (no length limit)
  leb128::read::unsigned    [C09:uleb-value]   Ok(v) => O.leb_ok(0) && adv(O, F, O.leb_len(0)) && v == O.uleb(0)
                            [C09:uleb-reject]  Err => !O.leb_ok(0) || O.uleb(0) > u64::MAX || O.leb_len(0) > 10
                            [C09:uleb-frontier] Ok <=> O.leb_ok(0) && O.leb_len(0) <= 10 && O.uleb(0) <= u64::MAX   (exact accept set)
                                               and, for a terminated 10-byte number, Ok <=> the 10th byte is 0x00 or 0x01
  leb128::read::u16         [C09:uleb-value]   as above;  [C09:uleb-reject] Err => !leb_ok || uleb > u16::MAX || leb_len > 3
                            [C09:uleb-frontier] Ok <=> leb_ok && leb_len <= 3 && uleb <= u16::MAX; 3-byte number: Ok <=> third byte <= 3
  leb128::read::signed      [C09:sleb-value]   Ok(v) => O.leb_ok(0) && adv(O, F, O.leb_len(0)) && v == O.sleb(0)
                            [C09:sleb-reject]  Err => !leb_ok || sleb > i64::MAX || sleb < i64::MIN || leb_len > 10
                            [C09:sleb-frontier] Ok <=> leb_ok && leb_len <= 10 && i64::MIN <= sleb <= i64::MAX; 10-byte number:
                                               Ok <=> the 10th byte is 0x00 or 0x7f
  (all four keep core's [C01:leb-progress], [C01:frame], `O.leb_len(0) >= 1` and the built-in overflow / shift-width /
  termination obligations; the loop invariants and proof-hint lines that carry a property are tagged with it)
  ReaderLebDefaults::{skip_leb128, read_uleb128, read_uleb128_u32, read_uleb128_u16, read_sleb128}_default  (R-TRAITSPLIT,
                            `populate_delegates`): the five one-line default bodies of `trait Reader` re-extracted verbatim into a
                            generated sub-trait and verified against exactly the contracts the trait methods assume, so the
                            step "free function => trait method" (incl. `read_uleb128_u32`'s `try_into` narrowing, extra
                            clause [C09:uleb-reject] Err => !leb_ok || uleb > u32::MAX || leb_len > 10) is a proof, not only
                            core.py's regex guard `check_delegates`.
  leb128::write::Leb128::{unsigned, signed}  [C09:leb-roundtrip]  (`populate_encoders`; wcore.py proves safety and length only)
                            leb_len_in(seq, 0, count) == count  and  uleb_in / sleb_in(seq, 0, count) == val: the emitted bytes
                            decode, by the same DWARF 7.6 spec functions the decoders are proved against, to the value in exactly
                            `count` bytes;  1 <= count <= 10.  `theorem_uleb_roundtrip / theorem_sleb_roundtrip` (vx/specs/leb.rs,
                            tagged [C09:leb-roundtrip]) compose the encoder and decoder contracts: decode o encode == id.
  leb128::write::Leb128::{bytes, len}, low_bits_of_u64, low_bits_of_byte: helper contracts as in wcore/core.

ASSUMED (TRUSTED): core.TRUSTED + `axiom_i64_from_u8` (vstd specifies `From<u8>` only for unsigned targets and the orphan
rule forbids adding `FromSpecImpl<u8> for i64`: "`i64::from(u8)` is value preserving", same axiom as in batch `line`; used by
`signed`).  The primitive `read_u8` contract stays the assumption about Reader implementations (A-READER; discharged for the
shipped readers by batch `eslice` and Kani K-ESLICE).  After this batch the LEB128 contracts of `trait Reader` are
consequences of the `read_u8` contract for every reader that does not override the five default methods (no reader in gimli
overrides them); they are still *stated* as assumptions in core.py because of Verus' trait cycle rule (R-DELEGATE).

NOT DECIDED here: a `Reader` implementation that overrides the five default methods; `uleb128_size/sleb128_size`
(batch wcore, [C09:leb-size]); canonicity (shortest encoding) of the encoder output beyond wcore's closed-form size.
Dropped (R-DROP): `leb128::write::{unsigned, signed}` free fns and `Leb128::write` (std::io::Write), `uleb128_size`,
`sleb128_size` (verified in wcore).

PROOF STRUCTURE (vx/specs/leb.rs, every lemma proved): loop invariant `uleb_inv/sleb_inv(O, r.rv(), k, result)` = after k
groups "spec(whole) == result + 2^(7k) * spec(rest)", `shift == 7k`, `result < 2^(7k)`; one spec-side step lemma per byte
(`lemma_uleb_step`, `lemma_sleb_step`), one machine-arithmetic lemma per `result |= low_bits << shift` (`lemma_or_add_u64/i64`,
bit_vector + vstd power2), the frontier lemmas (`lemma_uleb_reject_10th`, `lemma_sleb_reject_10th`, `lemma_uleb_reject_3rd`,
`lemma_sleb_step_10th`), the sign-extension lemma (`lemma_sign_extend_i64`); encoders: `usum` (sum of the groups written so
far) with invariant `usum(bytes, len) + val * 2^(7 len) == v0`, closed form `lemma_leb_encoded`, window transfer
`lemma_leb_transfer`.  Slowest function ~4 s SMT on a loaded machine (Leb128::signed), everything else < 2 s.
"""
import re
from lib import *
from batches import core

TRUSTED = list(core.TRUSTED) + ['axiom_i64_from_u8']
VERUS_ARGS = ['--rlimit', '40']
MULTIPLE_ERRORS = 8
OWN = ['C01', 'C09']

O = 'old(r).rv()'
F = 'final(r).rv()'
LEBADV = f'{O}.leb_ok(0) && adv({O}, {F}, {O}.leb_len(0))'

# ---- literal copies of the clauses core.py ASSUMES on the trait methods (self -> r).  `check_trait_clauses` compares them with
# the contract text core.populate generated for `trait Reader`; any difference raises Lost (exit 2).
TRAIT = {
    'skip_leb128': [
        f'[C09:leb-skip] res is Ok ==> {LEBADV}',
        f'[C01:frame] within({O}, {F})',
        f'res is Err ==> !{O}.leb_ok(0)'],
    'read_uleb128': [
        f'[C09:uleb-value] res matches Ok(v) ==> {LEBADV} && v as nat == {O}.uleb(0)',
        f'[C09:uleb-reject] res is Err ==> !{O}.leb_ok(0) || {O}.uleb(0) > u64::MAX || {O}.leb_len(0) > 10',
        f'[C01:frame] within({O}, {F})',
        f'{O}.leb_len(0) >= 1'],
    'read_uleb128_u32': [
        f'[C09:uleb-value] res matches Ok(v) ==> {LEBADV} && v as nat == {O}.uleb(0)',
        f'[C01:frame] within({O}, {F})',
        f'{O}.leb_len(0) >= 1'],
    'read_uleb128_u16': [
        f'[C09:uleb-value] res matches Ok(v) ==> {LEBADV} && v as nat == {O}.uleb(0)',
        f'[C01:frame] within({O}, {F})',
        f'{O}.leb_len(0) >= 1'],
    'read_sleb128': [
        f'[C09:sleb-value] res matches Ok(v) ==> {LEBADV} && v as int == {O}.sleb(0)',
        f'[C01:frame] within({O}, {F})',
        f'{O}.leb_len(0) >= 1'],
}
# trait method -> generic free function it delegates to (core.py check_delegates guards the bodies)
DELEG = {'skip_leb128': 'skip', 'read_uleb128': 'unsigned', 'read_uleb128_u16': 'u16', 'read_sleb128': 'signed'}

# trusted std fact (same statement as in batch `line`): vstd specifies `From<u8>` for the unsigned targets only
AXIOM_I64_FROM_U8 = '''
/// vstd has no `FromSpecImpl<u8> for i64` (and the orphan rule forbids adding one): `i64::from(u8)` is value preserving
#[verifier::external_body]
pub proof fn axiom_i64_from_u8(v: u8)
    ensures <i64 as vstd::std_specs::convert::FromSpec<u8>>::obeys_from_spec(),
            <i64 as vstd::std_specs::convert::FromSpec<u8>>::from_spec(v) == v as i64
{}
'''

PROG = '[C01:leb-progress] res is Ok ==> final(r).rv().len < old(r).rv().len'


def chunk_item(sk, mod, label):
    """the Item object core.populate added to module `mod` under `label` (index into the chunk list, item)"""
    hits = [(i, c[0]) for i, c in enumerate(sk.mods[mod]['chunks']) if not isinstance(c[0], str) and c[0].label == label]
    if len(hits) != 1:
        raise Lost(f'leb: core item {mod}::{label} not found')
    return hits[0]


def contract_of(item, fn):
    """[(tags, expr)] of the `ensures` block of `fn` in the generated text of `item`"""
    t = strip_sentinels(item.text)
    m = re.search(r'\bfn\s+%s\b' % re.escape(fn), t)
    if not m:
        raise Lost(f'leb: fn {fn} not found in {item.label}')
    b = body_open(t, m.start())
    head = t[m.start():b]
    if '  ensures\n' not in head:
        raise Lost(f'leb: fn {fn} of {item.label} has no ensures block')
    out = []
    for line in head.split('  ensures\n', 1)[1].split('\n'):
        line = line.strip()
        if not line:
            continue
        mm = re.match(r'^(.*?),(?:\s*//\s*((?:\[[^\]]+\])+))?$', line)
        if not mm:
            raise Lost(f'leb: unparsed contract line of {fn}: {line}')
        out.append((re.findall(r'\[([^\]]+)\]', mm.group(2) or ''), mm.group(1).strip()))
    return out


def norm_clause(c):
    tags, expr = parse_tags(c)
    return tags, one_line(expr)


def check_trait_clauses(sk):
    """what is proved here must be what `trait Reader` assumes: compare core's generated trait contracts with TRAIT"""
    _, reader = chunk_item(sk, 'read::reader', 'Reader')
    for m, mine in TRAIT.items():
        theirs = [(tags, e.replace('old(self)', 'old(r)').replace('final(self)', 'final(r)')) for tags, e in contract_of(reader, m)]
        if theirs != [norm_clause(c) for c in mine]:
            raise Lost(f'leb: the contract core.py assumes on Reader::{m} changed:\n  core: {theirs}\n  leb : {[norm_clause(c) for c in mine]}')
        # and it is still an assumption there (required method, no body)
        if m not in [x.split('::')[-1].split(' ')[0] for x in sk.ctx.required if 'R-DELEGATE' in x]:
            raise Lost(f'leb: Reader::{m} is no longer R-DELEGATE in core.py')


def skip_tagged(c):
    """core leaves skip's Err clause untagged; here it is a proved part of [C09:leb-skip]"""
    return '[C09:leb-skip] ' + c if not c.startswith('[') and c.startswith('res is Err') else c


BV8 = ('assert(1u8 << 7 == 0x80u8) by (bit_vector); assert(1u8 << 6 == 0x40u8) by (bit_vector); '
       'assert(byte & 0x80u8 == 0u8 ==> byte & 0x7fu8 == byte) by (bit_vector); ')


def leb_read_item(ctx):
    lb = Source('leb128.rs', ctx)
    lr = lb.item(r'^pub mod read \{', label='read').clean()
    lr.insert_after('pub mod read {', '\n    use vstd::prelude::*;\n    use vstd::arithmetic::power2::*;\n    use crate::read::reader::*;\n    use crate::vspec::*;\n    use crate::vspec_leb::*;\n    broadcast use crate::vspec::group_seq_views;\n')

    # Anchors of the ghost insertions are chosen on text a realistic mutant does not edit (`loop`, `result |= `, the
    # `return Err(..)` statements, `if byte & CONTINUATION_BIT == 0 {`); a lost anchor is exit 2, never a silent pass.
    # The loop invariants that carry a property are tagged like postconditions (one conjunct per line).
    # ---- skip
    lr.splice('skip', ret='res',
              ensures=[PROG] + [skip_tagged(c) for c in TRAIT['skip_leb128']] + [f'{O}.leb_len(0) >= 1'],
              loops={0: f'invariant\n    skip_inv({O}, r.rv()), // [C09:leb-skip]\n    c == r.rv(),\n decreases r.rv().len'},
              before=[('loop', 'let ghost mut c = r.rv(); proof { lemma_leb_init(c); }')],
              after=[('let byte = r.read_u8()?;', f'proof {{ assert(1u8 << 7 == 0x80u8) by (bit_vector); lemma_skip_step({O}, c, r.rv(), byte); c = r.rv(); }} // [C09:leb-skip]')],
              owners=OWN)

    # ---- unsigned
    lr.splice('unsigned', ret='res',
              ensures=[PROG] + TRAIT['read_uleb128'] + [
                  f'[C09:uleb-frontier] res is Ok <==> {O}.leb_ok(0) && {O}.leb_len(0) <= 10 && {O}.uleb(0) <= u64::MAX',
                  f'[C09:uleb-frontier] {O}.leb_ok(0) && {O}.leb_len(0) == 10 ==> (res is Ok <==> {O}.at(9) == 0x00 || {O}.at(9) == 0x01)'],
              loops={0: f'invariant_except_break\n    uleb_inv({O}, r.rv(), k, result as nat), // [C09:uleb-value]\n    c == r.rv(), 1 <= k <= 9, shift == 7 * k, // [C09:uleb-value]\n'
                        ' ensures false, decreases 70 - shift'},
              before=[('let byte = r.read_u8()?;', 'let ghost c0 = r.rv(); proof { lemma_leb_init(c0); }'),
                      ('if byte & CONTINUATION_BIT == 0 {', f'proof {{ {BV8} lemma_uleb_step({O}, c0, r.rv(), 0, 0, byte); lemma_pow2_7(0); }}'),
                      ('loop', 'let ghost mut c = r.rv(); let ghost mut k: nat = 1;'),
                      ('return Err(Error::BadUnsignedLeb128);', f'proof {{ lemma_uleb_reject_10th({O}, c, result as nat, byte); }} // [C09:uleb-reject]'),
                      ('result |= ',
                       f'proof {{ {BV8} assert(byte == 0u8 || byte == 1u8 ==> byte & 0x7fu8 == byte) by (bit_vector); '
                       f'lemma_uleb_step({O}, c, r.rv(), k, result as nat, byte); lemma_or_add_u64(result, low_bits, shift as u64); c = r.rv(); }} // [C09:uleb-value]'),
                      ('shift += 7;', 'proof { assert(byte == 0u8 || byte == 1u8 ==> byte & 0x80u8 == 0u8) by (bit_vector); k = k + 1; }')],
              owners=OWN)

    # ---- u16
    lr.splice('u16', ret='res',
              ensures=[PROG] + TRAIT['read_uleb128_u16'] + [
                  f'[C09:uleb-reject] res is Err ==> !{O}.leb_ok(0) || {O}.uleb(0) > u16::MAX || {O}.leb_len(0) > 3',
                  f'[C09:uleb-frontier] res is Ok <==> {O}.leb_ok(0) && {O}.leb_len(0) <= 3 && {O}.uleb(0) <= u16::MAX',
                  f'[C09:uleb-frontier] {O}.leb_ok(0) && {O}.leb_len(0) == 3 ==> (res is Ok <==> {O}.at(2) <= 0x03)'],
              before=[('let byte = r.read_u8()?;', 'let ghost c0 = r.rv(); proof { lemma_leb_init(c0); }'),
                      ('if byte & CONTINUATION_BIT == 0 {', f'let ghost c1 = r.rv(); proof {{ {BV8} lemma_uleb_step({O}, c0, c1, 0, 0, byte); lemma_pow2_7(0); }}'),
                      ('result |= u16::from(',
                       f'let ghost c2 = r.rv(); proof {{ {BV8} lemma_uleb_step({O}, c1, c2, 1, result as nat, byte); lemma_pow2_7(1); '
                       'assert(forall|a: u16, b: u16| a < 128 && b < 128 ==> (a | (b << 7u16)) == a + b * 128) by (bit_vector); } // [C09:uleb-value]'),
                      ('return Err(Error::BadUnsignedLeb128);', f'proof {{ lemma_uleb_reject_3rd({O}, c2, result as nat, byte); }} // [C09:uleb-reject]'),
                      ('result += u16::from(byte) << 14;',      # (core.py's anchor)
                       f'proof {{ {BV8} lemma_uleb_step({O}, c2, r.rv(), 2, result as nat, byte); lemma2_to64(); '
                       'assert(byte <= 3u8 ==> byte & 0x80u8 == 0u8 && (byte as u16) << 14u16 == (byte as u16) * 16384) by (bit_vector); } // [C09:uleb-value]')],
              owners=OWN)

    # ---- signed
    SX = 'result - pow2(7 * k)'
    lr.splice('signed', ret='res',
              ensures=[PROG] + TRAIT['read_sleb128'] + [
                  f'[C09:sleb-reject] res is Err ==> !{O}.leb_ok(0) || {O}.sleb(0) > i64::MAX || {O}.sleb(0) < i64::MIN || {O}.leb_len(0) > 10',
                  f'[C09:sleb-frontier] res is Ok <==> {O}.leb_ok(0) && {O}.leb_len(0) <= 10 && i64::MIN <= {O}.sleb(0) <= i64::MAX',
                  f'[C09:sleb-frontier] {O}.leb_ok(0) && {O}.leb_len(0) == 10 ==> (res is Ok <==> {O}.at(9) == 0x00 || {O}.at(9) == 0x7f)'],
              loops={0: f'invariant_except_break\n    sleb_inv({O}, r.rv(), k, result as nat), // [C09:sleb-value]\n    c == r.rv(), 0 <= result, k <= 9, shift == 7 * k, // [C09:sleb-value]\n'
                        f' ensures last == byte, {O}.leb_ok(0), adv({O}, r.rv(), {O}.leb_len(0)), {O}.leb_len(0) == k, shift == 7 * k, 1 <= k <= 10,\n'
                        f'   k <= 9 ==> 0 <= result && (result as nat) < pow2(7 * k) && {O}.sleb(0) == (if last & 0x40 != 0 {{ {SX} }} else {{ result as int }}), // [C09:sleb-value]\n'
                        f'   k == 10 ==> {O}.sleb(0) == result && ({O}.at(9) == 0x00 || {O}.at(9) == 0x7f), // [C09:sleb-value]\n'
                        # facts about the sign-extension statement that follows the loop (proved at the break, see below)
                        f'   SIGN_BIT == 0x40u8, ((0x40u8 & last) == 0x40u8) == (last & 0x40u8 != 0u8),\n'
                        f'   k <= 9 ==> (result | (!0i64 << (shift as u64))) as int == {SX},\n'
                        ' decreases 70 - shift'},
              before=[('loop', 'let ghost mut c = r.rv(); let ghost mut k: nat = 0; let ghost mut last: u8 = 0u8; proof { lemma_leb_init(c); }'),
                      ('return Err(Error::BadSignedLeb128);', f'proof {{ lemma_sleb_reject_10th({O}, c, result as nat, byte); }} // [C09:sleb-reject]'),
                      ('result |= ',
                       f'proof {{ {BV8} assert(byte == 0u8 || byte == 0x7fu8 ==> byte & 0x80u8 == 0u8 && byte & 0x7fu8 == byte) by (bit_vector); '
                       f'axiom_i64_from_u8(byte & 0x7fu8); lemma_sleb_step({O}, c, r.rv(), k, result as nat, byte); '
                       f'if shift < 63 {{ lemma_or_add_i64(result, low_bits, shift as u64); }} else {{ lemma_or_add_i64_last(result, low_bits); lemma_sleb_step_10th({O}, c, r.rv(), result as nat, byte); }} '
                       'c = r.rv(); k = k + 1; last = byte; } // [C09:sleb-value]'),
                      ('if byte & CONTINUATION_BIT == 0 {',
                       'proof { assert(1u8 << 6 == 0x40u8) by (bit_vector); assert(((0x40u8 & byte) == 0x40u8) == (byte & 0x40u8 != 0u8)) by (bit_vector); '
                       'if byte & 0x80u8 == 0u8 && shift < 64 { lemma_sign_extend_i64(result, shift as u64); } } // [C09:sleb-value]')],
              owners=OWN)
    return lr


def populate_delegates(ctx, sk):
    """R-TRAITSPLIT: the five one-line default bodies of `trait Reader` (R-DELEGATE in core.py: turned into required methods
    because a trait's own default method may not call a generic fn bounded by that trait -- a definition cycle in Verus) are
    extracted again, bodies verbatim, into a generated sub-trait `ReaderLebDefaults: Reader<Offset = usize>` and verified
    against the contract core.py assumes for the corresponding trait method (same clause text, taken from TRAIT).  The methods
    are renamed `<m>_default` (Verus cannot disambiguate equal method names of a trait and its supertrait in contracts); the
    renaming, the new trait header and the removal of the two associated-type declarations are the only rewrites (logged)."""
    rds = Source('read/reader.rs', ctx)
    d = rds.item(r'^pub trait Reader: Debug \+ Clone', label='ReaderLebDefaults')
    d.keep_only(core.LEB_DELEG)
    d.custom('R-TRAITSPLIT', 'pub trait Reader: Debug + Clone {', 'pub trait ReaderLebDefaults: Reader<Offset = usize> {')
    d.custom('R-TRAITSPLIT', 'type Endian: Endianity;', '')
    d.custom('R-TRAITSPLIT', 'type Offset: ReaderOffset;', '')
    for m in core.LEB_DELEG:
        d.custom('R-TRAITSPLIT', f'fn {m}(&mut self)', f'fn {m}_default(&mut self)')
    d.clean(offset=False)
    for m in core.LEB_DELEG:
        extra = []
        if m == 'read_uleb128_u32':     # the narrowing error of `try_into` (not stated on the trait method)
            extra = [f'[C09:uleb-reject] res is Err ==> !{O}.leb_ok(0) || {O}.uleb(0) > u32::MAX || {O}.leb_len(0) > 10']
        d.splice(m + '_default', ret='res', owners=OWN,
                 ensures=[c.replace('old(r)', 'old(self)').replace('final(r)', 'final(self)') for c in TRAIT[m] + extra])
    sk.add('read::reader', d)


def bvb(b0):
    """bit facts about the byte written in one encoder iteration (b0: the ghost name of the 7 payload bits' source byte)"""
    return ('assert(1u8 << 7 == 0x80u8) by (bit_vector); assert(!0x80u8 == 0x7fu8) by (bit_vector); '
            f'let b0: u8 = {b0}; '
            'assert((b0 | 0x80u8) & 0x7fu8 == b0 & 0x7fu8 && (b0 | 0x80u8) & 0x80u8 != 0u8 && (b0 & 0x7fu8) & 0x7fu8 == b0 & 0x7fu8 '
            '&& (b0 & 0x7fu8) & 0x80u8 == 0u8 && (b0 < 128u8 ==> b0 & 0x7fu8 == b0 && b0 & 0x80u8 == 0u8)) by (bit_vector); ')


# at `return Leb128 { .. }`: the emitted bytes are bytes@.take(len); its decoding specs in closed form
RET = ('proof { let n = len as nat; let t = bytes@.take(len as int); '
       'assert forall|i: int| 0 <= i < n implies t[i] == bytes@[i] by {} '
       'lemma_usum_ext(t, bytes@, n); assert(all_cont(t, (n - 1) as nat)); assert(t[n - 1] == bytes@[n - 1]); '
       'lemma_leb_encoded(t, n); lemma_pow2_7(n); '
       'assert(0 * pow2(7 * n) == 0) by (nonlinear_arith); assert(-1 * pow2(7 * n) == -(pow2(7 * n) as int)) by (nonlinear_arith); } // [C09:leb-roundtrip]')


def populate_encoders(ctx, sk):
    """`leb128::write::Leb128::{unsigned, signed}` proved FUNCTIONALLY (wcore.py proves safety and the length only): the emitted
    byte string decodes -- by the same DWARF 7.6 spec functions the decoders are proved against -- to the encoded value in
    exactly `len` bytes.  Together with the decoder contracts this is decode o encode == id (`lemma_roundtrip`, vx/specs/leb.rs).
    The bound `len <= 9` inside the loops reuses wcore's unrolled shift invariant (`inv_unsigned/inv_signed`, ghost text)."""
    from batches import wcore
    lb = Source('leb128.rs', ctx)
    l64 = lb.item(r'^fn low_bits_of_u64').clean()
    l64.splice('low_bits_of_u64', ret='res', ensures=['res as u64 == val & 0x7f', 'res < 128'],
               before=[('let byte =', 'proof { assert(u8::MAX as u64 == 0xffu64); assert(((val & 0xffu64) as u8) & 0x7fu8 == (val & 0x7fu64) as u8) by (bit_vector); '
                        'assert(((val & 0x7fu64) as u8) as u64 == val & 0x7fu64) by (bit_vector); assert(val & 0x7fu64 < 128u64) by (bit_vector); }')],
               owners=OWN)
    sk.add('leb128', l64)
    lw = lb.item(r'^pub mod write \{', label='write')
    lw.drop(['write'])            # Leb128::write<W: std::io::Write>
    lw.drop(['unsigned'], nth=1)  # free fn unsigned<W: std::io::Write>
    lw.drop(['signed'], nth=1)    # free fn signed<W: std::io::Write>
    lw.drop(['uleb128_size', 'sleb128_size'])     # verified in batch wcore ([C09:leb-size])
    lw.clean()
    lw.insert_after('pub mod write {', '\n    use vstd::prelude::*;\n    use vstd::arithmetic::power2::*;\n    use crate::vspec::*;\n    use crate::vspec_leb::*;\n')
    lw.insert_after('impl Leb128 {', """
        /// the encoded bytes / well-formedness (ghost accessors for the private fields)
        pub closed spec fn seq(&self) -> Seq<u8> { self.bytes@.take(self.len as int) }
        pub closed spec fn wf(&self) -> bool { self.len <= 10 }
        pub closed spec fn count(&self) -> nat { self.len as nat }
""")
    lw.own(OWN)
    lw.splice('bytes', ret='res', requires=['self.wf()'], ensures=['res@ == self.seq()', 'res@.len() == self.count()'])
    lw.splice('len', ret='res', requires=['self.wf()'], ensures=['res as nat == self.count()', 'res == self.seq().len()', 'res <= 10'])
    SHAPE = ['res.wf()', 'res.seq().len() == res.count()', '1 <= res.count() <= 10',
             '[C09:leb-roundtrip] leb_len_in(res.seq(), 0, res.count() as int) == res.count()']
    lw.splice('unsigned', ret='res', attrs='#[verifier::loop_isolation(false)]',
              ensures=SHAPE + ['[C09:leb-roundtrip] uleb_in(res.seq(), 0, res.count() as int) == val'],
              loops={0: f'invariant {wcore.inv_unsigned("len")}, // [C09:leb-roundtrip]\n    len <= 9,\n'
                        '    all_cont(bytes@, len as nat), // [C09:leb-roundtrip]\n'
                        '    usum(bytes@, len as nat) + val * pow2(7 * len as nat) == v0, // [C09:leb-roundtrip]\n'
                        ' decreases 10 - len'},
              before=[('let mut bytes = [0; 10];', 'let ghost v0 = val; proof { lemma_pow2_7(0); }'),
                      ('let mut byte = low_bits_of_u64(val);', 'proof { ' + wcore.bv_unsigned_steps() + ' lemma_enc_step_u64(val); } let ghost vin = val; let ghost s_in = bytes@;'),
                      ('len += 1;', f'proof {{ {bvb("(vin & 0x7f) as u8")} assert(byte & 0x7fu8 == (vin & 0x7f) as u8); assert((val == 0) == (byte & 0x80u8 == 0u8)); '
                                    'lemma_enc_step(s_in, bytes@, len as nat, vin as int, val as int, byte, v0 as int); } // [C09:leb-roundtrip]'),
                      ('return Leb128 {', RET)])
    lw.splice('signed', ret='res', attrs='#[verifier::loop_isolation(false)]',
              ensures=SHAPE + ['[C09:leb-roundtrip] sleb_in(res.seq(), 0, res.count() as int) == val'],
              loops={0: f'invariant {wcore.inv_signed("len")}, // [C09:leb-roundtrip]\n    len <= 9,\n'
                        '    all_cont(bytes@, len as nat), // [C09:leb-roundtrip]\n'
                        '    usum(bytes@, len as nat) + val * pow2(7 * len as nat) == v0, // [C09:leb-roundtrip]\n'
                        ' decreases 10 - len'},
              before=[('let mut bytes = [0; 10];', 'let ghost v0 = val; proof { lemma_pow2_7(0); }'),
                      ('let mut byte = val as u8;', 'proof { ' + wcore.bv_signed_steps() + ' lemma_enc_step_i64(val); } let ghost vin = val; let ghost s_in = bytes@;'),
                      ('len += 1;', f'proof {{ {bvb("vin as u8")} assert(byte & 0x7fu8 == (vin as u8) & 0x7fu8); assert(done == (byte & 0x80u8 == 0u8)); '
                                    'lemma_enc_step(s_in, bytes@, len as nat, vin as int, (vin >> 7u64) as int, byte, v0 as int); } // [C09:leb-roundtrip]'),
                      ('return Leb128 {', RET)])
    sk.add('leb128', lw)


def check_superset(old, new):
    """every clause core.py put on the four generic functions is still stated on the replacement item"""
    for fn in ['skip', 'unsigned', 'u16', 'signed']:
        have = [e for _, e in contract_of(new, fn)]
        for tags, e in contract_of(old, fn):
            if e not in have:
                raise Lost(f'leb: core clause of leb128::read::{fn} missing in the replacement: {e}')


def populate(ctx, sk):
    check_trait_clauses(sk)
    sk.module('vspec_leb', 'use crate::vspec::*;\nuse vstd::arithmetic::power2::*;')
    # the lemma module must precede its users in the file only for readability; module order is free in Rust
    sk.add('vspec_leb', core.rd('specs/leb.rs'), label='vspec_leb', owners=['C09'])
    sk.add('vspec_leb', AXIOM_I64_FROM_U8, label='axiom_i64_from_u8')
    idx, old = chunk_item(sk, 'leb128', 'read')
    new = leb_read_item(ctx)
    check_superset(old, new)
    ch = sk.mods['leb128']['chunks']
    ch[idx] = (new,) + tuple(ch[idx][1:])
    ctx.items.remove(old)          # the replaced extraction is not emitted
    populate_delegates(ctx, sk)
    populate_encoders(ctx, sk)
    return sk


def build(ctx):
    sk = Skeleton(ctx, core.rd('prelude/crate.rs'))
    core.populate(ctx, sk)
    populate(ctx, sk)
    return sk
