"""B-wcfi_table: the frame TABLE and the plain .eh_frame pointer (DESIGN.md 6 C14; the two anchors batch wcfi left open:
"CIE de-duplication and lazy emission: src/write/cfi.rs FrameTable::add_cie/write" and "pointer encodings: write_eh_pointer").

Build = core.populate; wcore.populate; wcfi.populate (entry contracts, reused unchanged); populate.  Ghost vocabulary:
vx/specs/wcfi_table.rs.  All functions owned by C14.

FUNCTIONS UNDER CONTRACT (verified with their real bodies)
  CieId::new (define_id! expansion), FrameTable::{add_cie, cie_count, add_fde, fde_count, write, write_debug_frame, write_eh_frame}
    add_cie     [add-cie-dedup] a CIE equal to one already in the table: the id of THAT CIE is returned, the table (CIEs, FDEs,
                count) is unchanged; no two CIEs of the table are ever equal (different CIEs <=> different ids).
                [add-cie-fresh] otherwise: id = old count, count grows by one, the CIE is appended; in both cases all earlier ids
                keep their CIE (ids are stable) and the returned id is valid for add_fde.
    add_fde     (requires: the id is of this table and in range - "Panics if the CIE id is invalid" - and the documented LSDA
                rule [fde-lsda-api]) [add-fde-order] the (id, FDE) pair is appended: earlier FDEs keep their position, nothing is
                dropped, count grows by one; CIEs untouched.
    write       Ok ==> there is a step record per FDE, in insertion order (specs/wcfi_table.rs `table_written`):
                [table-each-fde-once] step i starts exactly where step i-1 ended (step 0 at the old section end), writes FDE i
                  as one entry (the Ok clauses of FrameDescriptionEntry::write), preceded by its CIE entry iff `fresh`, and
                  nothing else;
                [table-cie-before-fde] the CIE that FDE i names (fdes[i].0) was written in a step <= i, before the FDE entry;
                  a CIE is written only in the step of the first FDE naming it (at most once, lazily: never without an FDE);
                [table-fde-own-cie] the CIE offset FDE i is written with is the section offset at which ITS OWN CIE starts;
                [eh-terminator] after the last entry nothing follows in .debug_frame; in .eh_frame nothing or one 4-byte
                  zero length word (see NOTE).
                The loop invariant `offs_ok` is the cie_offsets fact: cie_offsets[c] is Some(off) iff CIE c has been written,
                at section offset off.  Err from an entry write leaves through `?` (no clause: Err says nothing on the section).
    write_debug_frame / write_eh_frame   the same record for eh_frame = false / true on the wrapped writer.
  EhPlainWriter::write_eh_pointer = the DEFAULT body of Writer::write_eh_pointer (R-IMPL: the text of `trait Writer` under
    another trait name, as batch wreloc does; wcore's Writer keeps the event contract)
                [eh-pointer-application] Ok ==> constant address; the value written is the address (DW_EH_PE_absptr) or the
                  address minus the section offset OF THE FIELD modulo 2^64 (DW_EH_PE_pcrel), encoded by the FORMAT bits
                  (eh_pe & 0x0f) exactly as write_eh_pointer_data specifies, and it fits; the indirect bit (0x80) does not
                  influence the field; any other application (textrel, datarel, funcrel, aligned) ==>
                  Err(UnsupportedPointerEncoding(eh_pe)); a symbol ==> Err(InvalidAddress).
                [eh-pointer-omit] DW_EH_PE_omit (0xff) is never written as a pointer: Err, section unchanged.
ASSUMED (TRUSTED, beyond wcfi's)
  FnvIndexSet (MODEL of the dependency indexmap::IndexSet<T, FnvBuildHasher>: a sequence of elements in insertion order, ghost
      `elems()`), insert_full (an element equal - `set_eq`, T's Eq, uninterpreted - to the value exists: its index, false, set
      unchanged; otherwise: appended, (old len, true)), len, get_index (Some(&elems[i]) iff i < len).  These three are indexmap's
      documented behaviour; outside Verus (hashbrown).  "No two elements are equal" is NOT assumed: it is proved as a table invariant.
NOT DECIDED
  * FrameTable::default()/Default (BaseId::default is a process-wide atomic counter) - `wf()` of the empty table is immediate.
  * that set_eq (derived PartialEq/Hash of CommonInformationEntry) is field-wise equality; that an entry written earlier is still
    intact after later entries (CommonInformationEntry::write has no `grew` frame, see wcfi NOT DECIDED).
  * Err cases of write (partial table).
NOTE on the terminator: gimli writes NO terminator (source: "TODO: write length 0 terminator for eh_frame?"); neither DWARF nor the
  LSB require one inside a relocatable .eh_frame (the section size ends the table; the linker/crtend supply the terminator).  The
  clause therefore allows both for .eh_frame and forbids it for .debug_frame.  No finding.
"""
import re
from lib import *
from batches import core, wcore, wcfi, wunit

TRUSTED = list(wcfi.TRUSTED) + ['FnvIndexSet', 'insert_full', 'len', 'get_index']
OWN = ['C14']
MULTIPLE_ERRORS = 6
VERUS_ARGS = list(wcfi.VERUS_ARGS)
RETRY_RLIMIT = wcfi.RETRY_RLIMIT

W0 = 'old(w).wv()'
W1 = 'final(w).wv()'
O = 'old(self).wv()'
F = 'final(self).wv()'

INDEXSET = '''
/// T's `Eq` (for CommonInformationEntry: derive(PartialEq, Eq, Hash)); uninterpreted
pub uninterp spec fn set_eq<T>(a: T, b: T) -> bool;

/// MODEL (TRUSTED, dependency): `FnvIndexSet<T>` = indexmap::IndexSet<T, FnvBuildHasher>, viewed as the sequence of its
/// elements in insertion order.  Only the three methods FrameTable uses are modelled, with indexmap's documented behaviour.
#[verifier::external_body]
#[verifier::accept_recursive_types(T)]
pub struct FnvIndexSet<T> { model_only: core::marker::PhantomData<T> }

impl<T> FnvIndexSet<T> {
    pub uninterp spec fn elems(&self) -> Seq<T>;

    pub open spec fn has(s: Seq<T>, v: T) -> bool {
        exists|j: int| 0 <= j < s.len() && set_eq(#[trigger] s[j], v)
    }

    /// "Insert the value into the set, and get its index. If an equivalent item already exists in the set, it returns the
    /// index of the existing item and false, leaving the original value in the set [...] Otherwise, it inserts the new
    /// item and returns the index of the inserted item and true." (indexmap)
    #[verifier::external_body]
    pub fn insert_full(&mut self, value: T) -> (res: (usize, bool))
        ensures
            Self::has(old(self).elems(), value) ==> final(self).elems() == old(self).elems() && !res.1
                && res.0 < old(self).elems().len() && set_eq(old(self).elems()[res.0 as int], value),
            !Self::has(old(self).elems(), value) ==> final(self).elems() == old(self).elems().push(value) && res.1
                && res.0 == old(self).elems().len(),
    { unimplemented!() }

    #[verifier::external_body]
    pub fn len(&self) -> (res: usize)
        ensures res == self.elems().len()
    { unimplemented!() }

    #[verifier::external_body]
    pub fn get_index(&self, index: usize) -> (res: Option<&T>)
        ensures
            index < self.elems().len() ==> res == Some(&self.elems()[index as int]),
            index >= self.elems().len() ==> res is None,
    { unimplemented!() }
}
'''

T0 = 'old(self)'
T1 = 'final(self)'


def populate_table(ctx, sk):
    wc = Source('write/cfi.rs', ctx)
    wmod = wcore.wsource('write/mod.rs', ctx)
    if not wcore._has(sk, 'write', 'struct BaseId'):
        sk.add('write', wmod.item(r'^struct BaseId\(usize\);', label='BaseId').clean())
    wcore.ensure_structural(sk, 'write', 'BaseId')
    sk.add('write', INDEXSET, label='FnvIndexSet(model)')
    sk.mods['write::cfi']['uses'] += '\nuse crate::write::{set_eq, BaseId, FnvIndexSet};\nuse core::ops::{Deref, DerefMut};'

    # define_id!(CieId, ..)
    st, im = wunit.define_id(ctx, 'CieId')
    im.own(OWN)
    im.insert_members('    pub closed spec fn base(&self) -> BaseId { self.base_id }\n'
                      '    pub closed spec fn ix(&self) -> usize { self.index }')
    im.splice('new', ret='res', ensures=['res.base() == base_id && res.ix() == index'])
    sk.add('write::cfi', st)
    sk.add('write::cfi', im)

    # define_section!(DebugFrame, ..) / (EhFrame, ..): the tuple structs only (write_debug_frame/write_eh_frame use `w.0`)
    for name, off in [('DebugFrame', 'DebugFrameOffset'), ('EhFrame', 'EhFrameOffset')]:
        ds = wunit.TextSource('write/section.rs', ctx, wunit.expand_macro(ctx, 'write/section.rs', 'define_section', [name, off, '""']))
        sk.add('write::cfi', ds.item(r'^pub struct %s<W: Writer>' % name, label=name).clean())

    ft = wc.item(r'^pub struct FrameTable \{', label='FrameTable(struct)')
    ft.custom_re('R-DERIVE', r'#\[derive\([^\]]*\)\]', '')     # Debug/Default of the IndexSet model are not modelled
    sk.add('write::cfi', ft.clean())
    sk.add('write::cfi', core.rd('specs/wcfi_table.rs'), label='wcfi_table-spec')

    ti = wc.item(r'^impl FrameTable \{', label='FrameTable')
    ti.clean()
    ti.own(OWN)
    ti.insert_after('for (cie_id, fde) in ', 'it: ')

    SAME_FDES = f'{T1}.tfdes() == {T0}.tfdes() && {T1}.tbase() == {T0}.tbase()'
    CS0, CS1 = f'{T0}.tcies()', f'{T1}.tcies()'
    HAS = f'FnvIndexSet::<CommonInformationEntry>::has({CS0}, cie)'
    ti.splice('add_cie', ret='res', requires=[f'{T0}.wf()'], ensures=[
        # "If the CIE already exists, then return the id of the existing CIE."
        f'[C14:add-cie-dedup] {HAS} ==> res.ix() < {CS0}.len() && set_eq({CS0}[res.ix() as int], cie) && {CS1} == {CS0}',
        f'[C14:add-cie-dedup] {T1}.nodup()',
        f'[C14:add-cie-fresh] !{HAS} ==> res.ix() == {CS0}.len() && {CS1} == {CS0}.push(cie)',
        # ids are stable: every id handed out before still names the same CIE
        f'[C14:add-cie-fresh] {CS0}.len() <= {CS1}.len() && forall|k: int| 0 <= k < {CS0}.len() ==> #[trigger] {CS1}[k] == {CS0}[k]',
        f'res.base() == {T1}.tbase() && res.ix() < {CS1}.len()',
        SAME_FDES, f'{T1}.wf()'],
        after=[('let (index, _) = self.cies.insert_full(cie);',
                'proof { assert forall|i: int| 0 <= i < self.tfdes().len() implies #[trigger] self.fde_ok(i) by { assert(old(self).fde_ok(i)); } }')])
    ti.splice('cie_count', ret='res', ensures=['[C14:add-cie-fresh] res == self.tcies().len()'])
    ti.splice('add_fde', canary=True, requires=[
        f'{T0}.wf()',
        # "Panics if the CIE id is invalid."
        f'cie.base() == {T0}.tbase()', f'cie.ix() < {T0}.tcies().len()',
        # "If set then all FDEs which use this CIE must have a LSDA address." (CommonInformationEntry::lsda_encoding)
        f'[C14:fde-lsda-api] fde.has_lsda() <==> {T0}.tcies()[cie.ix() as int].has_lsda_encoding()'],
        ensures=[
        f'[C14:add-fde-order] {T1}.tfdes() == {T0}.tfdes().push((cie, fde))',
        f'{T1}.tcies() == {T0}.tcies() && {T1}.tbase() == {T0}.tbase()', f'{T1}.wf()'],
        after=[('self.fdes.push((cie, fde));',
                'proof { assert forall|i: int| 0 <= i < self.tfdes().len() implies #[trigger] self.fde_ok(i) by { if i < old(self).tfdes().len() { assert(old(self).fde_ok(i)); } } }')])
    ti.splice('fde_count', ret='res', ensures=['[C14:add-fde-order] res == self.tfdes().len()'])

    TAGS = '[C14:table-each-fde-once][C14:table-cie-before-fde][C14:table-fde-own-cie][C14:eh-terminator]'
    ti.splice('write_debug_frame', ret='res', requires=['self.wf()'], ensures=[
        f'{TAGS} res is Ok ==> self.table_done(false, old(w).0.wv(), final(w).0.wv())'])
    ti.splice('write_eh_frame', ret='res', requires=['self.wf()'], ensures=[
        f'{TAGS} res is Ok ==> self.table_done(true, old(w).0.wv(), final(w).0.wv())'])

    N = 'it.index@'
    ti.splice('write', ret='res', attrs='#[verifier::loop_isolation(false)]', requires=['self.wf()'], ensures=[
        f'{TAGS} res is Ok ==> self.table_done(eh_frame, {W0}, {W1})'],
        after=[('let mut cie_offsets = vec![None; self.cies.len()];',
                'let ghost w0 = w.wv();\nlet ghost mut rs: Seq<FRec> = Seq::empty();\n'
                'let ghost mut cpos: Seq<Option<int>> = Seq::new(self.tcies().len(), |c: int| None::<int>);\n'
                'proof { assert forall|c: int| 0 <= c < self.tcies().len() implies cie_offsets@[c] is None by { assert(vstd::pervasive::cloned::<Option<usize>>(None, cie_offsets@[c])); } }'),
               ('let cie_index = cie_id.index;',
                f'let ghost i = {N};\nlet ghost at0 = w.wv();\nlet ghost offs0 = cie_offsets@;\nlet ghost mut fresh = false;\n'
                'proof { assert(self.fde_ok(i)); assert(*cie_id == self.tfdes()[i].0); assert(self.offs_ok(rs, cpos, cie_offsets@, cie_index as int, i)); }'),
               ('let offset = cie.write(w, eh_frame)?;', 'proof { fresh = true; }'),
               ('fde.write(w, eh_frame, cie_offset, cie)?;', STEP_PROOF)],
        before=[('fde.write(w, eh_frame, cie_offset, cie)?;',
                 'let ghost mid = w.wv();\nlet ghost offs1 = cie_offsets@;\n'
                 'proof { if !fresh { let j = cpos[cie_index as int]->0; assert(rs[j].at.len <= w.wv().len); } }'),
                ('Ok(())', 'proof { checkpoint_table_tail(eh_frame, last_end(w0, rs), w.wv()); assert(self.table_written(eh_frame, w0, w.wv(), rs)); }')],
        loops={0: f'''invariant
                rs.len() == {N}, cpos.len() == self.tcies().len(), cie_offsets@.len() == self.tcies().len(),
                w.wv() == last_end(w0, rs),
                forall|k: int| 0 <= k < {N} ==> #[trigger] self.step_ok(eh_frame, w0, rs, k), // [C14:table-each-fde-once]
                forall|k: int| 0 <= k < {N} ==> #[trigger] self.step_cie(rs, k), // [C14:table-cie-before-fde]
                forall|k: int| 0 <= k < {N} ==> #[trigger] self.step_own(rs, k), // [C14:table-fde-own-cie]
                forall|k: int| 0 <= k < {N} ==> (#[trigger] rs[k]).at.len <= w.wv().len,
                forall|c: int| 0 <= c < self.tcies().len() ==> #[trigger] self.offs_ok(rs, cpos, cie_offsets@, c, {N}), // [C14:table-fde-own-cie]'''})
    sk.add('write::cfi', ti)


# ghost bookkeeping after FDE i was written: extend the record sequence, remember where a fresh CIE went
STEP_PROOF = '''
proof {
    let c = cie_index as int;
    let rs0 = rs;
    let cpos0 = cpos;
    let src = if fresh { i } else { cpos0[c]->0 };
    let r = FRec { fresh: fresh, src: src, at: at0, mid: mid, end: w.wv(), cie_off: cie_offset };
    rs = rs0.push(r);
    if fresh { cpos = cpos0.update(c, Some(i)); }
    assert forall|k: int| 0 <= k < i + 1 implies #[trigger] self.step_ok(eh_frame, w0, rs, k) by { // [C14:table-each-fde-once]
        if k < i { assert(self.step_ok(eh_frame, w0, rs0, k)); }
    }
    assert forall|k: int| 0 <= k < i + 1 implies #[trigger] self.step_cie(rs, k) by { // [C14:table-cie-before-fde]
        if k < i { assert(self.step_cie(rs0, k)); }
    }
    assert forall|k: int| 0 <= k < i + 1 implies #[trigger] self.step_own(rs, k) by { // [C14:table-fde-own-cie]
        if k < i { assert(self.step_own(rs0, k)); assert(self.step_cie(rs0, k)); }
    }
    assert forall|k: int| 0 <= k < i + 1 implies (#[trigger] rs[k]).at.len <= w.wv().len by {
        if k < i { assert(rs0[k].at.len <= at0.len); }
    }
    assert forall|d: int| 0 <= d < self.tcies().len() implies #[trigger] self.offs_ok(rs, cpos, cie_offsets@, d, i + 1) by { // [C14:table-fde-own-cie][C14:table-cie-before-fde]
        assert(self.offs_ok(rs0, cpos0, offs0, d, i));
        if d != c { assert(cie_offsets@[d] == offs0[d]); assert(cpos[d] == cpos0[d]); }
    }
}'''


def populate_eh_pointer(ctx, sk):
    """the default body of Writer::write_eh_pointer, in a copy of the trait text (R-IMPL, as wreloc's PlainWriter)"""
    wrs = Source('write/writer.rs', ctx)
    sk.module('write::ehplain', '''use crate::common::{Format, SectionId};
use crate::constants;
use crate::endianity::Endianity;
use crate::leb128::write::Leb128;
use crate::write::{Address, Error, Result};
use crate::vspec::*;
use crate::wspec::*;''')
    pw = wrs.item(r'^pub trait Writer \{', label='EhPlainWriter')
    pw.required(wcore.PRIMS)
    # the other relocatable defaults are wreloc's; the initial-length pair constructs the private InitialLengthOffset (wcore)
    pw.drop(['write_address', 'write_offset', 'write_offset_at', 'write_reference', 'write_initial_length', 'write_initial_length_at'])
    pw.custom('R-IMPL', 'pub trait Writer {', 'pub trait EhPlainWriter {')
    pw.clean()
    wcore.writer_contracts(pw, plain=True)
    FMT = 'crate::constants::DwEhPe(eh_format(eh_pe))'
    pw.splice('write_eh_pointer', ret='res', owners=OWN, ensures=[
        # the value: absolute, or relative to the section offset of the FIELD (pcrel), modulo 2^64 (eh_plain_value); the
        # encoding: by the format bits only; the indirect bit 0x80 is in neither mask
        f'[C14:eh-pointer-application] res is Ok ==> (address matches Address::Constant(v) && eh_plain_value(v, eh_pe, {O}.len) matches Some(pv) '
        f'&& eh_data_op(pv, {FMT}, size) matches Some(op) && emitted({O}, {F}, op) && eh_data_fits(pv, {FMT}, size))',
        f'[C14:eh-pointer-application] (address matches Address::Constant(v) && eh_application(eh_pe) != 0x00 && eh_application(eh_pe) != 0x10) '
        f'==> res == Err::<(), Error>(Error::UnsupportedPointerEncoding(eh_pe))',
        '[C14:eh-pointer-application] address is Symbol ==> res == Err::<(), Error>(Error::InvalidAddress)',
        f'[C14:eh-pointer-omit] eh_pe.0 == 0xff ==> res is Err && wunch({O}, {F})',
        f'[C14:eh-pointer-omit] res is Err ==> wunch({O}, {F})'],
        before=[('match address {', 'proof { let x = eh_pe.0; assert(x == 0xffu8 ==> x & 0x70u8 == 0x70u8) by (bit_vector); }')],
        after=[('let offset = self.len() as u64;', 'proof { let x = val as int - old(self).wv().len as int; '
                'assert(old(self).wv().len <= usize::MAX); '
                'if x >= 0 { vstd::arithmetic::div_mod::lemma_small_mod(x as nat, 0x1_0000_0000_0000_0000); } '
                'else { vstd::arithmetic::div_mod::lemma_mod_multiples_vanish(1, x, 0x1_0000_0000_0000_0000); vstd::arithmetic::div_mod::lemma_small_mod((x + 0x1_0000_0000_0000_0000) as nat, 0x1_0000_0000_0000_0000); assert(0x1_0000_0000_0000_0000 * 1 + x == x + 0x1_0000_0000_0000_0000); } }')])
    sk.mods['write']['uses'] += '\npub use self::ehplain::*;'
    sk.add('write::ehplain', pw)


def populate(ctx, sk):
    populate_table(ctx, sk)
    populate_eh_pointer(ctx, sk)
    return sk


def build(ctx):
    sk = Skeleton(ctx, core.rd('prelude/crate.rs'))
    core.populate(ctx, sk)
    wcore.populate(ctx, sk)
    wcfi.populate(ctx, sk)
    populate(ctx, sk)
    return sk
