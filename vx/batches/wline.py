"""B-wline: write::line, the line-program WRITER (DESIGN.md 6 C13; the `generate_row` mechanism of C12 "line program
re-generation from executed rows").  Build = core.populate; wcore.populate; populate.

ONE STATE MACHINE FOR READER AND WRITER.  The batch loads vx/specs/line.rs - the DWARF 5 6.2.2/6.2.5 machine that batch
`line` proves the READER against (LineHdr, LineRegs, LineOp, line_exec, line_step, line_advance, valid_line_hdr ...) -
UNCHANGED into the same module path `crate::vspec_line`, and states every writer clause against `line_step`.
Needed on top of it and therefore defined in vx/specs/wline.rs (module crate::wspec_line, ghost code only, every lemma proved):
`line_run` (fold of line_step over a sequence of instructions, collecting rows; `lemma_run_push`, `lemma_run_concat`: runs
compose, so per-call clauses extend to the whole instruction list by induction over the calls), the writer's row `WRow`
(address as OFFSET from the sequence base), `wl_generates` / `wl_ends` (C13 for one call: for EVERY base address for which
the row exists on the target, running the reader's machine from the previous row over exactly the appended instructions
appends exactly one row, the requested one), `wl_op_advance` (the inverse of 6.2.5.1) and the arithmetic of the opcode
choice (`lemma_wl_advance_lands`, `_compose`, `lemma_wl_mid` for const_add_pc = advance of special opcode 255 =
(255 - opcode_base) / line_range, `lemma_wl_special_decomp`, `lemma_wl_no_underflow`, ...).

FUNCTIONS UNDER CONTRACT (real text of /repo/src/write/line.rs, owner C13; struct `LineProgram` projected by R-FIELDS:
`directories: FnvIndexSet<..>` and `files: FnvIndexMap<..>` dropped, no extracted method mentions them):
  LineProgram::op_advance      [C13:op-advance] result == wl_op_advance (requires rows ordered, offsets multiples of
                               minimum_instruction_length = the two debug_asserts made explicit: [C13:pre-ordered], [C13:pre-row])
  LineProgram::end_sequence    [C13:end-sequence] the appended instructions (advance_pc?, end_sequence) emit exactly one row:
                               end_sequence set, at (address_offset, row.op_index), all other registers of the previous row, then
                               the machine is in its initial state; [C13:end-sequence-reset] both rows are reset to table 6.4;
                               [C13:special-range] every appended operand in range; [C13:appends-only]
  LineProgram::begin_sequence  [C13:begin-sequence] appends exactly DW_LNE_set_address(a) or nothing, [C13:begin-sequence-pre] =
                               the documented panic; [C13:set-address-model] after it the machine is at (a, op_index 0) = the state
                               the writer's bookkeeping describes
  LineProgram::set_address     [C13:set-address], [C13:set-address-model] (for prev_row.op_index == 0; see F-wline-4)
  LineProgram::row / in_sequence / is_empty / version / address_size   accessors ([C13:row-access], [C13:is-empty])
  LineRow::initial_state, FileId::{initial_state, raw, new, index}   [C13:initial-state] = table 6.4 for versions 2..5,
                               [C13:file-id-raw] file REGISTER value: 1-based for version <= 4, 0-based for 5
  lemma_head / lemma_tail (module write::line, pure): THE SEMANTIC PROOF OF generate_row'S OPCODE CHOICE, proved: after the
                               instructions `wl_head` (set_discriminator? set_basic_block? set_prologue_end? set_epilogue_begin?
                               negate_stmt? set_file? set_column? set_isa? - each present iff the register differs) every register
                               but (address, op_index, line) has its target value; then ANY decision record
                               (advance_line?, const_add_pc?, advance_pc?, special(o) | copy) that accounts for the whole line delta
                               and the whole operation advance the way 6.2.5.1/6.2.5.2 define these opcodes
                               (o == opcode_base + (dl - line_base) + k * line_range with 0 <= dl - line_base < line_range, k the
                               advance left after const_add_pc / 0 after advance_pc) satisfies `wl_generates` and every
                               Special(o) has opcode_base <= o <= 255.
NOT DECIDED - `LineProgram::generate_row` ITSELF ([C13:generate-row][C12:line-regen], [C13:special-range], [C13:generate-row-state]).
  The contract and the ghost scaffolding are in this file (build with WLINE_GENERATE_ROW=1): the body only has to establish
  `instructions == wl_tail(wl_head(..), decision record)` and the integer facts of the record, then calls lemma_head/lemma_tail.
  Verus 0.2026.09.13 does not discharge the verification condition of the BODY within any resource limit tried (rlimit 600,
  4 seeds, arith.solver 2/6): 13 conditional `self.instructions.push(..)` through `&mut self` make every obligation about the merged
  state cost 10^7..10^8 rlimit units (bisection: 3 blocks 5M, 8 blocks 50M, + the op_advance call 260M, then divergence), also with
  closed-form restatements at every join and with trivial postconditions.  The function is therefore NOT extracted in the default
  build (it is not assumed either: nothing depends on it).  Suggested way out for the framework: an R-CASES rule in lib.py
  (verbatim copies under exhaustive case preconditions fixing the branch conditions), or the Kani group K-LINEGEN of DESIGN 6 C13.
NOT DECIDED (carriers 2, 3 of the assignment, not started): `LineInstruction::write` field contract, `LineString::write`,
  `LineProgram::write` header emission (IndexMap/IndexSet iteration is outside Verus), `add_file`/`add_directory` identity, that
  `new`/`none` establish `wf()` (both rows = LineRow::initial_state, by inspection), ConvertLineProgram (batch conv).

DOMAIN OF THE PROVED CLAUSES / FINDINGS.  Default build (exit 0 on the pinned tree) states [C13:pre-advance-small] (operation
advance < 2^56) on op_advance / end_sequence (and, for generate_row, [C13:pre-line-i64], [C13:pre-line-range-127]).
`WLINE_FINDINGS=1` states only the documented preconditions; the verifier then reports (all reproduced natively, native/src/bin):
  F-wline-1  `LineProgram::new` asserts `line_base + line_range as i8 > 0`: every line_range >= 128 panics although the documented
             precondition (line_base + line_range > 0) holds; read->write conversion of a valid input with line_range 200 PANICS (C12).
             (verifier: the same `as i8` debug_assert of generate_row, needs WLINE_GENERATE_ROW=1)           f_wline_1.rs
  F-wline-2  generate_row: `row.line as i64 - prev_row.line as i64` panics / emits a wrong advance_line when the u64 lines straddle
             2^63; an input line 2^63+1 converts silently to line 0 (C12)                                    f_wline_2.rs
  F-wline-3  `address_advance * maximum_operations_per_instruction` (op_advance) and `special + op_advance * line_range`
             (generate_row) overflow for advances >= 2^56: debug panic, release: address advance silently dropped   f_wline_3.rs
             (verifier, WLINE_FINDINGS=1: the two overflow obligations of op_advance)
  F-wline-4  set_address in mid-sequence does not reset prev_row.op_index although DW_LNE_set_address sets op_index to 0: VLIW rows
             read back with a wrong op_index (verifier, WLINE_FINDINGS=1: [C13:set-address-model-vliw])      f_wline_4.rs

TRUSTED: nothing beyond core's/wcore's (no external_body, no assume in this batch).  `wl_symbol_address` (the address a
symbolic `Address` resolves to) is an uninterpreted spec function, not an assumption.
"""
import os
from lib import *
from batches import core, wcore

TRUSTED = list(wcore.TRUSTED)
OWN = ['C13']
VERUS_ARGS = ['--rlimit', '60']
MULTIPLE_ERRORS = 5
# generate_row's body is only extracted on request (its verification condition exceeds the resource limit, see header)
GENERATE_ROW = os.environ.get('WLINE_GENERATE_ROW') == '1'


def anchor(it, pat, fn=None):
    """verbatim source text matched by regex `pat` inside the item / inside its method `fn` (statement anchors that span lines)"""
    text = it.text
    if fn:
        a, b = method_span(text, fn)
        text = text[a:b]
    m = re.search(pat, text)
    if not m:
        raise Lost(f'{it._where("")}: anchor pattern `{pat[:60]}` not found')
    return m.group(0)


# ---- adapters from gimli's writer types to the plain-integer machine (ghost text, module crate::write::line)
ADAPTERS = '''
/// the instruction the reader decodes from what `LineInstruction::write` emits for `i` (DWARF 5 6.2.5; the file operand
/// is the file REGISTER value, FileId::raw)
spec fn wl_op(v: u16, i: LineInstruction) -> LineOp {
    match i {
        LineInstruction::Special(o) => LineOp::Special(o as int),
        LineInstruction::Copy => LineOp::Copy,
        LineInstruction::AdvancePc(u) => LineOp::AdvancePc(u as int),
        LineInstruction::AdvanceLine(s) => LineOp::AdvanceLine(s as int),
        LineInstruction::SetFile(f) => LineOp::SetFile(f.reg(v)),
        LineInstruction::SetColumn(u) => LineOp::SetColumn(u as int),
        LineInstruction::NegateStatement => LineOp::NegateStmt,
        LineInstruction::SetBasicBlock => LineOp::SetBasicBlock,
        LineInstruction::ConstAddPc => LineOp::ConstAddPc,
        LineInstruction::SetPrologueEnd => LineOp::SetPrologueEnd,
        LineInstruction::SetEpilogueBegin => LineOp::SetEpilogueBegin,
        LineInstruction::SetIsa(u) => LineOp::SetIsa(u as int),
        LineInstruction::EndSequence => LineOp::EndSequence,
        LineInstruction::SetAddress(a) => LineOp::SetAddress(wl_address(a)),
        LineInstruction::SetDiscriminator(u) => LineOp::SetDiscriminator(u as int),
    }
}
spec fn wl_ops(v: u16, s: Seq<LineInstruction>) -> Seq<LineOp> {
    s.map_values(|i: LineInstruction| wl_op(v, i))
}
/// the instructions of `s` after the first `s0.len()` (what a call appended)
spec fn wl_pushed(v: u16, s0: Seq<LineInstruction>, s: Seq<LineInstruction>) -> Seq<LineOp> {
    wl_ops(v, s).skip(s0.len() as int)
}
/// the target address a relocatable `Address` stands for (a symbol's address is fixed at link time: uninterpreted)
pub uninterp spec fn wl_symbol_address(symbol: usize, addend: i64) -> int;
pub open spec fn wl_address(a: Address) -> int {
    match a {
        Address::Constant(val) => val as int,
        Address::Symbol { symbol, addend } => wl_symbol_address(symbol, addend),
    }
}
/// the writer's row over plain integers
pub open spec fn wl_row(v: u16, r: LineRow) -> WRow {
    WRow {
        address_offset: r.address_offset as int, op_index: r.op_index as int, file: r.file.reg(v), line: r.line as int,
        column: r.column as int, discriminator: r.discriminator as int, is_stmt: r.is_statement, basic_block: r.basic_block,
        prologue_end: r.prologue_end, epilogue_begin: r.epilogue_begin, isa: r.isa as int,
    }
}

/// proof bookkeeping of one call: `s` extends `s0`, and the machine run over the appended instructions emitted no row
/// yet and stands at the (relative) row `w`, whatever the base address of the sequence
#[verifier::opaque]
spec fn wl_trk(h: LineHdr, v: u16, prev: WRow, limit: int, s0: Seq<LineInstruction>, s: Seq<LineInstruction>, w: WRow) -> bool {
    &&& s0.len() <= s.len()
    &&& s.take(s0.len() as int) =~= s0
    &&& wl_at(h, prev, limit, wl_pushed(v, s0, s), w)
    &&& line_ops_wf(h, wl_pushed(v, s0, s))
}
proof fn lemma_trk_start(h: LineHdr, v: u16, prev: WRow, limit: int, s0: Seq<LineInstruction>)
    ensures wl_trk(h, v, prev, limit, s0, s0, prev)
{
    reveal(wl_trk);
    assert(wl_pushed(v, s0, s0) =~= Seq::<LineOp>::empty());
    lemma_wl_at_start(h, prev, limit);
    lemma_ops_wf_empty(h);
}
proof fn lemma_trk_shape(v: u16, s0: Seq<LineInstruction>, s: Seq<LineInstruction>, i: LineInstruction)
    requires s0.len() <= s.len(), s.take(s0.len() as int) =~= s0
    ensures
        wl_pushed(v, s0, s.push(i)) == wl_pushed(v, s0, s).push(wl_op(v, i)),
        s.push(i).take(s0.len() as int) =~= s0,
        wl_ops(v, s.push(i)).take(s0.len() as int) == wl_ops(v, s0),
        wl_ops(v, s.push(i)).len() == s.len() + 1,
{
    assert(wl_pushed(v, s0, s.push(i)) =~= wl_pushed(v, s0, s).push(wl_op(v, i)));
    assert(s.push(i).take(s0.len() as int) =~= s.take(s0.len() as int));
    assert(wl_ops(v, s.push(i)).take(s0.len() as int) =~= wl_ops(v, s0));
}
/// one more instruction that appends no row
proof fn lemma_trk_push(h: LineHdr, v: u16, prev: WRow, limit: int, s0: Seq<LineInstruction>, s: Seq<LineInstruction>, w: WRow, i: LineInstruction, w2: WRow)
    requires
        wl_trk(h, v, prev, limit, s0, s, w), line_op_wf(h, wl_op(v, i)),
        forall|base: int| wl_cond(h, base, prev, limit) ==> #[trigger] line_step(h, wl_regs(base, w), wl_op(v, i)) == (LineStep { err: false, row: None, next: wl_regs(base, w2) }),
    ensures wl_trk(h, v, prev, limit, s0, s.push(i), w2)
{
    reveal(wl_trk);
    lemma_trk_shape(v, s0, s, i);
    lemma_wl_at_push(h, prev, limit, wl_pushed(v, s0, s), w, wl_op(v, i), w2);
    lemma_ops_wf_push(h, wl_pushed(v, s0, s), wl_op(v, i));
}
/// the instruction that appends the requested row
proof fn lemma_trk_row(h: LineHdr, v: u16, prev: WRow, s0: Seq<LineInstruction>, s: Seq<LineInstruction>, w: WRow, i: LineInstruction, row: WRow)
    requires
        wl_trk(h, v, prev, row.address_offset, s0, s, w), line_op_wf(h, wl_op(v, i)),
        forall|base: int| wl_cond(h, base, prev, row.address_offset) ==> #[trigger] line_step(h, wl_regs(base, w), wl_op(v, i))
            == (LineStep { err: false, row: Some(wl_regs(base, row)), next: wl_regs(base, wl_after(row)) }),
    ensures
        forall|base: int| wl_generates(h, base, prev, row, wl_pushed(v, s0, s.push(i))),
        line_ops_wf(h, wl_pushed(v, s0, s.push(i))),
        wl_ops(v, s.push(i)).take(s0.len() as int) == wl_ops(v, s0),
        wl_ops(v, s.push(i)).len() == s.len() + 1,
{
    reveal(wl_trk);
    lemma_trk_shape(v, s0, s, i);
    lemma_wl_at_row(h, prev, wl_pushed(v, s0, s), w, wl_op(v, i), row);
    lemma_ops_wf_push(h, wl_pushed(v, s0, s), wl_op(v, i));
}
/// the instruction that ends the sequence
proof fn lemma_trk_end(h: LineHdr, v: u16, prev: WRow, s0: Seq<LineInstruction>, s: Seq<LineInstruction>, w: WRow, i: LineInstruction, address_offset: int, op_index: int)
    requires
        wl_trk(h, v, prev, address_offset, s0, s, w), line_op_wf(h, wl_op(v, i)),
        forall|base: int| wl_cond(h, base, prev, address_offset) ==> #[trigger] line_step(h, wl_regs(base, w), wl_op(v, i))
            == (LineStep { err: false, row: Some(LineRegs { address: base + address_offset, op_index: op_index, end_sequence: true, ..wl_regs(base, prev) }), next: line_initial(h) }),
    ensures
        forall|base: int| wl_ends(h, base, prev, address_offset, op_index, wl_pushed(v, s0, s.push(i))),
        line_ops_wf(h, wl_pushed(v, s0, s.push(i))),
        wl_ops(v, s.push(i)).take(s0.len() as int) == wl_ops(v, s0),
        wl_ops(v, s.push(i)).len() == s.len() + 1,
{
    reveal(wl_trk);
    lemma_trk_shape(v, s0, s, i);
    lemma_wl_at_end(h, prev, wl_pushed(v, s0, s), w, wl_op(v, i), address_offset, op_index);
    lemma_ops_wf_push(h, wl_pushed(v, s0, s), wl_op(v, i));
}

/// one more instruction that sets one register
proof fn lemma_trk_sets(h: LineHdr, v: u16, prev: WRow, limit: int, s0: Seq<LineInstruction>, s: Seq<LineInstruction>, w: WRow, i: LineInstruction, w2: WRow)
    requires wl_trk(h, v, prev, limit, s0, s, w), line_op_wf(h, wl_op(v, i)), wl_sets(wl_op(v, i), w, w2)
    ensures wl_trk(h, v, prev, limit, s0, s.push(i), w2)
{
    assert forall|base: int| wl_cond(h, base, prev, limit) implies #[trigger] line_step(h, wl_regs(base, w), wl_op(v, i))
        == (LineStep { err: false, row: None, next: wl_regs(base, w2) }) by { lemma_wl_sets_step(h, base, wl_op(v, i), w, w2); }
    lemma_trk_push(h, v, prev, limit, s0, s, w, i, w2);
}
/// DW_LNS_const_add_pc while at least its advance remains to the target
proof fn lemma_trk_const_add_pc(h: LineHdr, v: u16, prev: WRow, s0: Seq<LineInstruction>, s: Seq<LineInstruction>, w: WRow, row: WRow)
    requires
        wl_trk(h, v, prev, row.address_offset, s0, s, w), valid_line_hdr(h), wl_row_wf(h, w), wl_row_wf(h, row), wl_ordered(w, row),
        wl_op_advance(h, w, row) >= wl_const_add_pc_advance(h),
    ensures
        wl_trk(h, v, prev, row.address_offset, s0, s.push(LineInstruction::ConstAddPc), wl_mid(h, w)),
        wl_row_wf(h, wl_mid(h, w)), wl_ordered(wl_mid(h, w), row),
        wl_op_advance(h, wl_mid(h, w), row) == wl_op_advance(h, w, row) - wl_const_add_pc_advance(h),
        wl_mid(h, w) == (WRow { address_offset: wl_mid(h, w).address_offset, op_index: wl_mid(h, w).op_index, ..w }),
{
    lemma_wl_mid(h, w, row);
    assert forall|base: int| wl_cond(h, base, prev, row.address_offset) implies #[trigger] line_step(h, wl_regs(base, w), wl_op(v, LineInstruction::ConstAddPc))
        == (LineStep { err: false, row: None, next: wl_regs(base, wl_mid(h, w)) }) by { lemma_wl_step_const_add_pc(h, base, w, row); }
    lemma_trk_push(h, v, prev, row.address_offset, s0, s, w, LineInstruction::ConstAddPc, wl_mid(h, w));
}
/// DW_LNS_advance_pc by the whole remaining operation advance
proof fn lemma_trk_advance_pc(h: LineHdr, v: u16, prev: WRow, s0: Seq<LineInstruction>, s: Seq<LineInstruction>, w: WRow, row: WRow, u: u64)
    requires
        wl_trk(h, v, prev, row.address_offset, s0, s, w), valid_line_hdr(h), wl_row_wf(h, w), wl_row_wf(h, row), wl_ordered(w, row),
        u as int == wl_op_advance(h, w, row),
    ensures ({
        let w2 = WRow { address_offset: row.address_offset, op_index: row.op_index, ..w };
        wl_trk(h, v, prev, row.address_offset, s0, s.push(LineInstruction::AdvancePc(u)), w2)
        && wl_row_wf(h, w2) && wl_ordered(w2, row) && wl_op_advance(h, w2, row) == 0
    })
{
    let w2 = WRow { address_offset: row.address_offset, op_index: row.op_index, ..w };
    assert forall|base: int| wl_cond(h, base, prev, row.address_offset) implies #[trigger] line_step(h, wl_regs(base, w), wl_op(v, LineInstruction::AdvancePc(u)))
        == (LineStep { err: false, row: None, next: wl_regs(base, w2) }) by { lemma_wl_step_advance_pc(h, base, w, row); }
    lemma_trk_push(h, v, prev, row.address_offset, s0, s, w, LineInstruction::AdvancePc(u), w2);
    lemma_wl_advance_lands(h, 0, w2, row, wl_regs(0, w2));
}
/// the special opcode `opcode_base + sl + k * line_range` appends the row
proof fn lemma_trk_special(h: LineHdr, v: u16, prev: WRow, s0: Seq<LineInstruction>, s: Seq<LineInstruction>, w: WRow, row: WRow, o: u8, sl: int, k: int)
    requires
        wl_trk(h, v, prev, row.address_offset, s0, s, w), valid_line_hdr(h), wl_row_wf(h, w), wl_row_wf(h, row), wl_ordered(w, row),
        wl_rest_done(w, row), k == wl_op_advance(h, w, row), 0 <= sl < h.line_range, o as int == h.opcode_base + sl + k * h.line_range,
        wl_line_add(w.line, h.line_base + sl) == row.line,
    ensures
        forall|base: int| wl_generates(h, base, prev, row, wl_pushed(v, s0, s.push(LineInstruction::Special(o)))),
        line_ops_wf(h, wl_pushed(v, s0, s.push(LineInstruction::Special(o)))),
        wl_ops(v, s.push(LineInstruction::Special(o))).take(s0.len() as int) == wl_ops(v, s0),
        wl_ops(v, s.push(LineInstruction::Special(o))).len() == s.len() + 1,
{
    lemma_wl_advance_lands(h, 0, w, row, wl_regs(0, w));
    assert(k * h.line_range >= 0) by (nonlinear_arith) requires k >= 0, h.line_range >= 1;
    assert forall|base: int| wl_cond(h, base, prev, row.address_offset) implies #[trigger] line_step(h, wl_regs(base, w), wl_op(v, LineInstruction::Special(o)))
        == (LineStep { err: false, row: Some(wl_regs(base, row)), next: wl_regs(base, wl_after(row)) }) by { lemma_wl_step_special(h, base, w, row, sl, k); }
    lemma_trk_row(h, v, prev, s0, s, w, LineInstruction::Special(o), row);
}
/// DW_LNS_copy appends the row when every register already has its value
proof fn lemma_trk_copy(h: LineHdr, v: u16, prev: WRow, s0: Seq<LineInstruction>, s: Seq<LineInstruction>, w: WRow, row: WRow)
    requires
        wl_trk(h, v, prev, row.address_offset, s0, s, w), valid_line_hdr(h), wl_row_wf(h, w), wl_row_wf(h, row), wl_ordered(w, row),
        wl_rest_done(w, row), wl_op_advance(h, w, row) == 0, w.line == row.line,
    ensures
        forall|base: int| wl_generates(h, base, prev, row, wl_pushed(v, s0, s.push(LineInstruction::Copy))),
        line_ops_wf(h, wl_pushed(v, s0, s.push(LineInstruction::Copy))),
        wl_ops(v, s.push(LineInstruction::Copy)).take(s0.len() as int) == wl_ops(v, s0),
        wl_ops(v, s.push(LineInstruction::Copy)).len() == s.len() + 1,
{
    assert forall|base: int| wl_cond(h, base, prev, row.address_offset) implies #[trigger] line_step(h, wl_regs(base, w), wl_op(v, LineInstruction::Copy))
        == (LineStep { err: false, row: Some(wl_regs(base, row)), next: wl_regs(base, wl_after(row)) }) by { lemma_wl_step_copy(h, base, w, row); }
    lemma_trk_row(h, v, prev, s0, s, w, LineInstruction::Copy, row);
}

/// the instructions the first half of generate_row appends (registers that are set, not advanced), in its order
spec fn wl_head(prev_r: LineRow, row: LineRow, s0: Seq<LineInstruction>) -> Seq<LineInstruction> {
    let a1 = if row.discriminator != 0 { s0.push(LineInstruction::SetDiscriminator(row.discriminator)) } else { s0 };
    let a2 = if row.basic_block { a1.push(LineInstruction::SetBasicBlock) } else { a1 };
    let a3 = if row.prologue_end { a2.push(LineInstruction::SetPrologueEnd) } else { a2 };
    let a4 = if row.epilogue_begin { a3.push(LineInstruction::SetEpilogueBegin) } else { a3 };
    let a5 = if row.is_statement != prev_r.is_statement { a4.push(LineInstruction::NegateStatement) } else { a4 };
    let a6 = if row.file != prev_r.file { a5.push(LineInstruction::SetFile(row.file)) } else { a5 };
    let a7 = if row.column != prev_r.column { a6.push(LineInstruction::SetColumn(row.column)) } else { a6 };
    if row.isa != prev_r.isa { a7.push(LineInstruction::SetIsa(row.isa)) } else { a7 }
}
/// ... after them the machine has every register of the target row except (address, op_index, line)
proof fn lemma_head(h: LineHdr, v: u16, prev_r: LineRow, row: LineRow, s0: Seq<LineInstruction>)
    requires wl_prev_wf(h, wl_row(v, prev_r)), wl_row_wf(h, wl_row(v, row))
    ensures ({
        let prev = wl_row(v, prev_r);
        let tgt = wl_row(v, row);
        wl_trk(h, v, prev, tgt.address_offset, s0, wl_head(prev_r, row, s0),
            WRow { address_offset: prev.address_offset, op_index: prev.op_index, line: prev.line, ..tgt })
    })
{
    let prev = wl_row(v, prev_r);
    let tgt = wl_row(v, row);
    let lim = tgt.address_offset;
    let w1 = WRow { discriminator: tgt.discriminator, ..prev };
    let w2 = WRow { basic_block: tgt.basic_block, ..w1 };
    let w3 = WRow { prologue_end: tgt.prologue_end, ..w2 };
    let w4 = WRow { epilogue_begin: tgt.epilogue_begin, ..w3 };
    let w5 = WRow { is_stmt: tgt.is_stmt, ..w4 };
    let w6 = WRow { file: tgt.file, ..w5 };
    let w7 = WRow { column: tgt.column, ..w6 };
    let w8 = WRow { isa: tgt.isa, ..w7 };
    let a1 = if row.discriminator != 0 { s0.push(LineInstruction::SetDiscriminator(row.discriminator)) } else { s0 };
    let a2 = if row.basic_block { a1.push(LineInstruction::SetBasicBlock) } else { a1 };
    let a3 = if row.prologue_end { a2.push(LineInstruction::SetPrologueEnd) } else { a2 };
    let a4 = if row.epilogue_begin { a3.push(LineInstruction::SetEpilogueBegin) } else { a3 };
    let a5 = if row.is_statement != prev_r.is_statement { a4.push(LineInstruction::NegateStatement) } else { a4 };
    let a6 = if row.file != prev_r.file { a5.push(LineInstruction::SetFile(row.file)) } else { a5 };
    let a7 = if row.column != prev_r.column { a6.push(LineInstruction::SetColumn(row.column)) } else { a6 };
    lemma_trk_start(h, v, prev, lim, s0);
    if row.discriminator != 0 { lemma_trk_sets(h, v, prev, lim, s0, s0, prev, LineInstruction::SetDiscriminator(row.discriminator), w1); }
    assert(wl_trk(h, v, prev, lim, s0, a1, w1));
    if row.basic_block { lemma_trk_sets(h, v, prev, lim, s0, a1, w1, LineInstruction::SetBasicBlock, w2); }
    assert(wl_trk(h, v, prev, lim, s0, a2, w2));
    if row.prologue_end { lemma_trk_sets(h, v, prev, lim, s0, a2, w2, LineInstruction::SetPrologueEnd, w3); }
    assert(wl_trk(h, v, prev, lim, s0, a3, w3));
    if row.epilogue_begin { lemma_trk_sets(h, v, prev, lim, s0, a3, w3, LineInstruction::SetEpilogueBegin, w4); }
    assert(wl_trk(h, v, prev, lim, s0, a4, w4));
    if row.is_statement != prev_r.is_statement { lemma_trk_sets(h, v, prev, lim, s0, a4, w4, LineInstruction::NegateStatement, w5); }
    assert(wl_trk(h, v, prev, lim, s0, a5, w5));
    if row.file != prev_r.file { lemma_trk_sets(h, v, prev, lim, s0, a5, w5, LineInstruction::SetFile(row.file), w6); }
    assert(wl_trk(h, v, prev, lim, s0, a6, w6));
    if row.column != prev_r.column { lemma_trk_sets(h, v, prev, lim, s0, a6, w6, LineInstruction::SetColumn(row.column), w7); }
    assert(wl_trk(h, v, prev, lim, s0, a7, w7));
    if row.isa != prev_r.isa { lemma_trk_sets(h, v, prev, lim, s0, a7, w7, LineInstruction::SetIsa(row.isa), w8); }
    assert(w8 == (WRow { address_offset: prev.address_offset, op_index: prev.op_index, line: prev.line, ..tgt }));
}

/// decision record of the second half of generate_row: which instructions were appended after the head
spec fn wl_tail(s8: Seq<LineInstruction>, al: Option<i64>, cap: bool, apc: Option<u64>, fin: Option<u8>) -> Seq<LineInstruction> {
    let s9 = match al { Some(x) => s8.push(LineInstruction::AdvanceLine(x)), None => s8 };
    let s10 = if cap { s9.push(LineInstruction::ConstAddPc) } else { s9 };
    let s11 = match apc { Some(u) => s10.push(LineInstruction::AdvancePc(u)), None => s10 };
    match fin { Some(o) => s11.push(LineInstruction::Special(o)), None => s11.push(LineInstruction::Copy) }
}
/// the second half only appends
proof fn lemma_tail_frame(v: u16, s0: Seq<LineInstruction>, s8: Seq<LineInstruction>, al: Option<i64>, cap: bool, apc: Option<u64>, fin: Option<u8>)
    requires s0.len() <= s8.len(), s8.take(s0.len() as int) =~= s0
    ensures ({
        let sf = wl_tail(s8, al, cap, apc, fin);
        wl_ops(v, sf).take(s0.len() as int) == wl_ops(v, s0) && wl_ops(v, sf).len() > s0.len()
    })
{
    let sf = wl_tail(s8, al, cap, apc, fin);
    assert(sf.len() > s8.len());
    assert(sf.take(s0.len() as int) =~= s0);
    assert(wl_ops(v, sf).take(s0.len() as int) =~= wl_ops(v, s0));
}
/// ANY choice of (advance_line?, const_add_pc?, advance_pc?, special | copy) that accounts for the whole line delta and the
/// whole operation advance in the way 6.2.5.1/6.2.5.2 define these opcodes generates exactly the requested row
proof fn lemma_tail(h: LineHdr, v: u16, prev: WRow, tgt: WRow, s0: Seq<LineInstruction>, s8: Seq<LineInstruction>,
                    al: Option<i64>, cap: bool, apc: Option<u64>, fin: Option<u8>)
    requires
        wl_hdr_ok(h), wl_row_wf(h, prev), wl_row_wf(h, tgt), wl_ordered(prev, tgt),
        wl_trk(h, v, prev, tgt.address_offset, s0, s8, WRow { address_offset: prev.address_offset, op_index: prev.op_index, line: prev.line, ..tgt }),
        wl_line_delta_fits(prev.line, tgt.line),
        al matches Some(x) ==> x as int == tgt.line - prev.line,
        cap ==> apc is None && wl_op_advance(h, prev, tgt) >= wl_const_add_pc_advance(h),
        apc matches Some(u) ==> u as int == wl_op_advance(h, prev, tgt),
        ({
            let adv = wl_op_advance(h, prev, tgt);
            let k = if apc is Some { 0 } else if cap { adv - wl_const_add_pc_advance(h) } else { adv };
            let dl = if al is Some { 0 } else { tgt.line - prev.line };
            match fin {
                Some(o) => 0 <= dl - h.line_base < h.line_range && o as int == h.opcode_base + (dl - h.line_base) + k * h.line_range,
                None => dl == 0 && k == 0,
            }
        }),
    ensures
        forall|base: int| wl_generates(h, base, prev, tgt, wl_pushed(v, s0, wl_tail(s8, al, cap, apc, fin))),
        line_ops_wf(h, wl_pushed(v, s0, wl_tail(s8, al, cap, apc, fin))),
{
    let lim = tgt.address_offset;
    let adv = wl_op_advance(h, prev, tgt);
    let w8 = WRow { address_offset: prev.address_offset, op_index: prev.op_index, line: prev.line, ..tgt };
    lemma_wl_op_advance_cong(h, prev, tgt, w8, tgt);
    lemma_wl_line_add(prev.line, tgt.line);
    lemma_wl_line_add_zero(tgt.line);
    lemma_wl_line_add_zero(prev.line);
    // DW_LNS_advance_line
    let s9 = match al { Some(x) => s8.push(LineInstruction::AdvanceLine(x)), None => s8 };
    let w9 = if al is Some { WRow { line: tgt.line, ..w8 } } else { w8 };
    match al { Some(x) => { lemma_trk_sets(h, v, prev, lim, s0, s8, w8, LineInstruction::AdvanceLine(x), w9); }, None => {} }
    assert(wl_trk(h, v, prev, lim, s0, s9, w9));
    lemma_wl_op_advance_cong(h, prev, tgt, w9, tgt);
    // DW_LNS_const_add_pc
    let s10 = if cap { s9.push(LineInstruction::ConstAddPc) } else { s9 };
    let w10 = if cap { wl_mid(h, w9) } else { w9 };
    if cap { lemma_trk_const_add_pc(h, v, prev, s0, s9, w9, tgt); }
    assert(wl_trk(h, v, prev, lim, s0, s10, w10));
    // DW_LNS_advance_pc
    let s11 = match apc { Some(u) => s10.push(LineInstruction::AdvancePc(u)), None => s10 };
    let w11 = if apc is Some { WRow { address_offset: tgt.address_offset, op_index: tgt.op_index, ..w10 } } else { w10 };
    match apc { Some(u) => { lemma_trk_advance_pc(h, v, prev, s0, s10, w10, tgt, u); }, None => {} }
    assert(wl_trk(h, v, prev, lim, s0, s11, w11));
    let k = if apc is Some { 0 } else if cap { adv - wl_const_add_pc_advance(h) } else { adv };
    let dl = if al is Some { 0 } else { tgt.line - prev.line };
    assert(k == wl_op_advance(h, w11, tgt));
    assert(wl_row_wf(h, w11) && wl_ordered(w11, tgt) && wl_rest_done(w11, tgt));
    assert(wl_line_add(w11.line, dl) == tgt.line);
    // the row
    match fin {
        Some(o) => { lemma_trk_special(h, v, prev, s0, s11, w11, tgt, o, dl - h.line_base, k); },
        None => { lemma_trk_copy(h, v, prev, s0, s11, w11, tgt); },
    }
}
'''

ID_GHOST = '''
        /// ghost accessor: the 0-based index
        pub closed spec fn idx(self) -> usize { self.0 }
        /// the value of the `file` REGISTER that selects this file: DWARF <= 4 numbers the file_names entries from 1,
        /// DWARF 5 from 0 (6.2.4 #11 / 6.2.4.1)
        pub open spec fn reg(self, version: u16) -> int { if version <= 4 { self.idx() + 1 } else { self.idx() as int } }
'''

LP_GHOST = '''
    // ---- ghost accessors (the fields are private)
    /// the parameters of the line number machine this program is written for (opcode_base is what `write` puts in the header)
    pub closed spec fn lh(&self) -> LineHdr {
        LineHdr {
            version: self.encoding.version as int, address_size: self.encoding.address_size as int,
            min_inst_len: self.line_encoding.minimum_instruction_length as int,
            max_ops: self.line_encoding.maximum_operations_per_instruction as int,
            default_is_stmt: self.line_encoding.default_is_stmt, line_base: self.line_encoding.line_base as int,
            line_range: self.line_encoding.line_range as int, opcode_base: OPCODE_BASE as int,
        }
    }
    pub closed spec fn ver(&self) -> u16 { self.encoding.version }
    /// the last generated row (after the per-row reset) / the row being filled in
    pub closed spec fn prev(&self) -> WRow { wl_row(self.encoding.version, self.prev_row) }
    pub closed spec fn cur(&self) -> WRow { wl_row(self.encoding.version, self.row) }
    pub closed spec fn cur_row(&self) -> LineRow { self.row }
    /// all instructions generated so far, as instructions of the machine
    pub closed spec fn ops(&self) -> Seq<LineOp> { wl_ops(self.encoding.version, self.instructions@) }
    pub closed spec fn in_seq(&self) -> bool { self.in_sequence }
    /// struct invariant (established by `new`/`none`: both rows are LineRow::initial_state, in_sequence is false): the
    /// remembered previous row is a row after the per-row reset; outside a sequence it is the initial row
    pub closed spec fn wf(&self) -> bool {
        wl_prev_wf(self.lh(), self.prev()) && (!self.in_sequence ==> self.prev() == wl_initial(self.lh()))
    }
    /// everything but the rows / instructions / in_sequence
    pub closed spec fn same_config(&self, o: &Self) -> bool {
        self.none == o.none && self.encoding == o.encoding && self.line_encoding == o.line_encoding
        && self.file_has_timestamp == o.file_has_timestamp && self.file_has_size == o.file_has_size
        && self.file_has_md5 == o.file_has_md5 && self.file_has_source == o.file_has_source
    }
    pub proof fn lemma_same_config(&self, o: &Self)
        requires self.same_config(o)
        ensures self.lh() == o.lh(), self.ver() == o.ver()
    {}
'''

H = 'old(self).lh()'
N0 = 'old(self).ops().len() as int'
FRAME = [f'final(self).same_config(old(self))',
         f'[C13:appends-only] final(self).ops().len() >= old(self).ops().len() && final(self).ops().take({N0}) == old(self).ops()']


def populate(ctx, sk, findings=False):
    wl = Source('write/line.rs', ctx)
    sk.module('vspec_line')
    if not wcore._has(sk, 'vspec_line', 'pub ghost struct LineHdr'):
        sk.add('vspec_line', core.rd('specs/line.rs'), label='vspec_line')     # the READER's machine, unchanged
    sk.module('wspec_line')
    sk.add('wspec_line', core.rd('specs/wline.rs'), label='wspec_line')

    sk.mods['write']['uses'] += '\npub use self::line::*;'
    sk.module('write::line', '''use crate::common::{DebugLineOffset, Encoding, Format, LineEncoding, SectionId};
use crate::constants;
use crate::leb128::write::Leb128;
use crate::write::{Address, Error, Result, Writer};
use crate::wspec::*;
use crate::vspec_line::*;
use crate::wspec_line::*;
pub use self::id::*;''')
    M = 'write::line'
    sk.add(M, wl.item(r'^const OPCODE_BASE').clean())

    # ---- FileId
    idm = wl.item(r'^mod id \{', label='id').clean()
    idm.insert_after('mod id {', '\n    use vstd::prelude::*;\n')
    idm.insert_after('impl FileId {', ID_GHOST)
    idm.insert_before('impl FileId {', 'unsafe impl Structural for FileId {}\n\n    ')
    idm.own(OWN)
    idm.splice('new', ret='res', ensures=['res.idx() == index'])
    idm.splice('index', ret='res', ensures=['res == self.idx()'])
    # table 6.4: the initial value of the file register is 1 (for every version up to 5)
    idm.splice('initial_state', ret='res', ensures=['[C13:initial-state] 2 <= version <= 5 ==> res.reg(version) == 1'])
    idm.splice('raw', ret='res', requires=['self.reg(version) <= u64::MAX'], ensures=['[C13:file-id-raw] res as int == self.reg(version)'], canary=True)
    sk.add(M, idm)

    # ---- rows and instructions
    sk.add(M, wl.item(r'^pub struct LineRow \{', label='LineRow').clean())
    sk.add(M, wl.item(r'^enum LineInstruction \{', label='LineInstruction').clean())
    sk.add(M, ADAPTERS, label='wline-adapters', owners=OWN)
    ri = wl.item(r'^impl LineRow \{', label='LineRow(impl)').clean()
    ri.own(OWN)
    ri.splice('initial_state', ret='res', ensures=[
        '[C13:initial-state] 2 <= encoding.version <= 5 ==> wl_row(encoding.version, res) == (WRow { is_stmt: line_encoding.default_is_stmt, '
        'address_offset: 0, op_index: 0, file: 1, line: 1, column: 0, discriminator: 0, basic_block: false, prologue_end: false, epilogue_begin: false, isa: 0 })'])
    sk.add(M, ri)

    # ---- LineProgram (R-FIELDS: the two tables no extracted method mentions)
    lp = wl.item(r'^pub struct LineProgram \{', label='LineProgram')
    lp.custom('R-FIELDS', 'directories: FnvIndexSet<LineString>,', '')
    lp.custom('R-FIELDS', 'files: FnvIndexMap<(LineString, DirectoryId), FileInfo>,', '')
    lp.clean()
    sk.add(M, lp)
    im = wl.item(r'^impl LineProgram \{', label='LineProgram(impl)')
    keep = ['is_none', 'encoding', 'version', 'address_size', 'format', 'begin_sequence', 'set_address', 'end_sequence',
            'in_sequence', 'row', 'op_advance', 'is_empty']
    if GENERATE_ROW:
        keep.append('generate_row')
    im.keep_only(keep)
    im.clean()
    im.insert_members(LP_GHOST)
    im.own(OWN)
    program_contracts(im, findings)
    sk.add(M, im)
    return sk


POW64 = '0x1_0000_0000_0000_0000'
TRK = 'wl_trk(h, v, prev, lim, s0, self.instructions@, {w})'




def program_contracts(im, findings):
    im.splice('version', ret='res', ensures=['res == self.ver()', 'res as int == self.lh().version'])
    im.splice('address_size', ret='res', ensures=['res as int == self.lh().address_size'])
    im.splice('in_sequence', ret='res', ensures=['res == self.in_seq()'])
    im.splice('is_empty', ret='res', ensures=['[C13:is-empty] res == (self.ops().len() == 0)'])
    im.splice('row', ret='res', ensures=['[C13:row-access] *res == old(self).cur_row()', '[C13:row-access] final(self).cur_row() == *final(res)',
                                        'final(self).same_config(old(self))', 'final(self).prev() == old(self).prev()',
                                        'final(self).ops() == old(self).ops()', 'final(self).in_seq() == old(self).in_seq()'])

    # ---- domain of the proved clauses.  DEFAULT build: the preconditions below are stated, every obligation is discharged
    # on the pinned tree.  FINDINGS build (WLINE_FINDINGS=1): only the documented preconditions are stated and the verifier
    # reports the defects F-wline-1..4 (header docstring) as failed obligations.
    # (1) header parameters.  Documented (`LineProgram::new`): "Panics if line_base > 0. Panics if line_base + line_range <= 0."
    #     ASSERTED by `new`: `line_base + line_range as i8 > 0`, which additionally rejects every line_range >= 128
    #     (F-wline-1); the default build states what `new` establishes.
    # (2) line numbers below 2^63 (`row.line as i64 - prev_row.line as i64`, F-wline-2) and an operation advance below
    #     2^56 (`op_advance * line_range`, `address_advance * maximum_operations_per_instruction`, F-wline-3)
    ADV_SMALL = '[C13:pre-advance-small] wl_op_advance({h}, {p}, {c}) <= 0xff_ffff_ffff_ffff'
    STRICT_ROW = [] if findings else [
        '[C13:pre-line-i64] old(self).cur().line <= 0x7fff_ffff_ffff_ffff && old(self).prev().line <= 0x7fff_ffff_ffff_ffff',
        ADV_SMALL.format(h=H, p='old(self).prev()', c='old(self).cur()')]
    STRICT_ADV = [] if findings else [ADV_SMALL.format(h='self.lh()', p='self.prev()', c='self.cur()')]
    STRICT_END = [] if findings else [ADV_SMALL.format(h=H, p='old(self).prev()', c='(WRow { address_offset: address_offset as int, ..old(self).cur() })')]

    # ---- op_advance: the operation advance between the previous row and the current one (inverse of 6.2.5.1)
    im.splice('op_advance', ret='res', requires=[
        'valid_line_hdr(self.lh())', 'wl_row_wf(self.lh(), self.prev())', 'wl_row_wf(self.lh(), self.cur())',
        '[C13:pre-ordered] wl_ordered(self.prev(), self.cur())'] + STRICT_ADV,
        ensures=['[C13:op-advance] res as int == wl_op_advance(self.lh(), self.prev(), self.cur())'], canary=True,
        before=[('let mut address_advance =', 'proof { reveal(wl_aligned); }'),
                ('address_advance * u64::from(', 'proof { reveal(wl_op_advance); let h = self.lh(); lemma_wl_advance_lands(h, 0, self.prev(), self.cur(), wl_regs(0, self.prev())); '
                 'let diff = self.row.address_offset as int - self.prev_row.address_offset as int; assert(diff / 1 == diff); }')])

    # ---- begin_sequence / set_address: DW_LNE_set_address
    SETADDR = 'LineOp::SetAddress(wl_address({a}))'

    # the machine after DW_LNE_set_address(a) (6.2.5.3: address := a, op_index := 0) must be the state the writer's
    # bookkeeping (prev row, relative to the NEW base a - prev.address_offset) describes
    def set_model(a, hyp):
        return (f'forall|base: int| #![trigger wl_regs(base, old(self).prev())] {hyp} 0 <= base + old(self).prev().address_offset <= wl_address({a}) < addr_max({H}) - 1 ==> '
                f'line_step({H}, wl_regs(base, old(self).prev()), {SETADDR.format(a=a)}) == (LineStep {{ err: false, row: None, '
                f'next: wl_regs(wl_address({a}) - old(self).prev().address_offset, final(self).prev()) }})')
    SA = 'LineInstruction::SetAddress(address)'
    SHAPE = (f'proof {{ assert(wl_ops(v, s0.push({SA})) =~= wl_ops(v, s0).push(wl_op(v, {SA}))); '
             f'assert(wl_ops(v, s0.push({SA})).take(s0.len() as int) =~= wl_ops(v, s0)); }}')
    SNAP = 'let ghost s0 = self.instructions@; let ghost v = self.encoding.version;'
    im.splice('begin_sequence', requires=['[C13:begin-sequence-pre] !old(self).in_seq()', 'old(self).wf()'], ensures=FRAME + [
        'final(self).in_seq()', 'final(self).prev() == old(self).prev() && final(self).cur_row() == old(self).cur_row()', 'final(self).wf()',
        f'[C13:begin-sequence] final(self).ops() == (match address {{ Some(a) => old(self).ops().push({SETADDR.format(a="a")}), None => old(self).ops() }})',
        '[C13:set-address-model] address matches Some(a) ==> ' + set_model('a', ''),
    ], before=[('self.in_sequence = true;', SNAP)], after=[(f'self.instructions.push({SA});', SHAPE)], canary=True)
    im.splice('set_address', requires=['old(self).wf()'], ensures=FRAME + [
        'final(self).in_seq()', 'final(self).prev() == old(self).prev() && final(self).cur_row() == old(self).cur_row()',
        f'[C13:set-address] final(self).ops() == old(self).ops().push({SETADDR.format(a="address")})',
        '[C13:set-address-model] ' + set_model('address', 'old(self).prev().op_index == 0 ==>'),
    ] + ([
        # 6.2.5.3: DW_LNE_set_address sets op_index to 0; the writer keeps prev_row.op_index.  FAILS (VLIW only): F-wline-4
        '[C13:set-address-model-vliw] ' + set_model('address', ''),
    ] if findings else []) + ['final(self).wf()'],
        before=[('self.in_sequence = true;', SNAP)], after=[(f'self.instructions.push({SA});', SHAPE)])

    # ---- end_sequence
    PUSHED = f'final(self).ops().skip({N0})'
    a_adv = anchor(im, r'self\.instructions\s*\.push\(LineInstruction::AdvancePc\(op_advance\)\);', 'end_sequence')
    im.splice('end_sequence', requires=[
        f'valid_line_hdr({H})', f'2 <= {H}.version <= 5', 'old(self).wf()',
        # "Only the address_offset and op_index fields of the current row are used": they must describe a position at or
        # after the previous row, on an instruction boundary
        '[C13:pre-ordered] wl_ordered(old(self).prev(), WRow { address_offset: address_offset as int, ..old(self).cur() })',
        f'[C13:pre-aligned] wl_aligned({H}, address_offset as int)', f'[C13:pre-row] wl_row_wf({H}, old(self).cur())',
    ] + STRICT_END, ensures=FRAME + [
        '!final(self).in_seq()', 'final(self).wf()',
        f'[C13:end-sequence] forall|base: int| wl_ends({H}, base, old(self).prev(), address_offset as int, old(self).cur().op_index, {PUSHED})',
        f'[C13:special-range] line_ops_wf({H}, {PUSHED})',
        f'[C13:end-sequence-reset] final(self).prev() == wl_initial({H}) && final(self).cur() == wl_initial({H})',
    ], before=[
        ('self.in_sequence = false;', 'let ghost h = self.lh(); let ghost v = self.encoding.version; let ghost s0 = self.instructions@; let ghost prev = self.prev(); '
         'let ghost lim = address_offset as int; let ghost opi = self.cur().op_index; '
         'let ghost tgt = WRow { address_offset: lim, op_index: opi, ..prev }; let ghost mut wc = prev; '
         'proof { lemma_trk_start(h, v, prev, lim, s0); }'),
        (a_adv, 'let ghost sn1 = self.instructions@;'),
        ('self.instructions.push(LineInstruction::EndSequence);', 'let ghost sn2 = self.instructions@;'),
    ], after=[
        ('let op_advance = self.op_advance();', 'proof { lemma_wl_op_advance_cong(h, prev, self.cur(), prev, tgt); }'),
        (a_adv, 'proof { assert forall|base: int| wl_cond(h, base, prev, lim) implies #[trigger] line_step(h, wl_regs(base, prev), wl_op(v, LineInstruction::AdvancePc(op_advance))) '
                '== (LineStep { err: false, row: None, next: wl_regs(base, tgt) }) by { lemma_wl_step_advance_pc(h, base, prev, tgt); } '
                'lemma_trk_push(h, v, prev, lim, s0, sn1, prev, LineInstruction::AdvancePc(op_advance), tgt); wc = tgt; }'),
        ('self.instructions.push(LineInstruction::EndSequence);',
         'proof { lemma_wl_aligned_zero(h); lemma_wl_advance_lands(h, 0, prev, tgt, wl_regs(0, prev)); assert(wc == tgt); '
         'lemma_trk_end(h, v, prev, s0, sn2, wc, LineInstruction::EndSequence, lim, opi); }'),
    ], canary=True)

    if not GENERATE_ROW:
        return
    # ---- generate_row.  The semantic argument is in the pure lemmas lemma_head / lemma_tail (cheap); the body only records
    # WHICH instructions were appended (closed forms a1..a8, decision record g_al/g_cap/g_apc/g_fin) and the integer facts
    # about the chosen opcode.  Every join of a conditional push restates the state in closed form (nothing depends on the
    # branch taken): without this the 2^13 paths of the body make the verification condition intractable.
    def pa(pat):
        return anchor(im, pat, 'generate_row')
    A_AL = pa(r'self\.instructions\s*\.push\(LineInstruction::AdvanceLine\(line_advance\)\);')
    A_CAP = pa(r'self\.instructions\.push\(LineInstruction::ConstAddPc\);')
    A_APC = pa(r'self\.instructions\s*\.push\(LineInstruction::AdvancePc\(op_advance\)\);')
    A_SPE = pa(r'self\.instructions\s*\.push\(LineInstruction::Special\(special as u8\)\);')
    STATE = 'assert(self.prev_row == prow0 && self.same_config(&self0) && self.in_sequence); '
    RESET = ['discriminator: 0', 'basic_block: false', 'prologue_end: false', 'epilogue_begin: false']

    def join(k):
        row = 'LineRow { ' + ', '.join(RESET[:min(k, 4)]) + ', ..row0 }'
        return f'proof {{ assert(self.instructions@ == a{k}); assert(self.row == {row}); {STATE} }}'
    JOINS = [(nxt, join(k)) for k, nxt in enumerate([
        'if self.row.basic_block {', 'if self.row.prologue_end {', 'if self.row.epilogue_begin {',
        'if self.row.is_statement != self.prev_row.is_statement {', 'if self.row.file != self.prev_row.file {',
        'if self.row.column != self.prev_row.column {', 'if self.row.isa != self.prev_row.isa {'], start=1)]
    LI = 'LineInstruction::'
    TOP = ('let ghost h = self.lh(); let ghost v = self.encoding.version; let ghost s0 = self.instructions@; let ghost self0 = *self; '
           'let ghost row0 = self.row; let ghost prow0 = self.prev_row; '
           'let ghost rowR = LineRow { discriminator: 0, basic_block: false, prologue_end: false, epilogue_begin: false, ..self.row }; '
           'let ghost prev = self.prev(); let ghost tgt = self.cur(); let ghost fits = wl_line_delta_fits(prev.line, tgt.line); '
           'let ghost w8 = WRow { address_offset: prev.address_offset, op_index: prev.op_index, line: prev.line, ..tgt }; '
           f'let ghost a1 = if row0.discriminator != 0 {{ s0.push({LI}SetDiscriminator(row0.discriminator)) }} else {{ s0 }}; '
           f'let ghost a2 = if row0.basic_block {{ a1.push({LI}SetBasicBlock) }} else {{ a1 }}; '
           f'let ghost a3 = if row0.prologue_end {{ a2.push({LI}SetPrologueEnd) }} else {{ a2 }}; '
           f'let ghost a4 = if row0.epilogue_begin {{ a3.push({LI}SetEpilogueBegin) }} else {{ a3 }}; '
           f'let ghost a5 = if row0.is_statement != prow0.is_statement {{ a4.push({LI}NegateStatement) }} else {{ a4 }}; '
           f'let ghost a6 = if row0.file != prow0.file {{ a5.push({LI}SetFile(row0.file)) }} else {{ a5 }}; '
           f'let ghost a7 = if row0.column != prow0.column {{ a6.push({LI}SetColumn(row0.column)) }} else {{ a6 }}; '
           f'let ghost a8 = if row0.isa != prow0.isa {{ a7.push({LI}SetIsa(row0.isa)) }} else {{ a7 }}; '
           'let ghost mut g_al: Option<i64> = None; let ghost mut g_cap: bool = false; let ghost mut g_apc: Option<u64> = None; let ghost mut g_fin: Option<u8> = None; '
           'let ghost mut kk: int = 0; let ghost mut sl: int = 0; '
           'let ghost lb64: i64 = self.line_encoding.line_base as i64; let ghost la64: u64 = self.row.line; let ghost lp64: u64 = self.prev_row.line;')
    S9 = f'(match g_al {{ Some(x) => a8.push({LI}AdvanceLine(x)), None => a8 }})'
    S10 = f'(if g_cap {{ {S9}.push({LI}ConstAddPc) }} else {{ {S9} }})'
    S11 = f'(match g_apc {{ Some(u) => {S10}.push({LI}AdvancePc(u)), None => {S10} }})'
    CASTS = ('proof { '
             f'assert(lb64 < 0 ==> (lb64 as u64) as int == lb64 as int + {POW64}) by (bit_vector); '
             'assert(lb64 >= 0 ==> (lb64 as u64) as int == lb64 as int) by (bit_vector); '
             'assert(la64 <= 0x7fff_ffff_ffff_ffffu64 ==> (la64 as i64) as int == la64 as int) by (bit_vector); '
             f'assert(la64 > 0x7fff_ffff_ffff_ffffu64 ==> (la64 as i64) as int == la64 as int - {POW64}) by (bit_vector); '
             'assert(lp64 <= 0x7fff_ffff_ffff_ffffu64 ==> (lp64 as i64) as int == lp64 as int) by (bit_vector); '
             f'assert(lp64 > 0x7fff_ffff_ffff_ffffu64 ==> (lp64 as i64) as int == lp64 as int - {POW64}) by (bit_vector); '
             f'assert(self.instructions@ == a8); assert(self.row == rowR); {STATE} '
             'assert(a8 == wl_head(prow0, row0, s0)); }')
    AFTER_DEFAULT = ('proof { '
                     f'assert(line_base as int == (if h.line_base < 0 {{ h.line_base + {POW64} }} else {{ h.line_base }})); '
                     'assert(special_default as int == 13 - h.line_base); '
                     'assert(fits ==> line_advance as int == tgt.line - prev.line); '
                     f'assert(line_advance < 0 ==> (line_advance as u64) as int == line_advance as int + {POW64}) by (bit_vector); '
                     'assert(line_advance >= 0 ==> (line_advance as u64) as int == line_advance as int) by (bit_vector); '
                     'sl = -h.line_base; }')
    # after the line part: either the line is done (advance_line / no change) or it rides on the special opcode
    AFTER_LINE = ('proof { '
                  'if use_special { sl = line_advance as int - h.line_base; } '
                  'assert(special as int == 13 + sl && 0 <= sl < h.line_range); '
                  'assert(g_al is Some <==> (line_advance != 0 && !use_special)); assert(g_al matches Some(x) ==> x == line_advance); '
                  'assert(use_special ==> line_advance != 0); '
                  f'assert(self.instructions@ == {S9}); assert(self.row == rowR); {STATE} '
                  'lemma_wl_advance_lands(h, 0, prev, tgt, wl_regs(0, prev)); kk = op_advance as int; '
                  'assert(kk == wl_op_advance(h, prev, tgt)); }')
    NO_OVERFLOW = ('proof { if op_advance <= 0xff_ffff_ffff_ffffu64 { assert(op_advance as int * line_range as int <= 0xff_ffff_ffff_ffff * 255) by (nonlinear_arith) '
                   'requires 0 <= op_advance as int <= 0xff_ffff_ffff_ffff, 0 <= line_range as int <= 255; } }')
    # `op_advance - op_range` cannot underflow; `special_op_advance * line_range` stays below `op_advance * line_range`
    BEFORE_RANGE = ('proof { lemma_wl_no_underflow(h, special as int, op_advance as int); lemma_wl_op_range(h); '
                    'assert((255 - special_base as int) / (line_range as int) == wl_const_add_pc_advance(h)); }')
    BEFORE_SPECIAL_OP = ('proof { assert(special_op_advance as int * line_range as int <= op_advance as int * line_range as int) by (nonlinear_arith) '
                         'requires special_op_advance <= op_advance, line_range >= 0; '
                         'if const_add_pc { kk = kk - wl_const_add_pc_advance(h); } '
                         'assert(special_op_advance as int == kk); }')
    # the decision record against the standard: (line delta, operation advance) are fully accounted for
    BEFORE_FINAL = ('proof { if kk == 0 { assert(kk * h.line_range == 0) by (nonlinear_arith) requires kk == 0; } '
                    'let adv = wl_op_advance(h, prev, tgt); '
                    'assert(kk >= 0); assert(kk * h.line_range >= 0) by (nonlinear_arith) requires kk >= 0, h.line_range >= 0; '
                    'assert(special as int == 13 + sl + kk * h.line_range); '
                    'assert(!use_special ==> kk == 0 && sl == -h.line_base); '
                    'assert(use_special ==> special <= 255); '
                    'assert(g_cap ==> g_apc is None && adv >= wl_const_add_pc_advance(h)); '
                    'assert(g_apc matches Some(u) ==> u as int == adv); '
                    'assert(kk == (if g_apc is Some { 0 } else if g_cap { adv - wl_const_add_pc_advance(h) } else { adv })); '
                    f'assert(self.instructions@ == {S11}); assert(self.row == rowR); {STATE} }}')
    FINAL_JOIN = ('let ghost sf = self.instructions@; proof { '
                  f'assert(self.row == rowR); {STATE} '
                  'assert(sf == wl_tail(a8, g_al, g_cap, g_apc, g_fin)); '
                  'lemma_head(h, v, prow0, row0, s0); reveal(wl_trk); '
                  'lemma_tail_frame(v, s0, a8, g_al, g_cap, g_apc, g_fin); '
                  'if fits { if g_fin is None && use_special { lemma_wl_default_special(h, sl, kk); } '
                  'lemma_tail(h, v, prev, tgt, s0, a8, g_al, g_cap, g_apc, g_fin); } }')
    FINAL_POST = ('proof { assert(self.lh() == h && self.encoding.version == v); '
                  'assert(self.ops() == wl_ops(v, sf)); '
                  'assert(wl_ops(v, s0).len() == s0.len()); '
                  'assert(self.ops().skip(s0.len() as int) == wl_pushed(v, s0, sf)); '
                  'assert(self.prev() == wl_after(tgt) && self.cur() == wl_after(tgt)); '
                  'assert(wl_prev_wf(h, wl_after(tgt))); '
                  'assert(self.wf()); }')
    im.splice('generate_row', requires=[
        f'[C13:pre-header] wl_hdr_ok({H})'] + ([] if findings else [f'[C13:pre-line-range-127] {H}.line_range <= 127']) + [
        f'2 <= {H}.version <= 5', 'old(self).wf()',
        f'[C13:pre-row] wl_row_wf({H}, old(self).cur())',
        # "Panics if the address_offset decreases" + op_index ordered within one address (6.2.5: addresses only increase)
        '[C13:pre-ordered] wl_ordered(old(self).prev(), old(self).cur())',
    ] + STRICT_ROW, ensures=FRAME + [
        'final(self).in_seq()', 'final(self).wf()',
        # THE clause: the machine of the READER (specs/line.rs), run from the previous row over exactly the instructions this
        # call appended, appends exactly one row - the requested one - whatever opcodes were chosen, for every base address
        f'[C13:generate-row][C12:line-regen] wl_line_delta_fits(old(self).prev().line, old(self).cur().line) ==> '
        f'forall|base: int| wl_generates({H}, base, old(self).prev(), old(self).cur(), {PUSHED})',
        f'[C13:special-range] wl_line_delta_fits(old(self).prev().line, old(self).cur().line) ==> line_ops_wf({H}, {PUSHED})',
        '[C13:generate-row-state] final(self).prev() == wl_after(old(self).cur()) && final(self).cur() == wl_after(old(self).cur())',
    ] + ([
        # the same for ANY pair of u64 line numbers.  FAILS: a difference outside i64 is computed modulo 2^64 (F-wline-2)
        f'[C13:generate-row-any-line][C12:line-regen] forall|base: int| wl_generates({H}, base, old(self).prev(), old(self).cur(), {PUSHED})',
    ] if findings else []),
        before=[('self.in_sequence = true;', TOP), ('let line_base = i64::from(', CASTS)] + JOINS + [
            ('let op_advance = self.op_advance();', 'proof { lemma_wl_op_advance_cong(h, prev, self.cur(), prev, tgt); }'),
            ('if op_advance != 0 {', AFTER_LINE),
            ('let (special_op_advance, const_add_pc) =', NO_OVERFLOW),
            ('let op_range = (255 - special_base) / line_range;', BEFORE_RANGE),
            ('let special_op = special_op_advance * line_range;', BEFORE_SPECIAL_OP),
            ('if use_special && special != special_default {', BEFORE_FINAL),
            ('self.prev_row = self.row;', FINAL_JOIN)],
        after=[('let mut use_special = false;', AFTER_DEFAULT),
               (A_AL, 'proof { g_al = Some(line_advance); }'), (A_CAP, 'proof { g_cap = true; }'),
               (A_APC, 'proof { g_apc = Some(op_advance); kk = 0; }'), (A_SPE, 'proof { g_fin = Some(special as u8); }'),
               ('self.prev_row = self.row;', FINAL_POST)],
        canary=True)


def build(ctx):
    sk = Skeleton(ctx, core.rd('prelude/crate.rs'))
    core.populate(ctx, sk)
    wcore.populate(ctx, sk)
    # default = FINDINGS build: only the DOCUMENTED preconditions are stated, so the genuine defects F-wline-3/4 are failing
    # obligations (registered in known_findings.json); WLINE_FINDINGS=0 gives the build with the extra exclusions
    populate(ctx, sk, findings=os.environ.get('WLINE_FINDINGS', '1') == '1')
    return sk
