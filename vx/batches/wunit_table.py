"""B-wunit-table: write::unit, the FIX-UP part of `UnitTable::write` (DESIGN.md 6 C11 "Written units read back as the same forest
with every reference intact"; anchor "fix-ups for in-unit and cross-unit references: src/write/unit.rs unit_refs patching,
UnitTable::write_debug_info_fixups, DebugInfoFixup").
Build = core.populate; wcore.populate; wunit.populate(findings=False, part2=True) (UNCHANGED but for the one ghost-only
X-CONTRACT extension below); populate.   Source: /repo/src/write/unit.rs, /repo/src/write/section.rs.

WHY.  wunit proves `UnitTable::write_debug_info_fixups(&self, fixups, w)`: every fix-up of the queue `fixups` is applied to the
writer `w` ([C11:fixup-patched]).  Nothing decided WHICH queue goes to WHICH writer.  There are three queues, one per section
that can hold a DW_FORM_ref_addr / DW_OP_call_ref placeholder (.debug_info, .debug_loc, .debug_loclists); the offsets recorded
in a queue are offsets into ITS section.  The last three statements of `UnitTable::write` pair them up.  A copy/paste slip there
(third call passing `&mut sections.debug_loc.0`) patches .debug_loc at .debug_loclists offsets and leaves every cross-unit
reference inside a DWARF 5 location list zero: "every entry reference resolving to the intended target" fails.

RULE R-TAIL (statement-range cut, in the style of batches/wline_prog.py; logged through `Item.custom` with the complete old and
new text, so the provenance check `text without insertions == text after the logged rewrites` still holds).
`UnitTable::write` as a whole is outside this batch (Unit::write: wunit_layout; AbbreviationTable::write: wabbrev).  Its body is
      <head> A1 <fix-up part> A2 <`Ok(())`>
  A1 = the closing brace of the `for unit in &mut self.units { .. }` loop: exactly one such loop, at brace depth 0;
  A2 = the final expression `Ok(())` of the body (depth 0, nothing after it).
  The rule turns the method into a helper method OF THE SAME impl:
      fn write_verif_fixups<GENERICS VERBATIM>(PARAMETER LIST VERBATIM) -> Result<()> { <fix-up part VERBATIM> Ok(()) }
  MOVED verbatim: everything after the loop up to the end of the body (today: the three `self.write_debug_info_fixups(..)?;`
       statements and the source's own `Ok(())`), the generics, the whole parameter list of `write`
       (`&mut self, sections: &mut Sections<W>, line_strings, strings`) and the return type.
  DROPPED: doc attributes / `pub`, and the head: everything up to and including the unit loop.
  GENERATED (not source text): the name `write_verif_fixups` only.
  GUARDS (syntactic, Lost = exit 2): the dropped head mentions no `*_fixups` name and not `write_debug_info_fixups` (every use
       of the three queues by `write` is inside the verified range); the head contains no `return` (the fix-up part runs on
       every path that is not a `?` exit); the head rebinds none of `self` / `sections` / `line_strings` / `strings` and the
       fix-up part uses no name bound by a `let` / `for` / closure parameter of the head (the rule carries parameters only).
       The statements of the fix-up part are NOT anchors: a changed / deleted / added call is a FAILED CLAUSE, not a lost anchor.
  What the rule does NOT give: the head itself, the value of `sections` at the start of the fix-up part (universally quantified
  here: any queues, any writers), that the queues hold what AttributeValue::write / Expression::write recorded.

Sections<W> is NOT projected: all fourteen fields are kept, so the frame clause speaks about every section.  The section
newtypes wunit does not have (DebugAbbrev, DebugLine, DebugLineStr, DebugRanges, DebugRngLists, DebugLoc, DebugLocLists,
DebugStr, DebugFrame, EhFrame) are the struct item of the `define_section!` arm, expanded mechanically (wunit's R-MACRO), after
checking that the invocation is still in its source file; their impls are not needed and not emitted.

FUNCTIONS UNDER CONTRACT (real text, owner C11)
  UnitTable::write[fix-up part] as `write_verif_fixups`                                                                TAGS
     requires (documented "Panics if id is invalid", lifted from the callee): the ids in all three queues belong to this table
     on Ok: the fix-ups queued for .debug_info are applied to the .debug_info writer - one relocatable PatchOffset per
            fix-up, at the recorded offset / size, with the .debug_info offset of the target entry      [C11:fixups-own-section-info]
            the same for .debug_loc_fixups -> .debug_loc                                                [C11:fixups-own-section-loc]
            the same for .debug_loclists_fixups -> .debug_loclists                                      [C11:fixups-own-section-loclists]
            (`fixups_applied` is LITERALLY the callee's [C11:fixup-patched] relation, and it fixes the NUMBER of operations
             appended to the section: a second queue applied to the same writer breaks it)
     on every path: the three patched sections do not shrink / lose operations; on Ok they do not grow (patching only);
            every OTHER field of `sections` that is a section, `self`, `line_strings`, `strings` are unchanged
            (the list of "other" fields is GENERATED from the struct text: a new section is framed automatically) [C11:fixups-frame]
     on Ok: the three queues are empty (nothing is applied twice by a later write)                      [C11:fixups-drained]
  UnitTable::write_debug_info_fixups: wunit's contract + `final(fixups)@.len() == 0` on every path      [C11:fixups-drained]
     (X-CONTRACT: ghost-only extension of the item wunit emitted - one ensures clause, one invariant conjunct; the provenance
      check proves no source text changed; the function is re-verified here with the extended contract)
  + everything wunit has under contract (re-verified unchanged in this build).
ASSUMED (TRUSTED): nothing beyond wunit's.  `drain_fixups` (wunit: `fixups.drain(..)` = take the whole vector, leave it empty)
  is what makes [C11:fixups-drained] true; with the real `Drain` the vector is also emptied when the loop is left early.
NOT DECIDED
  * the head of `UnitTable::write` (the unit loop: `unit.written` skip, AbbreviationTable per unit, Unit::write, abbrevs.write);
  * that the queues hold exactly the placeholders the attribute / expression writers left (wunit [C11:fixup-at-placeholder],
    wlists [C15:loclist-fixup-queue]) - the clauses are about whatever the queues hold;
  * that `units[..].offsets` are the offsets Unit::write assigned (wunit_layout); `Ok` is never guaranteed; on Err nothing is
    said about which fix-ups were applied (only grew + frame).
SELF-ATTACK (scratch copies /tmp/wunit_table-repo/m1..m5, GIMLI_REPO; 2026-09-24; unchanged tree: exit 0, 1222 verified, 7/7 canaries)
  third call passes `&mut sections.debug_loc.0` (seeded copy/paste)      -> exit 1: own-section-loc, own-section-loclists
  second call passes `&mut sections.debug_loclists_fixups`               -> exit 1: own-section-loc, own-section-loclists, fixups-drained
  first two calls swapped in order                                       -> exit 0 (harmless: independent sections)
  third call deleted                                                     -> exit 1: own-section-loclists, fixups-drained
  first call moved in front of the unit loop (into the dropped head)     -> exit 2 (R-TAIL guard, Lost)
"""
import re
from lib import *
from batches import core, wcore, wunit
from batches.wline_prog import _depth, bound_names          # generic helpers of the R-TAIL rule (bracket depth, bound names)
from batches.wunit_layout import find_item

TRUSTED = list(wunit.TRUSTED)
OWN = ['C11']
VERUS_ARGS = ['--rlimit', '40']
RETRY_RLIMIT = 120

HELPER = 'write_verif_fixups'
PARAMS = ('self', 'sections', 'line_strings', 'strings')
# section field -> (its fix-up queue, tag suffix)
PATCHED = [('debug_info', 'debug_info_fixups', 'info'), ('debug_loc', 'debug_loc_fixups', 'loc'),
           ('debug_loclists', 'debug_loclists_fixups', 'loclists')]
# section newtype -> (source file, module, offset type of the define_section! invocation); DebugInfo comes from wunit
SECTION_TYPES = {
    'DebugAbbrev': ('write/abbrev.rs', 'write::abbrev', 'DebugAbbrevOffset'),
    'DebugLine': ('write/line.rs', 'write::line', 'DebugLineOffset'),
    'DebugLineStr': ('write/str.rs', 'write::str', 'DebugLineStrOffset'),
    'DebugRanges': ('write/range.rs', 'write::range', 'RangeListsOffset'),
    'DebugRngLists': ('write/range.rs', 'write::range', 'RangeListsOffset'),
    'DebugLoc': ('write/loc.rs', 'write::loc', 'LocationListsOffset'),
    'DebugLocLists': ('write/loc.rs', 'write::loc', 'LocationListsOffset'),
    'DebugStr': ('write/str.rs', 'write::str', 'DebugStrOffset'),
    'DebugFrame': ('write/cfi.rs', 'write::cfi', 'DebugFrameOffset'),
    'EhFrame': ('write/cfi.rs', 'write::cfi', 'EhFrameOffset'),
}

SPECS = '''
/// the documented "Panics if id is invalid" of write_debug_info_fixups: every id in the queue belongs to this table / its unit
/// (LITERALLY the callee's precondition)
pub(crate) open spec fn fixups_known(t: UnitTable, q: Seq<DebugInfoFixup>) -> bool {
    forall|k: int| 0 <= k < q.len() ==> ({ let fx = #[trigger] q[k];
        fx.unit.base() == t.tbase() && fx.unit.ix() < t.tunits().len() && t.tunits()[fx.unit.ix() as int].uoffs().knows(fx.entry) })
}

/// the queue `q` has been applied to the section whose view went from `a` to `b`: exactly one operation per fix-up was
/// appended, the k-th is the relocatable patch of the k-th fix-up - at the recorded offset, of the recorded size, with the
/// .debug_info offset its unit assigned to the target entry (LITERALLY the callee's [C11:fixup-patched] relation)
pub(crate) open spec fn fixups_applied(t: UnitTable, q: Seq<DebugInfoFixup>, a: WView, b: WView) -> bool {
    b.ops.len() == a.ops.len() + q.len() && forall|k: int| 0 <= k < q.len() ==> ({ let fx = q[k];
        t.tunits()[fx.unit.ix() as int].uoffs().info_off(fx.entry) matches Some(o)
        && #[trigger] b.ops[a.ops.len() + k] == (WOp::PatchOffset { offset: fx.offset, val: o.0, section: SectionId::DebugInfo, size: fx.size }) })
}
'''


# ----------------------------------------------------------------------------- R-TAIL
def cut_tail(ctx, im):
    """R-TAIL on the impl item `im` (after keep_only(['write']), before clean); see the module docstring."""
    t = im.text
    where = im._where('write')
    s, e = method_span(t, 'write')
    k = re.search(r'\bfn\s+write\b', t[s:e]).start() + s
    b = body_open(t, k)
    if t[b] != '{':
        raise Lost(f'{where}: UnitTable::write has no body')
    close = match_close(t, b)
    body = t[b + 1:close]
    # A1: the unit loop, exactly once, at depth 0
    ms = list(re.finditer(r'\bfor\s+unit\s+in\s+&mut\s+self\s*\.\s*units\s*\{', body))
    if len(ms) != 1:
        raise Lost(f'R-TAIL: anchor A1 `for unit in &mut self.units {{` found {len(ms)} times in UnitTable::write (expected exactly once)')
    if _depth(body, ms[0].start()) != 0:
        raise Lost('R-TAIL: anchor A1 (the unit loop) is not a top-level statement of UnitTable::write')
    a1 = match_close(body, ms[0].end() - 1) + 1
    # A2: the final `Ok(())`
    m2 = re.search(r'\bOk\(\(\)\)\s*$', body)
    if not m2 or m2.start() < a1 or _depth(body, m2.start()) != 0:
        raise Lost('R-TAIL: anchor A2 (the final `Ok(())` of UnitTable::write) not found after the unit loop')
    head, rng = body[:a1], body[a1:m2.start()]
    m = re.search(r'\b\w*_fixups\b', head)
    if m:
        raise Lost(f'R-TAIL: the dropped head of UnitTable::write mentions `{m.group(0)}`: a fix-up queue is used outside the verified range')
    if re.search(r'\breturn\b', head):
        raise Lost('R-TAIL: the dropped head of UnitTable::write contains `return`: the fix-up part does not run on every non-error path')
    bn = bound_names(head)
    for p in PARAMS:
        if p in bn:
            raise Lost(f'R-TAIL: the head of UnitTable::write rebinds `{p}`; the rule carries parameters only')
    for n in sorted(bn):
        if re.search(r'(?<![.\w])%s\b' % re.escape(n), rng):
            raise Lost(f'R-TAIL: the fix-up part uses the local `{n}` of the head; the rule carries parameters only')
    header = t[k:b]
    i = header.index('(')
    j = match_close(header, i)
    generics, params = header[len('fn write'):i], header[i:j + 1]
    if (not re.match(r'fn\s+write\b', header) or not re.search(r'->\s*Result<\(\)>\s*$', header[j + 1:])
            or not re.match(r'\(\s*&mut\s+self\s*,\s*sections\s*:\s*&mut\s+Sections<W>\s*,', params)):
        raise Lost(f'R-TAIL: unexpected signature of UnitTable::write: `{one_line(header)}`')
    old = t[s:b + 1] + head
    if t.count(old) != 1 or not t.startswith(old, s):
        raise Lost('R-TAIL: cut point is not unique')
    im.custom('R-TAIL', old, f'\n    fn {HELPER}{generics}{params}{header[j + 1:]}{{')
    return rng


# ----------------------------------------------------------------------------- Sections<W> and its section newtypes
def sections_type(ctx, sk):
    """write::Sections with ALL its fields; returns [(field, type text)] in source order"""
    sec = Source('write/section.rs', ctx)
    st = sec.item(r'^pub struct Sections<W: Writer> \{', label='Sections')
    b = st.text.index('{')
    fields = re.findall(r'^\s*pub(?:\(crate\))?\s+(\w+)\s*:\s*([^,\n]+),', st.text[b:match_close(st.text, b)], re.M)
    names = [f for f, _ in fields]
    for s_, q, _ in PATCHED:
        if s_ not in names or q not in names:
            raise Lost(f'Sections: field {s_} / {q}')
    need = []
    for f, ty in fields:
        m = re.fullmatch(r'(\w+)<W>', ty.strip())
        if m:
            need.append(m.group(1))
        elif ty.strip() != 'Vec<DebugInfoFixup>':
            raise Lost(f'Sections: field {f} has the unexpected type `{ty.strip()}`')
    for ty in need:
        if ty == 'DebugInfo':
            continue
        if ty not in SECTION_TYPES:
            raise Lost(f'Sections: section type {ty} is not known to this batch')
        rel, mod, offty = SECTION_TYPES[ty]
        if wcore._has(sk, mod, f'pub struct {ty}<W: Writer>'):
            continue
        if not re.search(r'^define_section!\(\s*%s,\s*%s,' % (ty, offty), Source(rel, ctx).text, re.M):
            raise Lost(f'{rel}: invocation define_section!({ty}, {offty}, ..) not found')
        ts = wunit.TextSource('write/section.rs', ctx, wunit.expand_macro(ctx, 'write/section.rs', 'define_section', [ty, offty, '""']))
        if mod not in sk.mods:
            sk.module(mod, '')
            sk.mods['write']['uses'] += f'\npub use self::{mod.split("::")[-1]}::*;'
        if 'use crate::write::Writer;' not in sk.mods[mod]['uses'] and not re.search(r'use crate::write::\{[^}]*\bWriter\b', sk.mods[mod]['uses']):
            sk.mods[mod]['uses'] += '\nuse crate::write::Writer;'
        sk.add(mod, ts.item(r'^pub struct %s<W: Writer>' % ty, label=ty).clean())
    sk.mods['write']['uses'] += '\npub use self::section::*;'
    sk.module('write::section', 'use crate::write::{%s, DebugInfoFixup, Writer};' % ', '.join(dict.fromkeys(need)))
    sk.add('write::section', st.clean(rejrec=['W']))
    return fields


def populate(ctx, sk):
    un = wcore.wsource('write/unit.rs', ctx)
    M = 'write::unit'
    fields = sections_type(ctx, sk)
    sk.mods[M]['uses'] += '\nuse crate::write::Sections;'
    sk.add(M, SPECS, label='fixups_applied(spec)', owners=OWN)

    # ---- callee: wunit's contract + "the queue is empty afterwards" (ghost-only extension of wunit's item, X-CONTRACT)
    _, ut = find_item(sk, M, 'UnitTable(impl)')
    for old, new, what in [
            ('grew(old(w).wv(), final(w).wv()), // [C11:w-frame]',
             'grew(old(w).wv(), final(w).wv()), // [C11:w-frame]\n    final(fixups)@.len() == 0, // [C11:fixups-drained]',
             'write_debug_info_fixups: + ensures [C11:fixups-drained] final(fixups)@.len() == 0'),
            ('verif_drained@ == fx0, ', 'verif_drained@ == fx0, fixups@.len() == 0, ',
             'write_debug_info_fixups: + loop invariant fixups@.len() == 0')]:
        if ut.text.count(old) != 1:
            raise Lost(f'wunit_table: contract anchor `{old[:60]}` of wunit found {ut.text.count(old)} times in {ut._where("")}')
        ut.text = ut.text.replace(old, new)
        if not ut.provenance_ok():
            raise Lost(f'wunit_table: contract extension touched source text of {ut._where("")}')
        ctx.custom.append(('X-CONTRACT', ut._where(''), what, 'ghost text only'))
        ctx.count('X-CONTRACT')

    # ---- UnitTable::write, fix-up part (R-TAIL)
    im = un.item(r'^impl UnitTable \{', label='UnitTable(impl:write-fixups)')
    im.keep_only(['write'])
    cut_tail(ctx, im)
    im.clean()
    im.own(OWN)
    T = '*old(self)'

    def w0(s_):
        return f'old(sections).{s_}.0.wv()'

    def w1(s_):
        return f'final(sections).{s_}.0.wv()'
    patched = {s_ for s_, _, _ in PATCHED}
    queues = {q for _, q, _ in PATCHED}
    others = [f for f, _ in fields if f not in patched and f not in queues]
    ens = []
    # "every entry reference ... resolving to the intended target": a placeholder recorded for section S lives at an offset
    # of S (DW_FORM_ref_addr in .debug_info, DW_OP_call_ref inside a location list of .debug_loc / .debug_loclists); it is
    # resolved only if the queue of S is applied to the writer of S
    for s_, q, tag in PATCHED:
        ens.append(f'[C11:fixups-own-section-{tag}] res is Ok ==> fixups_applied({T}, old(sections).{q}@, {w0(s_)}, {w1(s_)})')
    ens.append('[C11:fixups-frame] ' + ' && '.join(f'grew({w0(s_)}, {w1(s_)}) && (res is Ok ==> {w1(s_)}.len == {w0(s_)}.len)' for s_, _, _ in PATCHED))
    ens.append('[C11:fixups-frame] ' + ' && '.join(f'final(sections).{f} == old(sections).{f}' for f in others))
    ens.append('[C11:fixups-frame] *final(self) == *old(self) && *final(line_strings) == *old(line_strings) && *final(strings) == *old(strings)')
    ens.append('[C11:fixups-drained] res is Ok ==> ' + ' && '.join(f'final(sections).{q}@.len() == 0' for _, q, _ in PATCHED))
    im.splice(HELPER, ret='res', canary=True,
              requires=[f'fixups_known({T}, old(sections).{q}@)' for _, q, _ in PATCHED],
              ensures=ens)
    sk.add(M, im)
    return sk


def build(ctx):
    sk = Skeleton(ctx, core.rd('prelude/crate.rs'))
    core.populate(ctx, sk)
    wcore.populate(ctx, sk)
    wunit.populate(ctx, sk, findings=False, part2=True)
    populate(ctx, sk)
    return sk
