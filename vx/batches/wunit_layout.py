"""B-wunit_layout: the TWO-PASS LAYOUT of written units closed (DESIGN.md 6 C11 second carrier; C18 for the unit header).

Build = core.populate; wcore.populate; wunit.populate(findings=False); populate.   Source: /repo/src/write/unit.rs.
wunit proves pass 2 (`DebuggingInformationEntry::write`) UNDER the precondition `layout_ok` ("the offsets table holds
start + sum of pre-order sizes").  This batch proves that pass 1 ESTABLISHES it (G1) and verifies `Unit::write` as a whole
(G2), so the two passes are consistent without that assumption.  All functions owned by C11.

FUNCTIONS UNDER CONTRACT (real text)
  write::DebuggingInformationEntry::calculate_offsets                                   (G1)
  write::Unit::{write, line_program_in_use}                                              (G2)
  re-verified with an EXTENDED contract (X-CONTRACT, ghost text only, provenance-checked; wunit.py itself is untouched):
    DebuggingInformationEntry::write  + requires/invariant unit_refs_known(*unit, *offsets)
                                      + ensures [C11:unit-ref-known]: every in-unit reference it RECORDS names an id the
                                        offsets table knows (what the unit_refs patch loop needs for UnitOffsets::unit_offset)
    Unit::reorder_base_types          + final(self).ubase() == old(self).ubase()
  `struct Unit` is extracted with ALL its fields (wunit projects line_program / ranges / locations away; Unit::write uses them)
  proof fns (vx/specs/wunit_layout.rs): lemma_attr_mono, lemma_upto_mono, lemma_die_mono (size stability), lemma_layout_frame,
    lemma_kids_frame (arena frame: a laid-out subtree stays laid out when the tables change outside its interval), lemma_filter_cong

G1  calculate_offsets(unit, offset, offsets, abbrevs, codes), on Ok:                                       TAGS
  the entry's table slot is the INCOMING *offset (recorded before the size is added)                      [C11:layout-established]
  *offset advances by exactly wunit's `subtree_size` = die_size (the function `size` returns, which wunit
     proves equal to the bytes written) + children in order + 1 null byte after a non-empty child list     [C11:layout-established]
  the resulting table satisfies wunit's `layout_ok` for the whole subtree (= precondition of pass 2)       [C11:layout-established]
  every assigned offset is >= the incoming offset                                                          [C11:layout-established]
  entries OUTSIDE the subtree keep offset and code; the new table only ADDS offsets (offs_extends)         [C11:layout-frame]
  Recursion: decreases wunit's ghost `height`.  The abbreviation code is whatever AbbreviationTable::add returns (wunit
  model); it is stored in codes[i], measured by `size` and is the code pass 2 writes (wunit [C11:entry-code]).
G2  Unit::write, on Ok (D0/D1 = .debug_info before/after):
  field log starts with unit_header_ops(enc, abbrev): unit_length placeholder (64-bit: 0xffffffff escape first), version,
     then v2-4: abbrev offset, address_size | v5: unit_type DW_UT_compile, address_size, abbrev offset;
     2 <= version <= 5 (anything else: Err(UnsupportedVersion));  stored table: unit offset = D0.len, root entry right
     after the header                                                                                      [C11:unit-header]
  the abbrev offset is WOp::Offset{.., DebugAbbrev, word size}: the RELOCATABLE write_offset               [C18:unit-abbrev-offset]
  a PatchU at the length WORD with val = bytes after the initial-length field up to the end of the unit     [C11:unit-length-patch]
  after it, exactly one PatchU per recorded (offset, entry) of unit_refs, in order, at the recorded offset, word sized,
     val = target offset - unit offset (UNIT-RELATIVE); Ok implies every target HAS an offset: an unresolvable reference
     leaves through `ok_or(Error::InvalidReference)?`, never a panic (all built-in obligations discharged)   [C11:unit-ref-patch]
  the call sequence set/delete stmt_list -> header -> reorder_base_types -> calculate_offsets -> range/loc lists -> entries
     is forced: pass 2's precondition `layout_ok(*self, root, w.len(), offsets, codes)` [wunit C11:entry-offset-assert]
     is only provable for the SAME unit value, table, codes and section length that pass 1 saw.
  grew(D0, D1)                                                                                             [C11:w-frame]

ASSUMED (TRUSTED beyond wunit's)
  LineProgram::{is_none, is_empty, write} (model; wline's subject; `write` "Panics if is_none" is a requires, discharged via
      line_program_in_use);  RangeListTable::write, LocationListTable::write (models; wlists' subject): ASSUMED to leave
      .debug_info, its fix-up vector and .debug_line alone (wlists [C16:dispatch-*] over its own projection of Sections) -
      this is what keeps w.len() equal between the two passes;
  DebuggingInformationEntry::{set, delete} (R-EXTBODY: `iter_mut().find(closure)` / `retain(closure)`): attrs become
      attrs_set / attrs_del (replace first of that name else push / filter), id, tag, sibling, children unchanged;
  verif_have_base_address (R-ANY: `attrs.iter().any(closure)` in Unit::write; nothing assumed about its value);
  axiom_offset_clone: derived Clone of the Copy newtype DebugInfoOffset<usize> returns an equal value (Verus gives the derived
      Clone of a GENERIC newtype an empty spec and refuses an explicit one) - for `vec![DebugInfoOffset(0); n]`.
  Sections<W> is projected (R-FIELDS) to debug_info, debug_line, debug_info_fixups.
PRECONDITIONS that are assumptions about the caller (requires, not verified)
  A-TREE    wunit's unit_tree_ok (ids in range, children strictly lower ghost height), for the unit as given and as prepared
  A-TREE+ / A-FIT+  `unit_pre_ok`: a ghost VIRTUAL PRE-ORDER LAYOUT vlo/vhi of the arena: every entry owns an interval, the
            children's intervals lie inside the parent's, in child order, disjoint; the entry's own bytes (under any table /
            code) end before the first child's interval and one byte is left after the last; start + (vhi - vlo) <= usize::MAX.
            It exists exactly for FORESTS (unique parents, no child listed twice: Unit::add/add_reserved push a fresh id,
            nothing re-parents) whose encoding fits the address space; it is what turns "arena" into frame reasoning by
            interval arithmetic (no reachability predicate) and bounds the running `*offset +=` (overflow obligations).
  A-FIT / A-VECLEN  `unit_fits`: wunit's die_fits for every entry and table; attrs.len() < usize::MAX;  unit_attrs_wf
  A-EXPR-MONO  `unit_expr_mono`: the size of an Exprloc's Expression, once computed successfully under a table, is the same
            under every table that only ADDS offsets (Operation::size reads the table only through unit_offset(base type) and
            fails with UnsupportedExpressionForwardReference when it is missing).  THIS is the stability of Expression::size
            between the two passes; it is a property of write::op, assumed for wunit's model type.
  `unit_ref_ids_ok`: every UnitRef(id) names an entry of this unit's arena (documented requirement of Unit::reserve;
            otherwise UnitOffsets::debug_info_offset panics: wunit F-wunit-2, native/src/bin/f_wunit_2.rs)
  `prepared(old, u)`: all of the above are required of the unit AS Unit::write PREPARES IT (root DW_AT_stmt_list set to
            LineProgramRef or deleted, base types first) - exactly two candidate values, so the quantified requires is
            satisfiable (canary); plus !written (debug_assert!), root index in range.
NOT DECIDED  UnitTable::write (loop over units, AbbreviationTable::default/write, the three write_debug_info_fixups calls on
  .debug_info/.debug_loc/.debug_loclists); Err-path frames of Unit::write (sections may be partially written on Err);
  that the recorded unit_refs are exactly the UnitRef attributes / sibling placeholders in pre-order (wunit states it per
  attribute: [C11:fixup-at-placeholder]); AbbreviationTable::add de-duplication; the assumptions above.
FINDINGS  none new (F-wunit-2 reappears as the stated precondition unit_ref_ids_ok).
"""
from lib import *
from batches import core, wcore, wunit

TRUSTED = list(wunit.TRUSTED) + ['is_none', 'is_empty', 'set', 'delete', 'verif_have_base_address', 'axiom_offset_clone']
VERUS_ARGS = ['--rlimit', '40']
RETRY_RLIMIT = 120
OWN = ['C11']

IX = '(self.eid().ix() as int)'
E = 'unit.enc()'


def calc_offsets(ctx, sk, un):
    """G1: DebuggingInformationEntry::calculate_offsets establishes layout_ok"""
    di = un.item(r'^impl DebuggingInformationEntry \{', label='DebuggingInformationEntry(impl/layout)')
    di.keep_only(['calculate_offsets'])
    di.clean()
    di.own(OWN)
    di.insert_after('for child in ', 'itc: ', nth=0)
    N = 'unit.ents().len()'
    T0, T1 = 'old(offsets)', 'final(offsets)'
    C0, C1 = 'old(codes)@', 'final(codes)@'
    CTX = ['unit_tree_ok(*unit)', 'unit_attrs_wf(*unit)', 'unit_pre_ok(*unit)', 'unit_expr_mono(*unit)', 'unit_fits(*unit)',
           f'{IX} < {N} && *self == unit.ents()[{IX}]']
    PRE = CTX + [
        f'{T0}.base() == unit.ubase() && {T0}.tab().len() == {N} && {C0}.len() == {N}',
        # the offset of an entry is never 0 (0 means "not assigned"): it lies behind the unit header
        '*old(offset) != 0',
        # A-FIT+: the virtual interval of the subtree fits below usize::MAX
        f'*old(offset) + (vhi(*unit, {IX}) - vlo(*unit, {IX})) <= usize::MAX',
        # the entries of this subtree have no offset yet (Unit::write starts from a zeroed table)
        f'forall|x: int| 0 <= x < {N} && in_sub(*unit, {IX}, x) ==> (#[trigger] {T0}.tab()[x]).0 == 0']
    POST = [
        f'{T1}.base() == {T0}.base() && {T1}.unit_off() == {T0}.unit_off() && {T1}.tab().len() == {T0}.tab().len() && {C1}.len() == {C0}.len()',
        # the entry's offset is the INCOMING offset (recorded before the size is added)
        f'[C11:layout-established] res is Ok ==> {T1}.tab()[{IX}].0 == *old(offset)',
        # the offset advances by exactly the size of the subtree in pre-order: entry, children in order, one null byte
        # after a non-empty child list - the SAME function `subtree_size` that DebuggingInformationEntry::write is proved
        # to emit (wunit [C11:tree-size-eq-len])
        f'[C11:layout-established] res is Ok ==> *final(offset) >= *old(offset) && subtree_size(*unit, {IX}, *{T1}, {C1}) == Some((*final(offset) - *old(offset)) as nat)',
        # ... and the resulting table is exactly the precondition of the second pass (wunit [C11:entry-offset-assert])
        f'[C11:layout-established] res is Ok ==> layout_ok(*unit, {IX}, *old(offset) as nat, *{T1}, {C1})',
        # frame on the arena: entries outside the subtree keep their offset and code
        f'[C11:layout-frame] res is Ok ==> forall|x: int| 0 <= x < {N} && !in_sub(*unit, {IX}, x) ==> (#[trigger] {T1}.tab()[x]) == {T0}.tab()[x] && {C1}[x] == {C0}[x]',
        f'[C11:layout-frame] res is Ok ==> offs_extends(*{T0}, *{T1})',
        # every offset assigned here lies at or after the incoming offset (so: after the unit header)
        f'[C11:layout-established] res is Ok ==> forall|x: int| 0 <= x < {N} ==> (#[trigger] {T1}.tab()[x]) == {T0}.tab()[x] || {T1}.tab()[x].0 >= *old(offset)',
        f'res is Ok ==> *final(offset) - *old(offset) <= vhi(*unit, {IX}) - vlo(*unit, {IX})',
    ]
    K = 'itc.index@'
    INV = ', '.join(CTX) + ', ' + ', '.join([
        f'offsets.base() == unit.ubase() && offsets.tab().len() == {N} && codes@.len() == {N}',
        'offsets.base() == t0.base() && offsets.unit_off() == t0.unit_off() && t0.tab().len() == offsets.tab().len() && c0.len() == codes@.len()',
        't0 == *old(offsets) && c0 == old(codes)@ && off0 == *old(offset)',
        f'off0 != 0 && off0 + (vhi(*unit, {IX}) - vlo(*unit, {IX})) <= usize::MAX',
        f'self.kids().len() > 0',
        f'forall|x: int| 0 <= x < {N} && in_sub(*unit, {IX}, x) ==> (#[trigger] t0.tab()[x]).0 == 0',
        f'base >= off0 && die_size(*self, {E}, *offsets, codes@[{IX}]) == Some((base - off0) as nat)',
        f'offsets.tab()[{IX}].0 == off0',
        f'*offset >= base && *offset + vlo(*unit, {IX}) <= off0 + vpos(*unit, {IX}, {K})',
        f'forall|x: int| 0 <= x < {N} && !(vlo(*unit, {IX}) <= vlo(*unit, x) < vpos(*unit, {IX}, {K})) ==> (#[trigger] offsets.tab()[x]) == t0.tab()[x] && codes@[x] == c0[x]',
        f'forall|x: int| 0 <= x < {N} ==> (#[trigger] offsets.tab()[x]) == t0.tab()[x] || offsets.tab()[x].0 >= off0',
        f'kids_layout(*unit, {IX}, {K}, base as nat, *offsets, codes@)',
        f'kids_size(*unit, {IX}, {K}, *offsets, codes@) == Some((*offset - base) as nat) // [C11:layout-established]'])
    di.splice('calculate_offsets', ret='res', requires=PRE, ensures=POST, decreases=f'height(*unit, {IX})',
              before=[('offsets.entries[self.id.index] = DebugInfoOffset(*offset);',
                       f'let ghost t0 = *offsets; let ghost c0 = codes@; let ghost off0 = *offset; proof {{ assert(entry_ok(*unit, {IX})); assert(entry_pre(*unit, {IX})); '
                       f'if self.kids().len() > 0 {{ assert(kid_pre(*unit, {IX}, 0)); assert(kid_ok(*unit, {IX}, 0)); assert(entry_pre(*unit, kid_ix(*unit, {IX}, 0))); '
                       f'assert(kid_pre(*unit, {IX}, self.kids().len() - 1)); }} }}'),
                      ('if !self.children.is_empty() {', CALC_MID),
                      ('unit.entries[child.index]', CALC_KID_PRE)],
              after=[('.calculate_offsets(unit, offset, offsets, abbrevs, codes)?;', CALC_KID_POST)],
              loops={0: 'invariant ' + INV}, canary=True)
    sk.add('write::unit', di)


CALC_MID = f'''let ghost base = *offset;
        proof {{
            assert(vlo(*unit, {IX}) <= vlo(*unit, {IX}) < vhi(*unit, {IX}));
            if self.kids().len() > 0 {{ assert(kid_pre(*unit, {IX}, 0)); assert(kid_ok(*unit, {IX}, 0)); assert(entry_pre(*unit, kid_ix(*unit, {IX}, 0))); }}
        }}'''

CALC_KID_PRE = f'''let ghost tk = *offsets; let ghost ck = codes@; let ghost offk = *offset; let ghost k = itc.index@; let ghost c = child.ix() as int;
                proof {{
                    assert(*child == self.kids()[k]);
                    assert(entry_ok(*unit, {IX})); assert(entry_pre(*unit, {IX}));
                    assert(c == kid_ix(*unit, {IX}, k));
                    assert(kid_ok(*unit, {IX}, k)); assert(kid_pre(*unit, {IX}, k));
                    assert(entry_ok(*unit, c)); assert(entry_pre(*unit, c));
                    assert(vpos(*unit, {IX}, k) <= vlo(*unit, c));
                }}'''

CALC_KID_POST = f'''
                proof {{
                    let a = vlo(*unit, {IX}) + 1;
                    let b = if k == 0 {{ a }} else {{ vpos(*unit, {IX}, k) }};
                    assert(tabs_agree(*unit, a, b, tk, ck, *offsets, codes@)); // [C11:layout-frame]
                    lemma_kids_frame(*unit, {IX}, k, base as nat, a, b, tk, ck, *offsets, codes@);
                    assert(codes@[{IX}] == ck[{IX}] && offsets.tab()[{IX}] == tk.tab()[{IX}]);
                    lemma_die_mono(*self, {E}, tk, *offsets, ck[{IX}]);
                    assert(vpos(*unit, {IX}, k + 1) == vhi(*unit, c));
                }}'''


# =====================================================================================================================
# G2: Unit::write
MODEL_LINE = """
/// MODEL (trusted): opaque stand-in for `write::line::LineProgram` (verified in batch wline, C13); only what
/// Unit::write calls.  `write`: "Panics if self.is_none()" is an explicit precondition.
#[derive(Debug)]
pub struct LineProgram { model: Vec<u8> }

impl LineProgram {
    pub uninterp spec fn none_spec(&self) -> bool;

    #[verifier::external_body]
    pub fn is_none(&self) -> (res: bool)
        ensures res == self.none_spec()
    { unimplemented!() }

    #[verifier::external_body]
    pub fn is_empty(&self) -> (res: bool)
    { unimplemented!() }

    #[verifier::external_body]
    pub fn write<W: Writer>(&self, w: &mut DebugLine<W>, encoding: Encoding, line_strings: &mut LineStringTable, strings: &mut StringTable) -> (res: Result<DebugLineOffset>)
        requires !self.none_spec()
    { unimplemented!() }
}
"""


def list_table_model(ty, offty, extra_param, what):
    return f"""
/// MODEL (trusted): opaque stand-in for `{ty}` ({what}; verified in batch wlists, C16).  Assumed of `write`: it writes
/// to the list sections (and their fix-up vectors) only - .debug_info, its fix-ups and .debug_line are left alone
/// (wlists [C16:dispatch-*] "no other section is touched", over its own projection of Sections).
#[derive(Debug)]
pub struct {ty} {{ model: Vec<u8> }}

impl {ty} {{
    #[verifier::external_body]
    pub(crate) fn write<W: Writer>(&self, sections: &mut Sections<W>, encoding: Encoding, have_base_address: bool{extra_param}) -> (res: Result<{offty}>)
        ensures final(sections).debug_info == old(sections).debug_info, final(sections).debug_info_fixups == old(sections).debug_info_fixups,
            final(sections).debug_line == old(sections).debug_line,
    {{ unimplemented!() }}
}}
"""


HAVE_BASE = """
/// MODEL (trusted): the `have_base_address` flag of Unit::write (`attrs.iter().any(closure)`: iterator adapter, outside
/// the Verus subset; logged rewrite R-ANY).  Its value only feeds RangeListTable::write / LocationListTable::write
/// (models here; the flag's meaning is C16's subject), so nothing is assumed about it.
#[verifier::external_body]
fn verif_have_base_address(attrs: &Vec<Attribute>) -> (res: bool)
{ unimplemented!() }
"""

CLONE_SPEC = """
/// AXIOM (trusted): the derived `Clone` of the Copy newtype `DebugInfoOffset<usize>` returns an equal value.  Verus gives the
/// derived Clone of a GENERIC newtype (`DebugInfoOffset<T = usize>`) an empty specification and refuses an
/// explicit specification for it ("duplicate specification"); needed for `vec![DebugInfoOffset(0); n]` in Unit::write.
#[verifier::external_body]
pub proof fn axiom_offset_clone(a: DebugInfoOffset<usize>, b: DebugInfoOffset<usize>)
    requires vstd::pervasive::cloned::<DebugInfoOffset<usize>>(a, b)
    ensures a == b
{ }
"""

HAVE_BASE_OLD = """self.entries[self.root.index].attrs.iter().any(|attr| {
            attr.name == constants::DW_AT_low_pc
                && attr.value != AttributeValue::Address(Address::Constant(0))
        })"""


def find_item(sk, path, label):
    for idx, (item, lab, own) in enumerate(sk.mods[path]['chunks']):
        if isinstance(item, Item) and (lab or item.label) == label:
            return idx, item
    raise Lost(f'wunit_layout: item {label} of batch wunit not found in {path}')


def extend_contract(ctx, item, old, new, what):
    """EXTENSION of a contract another batch (wunit) put on a function: text inside ghost insertions only (the provenance
    check below proves the source text is untouched); the function is re-verified here with the extended contract."""
    if item.text.count(old) < 1:
        raise Lost(f'wunit_layout: contract anchor `{old[:70]}` not found in {item._where("")}')
    item.text = item.text.replace(old, new)
    if not item.provenance_ok():
        raise Lost(f'wunit_layout: contract extension touched source text of {item._where("")}')
    ctx.custom.append(('X-CONTRACT', item._where(''), what, 'ghost text only'))
    ctx.count('X-CONTRACT')


def extend_wunit(ctx, sk, un):
    # ---- struct Unit with ALL its fields (wunit projected line_program / ranges / locations away; Unit::write uses them)
    idx, old = find_item(sk, 'write::unit', 'Unit')
    ctx.items.remove(old)
    n = len([c for c in ctx.custom if c[0] == 'R-FIELDS' and c[1] == old._where('')])
    ctx.custom[:] = [c for c in ctx.custom if not (c[0] == 'R-FIELDS' and c[1] == old._where(''))]
    ctx.rules['R-FIELDS'] = ctx.rules.get('R-FIELDS', 0) - n
    if not ctx.rules['R-FIELDS']:
        del ctx.rules['R-FIELDS']
    ust = un.item(r'^pub struct Unit \{', label='Unit').clean()
    sk.mods['write::unit']['chunks'][idx] = (ust, None, None)

    # ---- Unit::reorder_base_types: also leaves the base id alone
    _, ui = find_item(sk, 'write::unit', 'Unit(impl)')
    extend_contract(ctx, ui, 'final(self).enc() == old(self).enc()', 'final(self).enc() == old(self).enc() && final(self).ubase() == old(self).ubase()',
                    'reorder_base_types: + final(self).ubase() == old(self).ubase()')

    # ---- DebuggingInformationEntry::write: every in-unit reference it records names an entry the offsets table knows
    #      (needed by the unit_refs patch loop of Unit::write: precondition of UnitOffsets::unit_offset)
    _, di = find_item(sk, 'write::unit', 'DebuggingInformationEntry(impl)')
    extend_contract(ctx, di, 'unit_attrs_wf(*unit),', 'unit_attrs_wf(*unit), unit_refs_known(*unit, *offsets),',
                    'write: + requires / invariant unit_refs_known(*unit, *offsets)')
    FRAME = 'seq_prefix(old(unit_refs)@, final(unit_refs)@) && seq_prefix(old(debug_info_refs)@, final(debug_info_refs)@), // [C11:fixup-frame]'
    extend_contract(ctx, di, FRAME, FRAME + '\n    res is Ok ==> forall|k: int| old(unit_refs)@.len() <= k < final(unit_refs)@.len() ==> '
                    'offsets.knows((#[trigger] final(unit_refs)@[k]).1), // [C11:unit-ref-known]',
                    'write: + ensures [C11:unit-ref-known]')
    LINV = 'seq_prefix(old(unit_refs)@, unit_refs@) && seq_prefix(old(debug_info_refs)@, debug_info_refs@) // [C11:tree-size-eq-len]'
    extend_contract(ctx, di, LINV, 'seq_prefix(old(unit_refs)@, unit_refs@) && seq_prefix(old(debug_info_refs)@, debug_info_refs@), '
                    'forall|k: int| old(unit_refs)@.len() <= k < unit_refs@.len() ==> offsets.knows((#[trigger] unit_refs@[k]).1) // [C11:tree-size-eq-len][C11:unit-ref-known]',
                    'write: + loop invariants for [C11:unit-ref-known]')


def models(ctx, sk, un):
    sec = Source('write/section.rs', ctx)
    # write::line: LineProgram model, DebugLine<W> (define_section!, struct only)
    sk.mods['write::line']['uses'] += ('\nuse crate::common::{DebugLineOffset, Encoding};\nuse crate::write::{LineStringTable, StringTable, Result, Writer};')
    dl = wunit.TextSource('write/section.rs', ctx, wunit.expand_macro(ctx, 'write/section.rs', 'define_section', ['DebugLine', 'DebugLineOffset', '""']))
    sk.add('write::line', dl.item(r'^pub struct DebugLine<W: Writer>', label='DebugLine').clean())
    sk.add('write::line', MODEL_LINE, label='LineProgram(model)')
    sk.mods['write::range']['uses'] += '\nuse crate::common::Encoding;\nuse crate::write::{Result, Sections, Writer};'
    sk.add('write::range', list_table_model('RangeListTable', 'RangeListOffsets', '', '.debug_ranges / .debug_rnglists'), label='RangeListTable(model)')
    sk.mods['write::loc']['uses'] += '\nuse crate::common::Encoding;\nuse crate::write::{Result, Sections, UnitOffsets, Writer};'
    sk.add('write::loc', list_table_model('LocationListTable', 'LocationListOffsets', ', unit_offsets: Option<&UnitOffsets>', '.debug_loc / .debug_loclists'),
           label='LocationListTable(model)')
    # write::section: Sections<W> projected (R-FIELDS) to the sections the extracted functions touch
    sk.mods['write']['uses'] += '\npub use self::section::*;'
    sk.module('write::section', 'use crate::write::{DebugInfo, DebugInfoFixup, DebugLine, Writer};')
    st = sec.item(r'^pub struct Sections<W: Writer> \{', label='Sections')
    for f in ['pub debug_abbrev: DebugAbbrev<W>,', 'pub debug_line_str: DebugLineStr<W>,', 'pub debug_ranges: DebugRanges<W>,', 'pub debug_rnglists: DebugRngLists<W>,',
              'pub debug_loc: DebugLoc<W>,', 'pub debug_loclists: DebugLocLists<W>,', 'pub debug_str: DebugStr<W>,', 'pub debug_frame: DebugFrame<W>,',
              'pub eh_frame: EhFrame<W>,', 'pub(crate) debug_loc_fixups: Vec<DebugInfoFixup>,', 'pub(crate) debug_loclists_fixups: Vec<DebugInfoFixup>,']:
        st.custom('R-FIELDS', f, '')
    sk.add('write::section', st.clean(rejrec=['W']))
    sk.mods['write::unit']['uses'] += '\nuse crate::write::{LineProgram, LocationListTable, RangeListTable, Sections};'

    # DebuggingInformationEntry::{set, delete}: `iter_mut().find(closure)` / `retain(closure)` - outside the subset
    ds = un.item(r'^impl DebuggingInformationEntry \{', label='DebuggingInformationEntry(impl/set)')
    ds.keep_only(['set', 'delete'])
    ds.extbody(['set', 'delete'])
    ds.clean()
    SAME = 'final(self).eid() == old(self).eid() && final(self).etag() == old(self).etag() && final(self).esibling() == old(self).esibling() && final(self).kids() == old(self).kids()'
    ds.splice('set', ensures=[SAME, 'final(self).eattrs() == attrs_set(old(self).eattrs(), name, value)'])
    ds.splice('delete', ensures=[SAME, 'final(self).eattrs() == attrs_del(old(self).eattrs(), name)'])
    sk.add('write::unit', ds)
    sk.add('write::unit', HAVE_BASE, label='verif_have_base_address')
    sk.add('write::unit', CLONE_SPEC, label='axiom_offset_clone')


def unit_write(ctx, sk, un):
    uw = un.item(r'^impl Unit \{', label='Unit(impl/write)')
    uw.keep_only(['line_program_in_use', 'write'])
    uw.custom('R-ANY', HAVE_BASE_OLD, 'verif_have_base_address(&self.entries[self.root.index].attrs)')
    uw.clean()
    uw.own(OWN)
    uw.insert_after('for (offset, entry) in ', 'itr: ')
    uw.splice('line_program_in_use', ret='res', ensures=['res ==> !self.lp().none_spec()'],
              loops={0: 'invariant !self.lp().none_spec()', 1: 'invariant !self.lp().none_spec()'})
    D0, D1 = 'old(sections).debug_info.0.wv()', 'final(sections).debug_info.0.wv()'
    ENC = 'old(self).enc()'
    WORD = f'word_size({ENC}.format)'
    PRE = [
        # debug_assert!(!self.written)
        '!old(self).uwritten()',
        'old(self).root_ix() < old(self).ents().len()',
        # A-TREE for the unit as given, and all assumptions for the unit as Unit::write prepares it
        'unit_tree_ok(*old(self))',
        f'forall|u: Unit| #[trigger] prepared(*old(self), u) ==> unit_good(u, {D0}.len)',
    ]
    POST = [
        # DWARF 5 7.5.1.1 / DWARF 2-4 7.5.1: the header fields, in the order of the unit's version, first
        f'[C11:unit-header] res is Ok ==> 2 <= {ENC}.version <= 5 && wprefix({D0}.ops + unit_header_ops({ENC}, abbrev_offset.0), {D1}.ops)',
        # the .debug_abbrev offset is written through the RELOCATABLE primitive, word sized, naming its section
        f'[C18:unit-abbrev-offset] res is Ok ==> {D1}.ops[{D0}.ops.len() + abbrev_field_ix({ENC})] == '
        f'(WOp::Offset {{ val: abbrev_offset.0, section: SectionId::DebugAbbrev, size: {WORD} as u8 }})',
        # the offsets table kept by the unit: the unit starts where the section ended, the root entry follows the header
        f'[C11:unit-header] res is Ok ==> final(self).uwritten() && final(self).uoffs().unit_off() == {D0}.len && '
        f'final(self).uoffs().tab()[old(self).root_ix() as int].0 == {D0}.len + unit_header_len({ENC})',
        # unit_length := number of bytes after the length field, patched into the length word
        f'[C11:unit-length-patch] res is Ok ==> {D1}.len >= {D0}.len + unit_header_len({ENC}) && '
        f'exists|p: int| #[trigger] len_patch_at({D1}.ops, p, unit_length_patch({ENC}, {D0}.len, {D1}.len))',
        # every recorded in-unit reference is patched, at its recorded offset, word sized, with the UNIT-RELATIVE offset
        # of its target; Ok implies every target has an offset (unresolvable reference ==> Err, see the loop)
        f'[C11:unit-ref-patch] res is Ok ==> exists|p: int, refs: Seq<(DebugInfoOffset, UnitEntryId)>| '
        f'#[trigger] unit_tail({D1}.ops, p, refs, final(self).uoffs(), {WORD}) && len_patch_at({D1}.ops, p, unit_length_patch({ENC}, {D0}.len, {D1}.len))',
        f'[C11:w-frame] res is Ok ==> grew({D0}, {D1})',
    ]
    CTXI = ('self.enc() == u1.enc() && self.root_ix() == u1.root_ix() && u1.enc() == old(self).enc() && '
            'offsets.base() == u1.ubase() && offsets.tab().len() == u1.ents().len() && offsets.unit_off() == d0.len')
    PATCHED = ('(offsets.knows(refs0[k].1) && offsets.info_off(refs0[k].1) is Some && offsets.info_off(refs0[k].1)->Some_0.0 >= offsets.unit_off() && '
               '#[trigger] w.0.wv().ops[we.ops.len() + 1 + k] == (WOp::PatchU { offset: refs0[k].0.0 as nat, '
               'val: (offsets.info_off(refs0[k].1)->Some_0.0 - offsets.unit_off()) as nat, size: word_size(u1.enc().format) }))')
    LOOP = ('invariant ' + CTXI + ', unit_refs@ == refs0, w.0.wv().len == we.len, w.0.wv().ops.len() == we.ops.len() + 1 + itr.index@, '
            'wprefix(we.ops, w.0.wv().ops), grew(d0, w.0.wv()), w.0.wv().ops[we.ops.len() as int] == unit_length_patch(u1.enc(), d0.len, we.len), '
            'forall|k: int| 0 <= k < refs0.len() ==> offsets.knows((#[trigger] refs0[k]).1), '
            'forall|x: int| 0 <= x < offsets.tab().len() ==> (#[trigger] offsets.tab()[x]).0 == 0 || offsets.tab()[x].0 >= offsets.unit_off(), '
            f'forall|k: int| 0 <= k < itr.index@ ==> {PATCHED} // [C11:unit-ref-patch]')
    uw.splice('write', ret='res', requires=PRE, ensures=POST, loops={0: LOOP}, canary=True, before=[
        ('let line_program = if self.line_program_in_use() {', 'let ghost u0 = *self; let ghost d0 = sections.debug_info.0.wv();'),
        ('let w = &mut sections.debug_info;', UW_MID),
        ('let length_offset = ', 'proof { assert forall|x: int| 0 <= x < offsets.tab().len() implies (#[trigger] offsets.tab()[x]) == DebugInfoOffset(0usize) by { axiom_offset_clone(DebugInfoOffset(0usize), offsets.tab()[x]); } }'),
        ('self.reorder_base_types();', UW_HDR),
        ('let mut codes', UW_PREP),
        ('let have_base_address', UW_CALC),
        ('let mut unit_refs', 'proof { assert(w.0.wv() == wh); }'),
        ('let length = ', UW_ENTRIES),
        ('for (offset, entry) in', UW_LEN),
        ('w.write_udata_at(', 'proof { assert((offset, entry) == refs0[itr.index@]); }'),
        ('self.offsets = offsets;', UW_END),
    ], after=[('self.written = true;', UW_END2)])
    sk.add('write::unit', uw)


UW_MID = '''let ghost m = *self;
        proof {
            assert(sections.debug_info.0.wv() == d0);
            assert(m.enc() == u0.enc() && m.ubase() == u0.ubase() && m.root_ix() == u0.root_ix() && m.ents().len() == u0.ents().len());
        }'''

UW_HDR = '''let ghost wh = w.0.wv();
        proof {
            let r = u0.root_ix() as int;
            assert(wh.ops =~= d0.ops + unit_header_ops(u0.enc(), abbrev_offset.0)); // [C11:unit-header][C18:unit-abbrev-offset]
            assert(wh.len == d0.len + unit_header_len(u0.enc())); // [C11:unit-header]
            assert(entry_ok(u0, r));
            assert forall|j: int| 0 <= j < m.ents()[r].kids().len() implies (#[trigger] m.ents()[r].kids()[j]).ix() < m.ents().len() by {
                assert(kid_ok(u0, r, j));
            }
        }'''

UW_PREP = '''let ghost u1 = *self;
        proof {
            let r = u0.root_ix() as int;
            let k0 = u0.ents()[r].kids();
            assert(m.ents()[r].kids() == k0);
            assert forall|j: int| 0 <= j < k0.len() implies
                (m.ents()[(#[trigger] k0[j]).ix() as int].etag().0 == 0x24) == (u0.ents()[k0[j].ix() as int].etag().0 == 0x24) by {
                assert(kid_ok(u0, r, j));
            }
            lemma_filter_cong(k0, |c: UnitEntryId| m.ents()[c.ix() as int].etag().0 == 0x24, |c: UnitEntryId| u0.ents()[c.ix() as int].etag().0 == 0x24, k0.len() as int);
            lemma_filter_cong(k0, |c: UnitEntryId| m.ents()[c.ix() as int].etag().0 != 0x24, |c: UnitEntryId| u0.ents()[c.ix() as int].etag().0 != 0x24, k0.len() as int);
            assert(u1.ents()[r].kids() == base_types_first(u0));
            assert(prepared(u0, u1));
            assert(unit_good(u1, d0.len));
            assert(entry_ok(u1, r));
        }'''

UW_CALC = '''let ghost off1 = offset;
        proof {
            assert(unit_refs_known(u1, offsets));
        }'''

UW_ENTRIES = '''let ghost we = w.0.wv(); let ghost refs0 = unit_refs@;'''

UW_LEN = '''proof {
            assert(w.0.wv().ops[we.ops.len() as int] == unit_length_patch(u1.enc(), d0.len, we.len)); // [C11:unit-length-patch]
        }'''

UW_END2 = '''proof {
            assert(self.uoffs() == ofin);
            assert(u1.enc() == old(self).enc());
            assert(unit_tail(w.0.wv().ops, we.ops.len() as int, refs0, self.uoffs(), word_size(old(self).enc().format))); // [C11:unit-ref-patch]
            assert(len_patch_at(w.0.wv().ops, we.ops.len() as int, unit_length_patch(old(self).enc(), d0.len, w.0.wv().len))); // [C11:unit-length-patch]
        }'''

UW_END = '''let ghost ofin = offsets;
        proof {
            assert(len_patch_at(w.0.wv().ops, we.ops.len() as int, unit_length_patch(u1.enc(), d0.len, w.0.wv().len))); // [C11:unit-length-patch]
            assert(unit_tail(w.0.wv().ops, we.ops.len() as int, refs0, offsets, word_size(u1.enc().format))); // [C11:unit-ref-patch]
        }'''


def populate(ctx, sk):
    un = wcore.wsource('write/unit.rs', ctx)
    sk.add('write::unit', core.rd('specs/wunit_layout.rs'), label='wunit_layout-spec', owners=OWN)
    extend_wunit(ctx, sk, un)
    models(ctx, sk, un)
    calc_offsets(ctx, sk, un)
    unit_write(ctx, sk, un)
    return sk


def build(ctx):
    sk = Skeleton(ctx, core.rd('prelude/crate.rs'))
    core.populate(ctx, sk)
    wcore.populate(ctx, sk)
    wunit.populate(ctx, sk, findings=False, part2=True)
    populate(ctx, sk)
    return sk
