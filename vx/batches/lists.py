"""B-lists: range lists, location lists, indexed address / string-offset / list-offset tables (DESIGN.md 6 C08, C17, A.5).

Functions under contract (real text of /repo/src/read/{rnglists,loclists,addr,str}.rs; owners C01+C08, table lookups also C17):

  raw decoding (carrier 1)
    RawRange::{parse, is_end, is_base_address}
    RawRngListEntry::parse, RawLocListEntry::parse, parse_data        every DW_RLE_* / DW_LLE_* kind and the legacy pair
        format, generated from the tables RLE / LLE below (DWARF 5 Table 7.30 / 7.10, sections 2.17.3 / 2.6.2 + the GNU v4
        split-DWARF variants gimli documents): per kind the operand layout, the decoded fields, exact consumption, the
        location description as a `window` of the input [C10:view]; end-of-list, unknown kind -> the specific error,
        (0,0) end marker, all-ones(address_size) base-selection marker, invalid address size -> Err
    RawRngListIter::{new,next}, RawLocListIter::{new,next}            iterator protocol (empty -> None, Err empties,
        Some -> progress, None -> emptied) + "raw iteration exposes every encoded entry unchanged" (same per-kind clauses)
  resolution (carrier 2)
    Range::add_base_address
    RngListIter::{new,get_address,next,next_raw,convert_raw}, LocListIter::{...}
        convert_raw == rng_resolve / loc_resolve (ghost functions below, from DWARF 5 2.17.3 / 2.6.2): new running base,
        reported range (offset pairs add the base with wrap at the address size, startx_length = A[i] + n, tombstone base
        drops the pair), location data handed through; FOR ANY INPUT  Ok(Some(r)) ==> r.begin < r.end && r.begin <
        ones(size)-1  [C08:nonempty-below-tombstone]; `next`: the same clause + iterator protocol + termination
  indexed tables (carrier 3)
    DebugAddr::get_address, DebugStrOffsets::get_str_offset, RangeLists::get_offset, LocationLists::get_offset
        result == entry read at base + index * entry_size with MATHEMATICAL multiplication (`tab_at` in specs/lists.rs)
    RangeLists::{ranges, raw_ranges}, LocationLists::{locations, locations_dwo, raw_locations, raw_locations_dwo}
        section / format selection by version; iterator context (base address, address table, addr_base)
    AddrHeader::{parse,offset,length,encoding}, AddrHeaderIter::next, AddrEntryIter::next

FINDING F-lists-1 (= DESIGN F4), reported on the pinned tree as 6 failed overflow obligations (exit 1):
    `index.0.into_u64() * u64::from(size)` in the four lookups and `base.0 + x` in the two get_offset closures.
    native/src/bin/f_lists_1.rs reproduces all of them (also from bytes only, through RngListIter/LocListIter::next);
    native/f_lists_1_fix.patch is the minimal fix (checked_mul / checked_add -> Error::UnsupportedOffset); with it the
    batch exits 0 (every postcondition above is then proved) and gimli's own tests still pass.

Assumed (TRUSTED): only core's ledger (verif_unreachable, Result::and_then, reader_clone = "a cloned reader has the same
view"; `section.clone()` is rewritten to reader_clone, `debug_addr.clone()` to the verified model debugaddr_clone, by R-CLONE, logged).  Logged rewrites: R-CLONE (10 sites); R-CTORFN
(`.map(DebugStrOffset)` -> `.map(|x| DebugStrOffset(x))`: Verus has no constructors as function values); R-VIS
(`pub(crate) trait ReaderAddress` -> `pub trait`, works around a Verus panic, see widen_reader_address).  Inserted
closure postconditions (`|x| -> (o: T) ensures .. { .. }`) and `hide(..)` directives are insert-only text.
Precondition (not from bytes): the resolving iterators require valid_address_size(encoding.address_size)
[C08:valid-address-size] -- established by the unit header parser ([C01:address-size-validated]); a caller that builds an
`Encoding` with another address size by hand makes `u64::min_tombstone` shift out of range (API misuse, canary-guarded).
AddrHeaderIter::next requires offset + remaining input <= usize::MAX (true when started by DebugAddr::headers).

Not decided here: carrier 4 lives in batch `dwarf_ranges` (built on this populate()); DebugAddr::headers,
AddrHeader::entries;
lists.rs parse_header / *Base::default_for_encoding_and_file; completeness "in-bounds operands ==> Ok" for address
operands (core's read_address contract has no `Err <==> too short` clause); the functional relation of the resolving
`next` to the whole list (it is the composition of raw `next` and `convert_raw`, both fully specified; `next` itself
carries protocol, termination and the non-empty/tombstone clause); the standard gives DW_LLE_default_location no
address range -- gimli's documented representation [0, u64::MAX) is what the spec function states.
"""
from lib import *
from batches import core

TRUSTED = list(core.TRUSTED)
VERUS_ARGS = ['--rlimit', '40']
RETRY_RLIMIT = 120

# ------------------------------------------------------------------------------------------------------------------
# Entry tables, written from DWARF 5 Table 7.30 / section 2.17.3 (range list entries) and Table 7.10 / section 2.6.2
# (location list entries): kind byte -> operand layout -> decoded entry.
# operand kinds:  uleb | addr (address-size field) | len4 (ULEB128 in DWARF 5; fixed 4 bytes in the GNU v4 split-DWARF
# extension) | cld (counted location description: ULEB128 length in DWARF 5, fixed 2-byte length in the GNU v4
# extension, then that many bytes of expression)
RLE = [
    ('base_addressx', 0x01, ['uleb'], 'RawRngListEntry::BaseAddressx { addr: DebugAddrIndex(v0) }', 'v0.as_nat() == o0'),
    ('startx_endx', 0x02, ['uleb', 'uleb'], 'RawRngListEntry::StartxEndx { begin: DebugAddrIndex(v0), end: DebugAddrIndex(v1) }', 'v0.as_nat() == o0 && v1.as_nat() == o1'),
    ('startx_length', 0x03, ['uleb', 'uleb'], 'RawRngListEntry::StartxLength { begin: DebugAddrIndex(v0), length }', 'v0.as_nat() == o0 && length == o1'),
    ('offset_pair', 0x04, ['uleb', 'uleb'], 'RawRngListEntry::OffsetPair { begin, end }', 'begin == o0 && end == o1'),
    ('base_address', 0x05, ['addr'], 'RawRngListEntry::BaseAddress { addr }', 'addr == o0'),
    ('start_end', 0x06, ['addr', 'addr'], 'RawRngListEntry::StartEnd { begin, end }', 'begin == o0 && end == o1'),
    ('start_length', 0x07, ['addr', 'uleb'], 'RawRngListEntry::StartLength { begin, length }', 'begin == o0 && length == o1'),
]
LLE = [
    ('base_addressx', 0x01, ['uleb'], 'RawLocListEntry::BaseAddressx { addr: DebugAddrIndex(v0) }', 'v0.as_nat() == o0'),
    ('startx_endx', 0x02, ['uleb', 'uleb', 'cld'], 'RawLocListEntry::StartxEndx { begin: DebugAddrIndex(v0), end: DebugAddrIndex(v1), data }', 'v0.as_nat() == o0 && v1.as_nat() == o1'),
    ('startx_length', 0x03, ['uleb', 'len4', 'cld'], 'RawLocListEntry::StartxLength { begin: DebugAddrIndex(v0), length, data }', 'v0.as_nat() == o0 && length == o1'),
    ('offset_pair', 0x04, ['uleb', 'uleb', 'cld'], 'RawLocListEntry::OffsetPair { begin, end, data }', 'begin == o0 && end == o1'),
    ('default_location', 0x05, ['cld'], 'RawLocListEntry::DefaultLocation { data }', 'true'),
    ('base_address', 0x06, ['addr'], 'RawLocListEntry::BaseAddress { addr }', 'addr == o0'),
    ('start_end', 0x07, ['addr', 'addr', 'cld'], 'RawLocListEntry::StartEnd { begin, end, data }', 'begin == o0 && end == o1'),
    ('start_length', 0x08, ['addr', 'uleb', 'cld'], 'RawLocListEntry::StartLength { begin, length, data }', 'begin == o0 && length == o1'),
]


def operand_lets(kinds, enc):
    """spec let-chain: operand values o_i, positions p_i, total size; returns (lets, extra constraint)"""
    s = 'let p0 = 1int; '
    extra = []
    for i, k in enumerate(kinds):
        p = f'p{i}'
        if k == 'uleb':
            s += f'let o{i} = b0.uleb({p}) as int; let p{i + 1} = {p} + b0.leb_len({p}) as int; '
        elif k == 'addr':
            s += f'let o{i} = b0.u({p}, {enc}.address_size as int) as int; let p{i + 1} = {p} + {enc}.address_size as int; '
            extra.append(f'valid_address_size({enc}.address_size)')
        elif k == 'len4':
            s += f'let o{i} = len4_val(b0, {p}, {enc}.version) as int; let p{i + 1} = {p} + len4_size(b0, {p}, {enc}.version) as int; '
        elif k == 'cld':
            s += f'let o{i} = cld_len(b0, {p}, {enc}.version) as int; let d{i} = {p} + cld_hdr(b0, {p}, {enc}.version) as int; let p{i + 1} = d{i} + o{i}; '
            extra.append(f'window(b0, data.0.rv(), d{i} as nat, o{i} as nat)')
    s += f'let total = p{len(kinds)}; '
    return s, extra


def decode_clauses(loc, coded, enc, B0, B1, res='res'):
    """per-kind clauses relating a decoded raw entry to the bytes at B0 (B1 = reader after the entry)"""
    table, ename, P = ((LLE, 'RawLocListEntry', 'lle') if loc else (RLE, 'RawRngListEntry', 'rle'))
    out = []
    SOME = f'({coded}) ==> ({res} matches Ok(Some(e))'
    for name, kind, ops, pat, cons in table:
        lets, extra = operand_lets(ops, enc)
        c = ' && '.join([f'({cons})'] + extra)
        view = '[C10:view]' if 'cld' in ops else ''
        out.append(f'[C08:{P}-{name}]{view} {SOME} ==> ({{ let b0 = {B0}; b0.at(0) == {kind:#04x} ==> ({{ {lets} '
                   f'(e matches {pat} && {c} && adv(b0, {B1}, total as nat)) }}) }}))')
    last = table[-1][1]
    out.append(f'[C08:{P}-kinds] {SOME} ==> 1 <= {B0}.at(0) <= {last:#04x})')
    S = f'{enc}.address_size'
    BS = f'!({coded}) ==> ({res} matches Ok(Some(e))'
    out.append(f'[C08:pair-base-select] {BS} ==> ({{ let b0 = {B0}; let s = {S} as int; b0.u(0, s) == ones({S}) ==> '
               f'(e matches {ename}::BaseAddress {{ addr }} && addr == b0.u(s, s) && valid_address_size({S}) && adv(b0, {B1}, (2 * s) as nat)) }}))')
    if loc:
        out.append(f'[C08:pair-range][C10:view] {BS} ==> ({{ let b0 = {B0}; let s = {S} as int; b0.u(0, s) != ones({S}) ==> '
                   f'(e matches {ename}::AddressOrOffsetPair {{ begin, end, data }} && begin == b0.u(0, s) && end == b0.u(s, s) && !(begin == 0 && end == 0) '
                   f'&& valid_address_size({S}) && window(b0, data.0.rv(), (2 * s + 2) as nat, b0.u(2 * s, 2)) && adv(b0, {B1}, (2 * s + 2 + b0.u(2 * s, 2)) as nat)) }}))')
    else:
        out.append(f'[C08:pair-range] {BS} ==> ({{ let b0 = {B0}; let s = {S} as int; b0.u(0, s) != ones({S}) ==> '
                   f'(e matches {ename}::AddressOrOffsetPair {{ begin, end }} && begin == b0.u(0, s) && end == b0.u(s, s) && !(begin == 0 && end == 0) '
                   f'&& valid_address_size({S}) && adv(b0, {B1}, (2 * s) as nat)) }}))')
    return out


def parse_clauses(loc):
    enc, B0, B1 = 'encoding', 'old(input).rv()', 'final(input).rv()'
    encf, bare, P, err = (('LocListsFormat::Lle', 'LocListsFormat::Bare', 'lle', 'UnknownLocListsEntry') if loc else
                          ('RangeListsFormat::Rle', 'RangeListsFormat::Bare', 'rle', 'UnknownRangeListsEntry'))
    last = (LLE if loc else RLE)[-1][1]
    out = decode_clauses(loc, f'format matches {encf}', enc, B0, B1)
    S = 'encoding.address_size'
    out += [
        f'[C08:{P}-end] (format matches {encf} && res matches Ok(None)) ==> {B0}.at(0) == 0 && adv({B0}, {B1}, 1)',
        f'[C08:{P}-end-complete] (format matches {encf} && {B0}.len > 0 && {B0}.at(0) == 0) ==> res matches Ok(None)',
        f'[C08:{P}-unknown] (format matches {encf} && {B0}.len > 0 && {B0}.at(0) > {last:#04x}) ==> (res matches Err(Error::{err}(k)) && k.0 == {B0}.at(0))',
        f'[C08:pair-end] (format matches {bare} && res matches Ok(None)) ==> ({{ let b0 = {B0}; let s = {S} as int; '
        f'b0.u(0, s) == 0 && b0.u(s, s) == 0 && valid_address_size({S}) && adv(b0, {B1}, (2 * s) as nat) }})',
        f'[C08:pair-end-complete] (format matches {bare} && res is Ok && {B0}.u(0, {S} as int) == 0 && {B0}.u({S} as int, {S} as int) == 0) ==> res matches Ok(None)',
        f'[C08:pair-address-size] (format matches {bare} && !valid_address_size({S})) ==> res is Err',
        f'[C01:frame] within({B0}, {B1})',
        f'[C01:progress] res is Ok ==> {B1}.len < {B0}.len',
    ]
    return out


def next_raw_clauses(loc):
    """RawRngListIter::next / RawLocListIter::next: iterator protocol + raw iteration exposes the encoded entry unchanged"""
    B0, B1 = 'old(self).inp()', 'final(self).inp()'
    P = 'lle' if loc else 'rle'
    out = decode_clauses(loc, 'old(self).coded()', 'old(self).enc()', B0, B1)
    out += [
        f'[C01:iter-empty] {B0}.len == 0 ==> res matches Ok(None)',
        f'[C01:iter-err-empties] res is Err ==> {B1}.len == 0',
        f'[C01:iter-progress] res matches Ok(Some(_)) ==> {B1}.len < {B0}.len',
        f'[C01:iter-none-final][C08:end-stops] res matches Ok(None) ==> {B1}.len == 0',
        f'[C01:frame] {B1}.root == {B0}.root && {B1}.be == {B0}.be && {B1}.len <= {B0}.len',
        'final(self).coded() == old(self).coded() && final(self).enc() == old(self).enc()',
    ]
    return out


def resolve_spec(loc):
    """ghost: what the resolving iterators report for one raw entry (DWARF 5 section 2.17.3 / 2.6.2, DESIGN A.5).
    A(i) = address-size entry i of the unit's contribution to .debug_addr (tab, tbase)"""
    ename, P, ety = (('RawLocListEntry', 'loc', 'RawLocListEntry<R>') if loc else ('RawRngListEntry', 'rng', 'RawRngListEntry<usize>'))
    gen = '<R: Reader<Offset = usize>>' if loc else ''
    d = ', ..' if loc else ''
    A = lambda i: f'(tab_at(tab, tbase, {i}.as_nat(), size as nat) as u64)'
    IN = lambda i: f'tab_in(tab, tbase, {i}.as_nat(), size as nat)'
    default = f'        {ename}::DefaultLocation {{ .. }} => (base, Some((0u64, u64::MAX))),\n' if loc else ''
    default_ok = f'        {ename}::DefaultLocation {{ .. }} => true,\n' if loc else ''
    data = ''
    if loc:
        data = f"""
/// the location description of a raw entry (handed through unchanged)
pub open spec fn loc_data{gen}(e: {ety}) -> Option<Expression<R>> {{
    match e {{
        {ename}::AddressOrOffsetPair {{ data, .. }} => Some(data),
        {ename}::StartxEndx {{ data, .. }} => Some(data),
        {ename}::StartxLength {{ data, .. }} => Some(data),
        {ename}::OffsetPair {{ data, .. }} => Some(data),
        {ename}::DefaultLocation {{ data }} => Some(data),
        {ename}::StartEnd {{ data, .. }} => Some(data),
        {ename}::StartLength {{ data, .. }} => Some(data),
        _ => None,
    }}
}}
"""
    return f"""
/// every address-table index the entry uses lies inside the table section
pub open spec fn {P}_lookups_ok{gen}(e: {ety}, size: u8, tab: RView, tbase: nat) -> bool {{
    match e {{
        {ename}::BaseAddressx {{ addr: DebugAddrIndex(i) }} => {IN('i')},
        {ename}::StartxEndx {{ begin: DebugAddrIndex(i), end: DebugAddrIndex(j){d} }} => {IN('i')} && {IN('j')},
        {ename}::StartxLength {{ begin: DebugAddrIndex(i){d if loc else ', ..'} }} => {IN('i')},
{default_ok}        _ => true,
    }}
}}
/// (new running base address, reported range if any)
pub open spec fn {P}_resolve{gen}(e: {ety}, base: u64, size: u8, tab: RView, tbase: nat) -> (u64, Option<(u64, u64)>) {{
    match e {{
        {ename}::BaseAddress {{ addr }} => (addr, None),
        {ename}::BaseAddressx {{ addr: DebugAddrIndex(i) }} => ({A('i')}, None),
        {ename}::StartxEndx {{ begin: DebugAddrIndex(i), end: DebugAddrIndex(j){d} }} => (base, filt({A('i')}, {A('j')}, size)),
        {ename}::StartxLength {{ begin: DebugAddrIndex(i), length{d} }} => (base, filt({A('i')}, wrap_add({A('i')}, length, size), size)),
        {ename}::AddressOrOffsetPair {{ begin, end{d} }} => (base, resolve_offset_pair(base, begin, end, size)),
        {ename}::OffsetPair {{ begin, end{d} }} => (base, resolve_offset_pair(base, begin, end, size)),
{default}        {ename}::StartEnd {{ begin, end{d} }} => (base, filt(begin, end, size)),
        {ename}::StartLength {{ begin, length{d} }} => (base, filt(begin, wrap_add(begin, length, size), size)),
    }}
}}
{data}"""


RES_GHOST = """    pub closed spec fn inp(&self) -> RView { self.raw.inp() }
    pub closed spec fn coded(&self) -> bool { self.raw.coded() }
    pub closed spec fn enc(&self) -> Encoding { self.raw.enc() }
    pub closed spec fn size(&self) -> u8 { self.raw.enc().address_size }
    pub closed spec fn base(&self) -> u64 { self.base_address }
    pub closed spec fn tab(&self) -> RView { self.debug_addr.sec() }
    pub closed spec fn tbase(&self) -> nat { self.debug_addr_base.0 as nat }
    /// everything but the remaining input and the running base address
    pub open spec fn same_list(&self, o: &Self) -> bool {
        self.coded() == o.coded() && self.enc() == o.enc() && self.tab() == o.tab() && self.tbase() == o.tbase()
        && self.inp().root == o.inp().root && self.inp().be == o.inp().be
    }"""


def resolver_contracts(it, loc):
    """RngListIter / LocListIter: new, get_address, next, next_raw, convert_raw"""
    P = 'loc' if loc else 'rng'
    raw = 'raw_loc' if loc else 'raw_range'
    O, F = 'old(self)', 'final(self)'
    it.insert_members(RES_GHOST)
    it.splice('new', ret='res', ensures=[
        'res.inp() == raw.inp() && res.coded() == raw.coded() && res.enc() == raw.enc() && res.base() == base_address '
        '&& res.tab() == debug_addr.sec() && res.tbase() == debug_addr_base.0 as nat'])
    it.splice('get_address', ret='res', ensures=[
        '[C08:indexed-address] res matches Ok(a) ==> valid_address_size(self.size()) && tab_in(self.tab(), self.tbase(), index.0.as_nat(), self.size() as nat) '
        '&& a as nat == tab_at(self.tab(), self.tbase(), index.0.as_nat(), self.size() as nat)'])
    VS = f'[C08:valid-address-size] valid_address_size({O}.size())'
    rng_of = 'x.range' if loc else 'x'
    conv = [
        f'[C08:resolve-base] res is Ok ==> {P}_lookups_ok({raw}, {O}.size(), {O}.tab(), {O}.tbase()) && '
        f'{F}.base() == {P}_resolve({raw}, {O}.base(), {O}.size(), {O}.tab(), {O}.tbase()).0',
        f'[C08:resolve-range] res matches Ok(o) ==> ({{ let r = {P}_resolve({raw}, {O}.base(), {O}.size(), {O}.tab(), {O}.tbase()).1; '
        f'(o matches Some(x) ==> r == Some(({rng_of}.begin, {rng_of}.end))) && (o is None ==> r is None) }})',
        f'[C08:nonempty-below-tombstone] res matches Ok(Some(x)) ==> {rng_of}.begin < {rng_of}.end && {rng_of}.begin < min_tomb({O}.size())',
        f'[C08:resolve-err-keeps-base] res is Err ==> {F}.base() == {O}.base()',
        f'{F}.same_list({O}) && {F}.inp() == {O}.inp()',
    ]
    if loc:
        conv.insert(2, f'[C08:resolve-data][C10:view] res matches Ok(Some(x)) ==> loc_data({raw}) == Some(x.data)')
    it.splice('convert_raw', ret='res', requires=[VS], ensures=conv, canary=True)
    it.splice('next_raw', ret='res', ensures=next_raw_clauses(loc) + [f'{F}.same_list({O}) && {F}.base() == {O}.base()'])
    it.splice('next', ret='res', requires=[VS], ensures=[
        f'[C08:nonempty-below-tombstone] res matches Ok(Some(x)) ==> {rng_of}.begin < {rng_of}.end && {rng_of}.begin < min_tomb({O}.size())',
        f'[C01:iter-empty] {O}.inp().len == 0 ==> res matches Ok(None)',
        f'[C01:iter-err-progress] res is Err ==> {F}.inp().len < {O}.inp().len',
        f'[C01:iter-progress] res matches Ok(Some(_)) ==> {F}.inp().len < {O}.inp().len',
        f'[C01:iter-none-final][C08:end-stops] res matches Ok(None) ==> {F}.inp().len == 0',
        f'[C01:frame] {F}.same_list({O}) && {F}.inp().len <= {O}.inp().len'],
        loops={0: f'invariant self.same_list({O}), self.inp().len <= {O}.inp().len, valid_address_size(self.size()),\n decreases self.inp().len'})


def table_lookup(sec, esz, val, var, tags, plus_base=False):
    """indexed table lookup: the result is the entry read at base + index * entry_size (mathematical product) of `sec`"""
    t = ''.join(f'[{x}]' for x in tags)
    v = f'base.0 as nat + tab_at({sec}, base.0 as nat, index.0 as nat, {esz})' if plus_base else f'tab_at({sec}, base.0 as nat, index.0 as nat, {esz})'
    return [f'{t} res matches Ok({var}) ==> tab_in({sec}, base.0 as nat, index.0 as nat, {esz}) && {val} == {v}']


def closure_spec(it, open_anchor, body, rty, ens):
    """give the closure `|x| <body>` a postcondition (inserted text only: `-> (o: T) ensures .. {` and `}`)"""
    if open_anchor + body not in it.text:
        return      # the closure is gone (e.g. after the checked-arithmetic fix): nothing to annotate
    it.insert_after(open_anchor, f'-> (o: {rty}) ensures {ens} {{ ')
    it.insert_after(open_anchor + INS_O + f'-> (o: {rty}) ensures {ens} {{ ' + INS_C + body, ' }')


ONES_BV = ('proof { assert(!0u64 >> 56u64 == 0xff) by (bit_vector); assert(!0u64 >> 48u64 == 0xffff) by (bit_vector); '
           'assert(!0u64 >> 32u64 == 0xffff_ffff) by (bit_vector); assert(!0u64 >> 0u64 == 0xffff_ffff_ffff_ffff) by (bit_vector); }')

# the decoders never need to unfold the recursive byte-level definitions: every operand is matched syntactically against
# the callee's postcondition (positions differ only by linear arithmetic)
HIDE = '\n        hide(uint_at); hide(uleb_in); hide(leb_len_in);\n'

LEMF = 'proof { range.lemma_fields(); }'

ITER_GHOST = '''    pub closed spec fn inp(&self) -> RView { self.input.rv() }
    pub closed spec fn enc(&self) -> Encoding { self.encoding }
    pub closed spec fn coded(&self) -> bool { self.format matches %s }'''


def widen_reader_address(ctx, sk):
    """R-VIS (logged): `pub(crate) trait ReaderAddress` -> `pub trait ReaderAddress`.
    Verus 0.2026.09 panics (vir/sst_to_air.rs: "no entry found for key") on a call of a default method of a pub(crate)
    trait through the concrete type from another module (`u64::min_tombstone(..)` in convert_raw).  Visibility widening
    only; should move into core.py (`rat.custom('R-VIS', ..)` before `.clean()`), then this function becomes a no-op."""
    old, new = 'pub(crate) trait ReaderAddress', 'pub trait ReaderAddress'
    for it, _label, _own in sk.mods['read::reader']['chunks']:
        if isinstance(it, Item) and it.label == 'ReaderAddress' and old in it.text:
            it.text = it.text.replace(old, new, 1)
            it.base = it.base.replace(old, new, 1)
            ctx.custom.append(('R-VIS', it._where(''), old, new))
            ctx.count('R-VIS')


def populate(ctx, sk):
    widen_reader_address(ctx, sk)
    rng = Source('read/rnglists.rs', ctx)
    loc = Source('read/loclists.rs', ctx)
    op = Source('read/op.rs', ctx)
    sk.add('vspec', core.rd('specs/lists.rs'), label='lists_spec')
    sk.mods['read']['uses'] += '\npub use self::rnglists::*;\npub use self::loclists::*;\npub use self::op::*;'

    # ---- read::op (only the Expression newtype: location descriptions are handed out as reader windows)
    sk.module('read::op', 'use crate::read::Reader;')
    sk.add('read::op', op.item(r'^pub struct Expression<').clean(offset=False, rejrec=['R']))   # generic in R::Offset (as in batches attrs / units)


    # ---- read::addr  (address table: DW_FORM_addrx, DW_RLE_*x, DW_LLE_*x, DW_OP_addrx)
    adr = Source('read/addr.rs', ctx)
    sk.mods['read']['uses'] += '\npub use self::addr::*;\npub use self::str::*;'
    sk.module('read::addr', """use crate::common::{DebugAddrBase, DebugAddrIndex, DebugAddrOffset, Encoding, Format};
use crate::read::{Error, Reader, ReaderOffset, Result};
use crate::read::reader_clone;
use crate::vspec::*;""")
    A = 'read::addr'
    sk.add(A, adr.item(r'^pub struct DebugAddr<').clean())
    dai = adr.item(r'^impl<R: Reader> DebugAddr<R>', label='DebugAddr')
    dai.keep_only(['get_address'])
    dai.custom('R-CLONE', 'self.section.clone()', 'reader_clone(&self.section)')
    dai.clean()
    dai.own(['C01', 'C08', 'C17'])
    dai.insert_members('    /// the .debug_addr section\n    pub closed spec fn sec(&self) -> RView { self.section.rv() }')
    dai.splice('get_address', ret='res', ensures=table_lookup('self.sec()', 'address_size as nat', 'a as nat', 'a', ['C08:indexed-address', 'C17:indexed-address'])
               + ['[C08:indexed-address-size] !valid_address_size(address_size) ==> res is Err'])
    sk.add(A, dai)
    # R-CLONE target for `debug_addr.clone()` (derive(Clone) of a generic struct has no spec in Verus): a VERIFIED model of
    # what the derive generates; it rests only on reader_clone
    sk.add(A, '''
pub fn debugaddr_clone<R: Reader<Offset = usize>>(x: &DebugAddr<R>) -> (res: DebugAddr<R>)
    ensures res.sec() == x.sec()
{ DebugAddr { section: reader_clone(&x.section) } }
''', label='debugaddr_clone', owners=['C01'])

    # .debug_addr header / entry iterators (C01 iterator protocol, C17 section plumbing)
    sk.add(A, adr.item(r'^pub struct AddrHeaderIter<').clean(rejrec=['R']))
    sk.add(A, adr.item(r'^pub struct AddrHeader<R, Offset').clean(rejrec=['R', 'Offset']))
    sk.add(A, adr.item(r'^pub struct AddrEntryIter<').clean(rejrec=['R']))
    ahp = adr.item(r'^impl<R, Offset> AddrHeader<R, Offset>', label='AddrHeader')
    ahp.keep_only(['parse', 'offset', 'length', 'encoding'])
    ahp.clean()
    ahp.own(['C01', 'C17'])
    ahp.insert_members('    pub closed spec fn ents(&self) -> RView { self.entries.rv() }\n    pub closed spec fn enc(&self) -> Encoding { self.encoding }\n'
                       '    pub closed spec fn off(&self) -> DebugAddrOffset<Offset> { self.offset }\n    pub closed spec fn len(&self) -> Offset { self.length }')
    # DWARF 5 section 7.27: unit_length, version (2) == 5, address_size (1), segment_selector_size (1) == 0, then the
    # addresses; gimli additionally skips padding up to a multiple of the address size (documented in the code)
    ahp.splice('parse', ret='res', ensures=[
        '[C17:addr-header] res matches Ok(h) ==> ({ let b0 = old(input).rv(); let w = b0.u(0, 4); let il = if w == 0xffff_ffff { 12int } else { 4int }; '
        'let ul = if w == 0xffff_ffff { b0.u(4, 8) } else { w }; let s = b0.at(il + 2); let hl = il + 4; let pad = if hl % (s as int) == 0 { 0int } else { s as int - hl % (s as int) }; '
        'b0.u(il, 2) == 5 && valid_address_size(s) && b0.at(il + 3) == 0 && h.enc().version == 5 && h.enc().address_size == s '
        '&& h.enc().format == (if w == 0xffff_ffff { Format::Dwarf64 } else { Format::Dwarf32 }) && h.off() == offset && h.len().as_nat() == ul '
        '&& 4 + pad <= ul && window(b0, h.ents(), (hl + pad) as nat, (ul - 4 - pad) as nat) && adv(b0, final(input).rv(), (il + ul) as nat) })',
        '[C01:address-size-validated] res matches Ok(h) ==> valid_address_size(h.enc().address_size)',
        '[C01:frame] within(old(input).rv(), final(input).rv())',
        '[C01:progress] res is Ok ==> final(input).rv().len < old(input).rv().len'])
    ahp.splice('offset', ret='res', ensures=['res == self.off()'])
    ahp.splice('length', ret='res', ensures=['res == self.len()'])
    ahp.splice('encoding', ret='res', ensures=['res == self.enc()'])
    sk.add(A, ahp)
    ahi = adr.item(r'^impl<R: Reader> AddrHeaderIter<R>', label='AddrHeaderIter').clean()
    ahi.own(['C01', 'C17'])
    ahi.insert_members('    pub closed spec fn inp(&self) -> RView { self.input.rv() }\n    pub closed spec fn off(&self) -> nat { self.offset.0 as nat }')
    # the running section offset cannot overflow when the iterator was started by DebugAddr::headers (offset 0 + whole section)
    ahi.splice('next', ret='res', requires=['[C17:addr-headers-offset-inv] old(self).off() + old(self).inp().len <= usize::MAX'], ensures=[
        '[C17:addr-headers-offset] res matches Ok(Some(h)) ==> h.off().0 as nat == old(self).off() && final(self).off() == old(self).off() + (old(self).inp().len - final(self).inp().len)',
        '[C17:addr-headers-offset-inv] final(self).off() + final(self).inp().len <= usize::MAX',
        '[C01:iter-empty] old(self).inp().len == 0 ==> res matches Ok(None)',
        '[C01:iter-err-empties] res is Err ==> final(self).inp().len == 0',
        '[C01:iter-progress] res matches Ok(Some(_)) ==> final(self).inp().len < old(self).inp().len',
        '[C01:iter-none-final] res matches Ok(None) ==> final(self).inp().len == 0',
        '[C01:frame] final(self).inp().root == old(self).inp().root && final(self).inp().be == old(self).inp().be && final(self).inp().len <= old(self).inp().len'],
        canary=True)
    sk.add(A, ahi)
    aei = adr.item(r'^impl<R: Reader> AddrEntryIter<R>', label='AddrEntryIter').clean()
    aei.own(['C01', 'C17'])
    aei.insert_members('    pub closed spec fn inp(&self) -> RView { self.input.rv() }\n    pub closed spec fn size(&self) -> u8 { self.encoding.address_size }')
    aei.splice('next', ret='res', ensures=[
        '[C17:addr-entries] res matches Ok(Some(a)) ==> valid_address_size(old(self).size()) && a as nat == old(self).inp().u(0, old(self).size() as int) '
        '&& adv(old(self).inp(), final(self).inp(), old(self).size() as nat)',
        '[C01:iter-empty] old(self).inp().len == 0 ==> res matches Ok(None)',
        '[C01:iter-err-empties] res is Err ==> final(self).inp().len == 0',
        '[C01:iter-progress] res matches Ok(Some(_)) ==> final(self).inp().len < old(self).inp().len',
        '[C01:iter-none-final] res matches Ok(None) ==> final(self).inp().len == 0',
        'final(self).size() == old(self).size()',
        '[C01:frame] final(self).inp().root == old(self).inp().root && final(self).inp().be == old(self).inp().be && final(self).inp().len <= old(self).inp().len'])
    sk.add(A, aei)

    # ---- read::str  (string offsets table: DW_FORM_strx)
    st = Source('read/str.rs', ctx)
    sk.module('read::str', """use crate::common::{DebugStrOffset, DebugStrOffsetsBase, DebugStrOffsetsIndex, DwarfFileType, Encoding, Format};
use crate::read::{Error, Reader, ReaderOffset, Result};
use crate::read::reader_clone;
use crate::vspec::*;""")
    sk.add('read::str', st.item(r'^pub struct DebugStrOffsets<').clean())
    dso = st.item(r'^impl<R: Reader> DebugStrOffsets<R>', label='DebugStrOffsets')
    dso.custom('R-CLONE', 'self.section.clone()', 'reader_clone(&self.section)')
    # R-CTORFN: Verus has no tuple-struct constructors as function values; `.map(DebugStrOffset)` is eta-expanded
    dso.custom('R-CTORFN', '.map(DebugStrOffset)', '.map(|x| DebugStrOffset(x))')
    dso.clean()
    dso.own(['C01', 'C17'])
    dso.insert_members('    /// the .debug_str_offsets section\n    pub closed spec fn sec(&self) -> RView { self.section.rv() }')
    closure_spec(dso, '.map(|x| ', 'DebugStrOffset(x)', 'DebugStrOffset<usize>', 'o.0 == x')
    dso.splice('get_str_offset', ret='res', ensures=table_lookup('self.sec()', 'word_size(format)', 'o.0 as nat', 'o', ['C17:str-offset-lookup']))
    sk.add('read::str', dso)

    # ---- read::rnglists
    sk.module('read::rnglists', '''use crate::common::{DebugAddrBase, DebugAddrIndex, DebugRngListsBase, DebugRngListsIndex, DwarfFileType, Encoding, RangeListsOffset};
use crate::constants;
use crate::read::{DebugAddr, Error, Reader, ReaderAddress, ReaderOffset, Result};
use crate::read::reader_clone;
use crate::read::addr::debugaddr_clone;
use crate::vspec::*;''')
    M = 'read::rnglists'
    sk.add(M, rng.item(r'^enum RangeListsFormat').clean())
    sk.add(M, rng.item(r'^pub struct RawRngListIter<').clean(rejrec=['R']))
    sk.add(M, rng.item(r'^pub enum RawRngListEntry<').clean(rejrec=['T']))
    rr = rng.item(r'^pub\(crate\) struct RawRange').clean()
    sk.add(M, rr)
    rri = rng.item(r'^impl RawRange \{', label='RawRange').clean(offset=False)   # generic in R::Offset: called from RawRngListEntry<T>::parse
    rri.own(['C01', 'C08'])
    rri.insert_members('    pub closed spec fn vb(&self) -> u64 { self.begin }\n    pub closed spec fn ve(&self) -> u64 { self.end }\n'
                       '    pub(crate) proof fn lemma_fields(&self) ensures self.vb() == self.begin, self.ve() == self.end {}')
    rri.splice('is_end', ret='res', ensures=['[C08:pair-is-end] res == (self.vb() == 0 && self.ve() == 0)'])
    rri.splice('is_base_address', ret='res', requires=['valid_address_size(address_size)'],
               ensures=['[C08:pair-is-base-select] res == (self.vb() == ones(address_size))'],
               before=[('self.begin == !0 >> (64 - address_size * 8)', ONES_BV)], canary=True)
    rri.splice('parse', ret='res', ensures=[
        '[C08:pair-layout] res matches Ok(r) ==> ({ let b0 = old(input).rv(); let s = address_size as int; valid_address_size(address_size) && '
        'r.vb() == b0.u(0, s) && r.ve() == b0.u(s, s) && adv(b0, final(input).rv(), (2 * s) as nat) })',
        '[C08:pair-address-size] !valid_address_size(address_size) ==> res is Err',
        '[C01:frame] within(old(input).rv(), final(input).rv())'])
    sk.add(M, rri)
    sk.add(M, rng.item(r'^pub struct Range \{').clean())
    rep = rng.item(r'^impl<T: ReaderOffset> RawRngListEntry<T>', label='RawRngListEntry').clean()
    rep.insert_after('format: RangeListsFormat,\n    ) -> Result<Option<Self>> {', HIDE)
    rep.splice('parse', ret='res', ensures=parse_clauses(False), owners=['C01', 'C08'], before=[('if range.is_end()', LEMF)])
    sk.add(M, rep)
    rit = rng.item(r'^impl<R: Reader> RawRngListIter<R>', label='RawRngListIter').clean()
    rit.own(['C01', 'C08'])
    rit.insert_members(ITER_GHOST % 'RangeListsFormat::Rle')
    rit.splice('new', ret='res', ensures=['res.inp() == input.rv() && res.enc() == encoding && res.coded() == (format matches RangeListsFormat::Rle)'])
    rit.splice('next', ret='res', ensures=next_raw_clauses(False))
    sk.add(M, rit)

    rgi = rng.item(r'^impl Range \{', label='Range').clean()
    rgi.splice('add_base_address', requires=['valid_address_size(address_size)'], ensures=[
        '[C08:add-base] final(self).begin == wrap_add(base_address, old(self).begin, address_size) && final(self).end == wrap_add(base_address, old(self).end, address_size)'],
        owners=['C01', 'C08'], canary=True)
    sk.add(M, rgi)
    sk.add(M, rng.item(r'^pub struct RngListIter<').clean(rejrec=['R']))
    sk.add(M, resolve_spec(False), label='rng_resolve')
    rli = rng.item(r'^impl<R: Reader> RngListIter<R>', label='RngListIter').clean()
    rli.own(['C01', 'C08'])
    resolver_contracts(rli, False)
    sk.add(M, rli)
    for h in [r'^pub struct DebugRanges<', r'^pub struct DebugRngLists<', r'^pub struct RangeLists<']:
        sk.add(M, rng.item(h).clean())
    rls = rng.item(r'^impl<R: Reader> RangeLists<R>', label='RangeLists')
    rls.keep_only(['ranges', 'raw_ranges', 'get_offset'])
    rls.custom('R-CLONE', 'debug_addr.clone()', 'debugaddr_clone(debug_addr)')
    rls.custom('R-CLONE', 'self.debug_ranges.section.clone()', 'reader_clone(&self.debug_ranges.section)')
    rls.custom('R-CLONE', 'self.debug_rnglists.section.clone()', 'reader_clone(&self.debug_rnglists.section)', count=2)
    rls.clean()
    rls.own(['C01', 'C08'])
    rls.insert_members('    /// the .debug_ranges / .debug_rnglists sections\n    pub closed spec fn ranges_sec(&self) -> RView { self.debug_ranges.section.rv() }\n'
                       '    pub closed spec fn rnglists_sec(&self) -> RView { self.debug_rnglists.section.rv() }')
    closure_spec(rls, '.map(|x| ', 'RangeListsOffset(base.0 + x)', 'RangeListsOffset<usize>', 'o.0 == base.0 + x')
    rls.splice('raw_ranges', ret='res', ensures=[
        '[C08:list-select] res matches Ok(it) ==> it.enc() == unit_encoding && it.coded() == (unit_encoding.version >= 5) && '
        'adv(if unit_encoding.version >= 5 { self.rnglists_sec() } else { self.ranges_sec() }, it.inp(), offset.0 as nat)'])
    rls.splice('ranges', ret='res', ensures=[
        '[C08:list-select] res matches Ok(it) ==> it.enc() == unit_encoding && it.coded() == (unit_encoding.version >= 5) && '
        'adv(if unit_encoding.version >= 5 { self.rnglists_sec() } else { self.ranges_sec() }, it.inp(), offset.0 as nat)',
        '[C08:list-context] res matches Ok(it) ==> it.base() == base_address && it.tab() == debug_addr.sec() && it.tbase() == debug_addr_base.0 as nat'])
    rls.splice('get_offset', ret='res', ensures=table_lookup('self.rnglists_sec()', 'word_size(unit_encoding.format)', 'o.0 as nat', 'o', ['C08:offset-table'], plus_base=True))
    sk.add(M, rls)

    # ---- read::loclists
    sk.module('read::loclists', '''use crate::common::{DebugAddrBase, DebugAddrIndex, DebugLocListsBase, DebugLocListsIndex, DwarfFileType, Encoding, LocationListsOffset};
use crate::constants;
use crate::read::{DebugAddr, Error, Expression, Range, RawRange, Reader, ReaderAddress, ReaderOffset, Result};
use crate::read::addr::debugaddr_clone;
use crate::read::reader_clone;
use crate::vspec::*;''')
    L = 'read::loclists'
    sk.add(L, loc.item(r'^enum LocListsFormat').clean())
    sk.add(L, loc.item(r'^pub struct RawLocListIter<').clean(rejrec=['R']))
    sk.add(L, loc.item(r'^pub enum RawLocListEntry<').clean(rejrec=['R']))
    pd = loc.item(r'^fn parse_data<').clean()
    pd.splice('parse_data', ret='res', ensures=[
        '[C08:counted-location][C10:view] res matches Ok(x) ==> ({ let b0 = old(input).rv(); '
        'let n = cld_len(b0, 0, encoding.version); let h = cld_hdr(b0, 0, encoding.version); '
        'window(b0, x.0.rv(), h, n) && adv(b0, final(input).rv(), h + n) })',
        '[C01:frame] within(old(input).rv(), final(input).rv())'], owners=['C01', 'C08'],
        before=[('if encoding.version >= 5 {', 'proof { reveal(cld_hdr_at); reveal(cld_len_at); }')])
    sk.add(L, pd)
    lep = loc.item(r'^impl<R: Reader> RawLocListEntry<R>', label='RawLocListEntry').clean()
    lep.insert_after('format: LocListsFormat) -> Result<Option<Self>> {', HIDE)
    lep.splice('parse', ret='res', ensures=parse_clauses(True), owners=['C01', 'C08'], before=[('if range.is_end()', LEMF)])
    sk.add(L, lep)
    lit = loc.item(r'^impl<R: Reader> RawLocListIter<R>', label='RawLocListIter').clean()
    lit.own(['C01', 'C08'])
    lit.insert_members(ITER_GHOST % 'LocListsFormat::Lle')
    lit.splice('new', ret='res', ensures=['res.inp() == input.rv() && res.enc() == encoding && res.coded() == (format matches LocListsFormat::Lle)'])
    lit.splice('next', ret='res', ensures=next_raw_clauses(True))
    sk.add(L, lit)

    sk.add(L, loc.item(r'^pub struct LocationListEntry<').clean(rejrec=['R']))
    sk.add(L, loc.item(r'^pub struct LocListIter<').clean(rejrec=['R']))
    sk.add(L, resolve_spec(True), label='loc_resolve')
    lli = loc.item(r'^impl<R: Reader> LocListIter<R>', label='LocListIter').clean()
    lli.own(['C01', 'C08'])
    resolver_contracts(lli, True)
    sk.add(L, lli)
    for h in [r'^pub struct DebugLoc<', r'^pub struct DebugLocLists<', r'^pub struct LocationLists<']:
        sk.add(L, loc.item(h).clean())
    lls = loc.item(r'^impl<R: Reader> LocationLists<R>', label='LocationLists')
    lls.keep_only(['locations', 'locations_dwo', 'raw_locations', 'raw_locations_dwo', 'get_offset'])
    lls.custom('R-CLONE', 'debug_addr.clone()', 'debugaddr_clone(debug_addr)', count=2)
    lls.custom('R-CLONE', 'self.debug_loc.section.clone()', 'reader_clone(&self.debug_loc.section)', count=2)
    lls.custom('R-CLONE', 'self.debug_loclists.section.clone()', 'reader_clone(&self.debug_loclists.section)', count=3)
    lls.clean()
    lls.own(['C01', 'C08'])
    lls.insert_members('    /// the .debug_loc / .debug_loclists sections\n    pub closed spec fn loc_sec(&self) -> RView { self.debug_loc.section.rv() }\n'
                       '    pub closed spec fn loclists_sec(&self) -> RView { self.debug_loclists.section.rv() }')
    closure_spec(lls, '.map(|x| ', 'LocationListsOffset(base.0 + x)', 'LocationListsOffset<usize>', 'o.0 == base.0 + x')
    SEL = 'adv(if unit_encoding.version >= 5 { self.loclists_sec() } else { self.loc_sec() }, it.inp(), offset.0 as nat)'
    lls.splice('raw_locations', ret='res', ensures=[
        f'[C08:list-select] res matches Ok(it) ==> it.enc() == unit_encoding && it.coded() == (unit_encoding.version >= 5) && {SEL}'])
    lls.splice('raw_locations_dwo', ret='res', ensures=[
        f'[C08:list-select-dwo] res matches Ok(it) ==> it.enc() == unit_encoding && it.coded() && {SEL}'])
    CTX = 'it.base() == base_address && it.tab() == debug_addr.sec() && it.tbase() == debug_addr_base.0 as nat'
    lls.splice('locations', ret='res', ensures=[
        f'[C08:list-select] res matches Ok(it) ==> it.enc() == unit_encoding && it.coded() == (unit_encoding.version >= 5) && {SEL}',
        f'[C08:list-context] res matches Ok(it) ==> {CTX}'])
    lls.splice('locations_dwo', ret='res', ensures=[
        f'[C08:list-select-dwo] res matches Ok(it) ==> it.enc() == unit_encoding && it.coded() && {SEL}',
        f'[C08:list-context] res matches Ok(it) ==> {CTX}'])
    lls.splice('get_offset', ret='res', ensures=table_lookup('self.loclists_sec()', 'word_size(unit_encoding.format)', 'o.0 as nat', 'o', ['C08:offset-table'], plus_base=True))
    sk.add(L, lls)
    return sk


def build(ctx):
    sk = Skeleton(ctx, core.rd('prelude/crate.rs'))
    core.populate(ctx, sk)
    populate(ctx, sk)
    return sk
