"""B-relocate: the relocating reader, read side of C18 and the RelocateReader clause of C10 (DESIGN.md 6 C18 / C10).

Source: /repo/src/read/relocate.rs -- `trait Relocate`, `struct RelocateReader`, its inherent impl (`new`, `inner`) and
`impl Reader for RelocateReader`.

Functions under contract (real text, verified)
  RelocateReader::new, ::inner
  impl Reader for RelocateReader: endian, len, empty, truncate, offset_from, offset_id, lookup_offset_id, find, skip,
      split, read_slice                       -- verified as a REAL `impl Reader`, i.e. against the contract layer of
      trait Reader in core.py with the ghost view `rv() := the inner reader's rv()`; additional clauses: `section` and
      the relocation are untouched, the section invariant `wf()` (reader inside section) is kept, `split` hands back a
      reader with the SAME section (so a later `offset_from(section)` is still the section offset)
  read_address, read_offset, read_sized_offset (the three relocating reads) -- see "R-INHERENT" below: result is
      `relocate(offset_from(section), raw)`, raw = what the inner reader's method returns, consumption = the inner
      read's; under an identity relocation they satisfy, clause by clause, the contract of trait Reader.

Why the three relocating reads are not members of the verified `impl Reader` (R-INHERENT, logged custom rewrite).
  (1) The contract layer of trait Reader says `read_address` returns the value of the bytes at the read position.  A
      relocating reader deliberately returns something else; no ghost view can repair this (the plain integer reads of
      the same bytes are NOT relocated -- that asymmetry is the very point of C18), so a non-identity RelocateReader is
      not a model of the Reader contract and Verus would (rightly) reject the impl.
  (2) They need the struct invariant `wf()` as a precondition (they call `self.reader.offset_from(&self.section)`), and
      a trait-impl method cannot add a `requires`.
  The same source item is therefore emitted twice: once as `impl Reader for RelocateReader` WITHOUT the three methods
  (R-DROP; the trait defaults take their place there and nothing in this batch calls them), and once as an inherent
  `impl RelocateReader` holding ONLY the three methods, bodies verbatim, with the general contract and the
  identity-relocation clauses ([C10:reloc-identity-*] = the Reader clauses of core.py, guarded by `identity_reloc`).

Ghost vocabulary
  Relocate::rel_addr(offset, value) / rel_off(offset, value)   uninterpreted: the relocation as a mathematical function
        (assumption on every `Relocate` implementation: it is a function of (self, offset, value))
  RelocateReader::inner_v() / section_v() / rel()              views of the private fields;  rv() == inner_v()
  RelocateReader::wf()         inside(section_v(), inner_v())  -- established by `new`, kept by every method
  identity_reloc(t) / same_reloc(a, b)

Assumed (TRUSTED)
  relocate_clone               `T::clone` of a `Relocate` relocates like the original (T is a user type; outside gimli)
  reader_clone (core)          clone of a reader preserves its view
  read_u8..read_uint, read_uleb128.., skip_leb128, is_empty (R-STUB)    trait methods that core.py made required
        (R-REQUIRED / R-DELEGATE / R-EQ) and that the real impl does NOT override: at run time they are the trait defaults
        (`read_u8_array` -> `read_slice`, `leb128::read::*`, `len() == 0`) over the delegating `read_slice`/`len`; their
        contract on RelocateReader is assumed here exactly as on every other Reader, and checked on
        RelocateReader<EndianSlice> by Kani K-RELOC (k_reloc_*_plain_reads).
  `RelocateReader: Clone` is derived in the source; `self.clone()` in `split` is rewritten (R-CLONE) to
  `relocate_reader_clone(self)`, a verified field-wise model of the derive built from reader_clone + relocate_clone.

Not decided here
  offset_id / lookup_offset_id / to_slice / to_string / to_string_lossy: no ghost vocabulary for ids and `Cow`; their
  bodies are pinned syntactically (R-DELEGATE guard: must be the one-line delegation to `self.reader`, else exit 2) and
  compared with the bare reader by Kani K-RELOC.  `fmt::Debug` (replaced by derive, R-STUB).  Whether parsers route every
  relocatable field through the three reads is the business of the parser batches (C18 trace clauses), not of this one.

FINDING F-relocate-1 (genuine, reproduced, FIXED in /repo ffd31c4; native/src/bin/f_relocate_1.rs; Kani regression
  harnesses k_eslice_empty_position, k_reloc_empty_then_read)
  On the tree before ffd31c4 clause [C10:reloc-wf-kept][C01:reloc-wf-kept] on `empty` failed: EndianSlice::empty was
  `self.slice = &[]`, so the Reader contract of `empty` could not promise a position, and after `empty()` the three
  relocating reads called `offset_from` on a reader no longer inside `section`: debug builds panicked in
  EndianSlice::offset_from (`debug_assert!(base_ptr <= ptr)`) where the bare reader returns UnexpectedEof.
  Fix applied: EndianSlice::empty `self.slice = &self.slice[..0];` + core.py `empty` ensures `trunc(O, F, 0)`; the clause
  now discharges (batch exits 0: 53 fns, 169 clauses).  The clause stays: a reader whose `empty` drops the position, or a
  RelocateReader::empty that leaves the section, fails it again.

Self-attack (scratch copy of /repo, GIMLI_REPO=...; every mutant exits 1 with the tagged clause named; run before the fix, so each
  run also showed the then-open finding)
  split also truncates `section`                 -> [C10/C18:reloc-split-keeps-section] (+ Reader::split [C01:eof-exact])
  split: `other.section = other.reader.clone()`  -> [C10/C18:reloc-split-keeps-section]
  new override `read_u64` that relocates         -> Reader::read_u64 [C09:fixed-value], [C01:eof-exact], [C01:err-no-consume],
                                                    offset_from precondition [C10:offset-from-pre] (stub replaced by the body)
  read_sized_offset returns the raw value        -> [C18:reloc-sized-offset]
  read_address: offset taken AFTER the read      -> [C18:reloc-address]
  skip delegates to `self.section`               -> Reader::skip [C10:view], [C01:eof-exact]; [C10/C18:reloc-section-kept]
  offset_from uses `base.section`                -> Reader::offset_from [C10:offset-from], [C10:offset-from-pre]
  read_offset reads a 4-byte sized offset        -> [C18:reloc-offset], [C10:reloc-identity-value]
  read_offset: offset relative to `self.reader`  -> [C18:reloc-offset]
  truncate does nothing                          -> Reader::truncate [C10:view], [C01:eof-exact]
"""
import re
from lib import *
from batches import core

RELOC3 = ['read_address', 'read_offset', 'read_sized_offset']
EXPECTED_STUBS = core.INT_READS + core.LEB_DELEG + ['is_empty']
BASE_TRUSTED = list(core.TRUSTED) + ['relocate_clone']
# run.py reads TRUSTED after build(); populate() narrows it to the stubs actually synthesized (a method that the
# source starts to override is verified instead of stubbed)
TRUSTED = BASE_TRUSTED + EXPECTED_STUBS

OWN = ['C18', 'C10', 'C01']

# methods of the impl for which there is no ghost vocabulary: the body must stay the one-line delegation
DELEG_GUARDS = [
    ('offset_id', r'\{self\.reader\.offset_id\(\)\}'),
    ('lookup_offset_id', r'\{self\.reader\.lookup_offset_id\(id\)\}'),
    ('to_slice', r'\{self\.reader\.to_slice\(\)\}'),
    ('to_string', r'\{self\.reader\.to_string\(\)\}'),
    ('to_string_lossy', r'\{self\.reader\.to_string_lossy\(\)\}'),
]

SPECS = '''
// ---- ghost vocabulary of the relocating reader (not gimli text)
/// the relocation never changes a value and never fails
pub open spec fn identity_reloc<O: ReaderOffset, T: Relocate<O>>(t: T) -> bool {
    &&& forall|o: nat, v: u64| #[trigger] t.rel_addr(o, v) == Ok::<u64, Error>(v)
    &&& forall|o: nat, v: O| #[trigger] t.rel_off(o, v) == Ok::<O, Error>(v)
}

/// two relocations are the same function
pub open spec fn same_reloc<O: ReaderOffset, T: Relocate<O>>(a: T, b: T) -> bool {
    &&& forall|o: nat, v: u64| #[trigger] a.rel_addr(o, v) == b.rel_addr(o, v)
    &&& forall|o: nat, v: O| #[trigger] a.rel_off(o, v) == b.rel_off(o, v)
}
'''

CLONES = '''
/// ASSUMED: cloning a `Relocate` implementation (a user type) gives the same relocation
#[verifier::external_body]
pub fn relocate_clone<O: ReaderOffset, T: Relocate<O> + Clone>(t: &T) -> (res: T)
    ensures same_reloc::<O, T>(res, *t)
{ t.clone() }

/// model of `#[derive(Clone)]` on `RelocateReader` (field-wise clone); verified from reader_clone + relocate_clone
pub fn relocate_reader_clone<R: Reader, T: Relocate<R::Offset> + Clone>(r: &RelocateReader<R, T>) -> (res: RelocateReader<R, T>)
    ensures res.inner_v() == r.inner_v(), res.section_v() == r.section_v(), same_reloc::<R::Offset, T>(res.rel(), r.rel())
{
    RelocateReader { section: reader_clone(&r.section), reader: reader_clone(&r.reader), relocate: relocate_clone::<R::Offset, T>(&r.relocate) }
}
'''

ACCESSORS = '''    // ---- ghost accessors for the private fields
    pub closed spec fn inner_v(&self) -> RView { self.reader.rv() }
    pub closed spec fn section_v(&self) -> RView { self.section.rv() }
    pub closed spec fn rel(&self) -> T { self.relocate }
    /// struct invariant: the reader is a window inside the section it was created from
    pub open spec fn wf(&self) -> bool { inside(self.section_v(), self.inner_v()) }
    /// offset of the read position from the start of the section
    pub open spec fn sec_off(&self) -> nat { (self.inner_v().start - self.section_v().start) as nat }'''

# everything but the reader window is untouched
KEPT = 'final(self).section_v() == old(self).section_v() && final(self).rel() == old(self).rel()'
WFK = 'old(self).wf() ==> final(self).wf()'
B0 = 'old(self).inner_v()'
B1 = 'final(self).inner_v()'
OFF = 'old(self).sec_off()'
REL = 'old(self).rel()'


def trait_required_sigs(sk):
    """signatures of the methods that are required (body-less) in the emitted trait Reader, from its own text"""
    reader = [c[0] for c in sk.mods['read::reader']['chunks'] if isinstance(c[0], Item) and c[0].label == 'Reader'][0]
    base = reader.base
    sigs = {}
    for n in reader.fns():
        if not re.search(r'\bfn\s+%s\b' % re.escape(n), base):
            continue        # ghost member inserted by core.py (rv)
        s, e = method_span(base, n)
        k = re.search(r'\bfn\s+%s\b' % re.escape(n), base[s:e]).start() + s
        b = body_open(base, k)
        if base[b] == ';':
            sigs[n] = re.sub(r'\s+', ' ', base[k:b]).strip()
    return sigs


def populate(ctx, sk):
    src = Source('read/relocate.rs', ctx)
    sk.mods['read']['uses'] += '\npub use self::relocate::*;'
    sk.module('read::relocate', '''use core::fmt;
use crate::common::Format;
use crate::read::{Error, Reader, ReaderOffset, ReaderOffsetId, Result};
use crate::read::reader_clone;
use crate::vspec::*;''')

    # ---- trait Relocate: uninterpreted ghost functions name the relocated value
    rel = src.item(r'^pub trait Relocate<', label='Relocate').clean(offset=False)
    rel.insert_members('    // ---- ghost: the relocation as a function of (offset, value)\n'
                       '    spec fn rel_addr(&self, offset: nat, value: u64) -> Result<u64>;\n'
                       '    spec fn rel_off(&self, offset: nat, value: T) -> Result<T>;')
    rel.splice('relocate_address', ret='res', ensures=['res == self.rel_addr(offset.as_nat(), value)'])
    rel.splice('relocate_offset', ret='res', ensures=['res == self.rel_off(offset.as_nat(), value)'])
    sk.add('read::relocate', rel)
    sk.add('read::relocate', SPECS, label='relocate-specs')

    st = src.item(r'^pub struct RelocateReader<', label='RelocateReader').clean(offset=False)
    st.prepend('#[derive(Debug)]')      # R-STUB: the hand-written fmt::Debug impl is not extracted
    sk.add('read::relocate', st)

    inh = src.item(r'^impl<R, T> RelocateReader<R, T>', label='RelocateReader(inherent)')
    inh.custom('R-CLONE', 'section.clone()', 'reader_clone(&section)')
    inh.clean(offset=False)
    inh.own(OWN)
    inh.insert_members(ACCESSORS)
    inh.splice('new', ret='res', ensures=[
        '[C10:reloc-new][C18:reloc-new] res.section_v() == section.rv() && res.inner_v() == section.rv() && res.rel() == relocate',
        '[C10:reloc-new] res.wf() && res.sec_off() == 0'])
    inh.splice('inner', ret='res', ensures=['[C10:reloc-inner] res.rv() == self.inner_v()'])
    sk.add('read::relocate', inh)
    sk.add('read::relocate', CLONES, label='relocate-clone', owners=OWN)

    # ---- impl Reader for RelocateReader (without the three relocating reads), against the contract layer of trait Reader
    HDR = r'^impl<R, T> Reader for RelocateReader<R, T>'
    ri = src.item(HDR, label='Reader for RelocateReader')
    for n, pat in DELEG_GUARDS:
        ri.check_delegates(n, pat)
    ri.drop(['to_slice', 'to_string', 'to_string_lossy'])
    ri.drop(RELOC3)
    ri.custom('R-CLONE', 'self.clone()', 'relocate_reader_clone(self)')
    ri.clean(offset=False)
    ri.own(OWN)
    # R-STUB: required trait methods the source does not override
    sigs = trait_required_sigs(sk)
    have = ri.fns()
    stubs = [n for n in sigs if n not in have]
    unexpected = [n for n in stubs if n not in EXPECTED_STUBS]
    if unexpected:
        raise Lost('read/relocate.rs: impl Reader for RelocateReader no longer defines required method(s) ' + ', '.join(unexpected))
    TRUSTED[:] = BASE_TRUSTED + stubs
    stub_text = '    // ---- R-STUB: trait methods made required by core.py that the source inherits from the trait defaults (contract assumed)\n'
    for n in stubs:
        stub_text += f'    #[verifier::external_body]\n    {sigs[n]} {{ unimplemented!() }}\n'
        ctx.extbody.append(ri._where(n) + ' [R-STUB]')
        ctx.count('R-STUB')
    ri.insert_members('    // ---- ghost view: the inner reader\'s\n    open spec fn rv(&self) -> RView { self.inner_v() }\n' + stub_text)
    ri.splice('empty', ensures=[
        f'[C10:reloc-section-kept][C18:reloc-section-kept] {KEPT}',
        f'[C10:reloc-wf-kept][C01:reloc-wf-kept] {WFK}'])
    for n in ['truncate', 'skip']:
        ri.splice(n, ret='res', ensures=[
            f'[C10:reloc-section-kept][C18:reloc-section-kept] {KEPT}',
            f'[C10:reloc-wf-kept][C01:reloc-wf-kept] {WFK}'])
    ri.splice('split', ret='res', ensures=[
        f'[C10:reloc-section-kept][C18:reloc-section-kept] {KEPT}',
        f'[C10:reloc-wf-kept][C01:reloc-wf-kept] {WFK}',
        '[C10:reloc-split-keeps-section][C18:reloc-split-keeps-section] res matches Ok(r) ==> r.section_v() == old(self).section_v() '
        '&& same_reloc::<R::Offset, T>(r.rel(), old(self).rel()) && (old(self).wf() ==> r.wf() && r.sec_off() == old(self).sec_off())'])
    ri.splice('read_slice', ret='res', ensures=[
        f'[C10:reloc-section-kept][C18:reloc-section-kept] {KEPT}',
        f'[C10:reloc-wf-kept][C01:reloc-wf-kept] {WFK}'])
    sk.add('read::relocate', ri)

    # ---- the three relocating reads (R-INHERENT: same source item, bodies verbatim, emitted as inherent methods)
    r3 = src.item(HDR, label='RelocateReader(relocating reads)')
    r3.keep_only(RELOC3)
    r3.custom('R-INHERENT', 'impl<R, T> Reader for RelocateReader<R, T>', 'impl<R, T> RelocateReader<R, T>')
    r3.custom('R-INHERENT', 'type Endian = R::Endian;', '')
    r3.custom('R-INHERENT', 'type Offset = R::Offset;', '')
    r3.clean(offset=False)
    r3.own(OWN)
    IDENT = f'identity_reloc::<R::Offset, T>({REL})'
    WF = 'old(self).wf()'
    r3.splice('read_address', ret='res', requires=[WF], canary=True, ensures=[
        # exact: either the inner read failed (nothing consumed), or it consumed `address_size` bytes and the result is
        # the relocation applied to (section offset of the field, raw value) -- also when the relocation itself fails
        f'[C18:reloc-address] (res is Err && unch({B0}, {B1})) || (valid_address_size(address_size) && adv({B0}, {B1}, address_size as nat) '
        f'&& res == {REL}.rel_addr({OFF}, {B0}.u(0, address_size as int) as u64))',
        f'[C18:reloc-address] res is Ok ==> adv({B0}, {B1}, address_size as nat) && res == {REL}.rel_addr({OFF}, {B0}.u(0, address_size as int) as u64)',
        '[C09:address-size-reject] !valid_address_size(address_size) ==> res is Err',
        f'[C10:reloc-section-kept][C18:reloc-section-kept] {KEPT}',
        f'[C10:reloc-wf-kept][C01:reloc-wf-kept] final(self).wf()',
        # identity relocation: the contract of Reader::read_address (core.py), clause by clause
        f'[C10:reloc-identity-value] {IDENT} ==> (res matches Ok(v) ==> valid_address_size(address_size) && adv({B0}, {B1}, address_size as nat) && v as nat == {B0}.u(0, address_size as int))',
        f'[C10:reloc-identity-err] {IDENT} ==> (res is Err ==> unch({B0}, {B1}))'])
    WORD = 'word_size(format)'
    r3.splice('read_offset', ret='res', requires=[WF], canary=True, ensures=[
        f'[C18:reloc-offset] res is Ok ==> adv({B0}, {B1}, {WORD}) && (exists|raw: R::Offset| #[trigger] raw.as_nat() == {B0}.u(0, {WORD} as int) && res == {REL}.rel_off({OFF}, raw))',
        f'[C10:reloc-section-kept][C18:reloc-section-kept] {KEPT}',
        f'[C10:reloc-wf-kept][C01:reloc-wf-kept] final(self).wf()',
        f'[C10:reloc-identity-value] {IDENT} ==> (res matches Ok(v) ==> adv({B0}, {B1}, {WORD}) && v.as_nat() == {B0}.u(0, {WORD} as int))',
        f'[C10:reloc-identity-frame] within({B0}, {B1})'])
    r3.splice('read_sized_offset', ret='res', requires=[WF], canary=True, ensures=[
        f'[C18:reloc-sized-offset] res is Ok ==> valid_address_size(size) && adv({B0}, {B1}, size as nat) && (exists|raw: R::Offset| #[trigger] raw.as_nat() == {B0}.u(0, size as int) && res == {REL}.rel_off({OFF}, raw))',
        '[C09:sized-offset-reject] !valid_address_size(size) ==> res is Err',
        f'[C10:reloc-section-kept][C18:reloc-section-kept] {KEPT}',
        f'[C10:reloc-wf-kept][C01:reloc-wf-kept] final(self).wf()',
        f'[C10:reloc-identity-value] {IDENT} ==> (res matches Ok(v) ==> valid_address_size(size) && adv({B0}, {B1}, size as nat) && v.as_nat() == {B0}.u(0, size as int))',
        f'[C10:reloc-identity-frame] within({B0}, {B1})'])
    sk.add('read::relocate', r3)
    return sk


def build(ctx):
    sk = Skeleton(ctx, core.rd('prelude/crate.rs'))
    core.populate(ctx, sk)
    populate(ctx, sk)
    return sk
