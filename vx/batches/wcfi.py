"""B-wcfi: written frame tables (DESIGN.md 6 C14 "written frame tables read back with the same CIEs, FDEs and unwind rows").

Source: write/cfi.rs (non-`convert` part).  Build = core.populate; wcore.populate; populate.  All functions owned by C14.
Contracts are FIELD contracts over the write-side ghost log `w.wv()` (wcore): which `WOp`s a function hands to the Writer,
in which order, with which values; `after(w, op)` (vx/specs/wcfi.rs) is "the view after one more field", so
`final == after(after(old, a), b)` is "exactly the fields a, b were written".  The read-back half of C14 is the READ side's
business (batches cfi_entries / cfi_unwind decode exactly these layouts); the two sides meet in the layout tables, which are
cross-checked mechanically (see crosscheck_reader_table).

FUNCTIONS UNDER CONTRACT (verified with their real bodies)
  factored_code_delta, factored_data_offset   Ok(n) ==> n * factor == input (mathematical integers); input that is not
      expressible with the factor (or decreases) ==> exactly Err(InvalidFrameCodeOffset/InvalidFrameDataOffset(input));
      expressible with a non-zero factor ==> Ok.  The DIVISION obligations are owned by C14 (they failed before eada994: F-wcfi-1/2).
  write_advance_loc     delta 0: nothing written; otherwise one advance instruction whose operand is the factored delta in a form
      wide enough (advance-delta), the smallest one (advance-minimal: boundaries 0x40, 0x100, 0x1_0000); decreasing or
      inexpressible offsets ==> Err(InvalidFrameCodeOffset(offset)).
  write_nop             (requires len > 0 and an alignment of 1|2|4|8)  pads with DW_CFA_nop bytes to the next multiple, fewer than `align`.
  CallFrameInstruction::write   per write-side variant and operand sign/size the DWARF instruction of table WCFI: opcode byte from
      DWARF 5 table 7.29, operand kinds from 6.4.2 (table DW_CFA), factored operands = offset / data_alignment_factor (exact),
      inexpressible offset ==> Err(InvalidFrameDataOffset(offset)); expression operands = ULEB128(size) then the expression's fields,
      and exactly `size` bytes.  30 tagged clauses generated from the two Python tables.
  CommonInformationEntry::{has_augmentation, write}   returned offset, version gate per section kind, address size validated (failed before
      9595d4a: F-wcfi-3), v1 return-address register fits a byte, header layout (checkpoint clauses cie-header: length, CIE id per section kind
      and format, version, augmentation string z L P R S, v4 address/segment size, factors, return register byte/ULEB, augmentation
      data with its patched length), length word patched to the number of bytes after the initial length (cie-closed), size of the
      length field + length is a multiple of the address size (cie-pad: failed for the 64-bit format before a12b998, F-wcfi-4).
  FrameDescriptionEntry::write   (requires: CIE written at cie_offset <= len, valid address size, LSDA present iff the CIE has an LSDA
      encoding - the documented API requirement) header layout: relative 4-byte CIE pointer in .eh_frame / relocatable section offset
      in .debug_frame, encoded or plain initial location + range, augmentation data (fde-header); fde-closed; fde-pad (failed before a12b998: F-wcfi-4);
      a range that does not fit the address size ==> Err.
ASSUMED (TRUSTED, beyond wcore's)
  write::Expression::{size, write} (R-EXTBODY: their bodies use iterator adapters / Option::as_deref_mut): `size(enc, None)` returns
      `xsize(enc)`; `write(w, None, enc, None)` writes `xops(enc, pos)` and exactly `xsize(enc)` bytes.  Batch wop verifies them.
  Operation, UnitOffsets, DebugInfoFixup: opaque stand-ins for types that occur only in those two signatures / the Expression field.
  axiom_section_len (A-SECTION-LEN): a section never holds more than isize::MAX bytes (every shipped Writer is a Vec<u8>); used for
      `word_size + w.len()` in the two write_nop calls only.
NOT DECIDED
  * FrameTable::{add_cie, add_fde, write_debug_frame, write_eh_frame, write}: CIE de-duplication and lazy emission go through
    indexmap's IndexSet (outside Verus).  FrameTable::write is the caller that establishes FrameDescriptionEntry::write's requires
    (cie_offset and the valid address size come from CommonInformationEntry::write's Ok clauses cie-offset / cie-address-size).
  * that the fields written AFTER the header checkpoint (instructions, padding, length patch) leave the header fields in the log:
    the ghost log is append-only by construction (every Writer primitive's contract is emitted/wunch), but carrying
    `grew(header view, .)` through CommonInformationEntry::write exceeds the resource limit (9 conditionals in the header); the
    FDE does carry it (fde-header is a postcondition).  The instruction STREAM of an entry (each instruction's fields in order,
    advance_loc between FDE instructions) is covered per call by the callee contracts, not as one sequence-valued clause.
  * Err cases of CommonInformationEntry::write say nothing about the section (partial entry; callers give up).
  * a zero data alignment factor with offset 0 (every operand reads back as n * 0 == 0): fields left open, see WCFI comment.
FINDINGS (all FIXED in /repo; reproducers native/src/bin/f_wcfi_<n>.rs print ok after the fix; patch native/f_wcfi_fix.patch;
`python3 vx/run.py wcfi` exited 1 with exactly these 8 obligations on the snapshot tree and exits 0 from a12b998 on)
  F-wcfi-1  factored_code_delta `delta / factor`, factored_data_offset `offset / factor`: a zero factor
            (CommonInformationEntry::new(enc, 0, 0, ra) is public API) panicked "attempt to divide by zero".   [DESIGN F8]
            FIXED eada994: zero factor => Err(InvalidFrameCodeOffset / InvalidFrameDataOffset).
  F-wcfi-2  factored_data_offset: i32::MIN / -1 panicked "attempt to divide with overflow" (same failed obligation; the
            `factored_offset * factor` overflow report was on the same, already panicked, path).                [DESIGN F8]
            FIXED eada994: => Err(InvalidFrameDataOffset).
  F-wcfi-3  CommonInformationEntry::write never validated encoding.address_size: write_nop's `align - 1` underflowed for 0,
            its debug_assert failed for 3 (nop-align, cie-address-size, the augmentation_length debug_assert, cie-pad).
            FIXED 9595d4a: sizes other than 1|2|4|8 => Err(UnsupportedWordSize) at the top of CommonInformationEntry::write.
  F-wcfi-4  padding counted the offset size instead of the size of the initial length field: 64-bit format entries were 4
            bytes off a multiple of an 8-byte address size (cie-pad, fde-pad), contrary to DWARF 5 section 6.4.1.
            FIXED a12b998: `initial_length_size()` in both write_nop calls.
  The clauses that failed ([C14:cie-address-size], [C14:cie-pad], [C14:fde-pad], [C14:nop-align] at the call site, the
  division obligations) are unchanged and now hold; a regression of any of the four fixes makes the batch exit 1 again.
"""
import re
from lib import *
from batches import core, wcore

TRUSTED = list(wcore.TRUSTED) + ['Operation', 'UnitOffsets', 'DebugInfoFixup', 'size', 'write', 'axiom_section_len']
OWN = ['C14']
MULTIPLE_ERRORS = 6
VERUS_ARGS = ['--rlimit', '200']    # CommonInformationEntry::write (9 conditionals in the header) needs ~150
RETRY_RLIMIT = 400

W0 = 'old(w).wv()'
W1 = 'final(w).wv()'
FRAME = f'[C14:frame] grew({W0}, {W1})'

# ----------------------------------------------------------------------------------------------------------------------
# DWARF 5 table 7.29 (section 7.24) opcode values and section 6.4.2 operand layout, plus the two vendor extensions gimli
# documents.  name -> (encoding of the opcode, operand kinds).  ('hi', n): "primary opcode" n in the high 2 bits, first
# operand (kind low6) in the low 6 bits; otherwise the value of the whole byte.
# operand kinds: low6 | reg (ULEB128 register) | uleb | sleb | blk (ULEB128 length, then that many bytes) | u1 u2 u4
# ----------------------------------------------------------------------------------------------------------------------
DW_CFA = {
    'advance_loc': (('hi', 0x1), ['low6']),
    'offset': (('hi', 0x2), ['low6', 'uleb']),
    'restore': (('hi', 0x3), ['low6']),
    'nop': (0x00, []),
    'advance_loc1': (0x02, ['u1']),
    'advance_loc2': (0x03, ['u2']),
    'advance_loc4': (0x04, ['u4']),
    'offset_extended': (0x05, ['reg', 'uleb']),
    'restore_extended': (0x06, ['reg']),
    'undefined': (0x07, ['reg']),
    'same_value': (0x08, ['reg']),
    'register': (0x09, ['reg', 'reg']),
    'remember_state': (0x0a, []),
    'restore_state': (0x0b, []),
    'def_cfa': (0x0c, ['reg', 'uleb']),
    'def_cfa_register': (0x0d, ['reg']),
    'def_cfa_offset': (0x0e, ['uleb']),
    'def_cfa_expression': (0x0f, ['blk']),
    'expression': (0x10, ['reg', 'blk']),
    'offset_extended_sf': (0x11, ['reg', 'sleb']),
    'def_cfa_sf': (0x12, ['reg', 'sleb']),
    'def_cfa_offset_sf': (0x13, ['sleb']),
    'val_offset': (0x14, ['reg', 'uleb']),
    'val_offset_sf': (0x15, ['reg', 'sleb']),
    'val_expression': (0x16, ['reg', 'blk']),
    'GNU_args_size': (0x2e, ['uleb']),
    'AARCH64_negate_ra_state': (0x2d, []),
}

# ----------------------------------------------------------------------------------------------------------------------
# write::CallFrameInstruction -> DWARF instruction.  The MEANING of each write-side variant is its doc comment in
# write/cfi.rs ("The previous value of the register is saved at address CFA + offset", ...); the DWARF instruction with
# that meaning is taken from 6.4.2.2 (CFA definition), 6.4.2.3 (register rules), 6.4.2.4 (row state):
#   FACTORED operands (DW_CFA_offset*, val_offset*, *_sf) read back as operand * data_alignment_factor, so the operand
#   written must be F(offset) = the n with n * daf == offset, and an offset that is not expressible is an error;
#   DW_CFA_def_cfa / def_cfa_offset carry a NON-factored unsigned offset, so a negative offset needs the _sf form;
#   unsigned forms cannot carry a negative factored operand, the low-6-bit forms cannot carry a register >= 0x40.
# (variant pattern, factored field or None, [(guard, opcode name, [operand values])])   F = factored offset
# ----------------------------------------------------------------------------------------------------------------------
WCFI = [
    ('Cfa(register, offset)', None, [
        ('offset < 0', 'def_cfa_sf', ['register.0', 'F']),
        ('offset >= 0', 'def_cfa', ['register.0', 'offset'])]),
    ('CfaRegister(register)', None, [('true', 'def_cfa_register', ['register.0'])]),
    ('CfaOffset(offset)', None, [
        ('offset < 0', 'def_cfa_offset_sf', ['F']),
        ('offset >= 0', 'def_cfa_offset', ['offset'])]),
    ('CfaExpression(expression)', None, [('true', 'def_cfa_expression', ['expression'])]),
    ('Restore(register)', None, [
        ('register.0 < 0x40', 'restore', ['register.0']),
        ('register.0 >= 0x40', 'restore_extended', ['register.0'])]),
    ('Undefined(register)', None, [('true', 'undefined', ['register.0'])]),
    ('SameValue(register)', None, [('true', 'same_value', ['register.0'])]),
    ('Offset(register, offset)', None, [
        ('F < 0', 'offset_extended_sf', ['register.0', 'F']),
        ('F >= 0 && register.0 < 0x40', 'offset', ['register.0', 'F']),
        ('F >= 0 && register.0 >= 0x40', 'offset_extended', ['register.0', 'F'])]),
    ('ValOffset(register, offset)', None, [
        ('F < 0', 'val_offset_sf', ['register.0', 'F']),
        ('F >= 0', 'val_offset', ['register.0', 'F'])]),
    ('Register(register1, register2)', None, [('true', 'register', ['register1.0', 'register2.0'])]),
    ('Expression(register, expression)', None, [('true', 'expression', ['register.0', 'expression'])]),
    ('ValExpression(register, expression)', None, [('true', 'val_expression', ['register.0', 'expression'])]),
    ('RememberState', None, [('true', 'remember_state', [])]),
    ('RestoreState', None, [('true', 'restore_state', [])]),
    ('ArgsSize(size)', None, [('true', 'GNU_args_size', ['size'])]),
    ('NegateRaState', None, [('true', 'AARCH64_negate_ra_state', [])]),
]
DAF = 'cie.data_alignment_factor as int'
FEXPR = f'factored(offset as int, {DAF})'


def uses_factor(rows):
    """guard under which the variant needs the factored offset (None: never)"""
    gs = [g for g, _, vals in rows if 'F' in g.split() or 'F' in vals]
    if not gs:
        return None
    if len(gs) == len(rows):
        return 'true'
    return ' || '.join(f'({g})' for g in gs)


def row_ops(name, vals):
    """the WOp fields of one DWARF instruction (from DW_CFA[name]) with the given operand values; a trailing block
    operand is returned separately (it is written by write::Expression::write)"""
    code, kinds = DW_CFA[name]
    if len(kinds) != len(vals):
        raise Lost(f'wcfi table: {name} has {len(kinds)} operands, row gives {len(vals)}')
    ops, blk = [], None
    vs = [FEXPR if v == 'F' else v for v in vals]
    if isinstance(code, tuple):
        if kinds[0] != 'low6':
            raise Lost(f'wcfi table: {name}')
        ops.append(f'b1({code[1] * 64} + {vs[0]} as int)')
        rest = list(zip(kinds[1:], vs[1:]))
    else:
        ops.append(f'b1({code:#04x})')
        rest = list(zip(kinds, vs))
    for k, v in rest:
        if k in ('reg', 'uleb'):
            ops.append(f'WOp::Uleb(({v}) as u64)')
        elif k == 'sleb':
            ops.append(f'WOp::Sleb(({v}) as i64)')
        elif k == 'blk':
            ops.append(f'WOp::Uleb({v}.xsize(encoding) as u64)')
            blk = v
        elif k in ('u1', 'u2', 'u4'):
            ops.append(f'wu(({v}) as nat, {k[1]})')
        else:
            raise Lost(f'wcfi table: operand kind {k}')
    return ops, blk


def after_chain(base, ops):
    s = base
    for o in ops:
        s = f'after({s}, {o})'
    return s


def insn_clauses():
    out = []
    for pat, _, rows in WCFI:
        vname = pat.split('(')[0]
        fg = uses_factor(rows)
        for guard, name, vals in rows:
            ops, blk = row_ops(name, vals)
            g = guard.replace('F', FEXPR) if 'F' in guard.split() else guard
            if fg is not None and ('F' in guard.split() or 'F' in vals):
                # (a zero factor with offset 0 is left open: every operand n reads back as n * 0 == 0)
                g = f'{DAF} != 0 && expressible(offset as int, {DAF}) && ' + g
            mid = after_chain(W0, ops)
            if blk is None:
                body = f'{W1} == {mid}'
            else:
                body = (f'({{ let mid = {mid}; wrote(mid, {W1}, {blk}.xops(encoding, mid.len)) && '
                        f'{W1}.len == mid.len + {blk}.xsize(encoding) }})')
            out.append(f'[C14:insn-{name}][C12:cfi-insn-serialise] res is Ok ==> (*self matches CallFrameInstruction::{pat} ==> (({g}) ==> {body}))')
        if fg is not None:
            out.append(f'[C14:insn-inexact-{vname}] *self matches CallFrameInstruction::{pat} ==> ((({_prefactor_guard(rows)}) '
                       f'&& !expressible(offset as int, {DAF})) ==> res == Err::<(), Error>(Error::InvalidFrameDataOffset(offset)))')
            out.append(f'[C14:insn-inexact-{vname}] res is Ok ==> (*self matches CallFrameInstruction::{pat} ==> (({_prefactor_guard(rows)}) ==> expressible(offset as int, {DAF})))')
    return out


def _prefactor_guard(rows):
    """the guard, not mentioning F, under which the factored offset is needed (true if every row needs it)"""
    gs = [g for g, _, vals in rows if 'F' in vals and 'F' not in g.split()]
    if any('F' in g.split() for g, _, _ in rows):
        return 'true'
    return ' || '.join(f'({g})' for g in gs) if gs else 'false'


def crosscheck_reader_table(ctx):
    """unit test inside the build: every DWARF instruction this table emits exists in the READ-side table of batch
    cfi_unwind (written independently from the same standard) with the same opcode byte and the same operand kinds"""
    try:
        from batches import cfi_unwind
        rt = {n: (cond, kinds) for n, cond, kinds, _, _ in cfi_unwind.CFA}
    except Exception as e:     # the reader batch is another builder's work in progress
        ctx.count('X-CHECK-SKIPPED')
        return
    for name, (code, kinds) in DW_CFA.items():
        if name == 'AARCH64_negate_ra_state':
            continue       # written out by hand on the read side (vendor gated), opcode 0x2d
        if name not in rt:
            raise Lost(f'wcfi cross-check: reader table has no DW_CFA_{name}')
        cond, rk = rt[name]
        want = f'hi == {code[1]:#x}' if isinstance(code, tuple) else f'b == {code:#04x}'
        if cond.replace(' ', '') != want.replace(' ', '') or list(rk) != list(kinds):
            raise Lost(f'wcfi cross-check: DW_CFA_{name}: writer table ({want}, {kinds}) != reader table ({cond}, {rk})')
        ctx.count('X-CHECK')


def shift_consts(ctx):
    """the three DW_CFA constants written `0x0N << 6` in the dw! invocation (lib.dw_consts only takes literals)"""
    src = Source('constants.rs', ctx)
    out = []
    for name, val in re.findall(r'\b(DW_CFA_\w+)\s*=\s*(0x[0-9a-fA-F]+\s*<<\s*\d+)\s*,', src.text):
        out.append(f'pub const {name}: DwCfa = DwCfa({val});')
    if len(out) != 3:
        raise Lost('constants.rs: shifted DW_CFA constants')
    ctx.count('R-DW', len(out))
    return '\n'.join(out)


def debug_only(it):
    """R-DERIVE: datatypes that contain write::Expression keep only derive(Debug) (no extracted fn clones/compares them)"""
    return it.custom_re('R-DERIVE', r'#\[derive\([^\]]*\)\]', '#[derive(Debug)]')


MODELS = '''
// ---- opaque stand-ins for types that occur only in the signatures / fields of the ASSUMED write::Expression::{size, write}
#[verifier::external_body]
#[derive(Debug)]
pub struct Operation { opaque: () }
#[verifier::external_body]
pub struct UnitOffsets { opaque: () }
#[verifier::external_body]
pub struct DebugInfoFixup { opaque: () }
'''

AXIOM = '''
/// ASSUMPTION (A-SECTION-LEN): a section never holds more than isize::MAX bytes (every shipped Writer is backed by a Vec<u8>,
/// whose length is bounded by isize::MAX).  Used only for `word_size + w.len()` in the two write_nop calls.
#[verifier::external_body]
pub proof fn axiom_section_len<W: Writer>(w: W)
    ensures w.wv().len <= isize::MAX as nat
{
}
'''

EXPR_GHOST = '''    /// encoded size of the expression (no unit offsets: CFI expressions cannot reference DIEs)
    pub uninterp spec fn xsize(&self, encoding: Encoding) -> nat;
    /// the fields `write` hands to the Writer when the expression starts at section position `pos`
    pub uninterp spec fn xops(&self, encoding: Encoding, pos: nat) -> Seq<WOp>;'''

BV_OR = ('proof { assert(0x01u8 << 6 == 0x40u8) by (bit_vector); assert(0x02u8 << 6 == 0x80u8) by (bit_vector); '
         'assert(0x03u8 << 6 == 0xc0u8) by (bit_vector); '
         'assert(forall|r: u8| #![auto] r < 0x40u8 ==> (0x40u8 | r) == 0x40u8 + r) by (bit_vector); '
         'assert(forall|r: u8| #![auto] r < 0x40u8 ==> (0x80u8 | r) == 0x80u8 + r) by (bit_vector); '
         'assert(forall|r: u8| #![auto] r < 0x40u8 ==> (0xc0u8 | r) == 0xc0u8 + r) by (bit_vector); }')


def populate(ctx, sk):
    crosscheck_reader_table(ctx)
    wc = Source('write/cfi.rs', ctx)
    wo = Source('write/op.rs', ctx)
    wcore.ensure_dwehpe(ctx, sk)
    wcore.ensure_structural(sk, 'constants', 'DwEhPe')
    sk.add('constants', shift_consts(ctx), label='DwCfa(shifted)')

    sk.mods['write']['uses'] += '\npub use self::op::*;\npub use self::cfi::*;'
    # ---- write::op: Expression with ASSUMED size/write (batch wop verifies them)
    sk.module('write::op', '''use crate::common::{Encoding, Register};
use crate::write::{Address, Error, Result, Writer};
use crate::wspec::*;''')
    sk.add('write::op', MODELS, label='models')
    sk.add('write::op', debug_only(wo.item(r'^pub struct Expression \{', label='Expression(struct)')).clean())
    ex = wo.item(r'^impl Expression \{', label='Expression')
    ex.keep_only(['size', 'write'])
    ex.extbody(['size', 'write'])
    ex.clean()
    ex.insert_members(EXPR_GHOST)
    ex.splice('size', ret='res', ensures=[
        '[C14:expr-assumed] unit_offsets is None ==> (res matches Ok(n) ==> n as nat == self.xsize(encoding))'])
    ex.splice('write', ret='res', ensures=[
        f'[C14:expr-assumed] res is Ok && refs is None && unit_offsets is None ==> wrote({W0}, {W1}, self.xops(encoding, {W0}.len)) '
        f'&& {W1}.len == {W0}.len + self.xsize(encoding)',
        f'grew({W0}, {W1})'])
    sk.add('write::op', ex)

    # ---- write::cfi
    sk.module('write::cfi', '''use crate::common::{DebugFrameOffset, EhFrameOffset, Encoding, Format, Register, SectionId};
use crate::constants;
use crate::write::{Address, Error, Expression, Result, Writer};
use crate::vspec::*;
use crate::wspec::*;
broadcast use crate::wspec::group_wrote;''')
    sk.add('write::cfi', core.rd('specs/wcfi.rs'), label='wcfispec')
    sk.add('write::cfi', debug_only(wc.item(r'^pub struct CommonInformationEntry \{', label='CommonInformationEntry(struct)')).clean())
    sk.add('write::cfi', debug_only(wc.item(r'^pub enum CallFrameInstruction \{', label='CallFrameInstruction(enum)')).clean())

    # -- 1. factoring
    fc = wc.item(r'^fn factored_code_delta\(', label='factored_code_delta').clean()
    fc.own(OWN)
    fc.splice('factored_code_delta', ret='res', ensures=[
        # the factored delta reads back as delta * code_alignment_factor (6.4.2.1)
        '[C14:code-delta-exact] res matches Ok(d) ==> offset >= prev_offset && d as int * factor as int == offset - prev_offset',
        '[C14:code-delta-decrease] offset < prev_offset ==> res == Err::<u32, Error>(Error::InvalidFrameCodeOffset(offset))',
        '[C14:code-delta-inexact] offset > prev_offset && !expressible(offset - prev_offset, factor as int) ==> res == Err::<u32, Error>(Error::InvalidFrameCodeOffset(offset))',
        '[C14:code-delta-accept] offset >= prev_offset && factor != 0 && expressible(offset - prev_offset, factor as int) ==> res is Ok'],
        after=[('let factored_delta = delta / factor;', 'proof { if factor != 0 { vstd::arithmetic::div_mod::lemma_fundamental_div_mod(delta as int, factor as int); '
                'assert(factor as int * (delta as int / factor as int) == (delta as int / factor as int) * factor as int) by (nonlinear_arith); '
                'vstd::arithmetic::div_mod::lemma_mod_bound(delta as int, factor as int); } }')])
    sk.add('write::cfi', fc)
    fd = wc.item(r'^fn factored_data_offset\(', label='factored_data_offset').clean()
    fd.own(OWN)
    fd.splice('factored_data_offset', ret='res', ensures=[
        # the factored offset reads back as offset * data_alignment_factor (6.4.2.2 / 6.4.2.3)
        '[C14:data-offset-exact] res matches Ok(n) ==> n as int * factor as int == offset as int',
        '[C14:data-offset-inexact] !expressible(offset as int, factor as int) ==> res == Err::<i32, Error>(Error::InvalidFrameDataOffset(offset))',
        '[C14:data-offset-accept] factor != 0 && expressible(offset as int, factor as int) && !(offset == i32::MIN && factor == -1) ==> res is Ok'],
        after=[('let factored_offset = offset / factor;', 'proof { if factor != 0 && !(offset == i32::MIN && factor == -1) { lemma_rust_div_i32(offset, factor); } }')])
    sk.add('write::cfi', fd)

    # -- 2. advance_loc, nop, instructions
    DELTA = 'offset - prev_offset'
    CAF = 'code_alignment_factor as int'
    al = wc.item(r'^fn write_advance_loc<', label='write_advance_loc').clean()
    al.own(OWN)
    al.splice('write_advance_loc', ret='res', ensures=[
        f'[C14:advance-none] offset == prev_offset ==> res is Ok && wunch({W0}, {W1})',
        # reads back as delta * code_alignment_factor (6.4.2.1): the operand is the factored delta, in a form that holds it
        f'[C14:advance-delta] res is Ok && offset != prev_offset ==> offset > prev_offset && expressible({DELTA}, {CAF}) && '
        f'factored({DELTA}, {CAF}) * {CAF} == {DELTA} && factored({DELTA}, {CAF}) > 0 && advance_legal({W0}, {W1}, factored({DELTA}, {CAF}) as nat)',
        f'[C14:advance-minimal] res is Ok && offset != prev_offset ==> advance_minimal({W0}, {W1}, factored({DELTA}, {CAF}) as nat)',
        '[C14:advance-decrease] offset < prev_offset ==> res == Err::<(), Error>(Error::InvalidFrameCodeOffset(offset))',
        f'[C14:advance-inexact] offset > prev_offset && !expressible({DELTA}, {CAF}) ==> res == Err::<(), Error>(Error::InvalidFrameCodeOffset(offset))',
        FRAME],
        after=[('let delta = factored_code_delta(prev_offset, offset, code_alignment_factor)?;',
                'proof { lemma_factored_delta(delta as int, offset - prev_offset, code_alignment_factor as int); }\n' + BV_OR)])
    sk.add('write::cfi', al)

    nop = wc.item(r'^fn write_nop<', label='write_nop').clean()
    nop.own(OWN)
    nop.insert_after('for _ in ', 'it: ')
    NOP_BV = 'proof { lemma_pad(len, align); }'
    nop.splice('write_nop', ret='res', canary=True,
               requires=['len > 0',    # helper (call sites pass word_size + ... >= 4): `!len + 1` is -len, which overflows for 0
                         '[C14:nop-align] pad_align_ok(align)'],
               ensures=[
        # 6.4.1: padded with DW_CFA_nop so that the entry length is a multiple of the address size
        f'[C14:nop-pad] res is Ok ==> (len + ({W1}.len - {W0}.len)) % (align as int) == 0 && {W1}.len - {W0}.len < align',
        f'[C14:nop-fields] res is Ok ==> wrote({W0}, {W1}, nops(({W1}.len - {W0}.len) as nat))',
        FRAME],
        before=[('crate::verif_assert((align & (align - 1)) == (0));', NOP_BV)],
        after=[('w.write_u8(constants::DW_CFA_nop.0)?;', 'proof { assert(nops(it.index@ as nat).push(b1(0)) =~= nops((it.index@ + 1) as nat)); }')],
        loops={0: f'invariant wrote({W0}, w.wv(), nops(it.index@ as nat)), w.wv().len == {W0}.len + it.index@, 0 <= it.index@ <= tail_len, '
                  f'tail_len < align, (len + tail_len) % (align as int) == 0 // [C14:nop-pad]'})
    sk.add('write::cfi', nop)

    ci = wc.item(r'^impl CallFrameInstruction \{', label='CallFrameInstruction')
    ci.clean()
    ci.own(OWN)
    FSTMT = 'let offset = factored_data_offset(offset, cie.data_alignment_factor)?;'
    nf = ci.text.count(FSTMT)
    if nf != 4:
        raise Lost(f'CallFrameInstruction::write: expected 4 factored_data_offset call sites, found {nf}')
    for k in range(nf):
        ci.insert_before(FSTMT, 'let ghost off0 = offset;\n', nth=k)
        ci.insert_after(FSTMT, '\nproof { if cie.data_alignment_factor != 0 { lemma_factored_unique(offset as int, off0 as int, cie.data_alignment_factor as int); } }', nth=k)
    ci.splice('write', ret='res', ensures=insn_clauses() + [FRAME], before=[('match *self {', BV_OR)])
    sk.add('write::cfi', ci)

    # -- 3. entries
    sk.add('write::cfi', debug_only(wc.item(r'^pub struct FrameDescriptionEntry \{', label='FrameDescriptionEntry(struct)')).clean())
    sk.add('write::cfi', AXIOM, label='axiom_section_len')
    ENC = 'self.encoding'
    ce = wc.item(r'^impl CommonInformationEntry \{', label='CommonInformationEntry')
    ce.keep_only(['has_augmentation', 'write'])
    ce.clean()
    ce.own(OWN)
    ce.splice('has_augmentation', ret='res', ensures=['res == self.has_aug()'])
    # checkpoint after the return address register (ghost only): the fixed header is complete
    ce.insert_before('if augmentation {', 'let ghost v3 = w.wv();\nproof { reveal(CommonInformationEntry::after_fixed_header); checkpoint_cie_header(v3, self.after_fixed_header(old(w).wv(), eh_frame)); assert(v3.len >= length_base); }\n', nth=1)
    ce.splice('write', ret='res', ensures=[
        f'[C14:cie-offset] res matches Ok(off) ==> off as nat == {W0}.len',
        f'[C14:cie-version] res is Ok ==> cfi_version_ok(eh_frame, {ENC}.version)',
        # failed before 9595d4a: the address size was never validated (finding F-wcfi-3)
        f'[C14:cie-address-size] res is Ok ==> valid_address_size({ENC}.address_size)',
        f'[C14:cie-ra-v1] res is Ok && !eh_frame && {ENC}.version == 1 ==> self.return_address_register.0 < 0x100',
        f'[C14:cie-closed] res is Ok ==> entry_closed({W0}, {W1}, {ENC}.format)',
        # 6.4.1: "The size of the length field plus the value of length must be an integral multiple of the address size."
        # failed for the 64-bit format before a12b998 (finding F-wcfi-4)
        f'[C14:cie-pad] res is Ok ==> ({W1}.len - {W0}.len) % ({ENC}.address_size as int) == 0',
        # (nothing is claimed about the section after an error: the entry is incomplete and the caller gives up)
        f'[C14:frame] res is Ok ==> {W1}.len >= {W0}.len && {W1}.be == {W0}.be'],
        # [C14:cie-header] is a CHECKPOINT assertion: when the instruction loop starts the section is exactly the old
        # section followed by the header fields (see NOT DECIDED in the header for the step to the function exit)
        before=[('let augmentation = self.has_augmentation();', 'let ghost v1 = w.wv();\nproof { checkpoint_cie_header(v1, after_cie_start(old(w).wv(), eh_frame, encoding)); assert(v1.len >= length_base); }'),
                ('if encoding.version >= 4 {', 'let ghost v2 = w.wv();\nproof { reveal(CommonInformationEntry::after_aug_string); checkpoint_cie_header(v2, self.after_aug_string(v1)); '
                 'self.lemma_aug_string_grew(v1); assert(v2.len >= length_base); }'),
                ('for instruction in &self.instructions', 'let ghost hv = w.wv();\nproof { reveal(CommonInformationEntry::after_aug_data);\n'
                 'checkpoint_cie_header(hv, self.after_header(old(w).wv(), eh_frame));\n'
                 'self.lemma_aug_data_grew(v3); assert(hv.len >= length_base); }'),
                ('write_nop(', 'proof { axiom_section_len::<W>(*w); }')],
        loops={0: 'invariant w.wv().len >= length_base, w.wv().be == old(w).wv().be'})
    sk.add('write::cfi', ce)

    fe = wc.item(r'^impl FrameDescriptionEntry \{', label='FrameDescriptionEntry')
    fe.keep_only(['write'])
    fe.clean()
    fe.own(OWN)
    CENC = 'cie.encoding'
    fe.splice('write', ret='res', canary=True, attrs='#[verifier::loop_isolation(false)]', requires=[
        # helper preconditions, established by FrameTable::write: the CIE was written before (at cie_offset, by
        # CommonInformationEntry::write, whose Ok gives [C14:cie-address-size] / [C14:cie-offset])
        f'valid_address_size({CENC}.address_size)',
        f'cie_offset as nat <= {W0}.len',
        # documented API requirement ("If set then all FDEs which use this CIE must have a LSDA address"): debug_assert_eq
        '[C14:fde-lsda-api] self.lsda is Some <==> cie.lsda_encoding is Some'],
        ensures=[
        f'[C14:fde-header] res is Ok ==> grew(self.after_fde_header({W0}, eh_frame, cie_offset, cie), {W1})',
        f'[C14:fde-closed] res is Ok ==> entry_closed({W0}, {W1}, {CENC}.format)',
        f'[C14:fde-pad] res is Ok ==> ({W1}.len - {W0}.len) % ({CENC}.address_size as int) == 0',
        f'[C14:fde-range-fits] cie.fde_address_encoding == constants::DW_EH_PE_absptr && !ufits(self.length as nat, {CENC}.address_size as nat) ==> res is Err',
        FRAME],
        before=[('let mut prev_offset = 0;', 'let ghost hv = w.wv();\nproof { checkpoint_fde_header(hv, self.after_fde_header(old(w).wv(), eh_frame, cie_offset, cie)); }'),
                ('write_nop(', 'proof { axiom_section_len::<W>(*w); }')],
        loops={0: 'invariant grew(hv, w.wv())'})
    sk.add('write::cfi', fe)
    return sk


def build(ctx):
    sk = Skeleton(ctx, core.rd('prelude/crate.rs'))
    core.populate(ctx, sk)
    wcore.populate(ctx, sk)
    populate(ctx, sk)
    return sk
