"""B-bases: default offset-table bases of split DWARF units and the DWARF 5 list-table header (DESIGN.md 6 C17 "indexed
string/address tables each return exactly the entries present" + unit plumbing; the header size also serves C08).

An indexed lookup (batch `lists`: DebugStrOffsets::get_str_offset, RangeLists::get_offset, LocationLists::get_offset)
reads entry `index` at `base + index * entry_size`.  It returns "exactly the entry present" only if `base` points at the
first entry of the table, i.e. just past the table header.  For a version >= 5 unit in a .dwo file no DW_AT_*_base
attribute exists and gimli supplies the base itself; this batch puts those defaults under contract.

Oracle: vx/specs/bases.rs -- the header layouts written from DWARF 5 section 7.4 (initial length: 4 bytes, or the
0xffffffff escape + 8 bytes), 7.26 (.debug_str_offsets header: unit_length, version:2, padding:2), 7.28 / 7.29
(.debug_rnglists / .debug_loclists header: unit_length, version:2, address_size:1, segment_selector_size:1,
offset_entry_count:4); `default_table_base`: header size for (version >= 5 and .dwo), else 0.  `lemma_hdr_sizes` spells
the numbers out (8/16 and 12/20).

Functions under contract (real text; owners C01 + C17, lists.rs also C08):
  read/str.rs       DebugStrOffsetsBase::default_for_encoding_and_file    [C17:default-base-str-offsets]
  read/rnglists.rs  DebugRngListsBase::default_for_encoding_and_file      [C17:default-base-rnglists]   (+ alias RngListsHeader)
  read/loclists.rs  DebugLocListsBase::default_for_encoding_and_file      [C17:default-base-loclists]   (+ alias LocListsHeader)
        generic in `Offset: ReaderOffset` as written; result stated through ReaderOffset::as_nat (core's contract of
        from_u8); no precondition, every (encoding, file_type) is covered; the u8 sums are proved overflow-free.
  read/lists.rs     ListsHeader::size_for_encoding, ListsHeader::size     [C17:lists-header-size] == hdr_size_rnglists/loclists
                    parse_header   field layout of 7.28/7.29 ([C17:lists-header]: format, version == 5, address size in
                        {1,2,4,8}, segment_selector_size == 0, offset_entry_count), every reject case with its error
                        ([C17:lists-header-reject]), acceptance of every well-formed header ([C17:lists-header-accept]),
                        and [C17:lists-header-size]: the bytes consumed == size_for_encoding(h.encoding) == the standard's
                        header size, the remaining input is exactly the rest of the table [il + 8, il + unit_length)
  common.rs         Format::initial_length_size (== 4 / 12), Format::word_size (== 4 / 8): contracted in core.populate
                    (exact values, untagged); reused here, not re-stated; `impl Format` is co-owned by C17 in this batch so
                    that a wrong value there is reported for C17 too.
No `DebugAddrBase` default exists in read/addr.rs (Unit::new_with_abbreviations writes `DebugAddrBase(0)`: .debug_addr is
never in a .dwo); nothing to contract there.

Assumed (TRUSTED = core's ledger, nothing added).  A-DERIVE-EQ (ghost text, same as batch dwarf_ranges): `==` of
#[derive(PartialEq)] on the field-less enum DwarfFileType is structural equality (Verus gives a derived impl no spec).
No rewrites beyond the standard rules (R-OFFSET on parse_header's `R: Reader`).

Not decided here: the call site Unit::new_with_abbreviations (passes header.encoding() and dwarf.file_type to the three
functions; its DIE-attribute loop belongs to batches units/attrs); that producers really emit exactly one contribution per
.dwo section (a property of the input, not of gimli); DwarfPackage adjusts bases by the index contribution (batch index);
`impl Default for ListsHeader` (dead code).
"""
from lib import *
from batches import core

TRUSTED = list(core.TRUSTED)
VERUS_ARGS = ['--rlimit', '40']
OWN = ['C01', 'C17']

DERIVED_EQ = '''impl vstd::std_specs::cmp::PartialEqSpecImpl for DwarfFileType {
    open spec fn obeys_eq_spec() -> bool { true }
    open spec fn eq_spec(&self, other: &DwarfFileType) -> bool { *self == *other }
}'''

LISTS_GHOST = '''    pub closed spec fn enc(&self) -> Encoding { self.encoding }
    pub closed spec fn count(&self) -> u32 { self.offset_entry_count }'''


def default_base(src, ty, tag, hdr):
    """`<ty><Offset>::default_for_encoding_and_file`: header size of the section's table for a v5+ unit of a .dwo, else 0"""
    it = src.item(r'^impl<Offset> %s<Offset>' % ty, label=ty).clean(offset=False)
    it.own(OWN)
    it.splice('default_for_encoding_and_file', ret='res', ensures=[
        f'[C17:{tag}] res.0.as_nat() == default_table_base(encoding.version, file_type, {hdr}(encoding.format))',
        # the two halves once more, without the helper function (what a reader of the report checks against the standard)
        f'[C17:{tag}] (encoding.version >= 5 && file_type == DwarfFileType::Dwo) ==> res.0.as_nat() == {hdr}(encoding.format)',
        f'[C17:{tag}] !(encoding.version >= 5 && file_type == DwarfFileType::Dwo) ==> res.0.as_nat() == 0',
    ], canary=True)
    return it


def populate(ctx, sk):
    st = Source('read/str.rs', ctx)
    rng = Source('read/rnglists.rs', ctx)
    loc = Source('read/loclists.rs', ctx)
    ls = Source('read/lists.rs', ctx)
    sk.add('vspec', core.rd('specs/bases.rs'), label='bases_spec')
    if not any(lab == 'derived-eq' for _it, lab, _own in sk.mods['common']['chunks']):
        sk.add('common', DERIVED_EQ, label='derived-eq')
    # Format::initial_length_size / word_size carry core's exact-value contracts (4/12, 4/8; untagged, owned by C01).  Every
    # size in this batch rests on them, so C17 co-owns `impl Format` here: a wrong value there is reported for C17 as well.
    for it, _lab, _own in sk.mods['common']['chunks']:
        if isinstance(it, Item) and it.header_re == r'^impl Format \{':
            it.own(sorted(set(it.owners.get('*', [])) | set(OWN)))

    # ---- read::lists  (DWARF 5 7.28 / 7.29 table header)
    sk.module('read::lists', 'use crate::common::{Encoding, Format};\nuse crate::read::{Error, Reader, Result};\nuse crate::vspec::*;')
    L = 'read::lists'
    sk.add(L, ls.item(r'^pub\(crate\) struct ListsHeader').clean())
    li = ls.item(r'^impl ListsHeader \{', label='ListsHeader').clean()
    li.own(OWN + ['C08'])
    li.insert_members(LISTS_GHOST)
    SZ = 'res as nat == hdr_size_rnglists({0}) && res as nat == hdr_size_loclists({0})'
    li.splice('size', ret='res', ensures=['[C17:lists-header-size][C08:lists-header-size] ' + SZ.format('self.enc().format')])
    li.splice('size_for_encoding', ret='res', ensures=['[C17:lists-header-size][C08:lists-header-size] ' + SZ.format('encoding.format')], canary=True)
    sk.add(L, li)

    ph = ls.item(r'^fn parse_header<').clean()
    ph.own(OWN + ['C08'])
    B0, B1 = 'old(input).rv()', 'final(input).rv()'
    LET = (f'let b0 = {B0}; let w = b0.u(0, 4); let fmt = il_format_of(w); let il = unit_length_field(fmt) as int; '
           'let ul = if w == 0xffff_ffff { b0.u(4, 8) } else { w }; ')
    # the initial length is readable and the table it announces lies inside the input
    LEN_OK = '(b0.len >= 4 && (w < 0xffff_fff0 || (w == 0xffff_ffff && b0.len >= 12)) && il + ul <= b0.len)'
    ph.splice('parse_header', ret='res', ensures=[
        f'[C17:lists-header][C08:lists-header] res matches Ok(h) ==> ({{ {LET} (w < 0xffff_fff0 || w == 0xffff_ffff) && h.enc().format == fmt '
        '&& h.enc().version == 5 && b0.u(il, 2) == 5 && h.enc().address_size == b0.at(il + 2) && b0.at(il + 3) == 0 '
        '&& h.count() as nat == b0.u(il + 4, 4) })',
        '[C01:address-size-validated] res matches Ok(h) ==> valid_address_size(h.enc().address_size)',
        # the bytes the parser consumes are the header, and the header is as large as size_for_encoding says
        f'[C17:lists-header-size][C08:lists-header-size] res matches Ok(h) ==> {B1}.start - {B0}.start == hdr_size_rnglists(h.enc().format) '
        f'&& {B1}.start - {B0}.start == hdr_size_loclists(h.enc().format)',
        # what is left is exactly the rest of this table: [header, il + unit_length)
        f'[C17:lists-header-size][C08:lists-header-size][C10:view] res matches Ok(h) ==> ({{ {LET} ul >= 8 && window(b0, {B1}, (il + 8) as nat, (ul - 8) as nat) }})',
        f'[C17:lists-header-reject][C08:lists-header-reject] ({{ {LET} {LEN_OK} && ul >= 2 && b0.u(il, 2) != 5 ==> (res matches Err(Error::UnknownVersion(v)) && v == b0.u(il, 2)) }})',
        f'[C17:lists-header-reject][C08:lists-header-reject] ({{ {LET} {LEN_OK} && ul >= 4 && b0.u(il, 2) == 5 && valid_address_size(b0.at(il + 2)) && b0.at(il + 3) != 0 ==> '
        '(res matches Err(Error::UnsupportedSegmentSize(s)) && s == b0.at(il + 3)) })',
        f'[C17:lists-header-reject][C08:lists-header-reject] ({{ {LET} {LEN_OK} && ul >= 3 && b0.u(il, 2) == 5 && !valid_address_size(b0.at(il + 2)) ==> res is Err }})',
        f'[C17:lists-header-reject][C08:lists-header-reject] ({{ {LET} {LEN_OK} && ul < 8 ==> res is Err }})',
        f'[C17:lists-header-reject][C08:lists-header-reject] ({{ {LET} !{LEN_OK} ==> res is Err }})',
        f'[C17:lists-header-accept][C08:lists-header-accept] ({{ {LET} {LEN_OK} && ul >= 8 && b0.u(il, 2) == 5 && valid_address_size(b0.at(il + 2)) && b0.at(il + 3) == 0 ==> res is Ok }})',
        f'[C01:frame] inside({B0}, {B1})',
    ], canary=True)
    sk.add(L, ph)
    # the consumption clause and the size function meet: parse_header consumes size_for_encoding(h.encoding) bytes
    sk.add(L, '''
proof fn lemma_lists_header_size_agrees(format: Format)
    ensures
        hdr_size_rnglists(format) == hdr_size_loclists(format), // [C17:lists-header-size]
        hdr_size_rnglists(format) == unit_length_field(format) + 8, // [C17:lists-header-size]
        hdr_size_rnglists(format) <= u8::MAX, // [C17:lists-header-size]
{
}
''', label='lemma_lists_header_size_agrees', owners=OWN)

    # ---- read::str / read::rnglists / read::loclists: the default bases
    sk.mods['read']['uses'] += '\npub use self::str::*;\npub use self::rnglists::*;\npub use self::loclists::*;'
    sk.module('read::str', 'use crate::common::{DebugStrOffsetsBase, DwarfFileType, Encoding, Format};\nuse crate::read::{Error, Reader, ReaderOffset, Result};\nuse crate::vspec::*;')
    sk.add('read::str', default_base(st, 'DebugStrOffsetsBase', 'default-base-str-offsets', 'hdr_size_str_offsets'))

    sk.module('read::rnglists', 'use crate::common::{DebugRngListsBase, DwarfFileType, Encoding};\nuse crate::read::{Error, Reader, ReaderOffset, Result, lists::ListsHeader};\nuse crate::vspec::*;')
    sk.add('read::rnglists', rng.item(r'^pub\(crate\) type RngListsHeader').clean())
    sk.add('read::rnglists', default_base(rng, 'DebugRngListsBase', 'default-base-rnglists', 'hdr_size_rnglists'))

    sk.module('read::loclists', 'use crate::common::{DebugLocListsBase, DwarfFileType, Encoding};\nuse crate::read::{Error, Reader, ReaderOffset, Result, lists::ListsHeader};\nuse crate::vspec::*;')
    sk.add('read::loclists', loc.item(r'^pub\(crate\) type LocListsHeader').clean())
    sk.add('read::loclists', default_base(loc, 'DebugLocListsBase', 'default-base-loclists', 'hdr_size_loclists'))
    return sk


def build(ctx):
    sk = Skeleton(ctx, core.rd('prelude/crate.rs'))
    core.populate(ctx, sk)
    populate(ctx, sk)
    return sk
