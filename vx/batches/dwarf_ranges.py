"""B-dwarf-ranges: the attribute-level range / location helpers of `read::Dwarf` (DESIGN.md 6 C08 carrier 4, finding F5).

Built on top of batch `lists` (its populate() is reused: range / location lists, DebugAddr, offset tables).

Functions under contract (real text of /repo/src/read/dwarf.rs; owners C01 + C08; address lookup also C17):
  Dwarf::address, attr_address                 DW_FORM_addr value | .debug_addr entry unit.addr_base + index * address_size
  Dwarf::ranges_offset_from_raw                DW_AT_GNU_ranges_base is added ONLY for file_type == Dwo AND version < 5
  Dwarf::ranges_offset, locations_offset       offset-table lookup with the unit's rnglists_base / loclists_base
  Dwarf::ranges, raw_ranges, raw_locations     list iterators with the unit's encoding, low_pc, addr_base; .dwo location
                                               lists use the kind-byte encoding also before DWARF 5 (GNU split DWARF)
  Dwarf::attr_ranges_offset, attr_ranges, attr_locations_offset    dispatch on the attribute class, anything else -> None
  Dwarf::die_ranges                            DWARF 5 section 2.17: the first range-list valued DW_AT_ranges wins (the
        list iterator starts at the offset `attr_ranges_offset` defines, base address = unit.low_pc); otherwise the single
        range [low_pc, high_pc) (high_pc of class address) resp. [low_pc, low_pc + high_pc) (class constant) built from the
        last DW_AT_low_pc / DW_AT_high_pc; no low_pc or no high_pc -> no range.  Stated against the ghost functions
        `first_ranges`, `pc_scan`, `single_range` below (folds over the DIE's attribute list).
  RangeIter::next                              single range handed out once / list case == RngListIter::next clauses
  Unit (Deref -> header), UnitHeader::{encoding, version}, Attribute::{name, form}, DebuggingInformationEntry::attrs

Projections (R-FIELDS, logged): `Dwarf` keeps debug_addr, debug_str_offsets, locations, ranges, file_type; `Unit` drops
abbreviations and line_program; `UnitHeader` drops `section`.  No extracted function touches a dropped field.

FINDING F-dwarf-ranges-1 (= DESIGN F5): `size.map(|size| begin + size)` in die_ranges overflows for
low_pc + high_pc(constant) >= 2^64 (native/src/bin/f_dwarf_ranges_1.rs, fix described there).  The batch accepts both the
pinned text and the proposed fixed text (match + add_sized).

Assumed (TRUSTED = lists' ledger +):
  Attribute::value        R-EXTBODY: the 600-line normalisation belongs to batch `attrs` (C03).  Assumed here: it is a
                          function of the attribute (`res == self.norm()`, `norm` uninterpreted).  die_ranges is specified
                          over norm(): class address = Addr | DebugAddrIndex, class constant = Udata, range list =
                          RangeListsRef | DebugRngListsIndex (what `attrs` proves `value` produces for these names).
  Option::or              std semantics (assume_specification)
  A-DERIVE-EQ             ghost text: `==` of derive(PartialEq) on DwarfFileType is structural equality
Preconditions not derived from bytes here: RangeIter::next (list case) and the fixed die_ranges need a valid
unit address size (established by the unit header parser, batch `units`).
Not decided: unit_ranges (DIE cursor end to end), attr_locations / locations (LocListIter construction is covered in
`lists`), the non-empty / tombstone clause for the single [low_pc, high_pc) range (the code hands it through unfiltered;
DESIGN C08 anchors that clause on the list resolvers).
"""
from lib import *
from batches import core, lists

TRUSTED = list(lists.TRUSTED) + ['value', 'core::option::Option::<T>::or']
VERUS_ARGS = ['--rlimit', '40']
RETRY_RLIMIT = 120

OWN = ['C01', 'C08']

PRELUDE = '''
// std semantics (TRUSTED): Option::or
pub assume_specification<T>[core::option::Option::<T>::or](a: Option<T>, b: Option<T>) -> (r: Option<T>)
    ensures r == (if a is Some { a } else { b });
'''

DERIVED_EQ = '''impl vstd::std_specs::cmp::PartialEqSpecImpl for DwarfFileType {
    open spec fn obeys_eq_spec() -> bool { true }
    open spec fn eq_spec(&self, other: &DwarfFileType) -> bool { *self == *other }
}'''

# ghost functions the contracts of die_ranges are stated against (DWARF 5 section 2.17, 7.5.5; GNU split DWARF)
SPECS = '''
/// address size of the unit
pub open spec fn usize_of<R: Reader<Offset = usize>>(u: &Unit<R>) -> u8 { u.header.sencoding().address_size }

/// value of class address: DW_FORM_addr, or entry `index` of the unit's contribution to .debug_addr
pub open spec fn addr_of<R: Reader<Offset = usize>>(d: &Dwarf<R>, u: &Unit<R>, v: AttributeValue<R>) -> Option<u64> {
    match v {
        AttributeValue::Addr(a) => Some(a),
        AttributeValue::DebugAddrIndex(i) => Some(tab_at(d.debug_addr.sec(), u.addr_base.0 as nat, i.0 as nat, usize_of(u) as nat) as u64),
        _ => None,
    }
}

/// GNU split DWARF: DW_AT_GNU_ranges_base applies to the DW_AT_ranges values of a pre-v5 .dwo unit only
pub open spec fn ranges_from_raw<R: Reader<Offset = usize>>(d: &Dwarf<R>, u: &Unit<R>, raw: usize) -> nat {
    if d.file_type == DwarfFileType::Dwo && u.header.sencoding().version < 5 {
        ((raw + u.rnglists_base.0) % 0x1_0000_0000_0000_0000) as nat
    } else { raw as nat }
}

/// the attribute value refers to a range list
pub open spec fn is_rnglist<R: Reader<Offset = usize>>(v: AttributeValue<R>) -> bool {
    v is RangeListsRef || v is DebugRngListsIndex
}
/// ... at this offset of .debug_ranges / .debug_rnglists
pub open spec fn rnglist_offset<R: Reader<Offset = usize>>(d: &Dwarf<R>, u: &Unit<R>, v: AttributeValue<R>) -> nat {
    match v {
        AttributeValue::RangeListsRef(o) => ranges_from_raw(d, u, o.0),
        AttributeValue::DebugRngListsIndex(i) => u.rnglists_base.0 as nat
            + tab_at(d.ranges.rnglists_sec(), u.rnglists_base.0 as nat, i.0 as nat, word_size(u.header.sencoding().format)),
        _ => 0,
    }
}
/// `it` iterates the unit's range list at offset `off`
pub open spec fn unit_list_at<R: Reader<Offset = usize>>(d: &Dwarf<R>, u: &Unit<R>, it: RngListIter<R>, off: nat) -> bool {
    let e = u.header.sencoding();
    it.enc() == e && it.coded() == (e.version >= 5)
    && adv(if e.version >= 5 { d.ranges.rnglists_sec() } else { d.ranges.ranges_sec() }, it.inp(), off)
    && it.base() == u.low_pc && it.tab() == d.debug_addr.sec() && it.tbase() == u.addr_base.0 as nat
}

pub open spec fn is_ranges_attr<R: Reader<Offset = usize>>(a: Attribute<R>) -> bool {
    a.sname() == constants::DW_AT_ranges && is_rnglist(a.norm())
}
/// index of the first range-list valued DW_AT_ranges among the first n attributes
pub open spec fn first_ranges<R: Reader<Offset = usize>>(s: Seq<Attribute<R>>, n: int) -> Option<int>
    decreases n
{
    if n <= 0 { None } else {
        let p = first_ranges(s, n - 1);
        if p is Some { p } else if is_ranges_attr(s[n - 1]) { Some(n - 1) } else { None }
    }
}
pub proof fn lemma_first_ranges<R: Reader<Offset = usize>>(s: Seq<Attribute<R>>, i: int, n: int)
    requires 0 <= i < n, first_ranges(s, i) is None, is_ranges_attr(s[i])
    ensures first_ranges(s, n) == Some(i)
    decreases n
{
    if n > i + 1 { lemma_first_ranges(s, i, n - 1); }
}

/// (low_pc, high_pc as address, high_pc as offset from low_pc) after the first n attributes: the last DW_AT_low_pc /
/// DW_AT_high_pc decide; a DW_AT_high_pc of class constant is an offset, of class address an address (DWARF 5 2.17.2)
pub open spec fn pc_scan<R: Reader<Offset = usize>>(d: &Dwarf<R>, u: &Unit<R>, s: Seq<Attribute<R>>, n: int) -> (Option<u64>, Option<u64>, Option<u64>)
    decreases n
{
    if n <= 0 { (None, None, None) } else {
        let p = pc_scan(d, u, s, n - 1);
        let a = s[n - 1];
        if a.sname() == constants::DW_AT_low_pc { (addr_of(d, u, a.norm()), p.1, p.2) }
        else if a.sname() == constants::DW_AT_high_pc {
            match a.norm() {
                AttributeValue::Udata(v) => (p.0, p.1, Some(v)),
                v => (p.0, addr_of(d, u, v), p.2),
            }
        } else { p }
    }
}
/// the single range of a DIE: [low, low + size) if a constant high_pc was seen, else [low, high); the sum is mathematical
pub open spec fn single_range(low: Option<u64>, high: Option<u64>, size: Option<u64>, r: Option<Range>) -> bool {
    match low {
        None => r is None,
        Some(b) => match size {
            Some(sz) => (r matches Some(x) && x.begin == b && x.end as int == b as int + sz as int),
            None => match high {
                Some(h) => r == Some(Range { begin: b, end: h }),
                None => r is None,
            },
        },
    }
}
'''


def populate(ctx, sk):
    un = Source('read/unit.rs', ctx)
    dw = Source('read/dwarf.rs', ctx)
    common = Source('common.rs', ctx)
    sk.crate_prelude += PRELUDE
    sk.add('common', DERIVED_EQ, label='derived-eq')
    sk.mods['read']['uses'] += '\npub use self::unit::*;\npub use self::dwarf::*;'

    # ------------------------------------------------------------------ read::unit (types + the accessors die_ranges uses)
    sk.module('read::unit', '''use crate::common::{
    DebugAbbrevOffset, DebugAddrBase, DebugAddrIndex, DebugInfoOffset, DebugLineOffset,
    DebugLineStrOffset, DebugLocListsBase, DebugLocListsIndex, DebugMacinfoOffset,
    DebugMacroOffset, DebugRngListsBase, DebugRngListsIndex, DebugStrOffset, DebugStrOffsetsBase,
    DebugStrOffsetsIndex, DebugTypeSignature, DebugTypesOffset, DwoId, Encoding, Format,
    LocationListsOffset, RawRangeListsOffset, UnitSectionOffset,
};
use crate::constants;
use crate::read::{Error, Expression, Reader, ReaderOffset, Result, UnitOffset};
use crate::vspec::*;''')
    U = 'read::unit'
    sk.add(U, un.item(r'^pub enum UnitType<Offset>').clean(rejrec=['Offset']))
    uh = un.item(r'^pub struct UnitHeader<R, Offset', label='UnitHeader')
    uh.custom('R-FIELDS', 'section: SectionId,', '')
    uh.clean(rejrec=['R', 'Offset'])
    sk.add(U, uh)
    uhi = un.item(r'^impl<R, Offset> UnitHeader<R, Offset>\nwhere\n[^{]*\{\s*pub fn section', label='UnitHeader')
    uhi.keep_only(['encoding', 'version'])
    uhi.clean(offset=False)
    uhi.own(OWN)
    uhi.insert_members('    pub closed spec fn sencoding(&self) -> Encoding { self.encoding }')
    uhi.splice('encoding', ret='res', ensures=['res == self.sencoding()'])
    uhi.splice('version', ret='res', ensures=['res == self.sencoding().version'])
    sk.add(U, uhi)
    sk.add(U, un.item(r'^pub enum AttributeValue<R, Offset').clean(rejrec=['R', 'Offset']))
    sk.add(U, un.item(r'^pub struct Attribute<R: Reader>').clean(offset=False, rejrec=['R']))
    ati = un.item(r'^impl<R: Reader> Attribute<R> \{', label='Attribute')
    ati.keep_only(['name', 'form', 'value'])
    ati.extbody(['value'])
    ati.clean()
    ati.own(OWN)
    ati.insert_members('    pub closed spec fn sname(&self) -> constants::DwAt { self.name }\n'
                       '    pub closed spec fn sform(&self) -> constants::DwForm { self.form }\n'
                       '    /// the normalised value (Attribute::value, batch `attrs`)\n'
                       '    pub uninterp spec fn norm(&self) -> AttributeValue<R>;')
    ati.splice('name', ret='res', ensures=['res == self.sname()'])
    ati.splice('form', ret='res', ensures=['res == self.sform()'])
    ati.splice('value', ret='res', ensures=['res == self.norm()'])
    sk.add(U, ati)
    sk.add(U, un.item(r'^pub struct DebuggingInformationEntry<R, Offset').clean(rejrec=['R', 'Offset']))
    de = un.item(r'^impl<R, Offset> DebuggingInformationEntry<R, Offset>', label='DebuggingInformationEntry')
    de.keep_only(['attrs'])
    de.clean(offset=False)
    de.own(OWN)
    de.splice('attrs', ret='res', ensures=['res@ == self.attrs@'])
    sk.add(U, de)

    # ------------------------------------------------------------------ read::dwarf
    sk.module('read::dwarf', '''use crate::common::{
    DebugAddrBase, DebugAddrIndex, DebugLocListsBase, DebugLocListsIndex, DebugRngListsBase, DebugRngListsIndex,
    DebugStrOffsetsBase, DwarfFileType, DwoId, Encoding, LocationListsOffset, RangeListsOffset, RawRangeListsOffset,
};
use crate::constants;
use crate::read::{
    Attribute, AttributeValue, DebugAddr, DebugStrOffsets, DebuggingInformationEntry, Error, LocListIter, LocationLists,
    Range, RangeLists, RawLocListIter, RawRngListIter, Reader, ReaderAddress, ReaderOffset, Result, RngListIter, UnitHeader,
};
use crate::vspec::*;''')
    D = 'read::dwarf'
    ds = dw.item(r'^pub struct Dwarf<R> \{', label='Dwarf')
    for f in ['pub debug_abbrev: DebugAbbrev<R>,', 'pub debug_aranges: DebugAranges<R>,', 'pub debug_info: DebugInfo<R>,',
              'pub debug_line: DebugLine<R>,', 'pub debug_line_str: DebugLineStr<R>,', 'pub debug_macinfo: DebugMacinfo<R>,',
              'pub debug_macro: DebugMacro<R>,', 'pub debug_names: DebugNames<R>,', 'pub debug_str: DebugStr<R>,',
              'pub debug_types: DebugTypes<R>,', 'pub sup: Option<Arc<Dwarf<R>>>,', 'pub abbreviations_cache: AbbreviationsCache,']:
        ds.custom('R-FIELDS', f, '')
    ds.clean()
    sk.add(D, ds)
    us = dw.item(r'^pub struct Unit<R, Offset', label='Unit')
    us.custom('R-FIELDS', 'pub abbreviations: Arc<Abbreviations>,', '')
    us.custom('R-FIELDS', 'pub line_program: Option<IncompleteLineProgram<R, Offset>>,', '')
    us.clean(rejrec=['R', 'Offset'])
    sk.add(D, us)
    ud = dw.item(r'^impl<R: Reader> core::ops::Deref for Unit<R>', label='Deref for Unit').clean()
    ud.own(OWN)
    ud.splice('deref', ret='res', ensures=['*res == self.header'])
    sk.add(D, ud)
    sk.add(D, dw.item(r'^pub struct RangeIter<R: Reader>').clean(rejrec=['R']))
    sk.add(D, dw.item(r'^enum RangeIterInner<R: Reader>').clean(rejrec=['R']))
    ri = dw.item(r'^impl<R: Reader> RangeIter<R> \{', label='RangeIter').clean()
    ri.own(OWN)
    ri.insert_members('    pub closed spec fn is_list(&self) -> bool { self.0 is List }\n'
                      '    pub closed spec fn list(&self) -> RngListIter<R> { self.0->List_0 }\n'
                      '    pub closed spec fn single(&self) -> Option<Range> { match self.0 { RangeIterInner::Single(r) => r, _ => None } }')
    ri.splice('next', ret='res', requires=['[C08:valid-address-size] old(self).is_list() ==> valid_address_size(old(self).list().size())'], ensures=[
        '[C08:die-single-once] !old(self).is_list() ==> res == Ok::<Option<Range>, Error>(old(self).single()) && !final(self).is_list() && final(self).single() is None',
        '[C08:nonempty-below-tombstone] old(self).is_list() ==> (res matches Ok(Some(x)) ==> x.begin < x.end && x.begin < min_tomb(old(self).list().size()))',
        '[C01:iter-empty] (old(self).is_list() && old(self).list().inp().len == 0) ==> res matches Ok(None)',
        '[C01:iter-err-progress] (old(self).is_list() && res is Err) ==> final(self).list().inp().len < old(self).list().inp().len',
        '[C01:iter-progress] (old(self).is_list() && res matches Ok(Some(_))) ==> final(self).list().inp().len < old(self).list().inp().len',
        '[C01:iter-none-final] (old(self).is_list() && res matches Ok(None)) ==> final(self).list().inp().len == 0',
        '[C01:frame] old(self).is_list() ==> final(self).is_list() && final(self).list().same_list(&old(self).list()) && final(self).list().inp().len <= old(self).list().inp().len'],
        canary=True)
    sk.add(D, ri)
    sk.add(D, SPECS, label='die-specs')

    di = dw.item(r'^impl<R: Reader> Dwarf<R> \{', label='Dwarf')
    di.keep_only(['address', 'attr_address', 'ranges_offset_from_raw', 'ranges_offset', 'ranges', 'raw_ranges', 'attr_ranges_offset',
                  'attr_ranges', 'die_ranges', 'locations_offset', 'raw_locations', 'attr_locations_offset'])
    # R-CTORFN: `Some` as a function value -> closure (Verus has no constructors as function values)
    di.custom('R-CTORFN', '.map(Some)', '.map(|x| Some(x))', count=-1)
    di.clean()
    di.own(OWN)
    for k, ty in enumerate(['u64', 'RangeListsOffset<usize>', 'LocationListsOffset<usize>']):
        di.insert_after('.map(|x| ', f'-> (o: Option<{ty}>) ensures o == Some(x) {{ ', nth=k)
        di.insert_after(f'ensures o == Some(x) {{ {INS_C}Some(x)', ' }', nth=k)
    E = 'unit.header.sencoding()'
    ADDR = ('tab_in(self.debug_addr.sec(), unit.addr_base.0 as nat, index.0 as nat, usize_of(unit) as nat) && '
            'a as nat == tab_at(self.debug_addr.sec(), unit.addr_base.0 as nat, index.0 as nat, usize_of(unit) as nat)')
    di.splice('address', ret='res', ensures=[f'[C08:indexed-address][C17:indexed-address] res matches Ok(a) ==> {ADDR}'])
    di.splice('attr_address', ret='res', ensures=[
        '[C08:attr-address][C17:attr-address] res matches Ok(o) ==> o == addr_of(self, unit, attr)',
        '[C08:attr-address] (attr is Addr || !(attr is DebugAddrIndex)) ==> res is Ok'])
    di.splice('ranges_offset_from_raw', ret='res', ensures=[
        '[C08:gnu-ranges-base] res.0 as nat == ranges_from_raw(self, unit, offset.0)',
        '[C08:gnu-ranges-base] !(self.file_type == DwarfFileType::Dwo && unit.header.sencoding().version < 5) ==> res.0 == offset.0'])
    di.splice('ranges_offset', ret='res', ensures=[
        f'[C08:offset-table] res matches Ok(o) ==> tab_in(self.ranges.rnglists_sec(), unit.rnglists_base.0 as nat, index.0 as nat, word_size({E}.format)) && '
        f'o.0 as nat == unit.rnglists_base.0 as nat + tab_at(self.ranges.rnglists_sec(), unit.rnglists_base.0 as nat, index.0 as nat, word_size({E}.format))'])
    di.splice('locations_offset', ret='res', ensures=[
        f'[C08:offset-table] res matches Ok(o) ==> tab_in(self.locations.loclists_sec(), unit.loclists_base.0 as nat, index.0 as nat, word_size({E}.format)) && '
        f'o.0 as nat == unit.loclists_base.0 as nat + tab_at(self.locations.loclists_sec(), unit.loclists_base.0 as nat, index.0 as nat, word_size({E}.format))'])
    di.splice('ranges', ret='res', ensures=['[C08:unit-list] res matches Ok(it) ==> unit_list_at(self, unit, it, offset.0 as nat)'])
    di.splice('raw_ranges', ret='res', ensures=[
        f'[C08:unit-list] res matches Ok(it) ==> it.enc() == {E} && it.coded() == ({E}.version >= 5) && '
        f'adv(if {E}.version >= 5 {{ self.ranges.rnglists_sec() }} else {{ self.ranges.ranges_sec() }}, it.inp(), offset.0 as nat)'])
    di.splice('raw_locations', ret='res', ensures=[
        f'[C08:unit-list][C08:list-select-dwo] res matches Ok(it) ==> it.enc() == {E} && it.coded() == ({E}.version >= 5 || self.file_type == DwarfFileType::Dwo) && '
        f'adv(if {E}.version >= 5 {{ self.locations.loclists_sec() }} else {{ self.locations.loc_sec() }}, it.inp(), offset.0 as nat)'])
    di.splice('attr_ranges_offset', ret='res', ensures=[
        '[C08:attr-ranges-offset] res matches Ok(o) ==> (is_rnglist(attr) ==> (o matches Some(x) && x.0 as nat == rnglist_offset(self, unit, attr))) && (!is_rnglist(attr) ==> o is None)',
        '[C08:attr-ranges-offset] !(attr is DebugRngListsIndex) ==> res is Ok',
        f'[C08:attr-ranges-offset] (attr is DebugRngListsIndex && res is Ok) ==> tab_in(self.ranges.rnglists_sec(), unit.rnglists_base.0 as nat, attr->DebugRngListsIndex_0.0 as nat, word_size({E}.format))'])
    di.splice('attr_locations_offset', ret='res', ensures=[
        '[C08:attr-locations-offset] res matches Ok(o) ==> (match attr { '
        'AttributeValue::LocationListsRef(off) => o == Some(off), '
        f'AttributeValue::DebugLocListsIndex(i) => (o matches Some(x) && tab_in(self.locations.loclists_sec(), unit.loclists_base.0 as nat, i.0 as nat, word_size({E}.format)) && '
        f'x.0 as nat == unit.loclists_base.0 as nat + tab_at(self.locations.loclists_sec(), unit.loclists_base.0 as nat, i.0 as nat, word_size({E}.format))), '
        '_ => o is None })',
        '[C08:attr-locations-offset] !(attr is DebugLocListsIndex) ==> res is Ok'])
    di.splice('attr_ranges', ret='res', ensures=[
        '[C08:attr-ranges] res matches Ok(o) ==> (is_rnglist(attr) ==> (o matches Some(it) && unit_list_at(self, unit, it, rnglist_offset(self, unit, attr)))) && (!is_rnglist(attr) ==> o is None)'])

    # ---- die_ranges
    A = 'entry.attrs@'
    N = f'{A}.len() as int'
    fixed = 'low_pc.and_then(|begin| ' not in di.text      # the proposed F5 fix replaces the closures by match + add_sized
    di.insert_after('for attr in ', 'it: ')
    inv = (f'invariant first_ranges({A}, it.index@) is None, // [C08:die-ranges-list]\n'
           f'  (low_pc, high_pc, size) == pc_scan(self, unit, {A}, it.index@), // [C08:die-ranges-single]\n')
    before = [('return Ok(RangeIter(RangeIterInner::List(list)));', f'proof {{ lemma_first_ranges({A}, it.index@, {N}); }}')]
    req = []
    if fixed:
        req = ['[C08:valid-address-size] valid_address_size(usize_of(unit))']
    else:
        di.insert_after('low_pc.and_then(|begin| ', '-> (o: Option<Range>) ensures single_range(Some(begin), high_pc, size, o) ')
        di.insert_after('size.map(|size| ', '-> (o: u64) ensures o == begin + size { ')
        di.insert_after(f'ensures o == begin + size {{ {INS_C}begin + size', ' }')
    di.insert_after('end.map(|end| ', '-> (o: Range) ensures o == (Range { begin: begin, end: end }) { ')
    di.insert_after(f'{INS_C}Range {{ begin, end }}', ' }')
    di.splice('die_ranges', ret='res', requires=req, ensures=[
        f'[C08:die-ranges-list] res matches Ok(r) ==> (first_ranges({A}, {N}) matches Some(j) ==> '
        f'r.is_list() && unit_list_at(self, unit, r.list(), rnglist_offset(self, unit, {A}[j].norm())))',
        f'[C08:die-ranges-single] res matches Ok(r) ==> (first_ranges({A}, {N}) is None ==> ({{ let p = pc_scan(self, unit, {A}, {N}); '
        f'!r.is_list() && single_range(p.0, p.1, p.2, r.single()) }}))'],
        loops={0: inv}, before=before, canary=bool(req))
    sk.add(D, di)
    return sk


def build(ctx):
    sk = Skeleton(ctx, core.rd('prelude/crate.rs'))
    core.populate(ctx, sk)
    lists.populate(ctx, sk)
    populate(ctx, sk)
    return sk
