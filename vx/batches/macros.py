"""B-macros: macro information, read side (`/repo/src/read/macros.rs`; DESIGN.md 6 C01, listed there as not decided).

Property: C01 only (macro information belongs to no other listed property; every tagged clause is `[C01:...]`, string
operands additionally carry `[C10:view]`).  Oracles: vx/specs/macros.rs (macro information header of DWARF 5 6.3.1;
`cstr_len`: a string ends at its first NUL) and the Python table KINDS below, written from DWARF 5 section 6.3.2-6.3.4 /
table 7.28 (DW_MACRO_*) and DWARF 4 section 6.3.1 / figure 39 (DW_MACINFO_*): entry type -> operand layout -> decoded entry.
`lemma_macro_codes` (generated from the same table) proves that gimli's `constants::DW_MACRO_* / DW_MACINFO_*` carry the
standard's numeric codes, so the clauses are stated over the standard's numbers, not over gimli's names.

Functions under contract (real text):
  DebugMacinfo::get_macinfo   the iterator starts at `offset` of the section, 4-byte offsets, `.debug_macinfo` entry set;
                              Err <=> offset beyond the section                                       [C01:macinfo-at]
  DebugMacro::get_macros      skip to `offset`, parse the unit header, iterator starts behind it with the header's offset
                              size; Err <=> offset beyond the section or header rejected              [C01:macro-unit-at]
  MacroUnitHeader::parse      version, flags, offset_size flag -> format, debug_line_offset (present iff flag bit 1, of
                              offset_size bytes), opcode_operands_table flag => Err (gimli does not parse the table: every
                              unit that has one is rejected as a whole, which is why an unknown entry type can be an error
                              further down), exact consumption, exact error condition                  [C01:macro-header-*]
  MacroUnitHeader::format
  MacroIter::next             iterator protocol ([C01:iter-finish], [C01:iter-err-empties], [C01:iter-progress],
                              [C01:iter-step], [C01:iter-none-final], [C01:frame]); one decode clause per entry kind
                              [C01:macro-decode-<kind>] (value of every operand, strings as windows of the section
                              [C10:view], offsets of the header's offset size, exact consumption); 0 ends the unit
                              [C01:macro-decode-end]; an entry type outside the section kind's set is an error that
                              empties the input [C01:macro-decode-unknown] (this includes DW_MACRO_lo_user..hi_user:
                              without the operands table a vendor entry cannot be skipped); fixed-size kinds are never
                              rejected when their bytes are present [C01:macro-decode-total]
  types                       MacroString, MacroEntry (verbatim, public enums: the clauses pattern-match on them)

FINDING F-macros-1 (open; native/src/bin/f_macros_1.rs): `MacroIter::next` does not follow the iterator protocol.
  (a) [C01:iter-finish] FAILS: there is no `is_empty()` test, so on exhausted input `next` returns `Err(UnexpectedEof)`
      instead of `Ok(None)` -- forever: on the call after the `Ok(None)` that ended the unit (the 0 entry *empties* the
      input) and, worse, when the unit is truncated before its terminator, where `Ok(None)` is never returned.  Through
      `impl Iterator for MacroIter` (`next().transpose()`) the latter is an endless stream of `Some(Err(UnexpectedEof))`:
      `for e in iter { let Ok(e) = e else { continue }; .. }` or `iter.count()` never terminate (reproducer: 1 000 000
      items from a 4-byte unit), which C01 forbids ("finishes within a number of steps bounded by the input size even
      when the caller ignores errors ... when the input is truncated at any byte").
  (b) [C01:iter-err-empties] FAILS: errors of operand reads leave through `?` without `input.empty()` (only the two
      unknown-type arms empty the input); after e.g. a `define` whose string lacks its NUL the following calls decode the
      bytes of the string as entries.  Same root cause and same fix as (a).
  Minimal fix (makes both clauses hold, no other clause changes):
        pub fn next(&mut self) -> Result<Option<MacroEntry<R>>> {
            if self.input.is_empty() { return Ok(None); }
            let result = self.next_entry();              // the present body
            if !matches!(result, Ok(Some(_))) { self.input.empty(); }
            result
        }
  `python3 vx/run.py macros` exits 1 with exactly these two failed postconditions on the current tree ([C01:iter-err-empties]
  is reported once per `?` exit, hence MULTIPLE_ERRORS = 40).  The batch accepts both texts: when the tree has the fix
  (`fn next_entry` present) the decode clauses are spliced on `next_entry` and the full protocol on `next`; verified: exit 0.

Assumed (TRUSTED): core's ledger only (verif_unreachable, Result::and_then, reader_clone, i64::unsigned_abs).
Rewrites beyond the standard rules (logged): R-CLONE x2 (`self.section.clone()`), R-DROP MacroString::string (needs
UnitRef/Dwarf; not parse-related).

Not decided here: `MacroString::string` (string lookup through a `Dwarf`), the `Iterator` / `FallibleIterator` adaptor
impls (`next().transpose()`, one-line delegations; (a) above is about what they inherit), `DebugMacinfo/DebugMacro::{new,
borrow, from}` and `Section` plumbing, readers with `Offset != usize` (A-OFFSET), validation of the header's version (the
code accepts any version: GNU `.debug_macro` units of DWARF 4 carry version 4) and of reserved flag bits (ignored), the
opcode_operands_table itself (never parsed).
"""
from lib import *
from batches import core

TRUSTED = list(core.TRUSTED)
VERUS_ARGS = ['--rlimit', '40']
MULTIPLE_ERRORS = 40     # the open finding fails [C01:iter-err-empties] at ~22 exits; further failures must not be crowded out
OWN = ['C01']

# ---------------------------------------------------------------------------------------------------------------------
# KINDS: (kind, code, gimli constant names carrying that code, section kinds, operand layout, Rust pattern on the entry `e`,
#         constraint over the operand values o0.. / operand positions p0..)
# section kinds: 'both' = .debug_macinfo and .debug_macro; 'macro' = .debug_macro only; 'macinfo' = .debug_macinfo only
# operand kinds:  uleb  unsigned LEB128                          (o = value)
#                 str   null-terminated string                   (o = length without the NUL; the value is a window)
#                 off   offset of the unit's offset size (4/8)   (o = value)
STR = 'window(b0, s.rv(), p1 as nat, o1 as nat) && p1 + o1 < b0.len && b0.at(p1 + o1) == 0'
KINDS = [
    # DWARF 5 6.3.2.1 / DWARF 4 6.3.1.1: line number, then "the name of the macro symbol followed ... by the definition"
    ('define', 0x01, ['DW_MACRO_define', 'DW_MACINFO_define'], 'both', ['uleb', 'str'],
     'MacroEntry::Define { line, text: MacroString::Direct(s) }', f'line == o0 && {STR}'),
    ('undef', 0x02, ['DW_MACRO_undef', 'DW_MACINFO_undef'], 'both', ['uleb', 'str'],
     'MacroEntry::Undef { line, name: MacroString::Direct(s) }', f'line == o0 && {STR}'),
    # 6.3.3: line number of the #include, index into the line table's file names
    ('start_file', 0x03, ['DW_MACRO_start_file', 'DW_MACINFO_start_file'], 'both', ['uleb', 'uleb'],
     'MacroEntry::StartFile { line, file }', 'line == o0 && file == o1'),
    ('end_file', 0x04, ['DW_MACRO_end_file', 'DW_MACINFO_end_file'], 'both', [], 'MacroEntry::EndFile', 'true'),
    # 6.3.2.1: line number, offset into .debug_str
    ('define_strp', 0x05, ['DW_MACRO_define_strp'], 'macro', ['uleb', 'off'],
     'MacroEntry::Define { line, text: MacroString::StringPointer(DebugStrOffset(x)) }', 'line == o0 && x as nat == o1'),
    ('undef_strp', 0x06, ['DW_MACRO_undef_strp'], 'macro', ['uleb', 'off'],
     'MacroEntry::Undef { line, name: MacroString::StringPointer(DebugStrOffset(x)) }', 'line == o0 && x as nat == o1'),
    # 6.3.4: offset into .debug_macro
    ('import', 0x07, ['DW_MACRO_import'], 'macro', ['off'], 'MacroEntry::Import { offset: DebugMacroOffset(x) }', 'x as nat == o0'),
    # 6.3.2.2 / 6.3.4: the same against the supplementary object file
    ('define_sup', 0x08, ['DW_MACRO_define_sup'], 'macro', ['uleb', 'off'],
     'MacroEntry::Define { line, text: MacroString::Supplementary(DebugStrOffset(x)) }', 'line == o0 && x as nat == o1'),
    ('undef_sup', 0x09, ['DW_MACRO_undef_sup'], 'macro', ['uleb', 'off'],
     'MacroEntry::Undef { line, name: MacroString::Supplementary(DebugStrOffset(x)) }', 'line == o0 && x as nat == o1'),
    ('import_sup', 0x0a, ['DW_MACRO_import_sup'], 'macro', ['off'], 'MacroEntry::ImportSup { offset: DebugMacroOffset(x) }', 'x as nat == o0'),
    # 6.3.2.1: line number, ULEB128 index into .debug_str_offsets
    ('define_strx', 0x0b, ['DW_MACRO_define_strx'], 'macro', ['uleb', 'uleb'],
     'MacroEntry::Define { line, text: MacroString::IndirectStringPointer(DebugStrOffsetsIndex(x)) }', 'line == o0 && x as nat == o1'),
    ('undef_strx', 0x0c, ['DW_MACRO_undef_strx'], 'macro', ['uleb', 'uleb'],
     'MacroEntry::Undef { line, name: MacroString::IndirectStringPointer(DebugStrOffsetsIndex(x)) }', 'line == o0 && x as nat == o1'),
    # DWARF 4 6.3.1.3: "a constant ... and a null-terminated string"
    ('vendor_ext', 0xff, ['DW_MACINFO_vendor_ext'], 'macinfo', ['uleb', 'str'],
     'MacroEntry::VendorExt { numeric, string: s }', f'numeric == o0 && {STR}'),
]
EXTRA_CODES = [('DW_MACRO_lo_user', 0xe0), ('DW_MACRO_hi_user', 0xff)]

OI, FI = 'old(self).v_input()', 'final(self).v_input()'
WS = 'word_size(old(self).v_format()) as int'


def applies(where):
    return {'both': 'true', 'macro': 'old(self).v_is_macro()', 'macinfo': '!old(self).v_is_macro()'}[where]


def operand_lets(kinds):
    """spec let-chain: operand values o_i, start offsets p_i (from the entry type byte), total size"""
    s = 'let p0 = 1int; '
    for i, k in enumerate(kinds):
        p = f'p{i}'
        if k == 'uleb':
            s += f'let o{i} = b0.uleb({p}) as int; let p{i + 1} = {p} + b0.leb_len({p}) as int; '
        elif k == 'str':
            s += f'let o{i} = cstr_len(b0, {p}) as int; let p{i + 1} = {p} + o{i} + 1; '
        elif k == 'off':
            s += f'let o{i} = b0.u({p}, {WS}) as int; let p{i + 1} = {p} + {WS}; '
        else:
            raise Lost('macros.KINDS: operand kind ' + k)
    return s + f'let total = p{len(kinds)}; '


def next_clauses():
    out = []
    for kind, code, _names, where, ops, pat, cons in KINDS:
        view = '[C10:view]' if 'str' in ops else ''
        out.append(f'[C01:macro-decode-{kind}]{view} res matches Ok(Some(e)) ==> ({{ let b0 = {OI}; {applies(where)} && b0.at(0) == {code:#04x} ==> '
                   f'({{ {operand_lets(ops)} (e matches {pat} && ({cons}) && adv(b0, {FI}, total as nat)) }}) }})')
    # fixed-size entries are never rejected when their bytes are present
    for kind, code, _names, where, ops, pat, cons in KINDS:
        if all(o == 'off' for o in ops):
            size = '1' if not ops else f'1 + {WS}'
            fits = '' if not ops else f' && (old(self).v_format() == Format::Dwarf64 ==> R::Offset::fits({OI}.u(1, 8) as u64))'
            out.append(f'[C01:macro-decode-total] {OI}.len >= {size} && {applies(where)} && {OI}.at(0) == {code:#04x}{fits} ==> res matches Ok(Some(_))')
    return out


def codes_lemma():
    ens = []
    for _kind, code, names, _w, _o, _p, _c in KINDS:
        ens += [f'constants::{n}.0 == {code:#04x}' for n in names]
    ens += [f'constants::{n}.0 == {code:#04x}' for n, code in EXTRA_CODES]
    return ('/// gimli\'s constants carry the codes of DWARF 5 table 7.28 / DWARF 4 figure 39 (generated from macros.KINDS)\n'
            'proof fn lemma_macro_codes()\n    ensures\n' + ''.join(f'        {e}, // [C01:macro-codes]\n' for e in ens) + '{}\n')


GHOST = '''
impl<R: Reader<Offset = usize>> DebugMacinfo<R> {
    pub closed spec fn v_section(&self) -> RView { self.section.rv() }
}

impl<R: Reader<Offset = usize>> DebugMacro<R> {
    pub closed spec fn v_section(&self) -> RView { self.section.rv() }
}

impl<R: Reader<Offset = usize>> MacroUnitHeader<R> {
    pub closed spec fn v_version(&self) -> u16 { self._version }
    pub closed spec fn v_flags(&self) -> u8 { self.flags }
    pub closed spec fn v_line_offset(&self) -> nat { self._debug_line_offset.0 as nat }
}

impl<R: Reader<Offset = usize>> MacroIter<R> {
    /// the entries not yet read
    pub closed spec fn v_input(&self) -> RView { self.input.rv() }
    /// offset size of the unit (always 32-bit for .debug_macinfo)
    pub closed spec fn v_format(&self) -> Format { self.format }
    /// true: `.debug_macro` (DW_MACRO_*), false: `.debug_macinfo` (DW_MACINFO_*)
    pub closed spec fn v_is_macro(&self) -> bool { self.is_macro }
}
'''


def populate(ctx, sk):
    mc = Source('read/macros.rs', ctx)
    sk.mods['read']['uses'] += '\npub use self::macros::*;'
    sk.module('vspec_macros', 'use crate::vspec::*;')
    sk.add('vspec_macros', core.rd('specs/macros.rs'), label='vspec_macros', owners=OWN)
    sk.module('read::macros', '''use crate::common::{DebugLineOffset, DebugMacinfoOffset, DebugMacroOffset, DebugStrOffset, DebugStrOffsetsIndex, Format};
use crate::constants;
use crate::constants::{DwMacinfo, DwMacro};
use crate::read::{Error, Reader, ReaderOffset, Result};
use crate::read::reader_clone;
use crate::vspec::*;
use crate::vspec_macros::*;''')
    sk.add('read::macros', mc.item(r'^pub struct DebugMacinfo<R>').clean(rejrec=['R']))
    sk.add('read::macros', mc.item(r'^pub struct DebugMacro<R>').clean(rejrec=['R']))
    sk.add('read::macros', mc.item(r'^struct MacroUnitHeader<R: Reader>', label='MacroUnitHeader').clean(rejrec=['R']))
    sk.add('read::macros', mc.item(r'^pub enum MacroString<R, Offset', label='MacroString').clean(rejrec=['R', 'Offset']))
    sk.add('read::macros', mc.item(r'^pub enum MacroEntry<R, Offset', label='MacroEntry').clean(rejrec=['R', 'Offset']))
    sk.add('read::macros', mc.item(r'^pub struct MacroIter<R: Reader>', label='MacroIter').clean(rejrec=['R']))
    sk.add('read::macros', GHOST, label='macros_ghost')
    sk.add('read::macros', codes_lemma(), label='lemma_macro_codes', owners=OWN)

    # ---- MacroUnitHeader (DWARF 5 6.3.1)
    B0, B1 = 'old(input).rv()', 'final(input).rv()'
    HERR = (f'({B0}.len < 3 || macro_hdr_has_operands_table({B0}) || (macro_hdr_has_line_offset({B0}) && ({B0}.len < macro_hdr_len({B0}) '
            f'|| (macro_hdr_format({B0}) == Format::Dwarf64 && !R::Offset::fits({B0}.u(3, 8) as u64)))))')
    hd = mc.item(r'^impl<R: Reader> MacroUnitHeader<R>', label='MacroUnitHeader').clean().own(OWN)
    hd.splice('parse', ret='res', ensures=[
        f'[C01:macro-header-fields] res matches Ok(h) ==> h.v_version() == macro_hdr_version({B0}) && h.v_flags() == macro_hdr_flags({B0}) '
        f'&& h.v_line_offset() == macro_hdr_line_offset({B0})',
        f'[C01:macro-header-consume] res is Ok ==> adv({B0}, {B1}, macro_hdr_len({B0}))',
        f'[C01:macro-header-optable-rejected] {B0}.len >= 3 && macro_hdr_has_operands_table({B0}) ==> res is Err',
        f'[C01:macro-header-reject] res is Err <==> {HERR}',
        f'[C01:frame] within({B0}, {B1})'])
    hd.splice('format', ret='res', ensures=[
        '[C01:macro-header-format] res == (if self.v_flags() & 1 == 0 { Format::Dwarf32 } else { Format::Dwarf64 })'])
    sk.add('read::macros', hd)

    # ---- section entry points
    S = 'self.v_section()'
    mi = mc.item(r'^impl<R: Reader> DebugMacinfo<R>', label='DebugMacinfo')
    mi.custom('R-CLONE', 'self.section.clone()', 'reader_clone(&self.section)')
    mi.clean().own(OWN)
    mi.splice('get_macinfo', ret='res', ensures=[
        f'[C01:macinfo-at][C10:view] res matches Ok(it) ==> adv({S}, it.v_input(), offset.0 as nat) && it.v_format() == Format::Dwarf32 && !it.v_is_macro()',
        f'[C01:macinfo-at] res is Err <==> offset.0 > {S}.len'])
    sk.add('read::macros', mi)
    mo = mc.item(r'^impl<R: Reader> DebugMacro<R>', label='DebugMacro')
    mo.custom('R-CLONE', 'self.section.clone()', 'reader_clone(&self.section)')
    mo.clean().own(OWN)
    U = f'view_at({S}, offset.0 as nat)'
    mo.splice('get_macros', ret='res', ensures=[
        f'[C01:macro-unit-at][C10:view] res matches Ok(it) ==> offset.0 <= {S}.len && adv({S}, it.v_input(), (offset.0 + macro_hdr_len({U})) as nat) '
        f'&& it.v_format() == macro_hdr_format({U}) && it.v_is_macro() && !macro_hdr_has_operands_table({U})',
        f'[C01:macro-unit-at] res is Err <==> (offset.0 > {S}.len || {HERR.replace(B0, U)})'])
    sk.add('read::macros', mo)

    # ---- MacroString: `string()` resolves the reference through a Dwarf (UnitRef) -- not parse-related (R-DROP)
    ms = mc.item(r'^impl<R: Reader> MacroString<R>', label='MacroString')
    ms.drop(['string'])
    ms.clean()
    sk.add('read::macros', ms)

    # ---- MacroIter::next
    it = mc.item(r'^impl<R: Reader> MacroIter<R>', label='MacroIter').clean().own(OWN)
    STRHINT = ('proof {{ lemma_cstr_len0(verif_v0, {v}.rv().len); let b0 = old(self).v_input(); let p0 = verif_v0.start - b0.start; '
               'assert(cstr_len(b0, p0) == cstr_len(verif_v0, 0)); }}')
    PROTOCOL_OPEN = [      # the two clauses of finding F-macros-1
        f'[C01:iter-finish] {OI}.len == 0 ==> res matches Ok(None)',
        f'[C01:iter-err-empties] res is Err ==> {FI}.len == 0',
    ]
    CLAUSES = [
        # -- iterator protocol (DESIGN 5.2)
        f'[C01:iter-progress] res matches Ok(Some(_)) ==> {FI}.len < {OI}.len',
        f'[C01:iter-step] {OI}.len > 0 ==> {FI}.len < {OI}.len',
        f'[C01:iter-none-final] res matches Ok(None) ==> {FI}.len == 0',
        f'[C01:frame] inside({OI}, {FI})',
        'final(self).v_format() == old(self).v_format() && final(self).v_is_macro() == old(self).v_is_macro()',
        # -- end of unit / unknown entry types
        f'[C01:macro-decode-end] {OI}.len > 0 && {OI}.at(0) == 0 ==> res matches Ok(None)',
        f'[C01:macro-decode-end] res matches Ok(None) ==> {OI}.len == 0 || {OI}.at(0) == 0',
        f'[C01:macro-decode-unknown] {OI}.len > 0 && {OI}.at(0) != 0 && !macro_known_op(old(self).v_is_macro(), {OI}.at(0)) ==> res is Err && {FI}.len == 0',
        f'[C01:macro-decode-unknown] res matches Ok(Some(_)) ==> {OI}.len > 0 && macro_known_op(old(self).v_is_macro(), {OI}.at(0))',
    ] + next_clauses()
    HINTS = dict(
        before=[('let text = self.input.read_null_terminated_slice()?;', 'let ghost verif_v0 = self.input.rv();'),
                ('let name = self.input.read_null_terminated_slice()?;', 'let ghost verif_v0 = self.input.rv();'),
                ('let string = self.input.read_null_terminated_slice()?;', 'let ghost verif_v0 = self.input.rv();')],
        after=[('let text = self.input.read_null_terminated_slice()?;', STRHINT.format(v='text')),
               ('let name = self.input.read_null_terminated_slice()?;', STRHINT.format(v='name')),
               ('let string = self.input.read_null_terminated_slice()?;', STRHINT.format(v='string'))])
    if 'next_entry' in it.fns():
        # the tree carries the fix proposed for F-macros-1 (`next` = is_empty test + `next_entry` + empty() on anything but
        # Ok(Some)): the decode switch lives in `next_entry` and the whole protocol must hold for `next`
        it.splice('next_entry', ret='res', ensures=CLAUSES, **HINTS)
        it.splice('next', ret='res', ensures=PROTOCOL_OPEN + CLAUSES)
    else:
        it.splice('next', ret='res', ensures=PROTOCOL_OPEN + CLAUSES, **HINTS)
    sk.add('read::macros', it)
    return sk


def build(ctx):
    sk = Skeleton(ctx, core.rd('prelude/crate.rs'))
    core.populate(ctx, sk)
    populate(ctx, sk)
    return sk
