"""B-filter: write::unit::convert::{FilterDependencies, ...}  (DESIGN.md 6 C19).  -- header completed at the end of file
"""
import re
from lib import *
from batches import core

TRUSTED = list(core.TRUSTED) + [
    'axiom_uso_key', 'axiom_uso_ord',
    'std::collections::HashMap::<K1, V, S, A>::get_mut', 'SliceOf::<T>::sort_unstable',
    'has_attr',
]

CONVERT = r'^pub\(crate\) mod convert \{'


class FilterSkeleton(Skeleton):
    """`HashMap::get_mut` can only be given an `assume_specification` with its allocator parameter spelled out, which needs
    `#![feature(allocator_api)]` as a crate attribute.  It is put on the first line (no line shift for the clause map).
    (It cannot go into VERUS_ARGS as -Zcrate-attr: run.py's reseed runs do not pass VERUS_ARGS.)"""

    def emit(self):
        text, fnmap = super().emit()
        assert text.startswith('#![allow(')
        return '#![feature(allocator_api)] ' + text, fnmap


def insert_after_loop(item, fn, ordinal, ghost):
    """ghost text right after the closing brace of the `ordinal`-th loop (textual order) of fn `fn` in `item`.
    Same discipline as Item.splice(after=..): sentinel-wrapped, ghost-only text; a lost loop is `Lost`."""
    assert item.base is not None
    check_ghost(ghost)
    t = item.text
    ms = [m for m in re.finditer(r'\bfn\s+%s\b' % re.escape(fn), t) if not lib_inside(t, m.start())]
    if not ms:
        raise Lost(f'insert_after_loop: fn {fn}')
    b = body_open(t, ms[0].start())
    e = match_close(t, b)
    n, i = 0, b
    while True:
        m = LOOP_RE.search(t, i, e)
        if not m:
            raise Lost(f'insert_after_loop: loop {ordinal} of {fn}')
        if lib_inside(t, m.start()):
            i = m.end()
            continue
        k, d = m.end(), 0
        while not (t[k] == '{' and d == 0):
            if t.startswith(INS_O, k):          # skip inserted loop specs (they contain braces/parens of their own)
                k = t.index(INS_C, k) + len(INS_C)
                continue
            if t[k] in '([':
                d += 1
            elif t[k] in ')]':
                d -= 1
            k += 1
        if n == ordinal:
            c = match_close(t, k)
            item.text = t[:c + 1] + ins('\n' + ghost + '\n') + t[c + 1:]
            return item
        n += 1
        i = k


def lib_inside(t, pos):
    a = t.rfind(INS_O, 0, pos)
    return a >= 0 and t.find(INS_C, a) > pos


def populate_deps(ctx, sk):
    """part 1: FilterDependencies against the abstract graph view"""
    wu = Source('write/unit.rs', ctx)
    # UnitSectionOffset: core's R-ATTR reduced its derive list; the map key / sort need the Hash/PartialOrd/Ord derives
    # that the source has.  Their meaning is the TRUSTED axiom pair ax::axiom_uso_key / ax::axiom_uso_ord.
    uso = [c[0] for c in sk.mods['common']['chunks'] if isinstance(c[0], Item) and 'UnitSectionOffset' in c[0].header_re][0]
    if not re.search(r'#\[derive\([^\]]*\bOrd\b[^\]]*\bHash\b', uso.orig):
        raise Lost('common.rs: UnitSectionOffset no longer derives Ord + Hash')
    uso.prepend('#[derive(Hash, PartialOrd, Ord)]')
    ctx.custom.append(('R-DERIVE', 'common.rs:UnitSectionOffset', '(derives dropped by R-ATTR)', '#[derive(Hash, PartialOrd, Ord)] re-added'))
    ctx.count('R-DERIVE')

    sk.module('fspec', '''use std::collections::HashMap;
use vstd::std_specs::hash::*;
use vstd::iset::ISet;
use crate::common::UnitSectionOffset;''')
    sk.add('fspec', core.rd('specs/filter.rs'), label='fspec')

    sk.module('write', '')
    sk.module('write::unit', '')
    sk.module('write::unit::convert', '''use crate::common::UnitSectionOffset;
use crate::fspec::*;
use vstd::std_specs::hash::*;
broadcast use {vstd::std_specs::hash::group_hash_axioms, crate::fspec::ax::axiom_uso_key};''')
    M = 'write::unit::convert'

    # R-MAP: hashbrown + fnv are dependencies outside the verified text; std's HashMap has a vstd model
    fm = wu.item(r'^    type FnvHashMap<K, V> =', within=CONVERT, label='FnvHashMap')
    fm.custom('R-MAP', 'hashbrown::HashMap<K, V, fnv::FnvBuildHasher>', 'std::collections::HashMap<K, V>')
    sk.add(M, fm.clean())

    st = wu.item(r'^    struct FilterDependencies \{', within=CONVERT, label='FilterDependencies(struct)').clean()
    sk.add(M, st)

    # R-SELF: `mut self` by value is outside Verus -> free fn with `self` renamed `this` (DESIGN 3.1.2)
    gr = wu.item(r'^        fn get_reachable\(mut self\)', within=r'^    impl FilterDependencies \{', label='get_reachable')
    gr.custom('R-SELF', 'fn get_reachable(mut self)', 'fn get_reachable(mut this: FilterDependencies)')
    gr.custom_re('R-SELF', r'\bself\b', 'this')
    gr.clean()
    gr.own(['C19'])
    gr.insert_after('for entry in ', 'it: ')      # names the ghost iterator of the `for` (Verus syntax, no code)
    G, REQ = 'this.graph()', 'this.req()'
    gr.splice('get_reachable', ret='res', ensures=[
        f'[C19:reach-registered] reach_valid({G}, res@)',
        f'[C19:reach-required] reach_required({G}, {REQ}, res@)',
        f'[C19:reach-closed] reach_closed({G}, res@)',
        f'[C19:reach-minimal] reach_minimal({G}, {REQ}, res@)',
        '[C19:reach-sorted] sorted_by_offset(res@)',
        '[C19:reach-nodup] res@.no_duplicates()'],
        loops={
            0: '''invariant
                qprev == queue@,
                inv_part(g, this.edges@, reachable@),
                inv_closed(g, req, reachable@, queue@, Seq::empty()),
                inv_min(g, req, reachable@, queue@, Seq::empty()),
            ensures queue@.len() == 0,
            decreases this.edges@.dom().len(), queue@.len(),''',
            1: '''invariant
                this.edges@.dom().len() <= d0,
                queue@.len() == ql0 + (d0 - this.edges@.dom().len()),
                inv_part(g, this.edges@, reachable@),
                inv_closed(g, req, reachable@, queue@, entries@.skip(it.index as int)),
                inv_min(g, req, reachable@, queue@, entries@),'''},
        before=[
            ('let mut reachable = Vec::new();', 'let ghost g = this.edges@; let ghost req = this.required@; let ghost reqv = this.required;'),
            ('for entry in', 'let ghost d0 = this.edges@.dom().len(); let ghost ql0 = queue@.len();\n'
                             'proof { lemma_start(g, req, reachable@, qprev, entries, queue@); }'),
            ('if let Some(deps) = this.edges.remove(&entry)', '''let ghost cur0 = this.edges@;
                proof {
                    assert(entry == entries@[it.index as int]);
                    if cur0.contains_key(entry) {
                        lemma_step_some(g, req, cur0, reachable@, queue@, entries@, it.index as int);
                        assert(cur0.remove(entry).dom() == cur0.dom().remove(entry));
                    } else {
                        lemma_step_none(g, req, cur0, reachable@, queue@, entries@, it.index as int);
                        assert(cur0.remove(entry) =~= cur0);
                    }
                }'''),
            ('reachable.sort_unstable();', 'let ghost vis = reachable@; proof { assert(queue@ =~= Seq::<Vec<K>>::empty()); }'),
        ],
        after=[
            ('let mut queue = vec![this.required];', 'proof { lemma_init(g, reqv, queue@); }\nlet ghost mut qprev = queue@;'),
            ('reachable.sort_unstable();', 'proof { lemma_finish(g, req, this.edges@, vis, reachable@); }'),
        ])
    insert_after_loop(gr, 'get_reachable', 1,
                      'proof { assert(entries@.skip(entries@.len() as int) =~= Seq::<K>::empty()); qprev = queue@; }')

    imp = wu.item(r'^    impl FilterDependencies \{', within=CONVERT, label='FilterDependencies')
    imp.drop(['get_reachable'])        # emitted above as a free fn (R-SELF)
    imp.clean()
    imp.own(['C19'])
    imp.insert_after('impl FilterDependencies {', '''
        // ---- abstract graph view: registered entries = dom, deps(e) = graph()[e]@, required list
        spec fn graph(&self) -> G { self.edges@ }
        spec fn req(&self) -> Seq<K> { self.required@ }
''')
    OG, FG = 'old(self).graph()', 'final(self).graph()'
    imp.splice('add_entry',
               requires=[f'[C19:add-entry-fresh] !{OG}.contains_key(entry)'],
               ensures=[f'[C19:add-entry] {FG} == {OG}.insert(entry, deps)',
                        '[C19:add-entry] final(self).req() == old(self).req()'], canary=True)
    imp.splice('add_edge',
               requires=[f'[C19:add-edge-from-registered] {OG}.contains_key(from)'],
               ensures=[f'[C19:add-edge] {FG}.dom() == {OG}.dom()',
                        f'[C19:add-edge] {FG}[from]@ == {OG}[from]@.push(to)',
                        f'[C19:add-edge] forall|k: K| k != from && {OG}.contains_key(k) ==> #[trigger] {FG}[k] == {OG}[k]',
                        '[C19:add-edge] final(self).req() == old(self).req()'],
               after=[('self.edges.get_mut(&from).unwrap().push(to);', '''proof {
                let o = old(self).edges@; let n = self.edges@;
                assert(borrowed_key_removed(o, o.remove(from), &from));
                assert(n.remove(from) == o.remove(from));
                assert(n.dom() =~= o.dom()) by {
                    assert forall|k: K| n.contains_key(k) <==> o.contains_key(k) by {
                        if k != from { assert(n.remove(from).contains_key(k) <==> o.remove(from).contains_key(k)); }
                    }
                }
                assert forall|k: K| k != from && o.contains_key(k) implies #[trigger] n[k] == o[k] by {
                    assert(n.remove(from)[k] == o.remove(from)[k]);
                }
            }''')], canary=True)
    imp.splice('require_entry',
               ensures=['[C19:require-entry] final(self).req() == old(self).req().push(entry)',
                        f'[C19:require-entry] {FG} == {OG}'])
    sk.add(M, imp)
    sk.add(M, gr)
    return sk


# ------------------------------------------------------------------------------------------------ part 2: tag table
# Expected classification of DWARF tags, written from the C19 statement ("member-like children (parameters, members,
# local variables, blocks and the like)") and DWARF 5 chapters 3-5 -- NOT from the code's match.
#   MEMBER_LIKE: the entry describes a part/attribute of its parent and has no meaning without it; it is never the target
#                of a reference that would keep it alive on its own  => must have a back edge (completeness).
MEMBER_LIKE = [
    'formal_parameter', 'unspecified_parameters',                      # 3.3.4 / 5.10 parameters of a subprogram / subroutine type
    'member', 'inheritance', 'access_declaration', 'friend',           # 5.7 structure/class contents
    'variant_part', 'variant',                                         # 5.7.10
    'enumerator',                                                      # 5.9
    'subrange_type', 'generic_subrange',                               # 5.5 / 5.13 array dimensions
    'variable', 'constant',                                            # 4.1 local variables / constants of a scope
    'lexical_block', 'inlined_subroutine', 'label', 'with_stmt', 'try_block', 'catch_block',   # 3.5-3.8, 3.3.8
    'call_site', 'call_site_parameter', 'GNU_call_site', 'GNU_call_site_parameter',            # 3.4
    'template_type_parameter', 'template_value_parameter',             # 2.23
    'GNU_template_template_param', 'GNU_template_parameter_pack', 'GNU_formal_parameter_pack',
    'thrown_type', 'common_inclusion',                                 # 3.3.7, 3.3.9 children of a subprogram
    'namelist_item', 'condition',                                      # 4.3, 5.11
]
#   STANDALONE: types (5.x), dwarf procedures (reference targets), and structural scopes / imports (3.2): kept only when
#               referenced or required  => no back edge (otherwise the filter prunes nothing below a retained scope).
STANDALONE = [
    'array_type', 'atomic_type', 'base_type', 'class_type', 'coarray_type', 'const_type', 'dynamic_type', 'enumeration_type',
    'file_type', 'immutable_type', 'interface_type', 'packed_type', 'pointer_type', 'ptr_to_member_type', 'reference_type',
    'restrict_type', 'rvalue_reference_type', 'set_type', 'shared_type', 'string_type', 'structure_type', 'subroutine_type',
    'template_alias', 'typedef', 'union_type', 'unspecified_type', 'volatile_type',
    'dwarf_procedure',
    'namespace', 'module', 'imported_declaration', 'imported_module', 'imported_unit',
    'namelist', 'common_block', 'entry_point',       # judgement calls (named entities with their own location/address); see report
]


def tag_specs(ctx):
    consts = dw_consts(ctx, 'DwTag')
    known = set(re.findall(r'pub const DW_TAG_(\w+):', consts))
    for t in MEMBER_LIKE + STANDALONE + ['subprogram']:
        if t not in known:
            raise Lost(f'constants.rs: DW_TAG_{t} not found')
    assert not (set(MEMBER_LIKE) & set(STANDALONE))

    def disj(lst):
        return '\n        || '.join(f't == crate::constants::DW_TAG_{t}' for t in lst)
    return f"""
/// C19 tag table (vx/batches/filter.py MEMBER_LIKE): children that are extensions of their parent
pub open spec fn member_like_tag(t: crate::constants::DwTag) -> bool {{
        {disj(MEMBER_LIKE)}
}}
/// C19 tag table (vx/batches/filter.py STANDALONE): types, reference targets, structural scopes and imports
pub open spec fn standalone_tag(t: crate::constants::DwTag) -> bool {{
        {disj(STANDALONE)}
}}
"""


def populate_read_types(ctx, sk):
    """read-side data types the filter code mentions (definitions only, real text)"""
    op = Source('read/op.rs', ctx)
    ru = Source('read/unit.rs', ctx)
    sk.mods['read']['uses'] += '\npub use self::op::*;\npub use self::unit::*;'
    sk.module('read::op', """use crate::common::{DebugAddrIndex, DebugInfoOffset, Encoding, Register, Format};
use crate::constants;
use crate::read::{Error, Reader, ReaderOffset, Result, UnitOffset};
use crate::vspec::*;""")
    sk.add('read::op', op.item(r'^pub enum DieReference<').clean())
    sk.add('read::op', op.item(r'^pub enum Operation<R, Offset').clean(rejrec=['R', 'Offset']))
    sk.add('read::op', op.item(r'^pub struct Expression<R: Reader>').clean(offset=False, rejrec=['R']))
    sk.module('read::unit', """use crate::common::*;
use crate::constants;
use crate::read::{Error, Reader, ReaderOffset, Result, UnitOffset, Expression};
use crate::vspec::*;""")
    sk.add('read::unit', ru.item(r'^pub enum AttributeValue<R, Offset', label='AttributeValue').clean(rejrec=['R', 'Offset']))
    sk.add('read::unit', ru.item(r'^pub struct Attribute<R: Reader>', label='Attribute(struct)').clean(offset=False, rejrec=['R']))
    at = ru.item(r'^impl<R: Reader> Attribute<R> \{', label='Attribute')
    at.keep_only(['name'])
    at.clean(offset=False).own(['C19'])
    at.insert_members('    pub closed spec fn spec_name(&self) -> constants::DwAt { self.name }')
    at.splice('name', ret='res', ensures=['res == self.spec_name()'])
    sk.add('read::unit', at)
    sk.add('read::unit', ru.item(r'^pub struct DebuggingInformationEntry<R, Offset', label='DebuggingInformationEntry(struct)').clean(rejrec=['R', 'Offset']))
    die = ru.item(r'^impl<R, Offset> DebuggingInformationEntry<R, Offset>', label='DebuggingInformationEntry')
    die.keep_only(['has_attr'])
    # `.iter().any(closure)`: iterator adapter, outside Verus -> contract assumed (TRUSTED `has_attr`)
    die.extbody(['has_attr'])
    die.clean()
    die.insert_members("""    pub open spec fn has_attr_spec(&self, name: constants::DwAt) -> bool {
        exists|i: int| 0 <= i < self.attrs@.len() && (#[trigger] self.attrs@[i]).spec_name() == name
    }""")
    die.splice('has_attr', ret='res', ensures=['res == self.has_attr_spec(name)'])
    sk.add('read::unit', die)


def populate_backedge(ctx, sk):
    """part 2: FilterUnitEntry::has_die_back_edge against the tag table"""
    wu = Source('write/unit.rs', ctx)
    M = 'write::unit::convert'
    sk.mods[M]['uses'] += """
use core::ops::Deref;
use crate::constants;
use crate::read::{self, Reader, ReaderOffset};"""
    sk.add('fspec', tag_specs(ctx), label='tag_table')
    st = wu.item(r"^    pub struct FilterUnitEntry<'a, R: Reader<Offset = usize>>", within=CONVERT, label='FilterUnitEntry(struct)')
    # R-FIELDS: `read::UnitRef` is a (&Dwarf, &Unit) pair -- all of gimli's section types -- and is not touched by has_die_back_edge
    st.custom('R-FIELDS', "pub read_unit: read::UnitRef<'a, R>,", "pub read_unit: core::marker::PhantomData<&'a R>,")
    st.clean()
    st.prepend('#[verifier::reject_recursive_types(R)]')     # R-REJREC (lib's rejrec only handles unindented items)
    ctx.count('R-REJREC')
    sk.add(M, st)
    dr = wu.item(r"^    impl<'a, R: Reader<Offset = usize>> Deref for FilterUnitEntry<'a, R>", within=CONVERT, label='Deref for FilterUnitEntry').clean()
    dr.own(['C19'])
    dr.splice('deref', ret='res', ensures=['*res == self.read_entry'])
    sk.add(M, dr)
    imp = wu.item(r"^    impl<'a, R: Reader<Offset = usize>> FilterUnitEntry<'a, R> \{", within=CONVERT, label='FilterUnitEntry')
    imp.drop(['null'])
    imp.clean()
    imp.own(['C19'])
    T = 'self.read_entry.tag'
    imp.splice('has_die_back_edge', ret='res', ensures=[
        f'[C19:backedge-member-like] member_like_tag({T}) ==> res',
        f'[C19:backedge-subprogram] {T} == constants::DW_TAG_subprogram ==> res == self.read_entry.has_attr_spec(constants::DW_AT_declaration)',
        f'[C19:backedge-standalone] standalone_tag({T}) ==> !res',
        f'[C19:backedge-unknown-conservative] !standalone_tag({T}) && {T} != constants::DW_TAG_subprogram ==> res',
    ])
    sk.add(M, imp)


def populate(ctx, sk):
    populate_deps(ctx, sk)
    populate_read_types(ctx, sk)
    populate_backedge(ctx, sk)
    return sk


def build(ctx):
    sk = FilterSkeleton(ctx, core.rd('prelude/crate.rs'))
    core.populate(ctx, sk)
    populate(ctx, sk)
    return sk
