"""B-filter: the entry filter of the read->write conversion, src/write/unit.rs `mod convert`  (DESIGN.md 6 C19).

Functions under contract (all owned by C19; verified with their real bodies unless marked):
  part 1  FilterDependencies::{add_entry, add_edge, require_entry}            effect on the abstract graph view
              graph(): Map<entry, Vec<entry>>  (dom = registered entries, graph()[e]@ = deps(e)),  req(): required list
              add_entry requires the entry to be fresh (the debug_assert), add_edge requires `from` registered (the unwrap)
          get_reachable (R-SELF: free fn, `self` -> `this`)                     R = result, g = graph, "valid" = registered
              [reach-registered] R ⊆ dom g          [reach-required] required ∩ valid ⊆ R
              [reach-closed]     e ∈ R, d ∈ deps(e), valid(d) ⇒ d ∈ R
              [reach-minimal]    R ⊆ S for EVERY set S (vstd ISet: finite or not) that is closed and ⊇ required ∩ valid
              [reach-sorted] [reach-nodup]  sorted by offset, no duplicates       [reach-terminates] measure (|unvisited|, |queue|)
  part 2  FilterUnitEntry::has_die_back_edge against the tag tables MEMBER_LIKE / STANDALONE below (written from the C19
          text and DWARF 5 ch. 3-5):  [backedge-member-like] [backedge-subprogram] [backedge-standalone]
          [backedge-unknown-conservative];  Deref for FilterUnitEntry
  part 3  FilterUnit::add_expression_refs   one clause per reference-bearing read::Operation variant of OP_REFS:
              [expr-ref-<Variant>]  every such operation of the expression has its target in deps (unit refs: if in bounds)
              [expr-ref-EntryValue] the operations of a nested DW_OP_entry_value expression are covered too
              [expr-ref-only] nothing else is added, [deps-extend] deps only grows, [expr-info-section] Err only for a
              .debug_info reference from a unit outside .debug_info; termination
          FilterUnit::add_location_refs     [loclist-refs] every entry of the location list is walked
          FilterUnit::add_attribute_refs    [attr-ref-<Variant>] per reference-bearing read::AttributeValue variant of
              ATTR_REFS, [attr-ref-only] every other variant adds nothing
          FilterUnit::require_entry         [require-in-bounds] (the debug_assert) / [require-entry]
          FilterUnit::read_entry            (real body; cursor, `value()` and `filter_attributes` are contract-only stubs)
              [entry-attr-refs]   for EVERY attribute the entry keeps, the references of its NORMALISED value
                                  (`Attribute::value()`, ghost `value_spec()`, left uninterpreted and unrelated to the raw
                                  `raw_spec()`) are in the dependency list registered for the entry: attr_covered(...) =
                                  the conjunction of the add_attribute_refs clauses.  Passing `raw_value()`, or skipping
                                  an attribute, fails this clause.
              [entry-parent-edge] the entry depends on the innermost open entry that is shallower (is_parent_at over
                                  the parent stack; it is the last recorded dependency); no such entry <=> parent None
              [entry-registered] [entry-in-bounds] [entry-terminates];
              [filter-unit-wf]    state invariant wf(): the cursor only reports offsets of its unit, every stacked parent
                                  is in bounds and registered, every registered entry lies before the cursor -- this is
                                  what discharges add_edge's `unwrap`, add_entry's `debug_assert` and the in-bounds
                                  preconditions at their call sites.  (Established by FilterUnit::new: not decided.)
          OP_REFS / ATTR_REFS are checked against the enum definitions read from source (check_tables): a variant whose
          payload can name an entry and that is in no table is `Lost` (exit 2), so a new variant cannot go unnoticed.
          read::{UnitOffset::is_in_bounds, Expression::operations, Unit::encoding, UnitHeader::{offset, encoding},
          UnitRef::{locations, locations_offset}, Deref for Unit/UnitRef}, From<read::Error> for ConvertError: real bodies.

FINDING (fixed in /repo by "fix: filtered conversion missed dependencies of three expression operations"; reproducer
  native/src/bin/f_filter_1.rs now prints ok for all cases):  add_expression_refs had no arm for ImplicitPointer,
  VariableValue and EntryValue, so [C19:expr-ref-ImplicitPointer] [C19:expr-ref-VariableValue] [C19:expr-ref-EntryValue]
  failed (a filtered conversion failed with InvalidDebugInfoRef / InvalidUnitRef where the unfiltered one succeeded).
  On the fixed tree the three clauses are proved.  The recursive walk of DW_OP_entry_value blocks terminates by
  `decreases expression.0.rv().len` ([C19:expr-terminates]): the assumed model of OperationIter::next says the remaining
  input never grows and the block of a decoded EntryValue is strictly shorter than the bytes it was decoded from (this is
  [C07:decode-entry_value] + [C01:frame] of batch `op`).  [expr-ref-only] counts an EntryValue operation as the reason for
  whatever its recursive walk adds (the same clause of the callee constrains that), and holds for Ok results.

Assumed (TRUSTED; everything the generated file marks external_body / assume_specification):
  axiom_uso_key, axiom_uso_ord      derive(Hash, Eq, Ord) on the newtype UnitSectionOffset(usize) is a lawful key / orders by .0
                                    (R-DERIVE re-adds the derives that core's R-ATTR dropped)
  HashMap::get_mut                  no vstd spec; model: slot of the key, rest of the map untouched
  <[T]>::sort_unstable              std; model: Ord-sorted permutation (closure-free, but slices sorting is outside Verus)
  R-MAP                             hashbrown::HashMap<_, _, FnvBuildHasher> -> std HashMap (vstd hash axioms): the
                                    dependency map is verified against vstd's model of std's map, not hashbrown's code
  has_attr                          `.iter().any(closure)` iterator adapter
  OperationIter::next               body is Operation::parse (batch `op`); here a ghost sequence `expr_ops(view, encoding)`
  UnitHeader::is_in_bounds          header_size()/entries_buf arithmetic (units batch); here an uninterpreted predicate
  UnitOffset::to_unit_section_offset   `+` on the abstract `T: ReaderOffset` has no Verus spec; requires in-bounds
  DebugInfoOffset::to_unit_section_offset   `!=` on derive(PartialEq) of SectionId has no Verus spec
  Dwarf::{locations, locations_offset}, LocListIter::next      MODEL types (not gimli text): read::Dwarf is the record of
                                    all section readers; results tied to uninterpreted ghost functions
  Attribute::{value, raw_value}     contract-only: res == value_spec() / raw_spec() (the normalisation itself: batch `attrs`)
  EntriesRaw (MODEL type), EntriesRaw::{is_empty, read_entry}   a read consumes input; the reported offset lies between the
                                    old and the new read position and is an offset of the cursor's unit (units batch)
  FilterUnit::filter_attributes     `retain` with a closure; assumed to change nothing but `attrs`
  Option::<&T>::copied              no vstd spec
  core's reader_clone (R-CLONE on `expression.clone()`), verif_unreachable, Result::and_then
  R-FIELDS: Unit.{abbreviations, line_program} dropped (untouched by the extracted methods)

Not decided here: FilterDependencies::default() (derived), FilterUnit::new (that it establishes wf()), which attributes
  filter_attributes drops, the child edge of read_entry (`parent.tag != DW_TAG_namespace && has_die_back_edge()` => edge
  parent -> entry: `!=` goes through the derived PartialEq of DwTag, which has no Verus spec, so the branch taken is
  unknown to the verifier; add_edge's precondition IS proved for it), the value of `entry.parent` (set through
  `Option::map` with an unannotated closure; only is-Some/is-None is known), FilterUnitSection, ConvertUnitSection::{new_with_filter, reserve_unit}, ConvertUnit::{read_entry,
  add_entry}, "writing never fails for a missing reference", attribute equality with the unfiltered conversion,
  AttributeValue::DebugTypesRef (type unit by signature) and DebugInfoRefSup (supplementary file): no edge, see ATTR_NOT_REFS.
"""
import re
import lib
from lib import *
from batches import core

TRUSTED = list(core.TRUSTED) + [
    'axiom_uso_key', 'axiom_uso_ord',
    'std::collections::HashMap::<K1, V, S, A>::get_mut', 'SliceOf::<T>::sort_unstable',
    'has_attr', 'next', 'is_in_bounds', 'to_unit_section_offset', 'locations_offset', 'locations',
    'value', 'raw_value', 'filter_attributes', 'EntriesRaw', 'is_empty', 'read_entry', 'core::option::Option::<&T>::copied',
    'Dwarf', 'LocListIter',      # abstract model types (external_body structs)
]

MULTIPLE_ERRORS = 8      # add_expression_refs has one finding per unhandled Operation variant; report all of them
CONVERT = r'^pub\(crate\) mod convert \{'


class FilterSkeleton(Skeleton):
    """`HashMap::get_mut` can only be given an `assume_specification` with its allocator parameter spelled out, which needs
    `#![feature(allocator_api)]` as a crate attribute.  It is put on the first line (no line shift for the clause map).
    (It cannot go into VERUS_ARGS as -Zcrate-attr: run.py's reseed runs do not pass VERUS_ARGS.)"""

    def emit(self):
        text, fnmap = super().emit()
        assert text.startswith('#![allow(')
        return '#![feature(allocator_api)] ' + text, fnmap


def insert_after_loop(item, fn, ordinal, ghost):
    """ghost text right after the closing brace of the `ordinal`-th loop (textual order) of fn `fn` in `item`.
    Same discipline as Item.splice(after=..): sentinel-wrapped, ghost-only text; a lost loop is `Lost`."""
    assert item.base is not None
    check_ghost(ghost)
    t = item.text
    ms = [m for m in re.finditer(r'\bfn\s+%s\b' % re.escape(fn), t) if not lib_inside(t, m.start())]
    if not ms:
        raise Lost(f'insert_after_loop: fn {fn}')
    b = body_open(t, ms[0].start())
    e = match_close(t, b)
    n, i = 0, b
    while True:
        m = LOOP_RE.search(t, i, e)
        if not m:
            raise Lost(f'insert_after_loop: loop {ordinal} of {fn}')
        if lib_inside(t, m.start()):
            i = m.end()
            continue
        k, d = m.end(), 0
        while not (t[k] == '{' and d == 0):
            if t.startswith(INS_O, k):          # skip inserted loop specs (they contain braces/parens of their own)
                k = t.index(INS_C, k) + len(INS_C)
                continue
            if t[k] in '([':
                d += 1
            elif t[k] in ')]':
                d -= 1
            k += 1
        if n == ordinal:
            c = match_close(t, k)
            item.text = t[:c + 1] + ins('\n' + ghost + '\n') + t[c + 1:]
            return item
        n += 1
        i = k


def lib_inside(t, pos):
    a = t.rfind(INS_O, 0, pos)
    return a >= 0 and t.find(INS_C, a) > pos


def populate_deps(ctx, sk):
    """part 1: FilterDependencies against the abstract graph view"""
    wu = Source('write/unit.rs', ctx)
    # UnitSectionOffset: core's R-ATTR reduced its derive list; the map key / sort need the Hash/PartialOrd/Ord derives
    # that the source has.  Their meaning is the TRUSTED axiom pair ax::axiom_uso_key / ax::axiom_uso_ord.
    uso = [c[0] for c in sk.mods['common']['chunks'] if isinstance(c[0], Item) and 'UnitSectionOffset' in c[0].header_re][0]
    if not re.search(r'#\[derive\([^\]]*\bOrd\b[^\]]*\bHash\b', uso.orig):
        raise Lost('common.rs: UnitSectionOffset no longer derives Ord + Hash')
    uso.prepend('#[derive(Hash, PartialOrd, Ord)]')
    ctx.custom.append(('R-DERIVE', 'common.rs:UnitSectionOffset', '(derives dropped by R-ATTR)', '#[derive(Hash, PartialOrd, Ord)] re-added'))
    ctx.count('R-DERIVE')

    sk.module('fspec', '''use std::collections::HashMap;
use vstd::std_specs::hash::*;
use vstd::iset::ISet;
use crate::common::UnitSectionOffset;''')
    sk.add('fspec', core.rd('specs/filter.rs'), label='fspec')

    sk.module('write', '')
    sk.module('write::unit', '')
    sk.module('write::unit::convert', '''use crate::common::UnitSectionOffset;
use crate::fspec::*;
use vstd::std_specs::hash::*;
broadcast use {vstd::std_specs::hash::group_hash_axioms, crate::fspec::ax::axiom_uso_key, crate::fspec::lemma_push_contains_b};''')
    M = 'write::unit::convert'

    # R-MAP: hashbrown + fnv are dependencies outside the verified text; std's HashMap has a vstd model
    fm = wu.item(r'^    type FnvHashMap<K, V> =', within=CONVERT, label='FnvHashMap')
    fm.custom('R-MAP', 'hashbrown::HashMap<K, V, fnv::FnvBuildHasher>', 'std::collections::HashMap<K, V>')
    sk.add(M, fm.clean())

    st = wu.item(r'^    struct FilterDependencies \{', within=CONVERT, label='FilterDependencies(struct)').clean()
    sk.add(M, st)

    # R-SELF: `mut self` by value is outside Verus -> free fn with `self` renamed `this` (DESIGN 3.1.2)
    gr = wu.item(r'^        fn get_reachable\(mut self\)', within=r'^    impl FilterDependencies \{', label='get_reachable')
    gr.custom('R-SELF', 'fn get_reachable(mut self)', 'fn get_reachable(mut this: FilterDependencies)')
    gr.custom_re('R-SELF', r'\bself\b', 'this')
    gr.clean()
    gr.own(['C19'])
    gr.insert_after('for entry in ', 'it: ')      # names the ghost iterator of the `for` (Verus syntax, no code)
    G, REQ = 'this.graph()', 'this.req()'
    gr.splice('get_reachable', ret='res', ensures=[
        f'[C19:reach-registered] reach_valid({G}, res@)',
        f'[C19:reach-required] reach_required({G}, {REQ}, res@)',
        f'[C19:reach-closed] reach_closed({G}, res@)',
        f'[C19:reach-minimal] reach_minimal({G}, {REQ}, res@)',
        '[C19:reach-sorted] sorted_by_offset(res@)',
        '[C19:reach-nodup] res@.no_duplicates()'],
        loops={
            0: '''invariant
                qprev == queue@,
                inv_part(g, this.edges@, reachable@), // [C19:reach-registered][C19:reach-nodup]
                inv_closed(g, req, reachable@, queue@, Seq::empty()), // [C19:reach-closed][C19:reach-required]
                inv_min(g, req, reachable@, queue@, Seq::empty()), // [C19:reach-minimal]
            ensures queue@.len() == 0,
            decreases this.edges@.dom().len(), queue@.len(), // [C19:reach-terminates]''',
            1: '''invariant
                this.edges@.dom().len() <= d0, // [C19:reach-terminates]
                queue@.len() == ql0 + (d0 - this.edges@.dom().len()), // [C19:reach-terminates]
                inv_part(g, this.edges@, reachable@), // [C19:reach-registered][C19:reach-nodup]
                inv_closed(g, req, reachable@, queue@, entries@.skip(it.index as int)), // [C19:reach-closed][C19:reach-required]
                inv_min(g, req, reachable@, queue@, entries@), // [C19:reach-minimal]'''},
        before=[
            ('let mut reachable = Vec::new();', 'let ghost g = this.edges@; let ghost req = this.required@; let ghost reqv = this.required;'),
            ('for entry in', 'let ghost d0 = this.edges@.dom().len(); let ghost ql0 = queue@.len();\n'
                             'proof { lemma_start(g, req, reachable@, qprev, entries, queue@); }'),
            ('if let Some(deps) = this.edges.remove(&entry)', '''let ghost cur0 = this.edges@;
                proof {
                    assert(entry == entries@[it.index as int]);
                    if cur0.contains_key(entry) {
                        lemma_step_some(g, req, cur0, reachable@, queue@, entries@, it.index as int);
                        assert(cur0.remove(entry).dom() == cur0.dom().remove(entry));
                    } else {
                        lemma_step_none(g, req, cur0, reachable@, queue@, entries@, it.index as int);
                        assert(cur0.remove(entry) =~= cur0);
                    }
                }'''),
            ('reachable.sort_unstable();', 'let ghost vis = reachable@; proof { assert(queue@ =~= Seq::<Vec<K>>::empty()); }'),
        ],
        after=[
            ('let mut queue = vec![this.required];', 'proof { lemma_init(g, reqv, queue@); }\nlet ghost mut qprev = queue@;'),
            ('reachable.sort_unstable();', 'proof { lemma_finish(g, req, this.edges@, vis, reachable@); }'),
        ])
    insert_after_loop(gr, 'get_reachable', 1,
                      'proof { assert(entries@.skip(entries@.len() as int) =~= Seq::<K>::empty()); qprev = queue@; }')

    imp = wu.item(r'^    impl FilterDependencies \{', within=CONVERT, label='FilterDependencies')
    imp.drop(['get_reachable'])        # emitted above as a free fn (R-SELF)
    imp.clean()
    imp.own(['C19'])
    imp.insert_after('impl FilterDependencies {', '''
        // ---- abstract graph view: registered entries = dom, deps(e) = graph()[e]@, required list
        spec fn graph(&self) -> G { self.edges@ }
        spec fn req(&self) -> Seq<K> { self.required@ }
''')
    OG, FG = 'old(self).graph()', 'final(self).graph()'
    imp.splice('add_entry',
               requires=[f'[C19:add-entry-fresh] !{OG}.contains_key(entry)'],
               ensures=[f'[C19:add-entry] {FG} == {OG}.insert(entry, deps)',
                        '[C19:add-entry] final(self).req() == old(self).req()'], canary=True)
    imp.splice('add_edge',
               requires=[f'[C19:add-edge-from-registered] {OG}.contains_key(from)'],
               ensures=[f'[C19:add-edge] {FG}.dom() == {OG}.dom()',
                        f'[C19:add-edge] {FG}[from]@ == {OG}[from]@.push(to)',
                        f'[C19:add-edge] forall|k: K| k != from && {OG}.contains_key(k) ==> #[trigger] {FG}[k] == {OG}[k]',
                        '[C19:add-edge] final(self).req() == old(self).req()'],
               after=[('self.edges.get_mut(&from).unwrap().push(to);', '''proof {
                let o = old(self).edges@; let n = self.edges@;
                assert(borrowed_key_removed(o, o.remove(from), &from));
                assert(n.remove(from) == o.remove(from));
                assert(n.dom() =~= o.dom()) by {
                    assert forall|k: K| n.contains_key(k) <==> o.contains_key(k) by {
                        if k != from { assert(n.remove(from).contains_key(k) <==> o.remove(from).contains_key(k)); }
                    }
                }
                assert forall|k: K| k != from && o.contains_key(k) implies #[trigger] n[k] == o[k] by {
                    assert(n.remove(from)[k] == o.remove(from)[k]);
                }
            }''')], canary=True)
    imp.splice('require_entry',
               ensures=['[C19:require-entry] final(self).req() == old(self).req().push(entry)',
                        f'[C19:require-entry] {FG} == {OG}'])
    sk.add(M, imp)
    sk.add(M, gr)
    return sk


# ------------------------------------------------------------------------------------------------ part 2: tag table
# Expected classification of DWARF tags, written from the C19 statement ("member-like children (parameters, members,
# local variables, blocks and the like)") and DWARF 5 chapters 3-5 -- NOT from the code's match.
#   MEMBER_LIKE: the entry describes a part/attribute of its parent and has no meaning without it; it is never the target
#                of a reference that would keep it alive on its own  => must have a back edge (completeness).
MEMBER_LIKE = [
    'formal_parameter', 'unspecified_parameters',                      # 3.3.4 / 5.10 parameters of a subprogram / subroutine type
    'member', 'inheritance', 'access_declaration', 'friend',           # 5.7 structure/class contents
    'variant_part', 'variant',                                         # 5.7.10
    'enumerator',                                                      # 5.9
    'subrange_type', 'generic_subrange',                               # 5.5 / 5.13 array dimensions
    'variable', 'constant',                                            # 4.1 local variables / constants of a scope
    'lexical_block', 'inlined_subroutine', 'label', 'with_stmt', 'try_block', 'catch_block',   # 3.5-3.8, 3.3.8
    'call_site', 'call_site_parameter', 'GNU_call_site', 'GNU_call_site_parameter',            # 3.4
    'template_type_parameter', 'template_value_parameter',             # 2.23
    'GNU_template_template_param', 'GNU_template_parameter_pack', 'GNU_formal_parameter_pack',
    'thrown_type', 'common_inclusion',                                 # 3.3.7, 3.3.9 children of a subprogram
    'namelist_item', 'condition',                                      # 4.3, 5.11
]
#   STANDALONE: types (5.x), dwarf procedures (reference targets), and structural scopes / imports (3.2): kept only when
#               referenced or required  => no back edge (otherwise the filter prunes nothing below a retained scope).
STANDALONE = [
    'array_type', 'atomic_type', 'base_type', 'class_type', 'coarray_type', 'const_type', 'dynamic_type', 'enumeration_type',
    'file_type', 'immutable_type', 'interface_type', 'packed_type', 'pointer_type', 'ptr_to_member_type', 'reference_type',
    'restrict_type', 'rvalue_reference_type', 'set_type', 'shared_type', 'string_type', 'structure_type', 'subroutine_type',
    'template_alias', 'typedef', 'union_type', 'unspecified_type', 'volatile_type',
    'dwarf_procedure',
    'namespace', 'module', 'imported_declaration', 'imported_module', 'imported_unit',
    'namelist', 'common_block', 'entry_point',       # judgement calls (named entities with their own location/address); see report
]


def tag_specs(ctx):
    consts = dw_consts(ctx, 'DwTag')
    known = set(re.findall(r'pub const DW_TAG_(\w+):', consts))
    for t in MEMBER_LIKE + STANDALONE + ['subprogram']:
        if t not in known:
            raise Lost(f'constants.rs: DW_TAG_{t} not found')
    assert not (set(MEMBER_LIKE) & set(STANDALONE))

    def disj(lst):
        return '\n        || '.join(f't == crate::constants::DW_TAG_{t}' for t in lst)
    return f"""
/// C19 tag table (vx/batches/filter.py MEMBER_LIKE): children that are extensions of their parent
pub open spec fn member_like_tag(t: crate::constants::DwTag) -> bool {{
        {disj(MEMBER_LIKE)}
}}
/// C19 tag table (vx/batches/filter.py STANDALONE): types, reference targets, structural scopes and imports
pub open spec fn standalone_tag(t: crate::constants::DwTag) -> bool {{
        {disj(STANDALONE)}
}}
"""


def populate_read_types(ctx, sk):
    """read-side data types the filter code mentions (definitions only, real text)"""
    op = Source('read/op.rs', ctx)
    ru = Source('read/unit.rs', ctx)
    sk.mods['read']['uses'] += '\npub use self::op::*;\npub use self::unit::*;'
    sk.module('read::op', """use crate::common::{DebugAddrIndex, DebugInfoOffset, Encoding, Register, Format};
use crate::constants;
use crate::read::{Error, Reader, ReaderOffset, Result, UnitOffset};
use crate::vspec::*;""")
    sk.add('read::op', op.item(r'^pub enum DieReference<').clean())
    sk.add('read::op', op.item(r'^pub enum Operation<R, Offset').clean(rejrec=['R', 'Offset']))
    sk.add('read::op', op.item(r'^pub struct Expression<R: Reader>').clean(offset=False, rejrec=['R']))
    sk.module('read::unit', """use crate::common::*;
use crate::constants;
use crate::read::{Error, Reader, ReaderOffset, Result, UnitOffset, Expression};
use crate::vspec::*;""")
    sk.add('read::unit', ru.item(r'^pub enum AttributeValue<R, Offset', label='AttributeValue').clean(rejrec=['R', 'Offset']))
    sk.add('read::unit', ru.item(r'^pub struct Attribute<R: Reader>', label='Attribute(struct)').clean(offset=False, rejrec=['R']))
    at = ru.item(r'^impl<R: Reader> Attribute<R> \{', label='Attribute')
    at.keep_only(['name', 'raw_value', 'value'])
    # contract-only here: `value()` is the 600-line normalisation verified against DWARF tables 7.5/7.6 in batch `attrs`
    # (value_spec is left uninterpreted: the filter must pass exactly this value on, whatever it is); raw_value is `.clone()`
    at.extbody(['raw_value', 'value'])
    at.clean(offset=False).own(['C19'])
    at.insert_members('''    pub closed spec fn spec_name(&self) -> constants::DwAt { self.name }
    /// the NORMALISED value (what `value()` returns)
    pub uninterp spec fn value_spec(&self) -> AttributeValue<R>;
    /// the raw value as decoded from the form
    pub closed spec fn raw_spec(&self) -> AttributeValue<R> { self.value }''')
    at.splice('name', ret='res', ensures=['res == self.spec_name()'])
    at.splice('raw_value', ret='res', ensures=['res == self.raw_spec()'])
    at.splice('value', ret='res', ensures=['res == self.value_spec()'])
    sk.add('read::unit', at)
    sk.add('read::unit', ru.item(r'^pub struct DebuggingInformationEntry<R, Offset', label='DebuggingInformationEntry(struct)').clean(rejrec=['R', 'Offset']))
    die = ru.item(r'^impl<R, Offset> DebuggingInformationEntry<R, Offset>', label='DebuggingInformationEntry')
    die.keep_only(['has_attr', 'has_children'])
    # `.iter().any(closure)`: iterator adapter, outside Verus -> contract assumed (TRUSTED `has_attr`)
    die.extbody(['has_attr'])
    die.clean()
    die.insert_members("""    pub open spec fn has_attr_spec(&self, name: constants::DwAt) -> bool {
        exists|i: int| 0 <= i < self.attrs@.len() && (#[trigger] self.attrs@[i]).spec_name() == name
    }""")
    die.splice('has_attr', ret='res', ensures=['res == self.has_attr_spec(name)'])
    die.splice('has_children', ret='res', ensures=['res == self.has_children'])
    die.own(['C19'])
    sk.add('read::unit', die)


def populate_backedge(ctx, sk):
    """part 2: FilterUnitEntry::has_die_back_edge against the tag table"""
    wu = Source('write/unit.rs', ctx)
    M = 'write::unit::convert'
    sk.mods[M]['uses'] += """
use core::ops::Deref;
use crate::constants;
use crate::read::{self, Reader, ReaderOffset};"""
    sk.add('fspec', tag_specs(ctx), label='tag_table')
    st = wu.item(r"^    pub struct FilterUnitEntry<'a, R: Reader<Offset = usize>>", within=CONVERT, label='FilterUnitEntry(struct)')
    st.clean()
    st.prepend('#[verifier::reject_recursive_types(R)]')     # R-REJREC (lib's rejrec only handles unindented items)
    ctx.count('R-REJREC')
    sk.add(M, st)
    dr = wu.item(r"^    impl<'a, R: Reader<Offset = usize>> Deref for FilterUnitEntry<'a, R>", within=CONVERT, label='Deref for FilterUnitEntry').clean()
    dr.own(['C19'])
    dr.splice('deref', ret='res', ensures=['*res == self.read_entry'])
    sk.add(M, dr)
    imp = wu.item(r"^    impl<'a, R: Reader<Offset = usize>> FilterUnitEntry<'a, R> \{", within=CONVERT, label='FilterUnitEntry')
    imp.drop(['null'])
    imp.clean()
    imp.own(['C19'])
    T = 'self.read_entry.tag'
    imp.splice('has_die_back_edge', ret='res', ensures=[
        f'[C19:backedge-member-like] member_like_tag({T}) ==> res',
        f'[C19:backedge-subprogram] {T} == constants::DW_TAG_subprogram ==> res == self.read_entry.has_attr_spec(constants::DW_AT_declaration)',
        f'[C19:backedge-standalone] standalone_tag({T}) ==> !res',
        f'[C19:backedge-unknown-conservative] !standalone_tag({T}) && {T} != constants::DW_TAG_subprogram ==> res',
    ])
    sk.add(M, imp)


# ------------------------------------------------------------------------------------------------ part 3: reference tables
# Which variants of read::Operation / read::AttributeValue name a debugging information entry (DWARF 5 2.5.1, 7.5.5 and
# the GNU extensions gimli decodes) -- written from the standard, NOT from the `match`es in add_*_refs.
#   kind 'unit'  : a UnitOffset, relative to the unit of the expression (edge iff the offset is in the unit's bounds)
#   kind 'info'  : a DebugInfoOffset (section offset)
#   kind 'nested': a nested expression whose own operations must be walked
OP_REFS = [
    ('Deref', 'Operation::Deref { base_type: x, size: _, space: _ }', 'unit'),            # DW_OP_deref_type / xderef_type
    ('RegisterOffset', 'Operation::RegisterOffset { register: _, offset: _, base_type: x }', 'unit'),   # DW_OP_regval_type
    ('TypedLiteral', 'Operation::TypedLiteral { base_type: x, value: _ }', 'unit'),       # DW_OP_const_type
    ('Convert', 'Operation::Convert { base_type: x }', 'unit'),                           # DW_OP_convert
    ('Reinterpret', 'Operation::Reinterpret { base_type: x }', 'unit'),                   # DW_OP_reinterpret
    ('ParameterRef', 'Operation::ParameterRef { offset: x }', 'unit'),                    # DW_OP_GNU_parameter_ref
    ('Call-unit', 'Operation::Call { offset: DieReference::UnitRef(x) }', 'unit'),        # DW_OP_call2 / call4
    ('Call-info', 'Operation::Call { offset: DieReference::DebugInfoRef(x) }', 'info'),   # DW_OP_call_ref
    ('ImplicitPointer', 'Operation::ImplicitPointer { value: x, byte_offset: _ }', 'info'),   # DW_OP_implicit_pointer
    ('VariableValue', 'Operation::VariableValue { offset: x }', 'info'),                  # DW_OP_GNU_variable_value
    ('EntryValue', 'Operation::EntryValue { expression: x }', 'nested'),                  # DW_OP_entry_value
]
# payload types (as written in the enum definitions) that can name an entry; used to check OP_REFS / ATTR_REFS against
# the enum definitions read from source: a variant with such a payload that is in neither table is `Lost` (exit 2).
OP_REF_FIELD = re.compile(r'\b(UnitOffset<Offset>|DebugInfoOffset<Offset>|DieReference<Offset>|expression: R\b)')
ATTR_REFS = {          # variant -> how it contributes
    'UnitRef': 'unit', 'DebugInfoRef': 'info', 'Exprloc': 'expr', 'LocationListsRef': 'loclist', 'DebugLocListsIndex': 'loclist-index'}
ATTR_NOT_REFS = {      # payload could name an entry, but not one of this conversion (reason in the report)
    'DebugInfoRefSup': 'entry of the supplementary object file, never part of this conversion',
    'DebugTypesRef': 'type unit named by signature (no offset); passed through unchanged by the conversion; not decided'}
ATTR_REF_FIELD = re.compile(r'\((UnitOffset<Offset>|DebugInfoOffset<Offset>|Expression<R>|LocationListsOffset<Offset>|DebugLocListsIndex<Offset>|DebugTypeSignature)\)')


def enum_variants(item_text):
    """[(name, payload text)] of the variants of an enum item (comment-stripped text)"""
    b = body_open(item_text, re.search(r'\benum\b', item_text).start())
    e = match_close(item_text, b)
    out = []
    for part in lib._split_top(item_text[b + 1:e]):
        part = re.sub(r'#\[[^\]]*\]', '', part).strip()
        m = re.match(r'(\w+)\s*(.*)$', part, re.S)
        out.append((m.group(1), m.group(2)))
    return out


def check_tables(op_enum, attr_enum):
    ops = dict(enum_variants(op_enum))
    named = set(n.split('-')[0] for n, _, _ in OP_REFS)
    for v, payload in ops.items():
        if OP_REF_FIELD.search(payload) and v not in named:
            raise Lost(f'read::Operation::{v} carries an entry reference ({one_line(payload)}) but is not classified in OP_REFS')
    for v in named:
        if v not in ops or not OP_REF_FIELD.search(ops[v]):
            raise Lost(f'read::Operation::{v} (OP_REFS) no longer carries an entry reference')
    attrs = dict(enum_variants(attr_enum))
    for v, payload in attrs.items():
        if ATTR_REF_FIELD.search(payload) and v not in ATTR_REFS and v not in ATTR_NOT_REFS:
            raise Lost(f'read::AttributeValue::{v}{one_line(payload)} may reference an entry but is not classified in ATTR_REFS')
    for v in list(ATTR_REFS) + list(ATTR_NOT_REFS):
        if v not in attrs or not ATTR_REF_FIELD.search(attrs[v]):
            raise Lost(f'read::AttributeValue::{v} (ATTR_REFS) no longer has a reference payload')


def ident(v):
    return v.replace('-', '_')


def ref_specs():
    """spec fns generated from OP_REFS (module crate::fspec)"""
    out = ['''
// ---- part 3: which entries an expression references (generated from OP_REFS in vx/batches/filter.py)
pub type Hdr<R> = crate::read::UnitHeader<R, usize>;
pub type Op<R> = crate::read::Operation<R, usize>;
/// the operations `OperationIter` yields for the expression bytes `v` (up to the end or the first decode error)
pub uninterp spec fn expr_ops<R: Reader<Offset = usize>>(v: RView, enc: Encoding) -> Seq<Op<R>>;
/// the entries `LocListIter` yields for the location list at `offset` (up to the end of the list)
pub uninterp spec fn loclist_entries<R: Reader<Offset = usize>>(dwarf: &crate::read::Dwarf<R>, unit: &crate::read::Unit<R>, offset: LocationListsOffset<usize>) -> Seq<crate::read::LocationListEntry<R>>;
pub uninterp spec fn loclists_offset_spec<R: Reader<Offset = usize>>(dwarf: &crate::read::Dwarf<R>, unit: &crate::read::Unit<R>, index: DebugLocListsIndex<usize>) -> LocationListsOffset<usize>;
/// section offset of the entry at unit offset `o`
pub open spec fn uso_unit<R: Reader<Offset = usize>>(h: Hdr<R>, o: crate::read::UnitOffset<usize>) -> K { UnitSectionOffset((h.spec_offset().0 + o.0) as usize) }
pub broadcast proof fn lemma_push_contains_b(v: Seq<K>, x: K, k: K)
    ensures #[trigger] v.push(x).contains(k) <==> (v.contains(k) || k == x)
{ lemma_push_contains(v, x); }
''']
    direct = []
    for v, pat, kind in OP_REFS:
        n = ident(v)
        if kind == 'unit':
            body = f'op matches {pat} ==> (h.in_bounds_spec(x) ==> deps.contains(uso_unit(h, x)))'
            tgt = f'(op matches {pat} && h.in_bounds_spec(x) && t == uso_unit(h, x))'
        elif kind == 'info':
            body = f'op matches {pat} ==> deps.contains(UnitSectionOffset(x.0))'
            tgt = f'(op matches {pat} && t == UnitSectionOffset(x.0))'
        else:
            continue
        direct.append((n, tgt))
        out.append(f'''pub open spec fn cov1_{n}<R: Reader<Offset = usize>>(h: Hdr<R>, op: Op<R>, deps: Seq<K>) -> bool {{ {body} }}
pub open spec fn covers_{n}<R: Reader<Offset = usize>>(h: Hdr<R>, ops: Seq<Op<R>>, deps: Seq<K>) -> bool {{
    forall|i: int| 0 <= i < ops.len() ==> cov1_{n}(h, #[trigger] ops[i], deps)
}}''')
    conj = ' && '.join(f'covers_{n}(h, ops, deps)' for n, _ in direct)
    out.append(f'''/// every direct entry reference of `ops` is in deps
pub open spec fn covers_direct<R: Reader<Offset = usize>>(h: Hdr<R>, ops: Seq<Op<R>>, deps: Seq<K>) -> bool {{ {conj} }}
/// `t` is the entry directly referenced by `op`
pub open spec fn direct_target<R: Reader<Offset = usize>>(h: Hdr<R>, op: Op<R>, t: K) -> bool {{
    {' || '.join(t for _, t in direct)}
}}
/// `t` may be recorded on account of `op`: it is its direct target, or `op` is a DW_OP_entry_value (whose nested walk is
/// constrained by the same clause of the recursive call)
pub open spec fn op_target<R: Reader<Offset = usize>>(h: Hdr<R>, op: Op<R>, t: K) -> bool {{
    direct_target(h, op, t) || op is EntryValue
}}
/// every element of deps from index n0 on is recorded on account of one of the first k operations
pub open spec fn only_refs<R: Reader<Offset = usize>>(h: Hdr<R>, ops: Seq<Op<R>>, k: int, deps: Seq<K>, n0: int) -> bool {{
    forall|j: int| n0 <= j < deps.len() ==> exists|i: int| 0 <= i < k && op_target(h, #[trigger] ops[i], #[trigger] deps[j])
}}
pub proof fn lemma_contains_prefix(a: Seq<K>, b: Seq<K>)
    requires a.is_prefix_of(b),
    ensures forall|k: K| #![trigger a.contains(k)] a.contains(k) ==> b.contains(k), forall|j: int| 0 <= j < a.len() ==> #[trigger] b[j] == a[j],
{{
    assert forall|k: K| #![trigger a.contains(k)] a.contains(k) implies b.contains(k) by {{ let i = choose|i: int| 0 <= i < a.len() && a[i] == k; assert(b[i] == k); }}
}}
pub proof fn lemma_direct_mono<R: Reader<Offset = usize>>(h: Hdr<R>, ops: Seq<Op<R>>, a: Seq<K>, b: Seq<K>)
    requires covers_direct(h, ops, a), a.is_prefix_of(b),
    ensures covers_direct(h, ops, b),
{{
    lemma_contains_prefix(a, b);
}}
pub open spec fn cov1_EntryValue<R: Reader<Offset = usize>>(h: Hdr<R>, enc: Encoding, op: Op<R>, deps: Seq<K>) -> bool {{
    op matches Operation::EntryValue {{ expression: x }} ==> covers_direct(h, expr_ops::<R>(x.rv(), enc), deps)
}}
/// the operations of every nested DW_OP_entry_value expression are covered (one level; deeper levels follow from the callee contract of a recursive walk)
pub open spec fn covers_EntryValue<R: Reader<Offset = usize>>(h: Hdr<R>, enc: Encoding, ops: Seq<Op<R>>, deps: Seq<K>) -> bool {{
    forall|i: int| 0 <= i < ops.len() ==> cov1_EntryValue(h, enc, #[trigger] ops[i], deps)
}}
/// all of the above for one expression
pub open spec fn covers_expr<R: Reader<Offset = usize>>(h: Hdr<R>, enc: Encoding, v: RView, deps: Seq<K>) -> bool {{
    covers_direct(h, expr_ops::<R>(v, enc), deps) && covers_EntryValue(h, enc, expr_ops::<R>(v, enc), deps)
}}
pub open spec fn covers_loclist<R: Reader<Offset = usize>>(h: Hdr<R>, enc: Encoding, l: Seq<crate::read::LocationListEntry<R>>, deps: Seq<K>) -> bool {{
    forall|i: int| 0 <= i < l.len() ==> covers_expr::<R>(h, enc, (#[trigger] l[i]).data.0.rv(), deps)
}}
pub proof fn lemma_covers_mono<R: Reader<Offset = usize>>(h: Hdr<R>, enc: Encoding, v: RView, a: Seq<K>, b: Seq<K>)
    requires covers_expr::<R>(h, enc, v, a), a.is_prefix_of(b),
    ensures covers_expr::<R>(h, enc, v, b),
{{
    assert forall|k: K| a.contains(k) implies b.contains(k) by {{ let i = choose|i: int| 0 <= i < a.len() && a[i] == k; assert(b[i] == k); }}
    let ops = expr_ops::<R>(v, enc);
    assert forall|i: int| 0 <= i < ops.len() implies cov1_EntryValue(h, enc, #[trigger] ops[i], b) by {{
        assert(cov1_EntryValue(h, enc, ops[i], a));
    }}
}}
pub proof fn lemma_loclist_mono<R: Reader<Offset = usize>>(h: Hdr<R>, enc: Encoding, l: Seq<crate::read::LocationListEntry<R>>, a: Seq<K>, b: Seq<K>)
    requires covers_loclist(h, enc, l, a), a.is_prefix_of(b),
    ensures covers_loclist(h, enc, l, b),
{{
    assert forall|i: int| 0 <= i < l.len() implies covers_expr::<R>(h, enc, (#[trigger] l[i]).data.0.rv(), b) by {{
        lemma_covers_mono::<R>(h, enc, l[i].data.0.rv(), a, b);
    }}
}}
/// in the parent stack ps (depth, offset), element j is the innermost one that is shallower than depth d
pub open spec fn is_parent_at(ps: Seq<(isize, crate::read::UnitOffset<usize>)>, d: isize, j: int) -> bool {{
    0 <= j < ps.len() && ps[j].0 < d && forall|j2: int| j < j2 < ps.len() ==> (#[trigger] ps[j2]).0 >= d
}}
pub type AV<R> = crate::read::AttributeValue<R, usize>;
/// every entry that the attribute value `value` references (directly, from its expression or its location list) is in deps
/// -- the conjunction of the [C19:attr-ref-*] clauses of add_attribute_refs (ATTR_REFS)
pub open spec fn attr_covered<R: Reader<Offset = usize>>(h: Hdr<R>, enc: Encoding, dwarf: &crate::read::Dwarf<R>, unit: &crate::read::Unit<R>, value: AV<R>, deps: Seq<K>) -> bool {{
    &&& (value matches AttributeValue::UnitRef(x) ==> (h.in_bounds_spec(x) ==> deps.contains(uso_unit(h, x))))
    &&& (value matches AttributeValue::DebugInfoRef(x) ==> deps.contains(UnitSectionOffset(x.0)))
    &&& (value matches AttributeValue::Exprloc(x) ==> covers_expr::<R>(h, enc, x.0.rv(), deps))
    &&& (value matches AttributeValue::LocationListsRef(x) ==> covers_loclist(h, enc, loclist_entries(dwarf, unit, x), deps))
    &&& (value matches AttributeValue::DebugLocListsIndex(x) ==> covers_loclist(h, enc, loclist_entries(dwarf, unit, loclists_offset_spec(dwarf, unit, x)), deps))
}}
pub proof fn lemma_attr_covered_mono<R: Reader<Offset = usize>>(h: Hdr<R>, enc: Encoding, dwarf: &crate::read::Dwarf<R>, unit: &crate::read::Unit<R>, value: AV<R>, a: Seq<K>, b: Seq<K>)
    requires attr_covered(h, enc, dwarf, unit, value, a), a.is_prefix_of(b),
    ensures attr_covered(h, enc, dwarf, unit, value, b),
{{
    lemma_contains_prefix(a, b);
    match value {{
        AttributeValue::Exprloc(x) => {{ lemma_covers_mono::<R>(h, enc, x.0.rv(), a, b); }}
        AttributeValue::LocationListsRef(x) => {{ lemma_loclist_mono(h, enc, loclist_entries(dwarf, unit, x), a, b); }}
        AttributeValue::DebugLocListsIndex(x) => {{ lemma_loclist_mono(h, enc, loclist_entries(dwarf, unit, loclists_offset_spec(dwarf, unit, x)), a, b); }}
        _ => {{}}
    }}
}}''')
    return '\n'.join(out)


DWARF_MODEL = '''
// ---- MODEL (not gimli text): `read::Dwarf` is a record of all section readers; the filter only calls the two methods
// below on it.  Their results are tied to uninterpreted ghost functions (what the sections contain is not modelled).
#[verifier::external_body]
#[verifier::reject_recursive_types(R)]
#[derive(Debug)]
pub struct Dwarf<R: Reader> { pub model_only: core::marker::PhantomData<R> }
impl<R: Reader<Offset = usize>> Dwarf<R> {
    #[verifier::external_body]
    pub fn locations_offset(&self, unit: &Unit<R>, index: DebugLocListsIndex<R::Offset>) -> (res: Result<LocationListsOffset<R::Offset>>)
        ensures res matches Ok(o) ==> o == loclists_offset_spec(self, unit, index)
    { unimplemented!() }
    #[verifier::external_body]
    pub fn locations(&self, unit: &Unit<R>, offset: LocationListsOffset<R::Offset>) -> (res: Result<LocListIter<R>>)
        ensures res matches Ok(it) ==> it.entries() == loclist_entries(self, unit, offset)
    { unimplemented!() }
}
'''

ENTRIES_MODEL = '''
// ---- MODEL (not gimli text): the raw DIE cursor `EntriesRaw` (reader + abbreviations + depth) is an abstract type.
// Assumed about it (units batch: C01 progress / C02 offsets): a read consumes input; the reported entry offset lies at or
// after the previous read position and before the new one; every offset it reports is one of its unit (`yields`).
#[verifier::external_body]
#[verifier::reject_recursive_types(R)]
#[derive(Debug)]
pub struct EntriesRaw<'abbrev, R: Reader> { pub model_only: core::marker::PhantomData<&'abbrev R> }
impl<'abbrev, R: Reader<Offset = usize>> EntriesRaw<'abbrev, R> {
    pub uninterp spec fn remaining(&self) -> nat;
    pub uninterp spec fn next_off(&self) -> nat;
    pub uninterp spec fn yields(&self, o: UnitOffset<usize>) -> bool;
    #[verifier::external_body]
    pub fn is_empty(&self) -> (res: bool)
        ensures res == (self.remaining() == 0)
    { unimplemented!() }
    #[verifier::external_body]
    pub fn read_entry(&mut self, entry: &mut DebuggingInformationEntry<R>) -> (res: Result<bool>)
        ensures
            res is Ok ==> final(self).remaining() < old(self).remaining(),
            final(self).next_off() >= old(self).next_off(),
            forall|o: UnitOffset<usize>| final(self).yields(o) == old(self).yields(o),
            res matches Ok(true) ==> old(self).yields(final(entry).offset) && old(self).next_off() <= final(entry).offset.0 < final(self).next_off(),
    { unimplemented!() }
}
pub assume_specification<'a, T>[core::option::Option::<&T>::copied](o: Option<&'a T>) -> (r: Option<T>)
    where T: Copy
    ensures r == (match o { Some(x) => Some(*x), None => None::<T> });
'''

LOCLIST_MODEL = '''
// ---- MODEL (not gimli text): `LocListIter` (raw iterator + .debug_addr + base address) is an abstract type (its state
// is opaque: external_body); `next` yields the ghost entry sequence one by one; Ok(None) only at its end.
#[verifier::external_body]
#[verifier::reject_recursive_types(R)]
#[derive(Debug)]
pub struct LocListIter<R: Reader> { pub model_only: core::marker::PhantomData<R> }
impl<R: Reader<Offset = usize>> LocListIter<R> {
    pub uninterp spec fn entries(&self) -> Seq<LocationListEntry<R>>;
    #[verifier::external_body]
    pub fn next(&mut self) -> (res: Result<Option<LocationListEntry<R>>>)
        ensures
            res matches Ok(Some(e)) ==> old(self).entries().len() > 0 && e == old(self).entries()[0] && final(self).entries() == old(self).entries().skip(1),
            res matches Ok(None) ==> old(self).entries().len() == 0 && final(self).entries() == old(self).entries(),
    { unimplemented!() }
}
'''


def populate_refs(ctx, sk):
    """part 3: FilterUnit::{add_attribute_refs, add_expression_refs, add_location_refs, require_entry}"""
    wu = Source('write/unit.rs', ctx)
    wm = Source('write/mod.rs', ctx)
    op = Source('read/op.rs', ctx)
    ru = Source('read/unit.rs', ctx)
    rdw = Source('read/dwarf.rs', ctx)
    rll = Source('read/loclists.rs', ctx)
    rrl = Source('read/rnglists.rs', ctx)
    M = 'write::unit::convert'
    check_tables(op.item(r'^pub enum Operation<R, Offset').clean().text, ru.item(r'^pub enum AttributeValue<R, Offset').clean().text)
    sk.mods['fspec']['uses'] += '''
use crate::common::*;
use crate::read::{Reader, Operation, DieReference, AttributeValue};
use crate::vspec::RView;'''
    sk.add('fspec', ref_specs(), label='ref_tables')

    # ---- read::op: Expression::operations (real), OperationIter (real struct; `next` contract-only)
    sk.mods['read::op']['uses'] += '\nuse crate::fspec::*;'
    ex = op.item(r'^impl<R: Reader> Expression<R> \{', label='Expression')
    ex.keep_only(['operations'])
    ex.clean().own(['C19'])
    ex.splice('operations', ret='res', ensures=['res.ops() == expr_ops::<R>(self.0.rv(), encoding)', 'res.view() == self.0.rv()'])
    sk.add('read::op', op.item(r'^pub struct OperationIter<R: Reader>', label='OperationIter(struct)').clean(rejrec=['R']))
    oi = op.item(r'^impl<R: Reader> OperationIter<R> \{', label='OperationIter')
    oi.keep_only(['next'])
    # body = Operation::parse (verified in batch `op`, [C01:progress] makes the ghost sequence finite); here contract-only
    oi.extbody(['next'])
    oi.clean()
    oi.insert_members('''    pub closed spec fn ops(&self) -> Seq<Operation<R>> { expr_ops::<R>(self.input.rv(), self.encoding) }
    pub closed spec fn view(&self) -> RView { self.input.rv() }''')
    oi.splice('next', ret='res', ensures=[
        'res matches Ok(Some(op)) ==> old(self).ops().len() > 0 && op == old(self).ops()[0] && final(self).ops() == old(self).ops().skip(1)',
        '!(res matches Ok(Some(_))) ==> old(self).ops().len() == 0 && final(self).ops() == old(self).ops()',
        # the remaining input never grows, and the block of a decoded DW_OP_entry_value is a strict window of the bytes it
        # was decoded from (batch `op`: [C07:decode-entry_value] window(b0, expression.rv(), p1, o0) with p1 >= 2, [C01:frame])
        'final(self).view().len <= old(self).view().len',
        'res matches Ok(Some(op)) ==> (op matches Operation::EntryValue { expression: x } ==> x.rv().len < old(self).view().len)'])
    sk.add('read::op', oi)
    sk.add('read::op', ex)

    # ---- read::unit: UnitType, UnitHeader (real), offset helpers
    sk.mods['read::unit']['uses'] += '\nuse crate::fspec::*;'
    sk.add('read::unit', ru.item(r'^pub enum UnitType<Offset>', label='UnitType').clean(rejrec=['Offset']))
    sk.add('common', Source('common.rs', ctx).item(r'^pub enum SectionId').clean())
    sk.add('read::unit', ru.item(r'^pub struct UnitHeader<R, Offset', label='UnitHeader(struct)').clean(rejrec=['R', 'Offset']))
    uh = ru.item(r'^impl<R, Offset> UnitHeader<R, Offset>\s+where\s+R: Reader<Offset = Offset>,\s+Offset: ReaderOffset,\s+\{\s+pub fn section\(', label='UnitHeader', with_attrs=False)    # the 'instance methods' impl
    uh.keep_only(['offset', 'encoding', 'is_in_bounds'])
    # header_size()/entries_buf arithmetic belongs to the units batch; here the bound is an uninterpreted predicate
    uh.extbody(['is_in_bounds'])
    uh.clean()
    uh.insert_members('''    pub closed spec fn spec_offset(&self) -> UnitSectionOffset<Offset> { self.unit_offset }
    pub closed spec fn spec_section(&self) -> SectionId { self.section }
    pub closed spec fn spec_encoding(&self) -> Encoding { self.encoding }
    pub uninterp spec fn in_bounds_spec(&self, offset: UnitOffset<Offset>) -> bool;''')
    uh.splice('offset', ret='res', ensures=['res == self.spec_offset()'])
    uh.splice('encoding', ret='res', ensures=['res == self.spec_encoding()'])
    uh.splice('is_in_bounds', ret='res', ensures=['res == self.in_bounds_spec(offset)'])
    uh.own(['C19'])
    sk.add('read::unit', uh)
    dio = ru.item(r'^impl<T: ReaderOffset> DebugInfoOffset<T> \{', label='DebugInfoOffset')
    dio.keep_only(['to_unit_section_offset'])
    dio.extbody(['to_unit_section_offset'])      # `!=` on the derived PartialEq of SectionId has no Verus spec
    dio.clean(offset=False)
    dio.splice('to_unit_section_offset', ret='res', ensures=[
        'res == (if unit.spec_section() == SectionId::DebugInfo { Some(UnitSectionOffset(self.0)) } else { None::<UnitSectionOffset<T>> })'])
    sk.add('read::unit', dio)
    uo = ru.item(r'^impl<T: ReaderOffset> UnitOffset<T> \{', label='UnitOffset')
    uo.keep_only(['is_in_bounds', 'to_unit_section_offset'])
    uo.extbody(['to_unit_section_offset'])       # `+` on the abstract `T: ReaderOffset` (Add trait) has no Verus spec
    uo.clean(offset=False)
    uo.own(['C19'])
    uo.splice('is_in_bounds', ret='res', ensures=['res == unit.in_bounds_spec(*self)'])
    uo.splice('to_unit_section_offset', ret='res',
              requires=['[C19:uso-in-bounds] unit.in_bounds_spec(*self)'],
              ensures=['res.0.as_nat() == unit.spec_offset().0.as_nat() + self.0.as_nat()'])
    sk.add('read::unit', uo)
    sk.add('read::unit', ENTRIES_MODEL, label='EntriesRaw(model)')

    # ---- read::{rnglists, loclists, dwarf}
    sk.mods['read']['uses'] += '\npub use self::rnglists::*;\npub use self::loclists::*;\npub use self::dwarf::*;'
    sk.module('read::rnglists', '')
    sk.add('read::rnglists', rrl.item(r'^pub struct Range \{', label='Range').clean())
    sk.module('read::loclists', 'use crate::read::{Reader, Result, Expression, Range};')
    sk.add('read::loclists', rll.item(r'^pub struct LocationListEntry<R: Reader>', label='LocationListEntry').clean(rejrec=['R']))
    sk.add('read::loclists', LOCLIST_MODEL, label='LocListIter(model)')
    sk.module('read::dwarf', '''use crate::common::*;
use crate::read::{Reader, ReaderOffset, Result, UnitHeader, LocListIter, LocationListEntry};
use crate::fspec::*;''')
    sk.add('read::dwarf', DWARF_MODEL, label='Dwarf(model)')
    un = rdw.item(r'^pub struct Unit<R, Offset', label='Unit(struct)')
    # R-FIELDS: abbreviation table and line program header are outside the extracted subset and untouched by the filter code
    un.custom('R-FIELDS', 'pub abbreviations: Arc<Abbreviations>,', '')
    un.custom('R-FIELDS', 'pub line_program: Option<IncompleteLineProgram<R, Offset>>,', '')
    sk.add('read::dwarf', un.clean(rejrec=['R', 'Offset']))
    ud = rdw.item(r'^impl<R: Reader> core::ops::Deref for Unit<R>', label='Deref for Unit').clean()
    ud.own(['C19']).splice('deref', ret='res', ensures=['*res == self.header'])
    sk.add('read::dwarf', ud)
    ui = rdw.item(r'^impl<R: Reader> Unit<R> \{', label='Unit')
    ui.keep_only(['encoding'])
    ui.clean().own(['C19'])
    ui.splice('encoding', ret='res', ensures=['res == self.header.spec_encoding()'])
    sk.add('read::dwarf', ui)
    sk.add('read::dwarf', rdw.item(r"^pub struct UnitRef<'a, R: Reader>", label='UnitRef(struct)').clean(rejrec=['R']))
    sk.add('read::dwarf', rdw.item(r"^impl<'a, R: Reader> Clone for UnitRef<'a, R>", label='Clone for UnitRef').clean().own(['C19']))
    sk.add('read::dwarf', rdw.item(r"^impl<'a, R: Reader> Copy for UnitRef<'a, R>", label='Copy for UnitRef').clean())
    urd = rdw.item(r"^impl<'a, R: Reader> core::ops::Deref for UnitRef<'a, R>", label='Deref for UnitRef').clean()
    urd.own(['C19']).splice('deref', ret='res', ensures=['*res == self.unit'])
    sk.add('read::dwarf', urd)
    uri = rdw.item(r"^impl<'a, R: Reader> UnitRef<'a, R> \{", label='UnitRef')
    uri.keep_only(['locations_offset', 'locations'])
    uri.clean().own(['C19'])
    uri.splice('locations_offset', ret='res', ensures=['res matches Ok(o) ==> o == loclists_offset_spec(self.dwarf, self.unit, index)'])
    uri.splice('locations', ret='res', ensures=['res matches Ok(it) ==> it.entries() == loclist_entries(self.dwarf, self.unit, offset)'])
    sk.add('read::dwarf', uri)

    # ---- write: Error, ConvertError, From<read::Error>
    sk.mods['write']['uses'] += '\nuse core::result;\nuse crate::read;\nuse crate::constants;\npub use self::unit::*;'
    sk.add('write', wm.item(r'^pub enum Error \{', label='Error').clean())
    sk.add('write', wm.item(r'^    pub enum ConvertError \{', label='ConvertError').clean())
    fr = wm.item(r'^    impl From<read::Error> for ConvertError', label='From<read::Error> for ConvertError').clean()
    fr.own(['C19'])
    sk.add('write', fr)
    sk.add('write', '''impl vstd::std_specs::convert::FromSpecImpl<read::Error> for ConvertError {
    open spec fn obeys_from_spec() -> bool { true }
    open spec fn from_spec(e: read::Error) -> Self { ConvertError::Read(e) }
}''', label='FromSpecImpl')
    sk.add('write', wm.item(r'^    pub type ConvertResult<T>', label='ConvertResult').clean())
    sk.mods['write::unit']['uses'] += '\npub use self::convert::*;'
    sk.mods[M]['uses'] += '''
use crate::common::{DebugInfoOffset, LocationListsOffset, DebugLocListsIndex, Encoding};
use crate::write::{ConvertError, ConvertResult};
use crate::read::reader_clone;'''

    sk.add(M, wu.item(r'^    struct FilterParent \{', within=CONVERT, label='FilterParent').clean())
    fu = wu.item(r"^    pub struct FilterUnit<'a, R: Reader<Offset = usize>>", within=CONVERT, label='FilterUnit(struct)')
    fu.clean()
    fu.prepend('#[verifier::reject_recursive_types(R)]')
    ctx.count('R-REJREC')
    sk.add(M, fu)
    return wu


def populate_filter_unit(ctx, sk, wu):
    M = 'write::unit::convert'
    imp = wu.item(r"^    impl<'a, R: Reader<Offset = usize>> FilterUnit<'a, R> \{", within=CONVERT, label='FilterUnit')
    # not extracted: `new` (abbreviation lookup), `null_entry` (DebuggingInformationEntry::null)
    imp.drop(['new', 'null_entry'])
    imp.extbody(['filter_attributes'])      # `retain` with a closure; contract: only `attrs` changes
    # R-CLONE: derived Clone of Expression<R> has no Verus spec; a clone of a reader has the same view (core: reader_clone)
    imp.custom('R-CLONE', 'expression.clone()', 'read::Expression(reader_clone(&expression.0))')
    imp.clean()
    imp.own(['C19'])
    H = 'old(self).read_unit.unit.header'
    ENC = f'{H}.spec_encoding()'
    OD, FD = 'old(deps)@', 'final(deps)@'
    INFO = f'{H}.spec_section() == crate::common::SectionId::DebugInfo'
    FRAME = [f'[C19:deps-extend] {OD}.is_prefix_of({FD})', '*final(self) == *old(self)']
    direct = [ident(v) for v, _, k in OP_REFS if k != 'nested']

    # ---- add_expression_refs: one clause (and one loop invariant) per reference-bearing Operation variant
    OPS0 = f'expr_ops::<R>(expression.0.rv(), {ENC})'
    ens = [f'[C19:expr-ref-{v}] res is Ok ==> covers_{ident(v)}({H}, {OPS0}, {FD})' for v, _, k in OP_REFS if k != 'nested']
    ens.append(f'[C19:expr-ref-EntryValue] res is Ok ==> covers_EntryValue({H}, {ENC}, {OPS0}, {FD})')
    ens.append(f'[C19:expr-ref-only] res is Ok ==> only_refs({H}, {OPS0}, {OPS0}.len() as int, {FD}, {OD}.len() as int)')
    ens.append(f'[C19:expr-info-section] res is Err ==> !({INFO})')
    inv = ['invariant',
           '    *self == *old(self), ops0 == ' + OPS0 + ', h == ' + H + ',',
           '    ops.ops().len() <= ops0.len(), ops.ops() == ops0.skip(ops0.len() - ops.ops().len()),',
           f'    {OD}.is_prefix_of(deps@), ops.view().len <= expression.0.rv().len, // [C19:expr-terminates]']
    for v, _, k in OP_REFS:
        n = ident(v)
        if k != 'nested':
            inv.append(f'    forall|i: int| 0 <= i < ops0.len() - ops.ops().len() ==> cov1_{n}(h, #[trigger] ops0[i], deps@), // [C19:expr-ref-{v}]')
        else:
            inv.append(f'    forall|i: int| 0 <= i < ops0.len() - ops.ops().len() ==> cov1_{n}(h, {ENC}, #[trigger] ops0[i], deps@), // [C19:expr-ref-{v}]')
    inv.append(f'    only_refs(h, ops0, ops0.len() - ops.ops().len(), deps@, {OD}.len() as int), // [C19:expr-ref-only]')
    inv.append('ensures ops.ops().len() == 0,')
    inv.append('decreases ops.ops().len(),')
    STEP = '''let ghost dprev = deps@; let ghost k0 = ops0.len() - ops.ops().len() - 1;
                proof { assert(ops0.skip(k0)[0] == ops0[k0]); assert(op == ops0[k0]); assert(ops0.skip(k0).skip(1) =~= ops0.skip(k0 + 1));
                    assert(only_refs(h, ops0, k0, dprev, ''' + OD + '''.len() as int));
                    assert(only_refs(h, ops0, ops0.len() as int, dprev, ''' + OD + '''.len() as int)); }'''
    imp.splice('add_expression_refs', ret='res', ensures=ens + FRAME, loops={0: '\n'.join(inv)},
               decreases='expression.0.rv().len',      # the recursive walk of DW_OP_entry_value blocks
               after=[('self.add_expression_refs(deps, read::Expression(expression))?;', f'''proof {{
                    lemma_contains_prefix(dprev, deps@);
                    assert(cov1_EntryValue(h, {ENC}, ops0[k0], deps@));
                    assert forall|i: int| 0 <= i < k0 implies cov1_EntryValue(h, {ENC}, #[trigger] ops0[i], deps@) by {{
                        match ops0[i] {{
                            read::Operation::EntryValue {{ expression: x }} => {{ lemma_direct_mono(h, expr_ops::<R>(x.rv(), {ENC}), dprev, deps@); }}
                            _ => {{}}
                        }}
                    }}
                }}''')],
               before=[('let mut ops = expression.operations', f'let ghost expression0 = expression.0; let ghost h = {H}; let ghost ops0 = {OPS0};'),
                       ('match op {', STEP)])
    insert_after_loop_body_end(imp, 'add_expression_refs', 0, '''proof {
                    assert(only_refs(h, ops0, k0, dprev, ''' + OD + '''.len() as int));
                    assert forall|j: int| ''' + OD + '''.len() <= j < deps@.len() implies exists|i: int| 0 <= i < k0 + 1 && op_target(h, #[trigger] ops0[i], #[trigger] deps@[j]) by {
                        if j < dprev.len() { assert(deps@[j] == dprev[j]); let i = choose|i: int| 0 <= i < k0 && op_target(h, #[trigger] ops0[i], #[trigger] dprev[j]); assert(op_target(h, ops0[i], deps@[j])); } else { assert(op_target(h, ops0[k0], deps@[j])); }
                    }
                    assert(only_refs(h, ops0, k0 + 1, deps@, ''' + OD + '''.len() as int));
                }''')

    # ---- add_location_refs
    L = f'loclist_entries(old(self).read_unit.dwarf, old(self).read_unit.unit, offset)'
    imp.splice('add_location_refs', ret='res',
               ensures=[f'[C19:loclist-refs] res is Ok ==> covers_loclist({H}, {ENC}, {L}, {FD})'] + FRAME,
               loops={0: f'''invariant
                *self == *old(self), l0 == {L},
                locations.entries().len() <= l0.len(), locations.entries() == l0.skip(l0.len() - locations.entries().len()),
                {OD}.is_prefix_of(deps@),
                forall|i: int| 0 <= i < l0.len() - locations.entries().len() ==> covers_expr::<R>({H}, {ENC}, (#[trigger] l0[i]).data.0.rv(), deps@), // [C19:loclist-refs]
            ensures locations.entries().len() == 0,
            decreases locations.entries().len(),'''},
               before=[('while let Some(location)', f'let ghost l0 = {L};'),
                       ('self.add_expression_refs(deps, location.data)?;', '''let ghost dprev = deps@; let ghost k0 = l0.len() - locations.entries().len() - 1;
                proof { assert(l0.skip(k0)[0] == l0[k0]); assert(location == l0[k0]); assert(l0.skip(k0).skip(1) =~= l0.skip(k0 + 1)); }''')],
               after=[('self.add_expression_refs(deps, location.data)?;', f'''proof {{
                    assert forall|i: int| 0 <= i < k0 implies covers_expr::<R>({H}, {ENC}, (#[trigger] l0[i]).data.0.rv(), deps@) by {{
                        lemma_covers_mono::<R>({H}, {ENC}, l0[i].data.0.rv(), dprev, deps@);
                    }}
                }}''')])

    # ---- add_attribute_refs: one clause per reference-bearing AttributeValue variant
    imp.splice('add_attribute_refs', ret='res', ensures=[
        f'[C19:attr-ref-UnitRef] value matches read::AttributeValue::UnitRef(x) ==> ({H}.in_bounds_spec(x) ==> {FD}.contains(uso_unit({H}, x)))',
        f'[C19:attr-ref-DebugInfoRef] value matches read::AttributeValue::DebugInfoRef(x) ==> res is Ok ==> {FD}.contains(UnitSectionOffset(x.0))',
        f'[C19:attr-ref-DebugInfoRef] value is DebugInfoRef && {INFO} ==> res is Ok',
        f'[C19:attr-ref-Exprloc] value matches read::AttributeValue::Exprloc(x) ==> res is Ok ==> covers_expr::<R>({H}, {ENC}, x.0.rv(), {FD})',
        f'[C19:attr-ref-LocationListsRef] value matches read::AttributeValue::LocationListsRef(x) ==> res is Ok ==> covers_loclist({H}, {ENC}, loclist_entries(old(self).read_unit.dwarf, old(self).read_unit.unit, x), {FD})',
        f'[C19:attr-ref-DebugLocListsIndex] value matches read::AttributeValue::DebugLocListsIndex(x) ==> res is Ok ==> covers_loclist({H}, {ENC}, loclist_entries(old(self).read_unit.dwarf, old(self).read_unit.unit, loclists_offset_spec(old(self).read_unit.dwarf, old(self).read_unit.unit, x)), {FD})',
        f'[C19:attr-refs-all] res is Ok ==> attr_covered({H}, {ENC}, old(self).read_unit.dwarf, old(self).read_unit.unit, value, {FD})',
        f'[C19:attr-ref-only] !(value is UnitRef || value is DebugInfoRef || value is Exprloc || value is LocationListsRef || value is DebugLocListsIndex) ==> {FD} == {OD} && res is Ok',
    ] + FRAME)

    # ---- require_entry
    imp.splice('require_entry',
               requires=['[C19:require-in-bounds] old(self).hdr().in_bounds_spec(offset)'],
               ensures=['[C19:require-entry] final(self).dep_req() == old(self).dep_req().push(uso_unit(old(self).hdr(), offset))',
                        '[C19:require-entry] final(self).dep_graph() == old(self).dep_graph()'], canary=True)
    populate_read_entry(imp)
    imp.insert_after("impl<'a, R: Reader<Offset = usize>> FilterUnit<'a, R> {", '''
        // ghost accessors for the private dependency graph
        pub closed spec fn dep_graph(&self) -> G { self.deps.graph() }
        pub closed spec fn dep_req(&self) -> Seq<K> { self.deps.req() }
        pub closed spec fn hdr(&self) -> Hdr<R> { self.read_unit.unit.header }
        pub closed spec fn udwarf(&self) -> &read::Dwarf<R> { self.read_unit.dwarf }
        pub closed spec fn uunit(&self) -> &read::Unit<R> { self.read_unit.unit }
        pub closed spec fn cursor_remaining(&self) -> nat { self.entries.remaining() }
        /// the stack of open parents: (depth, unit offset), innermost last
        pub closed spec fn parent_stack(&self) -> Seq<(isize, read::UnitOffset<usize>)> { self.parents@.map_values(|p: FilterParent| (p.depth, p.offset)) }
        /// well-formedness of the filter state between two read_entry calls (established by `new`: not decided here)
        pub closed spec fn wf(&self) -> bool { self.wf_at(self.entries.next_off() as int, self.parents@) }
        /// the cursor only reports entries of this unit; every parent on the stack `ps` is in bounds and registered;
        /// every registered entry lies before `bound` (unit-relative) -- so the next entry is fresh
        spec fn wf_at(&self, bound: int, ps: Seq<FilterParent>) -> bool {
            &&& forall|o: read::UnitOffset<usize>| #[trigger] self.entries.yields(o) ==> self.hdr().in_bounds_spec(o)
            &&& forall|i: int| 0 <= i < ps.len() ==> self.hdr().in_bounds_spec((#[trigger] ps[i]).offset) && self.deps.graph().contains_key(uso_unit(self.hdr(), ps[i].offset))
            &&& forall|k: K| #[trigger] self.deps.graph().contains_key(k) ==> k.0 < self.hdr().spec_offset().0 + bound
        }
''')
    sk.add(M, imp)


def populate_read_entry(imp):
    """FilterUnit::read_entry: which value of each attribute is walked, parent edge, registration, state invariant"""
    HS = 'old(self).hdr()'
    OFF = 'final(entry).read_entry.offset'
    EO = f'uso_unit({HS}, {OFF})'
    imp.splice('filter_attributes', ret='res', ensures=[
        'res is Ok',
        'final(entry).read_unit == old(entry).read_unit && final(entry).parent == old(entry).parent && final(entry).parent_tag == old(entry).parent_tag',
        'final(entry).read_entry.tag == old(entry).read_entry.tag && final(entry).read_entry.has_children == old(entry).read_entry.has_children',
        'final(entry).read_entry.offset == old(entry).read_entry.offset && final(entry).read_entry.depth == old(entry).read_entry.depth'])
    imp.insert_after('for attr in ', 'it: ')
    ATT = 'entry.read_entry.attrs@'
    COV = lambda a, d: f'attr_covered({HS}, {HS}.spec_encoding(), old(self).udwarf(), old(self).uunit(), {a}.value_spec(), {d})'
    imp.splice('read_entry', ret='res', attrs='#[verifier::loop_isolation(false)]\n#[verifier::allow_complex_invariants]',   # (no canary twin: the loop-anchored ghost insertions are added after the splice; vacuity was probed with assert(false))
               requires=['[C19:filter-unit-wf] old(self).wf()'],
               ensures=[
                   '[C19:filter-unit-wf] res is Ok ==> final(self).wf()',
                   f'[C19:entry-registered] res matches Ok(true) ==> final(self).dep_graph().contains_key({EO})',
                   # THE clause of the "raw instead of normalised" class: the NORMALISED value of every (kept) attribute is walked
                   f'[C19:entry-attr-refs] res matches Ok(true) ==> forall|i: int| 0 <= i < final(entry).read_entry.attrs@.len() ==> '
                   + COV('(#[trigger] final(entry).read_entry.attrs@[i])', f'final(self).dep_graph()[{EO}]@'),
                   # the entry depends on its parent = the innermost open entry that is shallower (ancestors stay connected)
                   f'[C19:entry-parent-edge] res matches Ok(true) && final(entry).parent is Some ==> exists|j: int| is_parent_at(old(self).parent_stack(), final(entry).read_entry.depth, j) '
                   f'&& final(self).dep_graph()[{EO}]@.len() > 0 && final(self).dep_graph()[{EO}]@.last() == uso_unit({HS}, #[trigger] old(self).parent_stack()[j].1)',
                   '[C19:entry-parent-edge] res matches Ok(true) && final(entry).parent is None ==> forall|j: int| 0 <= j < old(self).parent_stack().len() ==> (#[trigger] old(self).parent_stack()[j]).0 >= final(entry).read_entry.depth',
                   f'[C19:entry-in-bounds] res matches Ok(true) ==> {HS}.in_bounds_spec({OFF})',
                   'final(self).hdr() == old(self).hdr() && final(self).udwarf() == old(self).udwarf() && final(self).uunit() == old(self).uunit()',
                   '[C19:require-entry] final(self).dep_req() == old(self).dep_req()'],
               loops={
                   0: '''invariant
                    self.wf(), self.read_unit == old(self).read_unit, self.deps.req() == old(self).deps.req(), // [C19:filter-unit-wf]
                    self.parents@ == old(self).parents@,
                decreases self.entries.remaining(), // [C19:entry-terminates]''',
                   1: '''invariant
                    self.wf_at(entry.read_entry.offset.0 as int, self.parents@), self.read_unit == old(self).read_unit, self.deps.req() == old(self).deps.req(),
                    self.entries == cur1, self.deps.graph() == g1,
                    self.parents@.len() <= old(self).parents@.len(), self.parents@ == old(self).parents@.take(self.parents@.len() as int),
                    forall|j: int| self.parents@.len() <= j < old(self).parents@.len() ==> (#[trigger] old(self).parents@[j]).depth >= entry.read_entry.depth, // [C19:entry-parent-edge]
                ensures self.parents@.len() > 0 ==> self.parents@.last().depth < entry.read_entry.depth, // [C19:entry-parent-edge]
                decreases self.parents@.len(),''',
                   2: f'''invariant
                    *self == s2, *entry == e2,
                    forall|i: int| 0 <= i < it.index@ ==> {COV('(#[trigger] ' + ATT + '[i])', 'deps@')}, // [C19:entry-attr-refs]'''},
               before=[
                   ('while let Some(parent) = self.parents.last()', 'let ghost cur1 = self.entries; let ghost g1 = self.deps.graph();'),
                   ('if entry.has_children() {', 'let ghost ps = self.parents@;'),
                   ('for attr in', 'let ghost s2 = *self; let ghost e2 = *entry;'),
                   ('self.deps.add_entry(entry_offset, deps);', f'''let ghost dfin = deps@; let ghost dloop2 = dloop;
                proof {{
                    assert(entry.parent is Some <==> parent is Some);
                    let ops = old(self).parents@; let st = old(self).parent_stack();
                    assert(st.len() == ops.len());
                    assert forall|j: int| 0 <= j < ops.len() implies (#[trigger] st[j]) == (ops[j].depth, ops[j].offset) by {{}}
                    if parent is Some {{
                        let j = ps.len() - 1;
                        assert(ps[j] == ops[j]);
                        assert(parent == Some(ps[j]));
                        assert(is_parent_at(st, entry.read_entry.depth, j)); // [C19:entry-parent-edge]
                        assert(dfin.last() == uso_unit({HS}, st[j].1)); // [C19:entry-parent-edge]
                    }} else {{
                        assert(ps.len() == 0); // [C19:entry-parent-edge]
                    }}
                    assert forall|i: int| 0 <= i < {ATT}.len() implies {COV('(#[trigger] ' + ATT + '[i])', 'dfin')} by {{
                        lemma_attr_covered_mono({HS}, {HS}.spec_encoding(), old(self).udwarf(), old(self).uunit(), {ATT}[i].value_spec(), dloop2, dfin);
                    }}
                }}'''),
               ],
               after=[
                   ('self.parents.pop();', 'proof { assert(self.parents@ =~= old(self).parents@.take(self.parents@.len() as int)); }'),
               ])
    insert_after_loop(imp, 'read_entry', 2, 'let ghost dloop = deps@;')
    # anchored on the loop, not on the call statement: a change of the argument expression must be judged, not `Lost`
    insert_at_loop_body(imp, 'read_entry', 2, 'let ghost dprev = deps@; proof { assert(*attr == ' + ATT + '[it.index@]); }', end=False)
    insert_at_loop_body(imp, 'read_entry', 2, f'''proof {{
                        assert forall|i: int| 0 <= i < it.index@ implies {COV('(#[trigger] ' + ATT + '[i])', 'deps@')} by {{
                            lemma_attr_covered_mono({HS}, {HS}.spec_encoding(), old(self).udwarf(), old(self).uunit(), {ATT}[i].value_spec(), dprev, deps@);
                        }}
                    }}''', end=True)


def insert_at_loop_body(item, fn, ordinal, ghost, end):
    """ghost text at the start (end=False) or end (end=True) of the body of the `ordinal`-th loop of `fn`"""
    check_ghost(ghost)
    insert_after_loop(item, fn, ordinal, 'proof { }')
    probe = ins('\nproof { }\n')
    i = item.text.index(probe)
    assert item.text[i - 1] == '}'
    t = item.text[:i] + item.text[i + len(probe):]
    close = i - 1
    if end:
        item.text = t[:close] + ins('\n' + ghost + '\n') + t[close:]
        return item
    # matching open brace of the loop body: scan backwards counting braces outside insertions/strings is not needed here
    # (gimli loop bodies contain no braces in strings); insertions are skipped by working on sentinel-free offsets
    depth, k = 0, close
    while True:
        if t.startswith(INS_C, k - len(INS_C) + 1):
            k = t.rfind(INS_O, 0, k) - 1
            continue
        if t[k] == '}':
            depth += 1
        elif t[k] == '{':
            depth -= 1
            if depth == 0:
                break
        k -= 1
    item.text = t[:k + 1] + ins('\n' + ghost + '\n') + t[k + 1:]
    return item


def insert_after_loop_body_end(item, fn, ordinal, ghost):
    """ghost text at the END of the body of the `ordinal`-th loop of `fn` (just before its closing brace)"""
    mark = '\x00LOOPEND\x00'
    insert_after_loop(item, fn, ordinal, 'proof { }')
    # move the (empty) insertion from after the brace to before it
    probe = ins('\nproof { }\n')
    i = item.text.index(probe)
    assert item.text[i - 1] == '}'
    check_ghost(ghost)
    item.text = item.text[:i - 1] + ins('\n' + ghost + '\n') + '}' + item.text[i + len(probe):]
    return item


def populate(ctx, sk):
    populate_deps(ctx, sk)
    populate_read_types(ctx, sk)
    wu = populate_refs(ctx, sk)
    populate_backedge(ctx, sk)
    populate_filter_unit(ctx, sk, wu)
    return sk


def build(ctx):
    sk = FilterSkeleton(ctx, core.rd('prelude/crate.rs'))
    core.populate(ctx, sk)
    populate(ctx, sk)
    return sk
