"""B-filter: write::unit::convert::{FilterDependencies, ...}  (DESIGN.md 6 C19).  -- header completed at the end of file
"""
import re
from lib import *
from batches import core

TRUSTED = list(core.TRUSTED) + [
    'axiom_uso_key', 'axiom_uso_ord',
    'std::collections::HashMap::<K1, V, S, A>::get_mut', 'SliceOf::<T>::sort_unstable',
]

CONVERT = r'^pub\(crate\) mod convert \{'


class FilterSkeleton(Skeleton):
    """`HashMap::get_mut` can only be given an `assume_specification` with its allocator parameter spelled out, which needs
    `#![feature(allocator_api)]` as a crate attribute.  It is put on the first line (no line shift for the clause map).
    (It cannot go into VERUS_ARGS as -Zcrate-attr: run.py's reseed runs do not pass VERUS_ARGS.)"""

    def emit(self):
        text, fnmap = super().emit()
        assert text.startswith('#![allow(')
        return '#![feature(allocator_api)] ' + text, fnmap


def insert_after_loop(item, fn, ordinal, ghost):
    """ghost text right after the closing brace of the `ordinal`-th loop (textual order) of fn `fn` in `item`.
    Same discipline as Item.splice(after=..): sentinel-wrapped, ghost-only text; a lost loop is `Lost`."""
    assert item.base is not None
    check_ghost(ghost)
    t = item.text
    ms = [m for m in re.finditer(r'\bfn\s+%s\b' % re.escape(fn), t) if not lib_inside(t, m.start())]
    if not ms:
        raise Lost(f'insert_after_loop: fn {fn}')
    b = body_open(t, ms[0].start())
    e = match_close(t, b)
    n, i = 0, b
    while True:
        m = LOOP_RE.search(t, i, e)
        if not m:
            raise Lost(f'insert_after_loop: loop {ordinal} of {fn}')
        if lib_inside(t, m.start()):
            i = m.end()
            continue
        k, d = m.end(), 0
        while not (t[k] == '{' and d == 0):
            if t.startswith(INS_O, k):          # skip inserted loop specs (they contain braces/parens of their own)
                k = t.index(INS_C, k) + len(INS_C)
                continue
            if t[k] in '([':
                d += 1
            elif t[k] in ')]':
                d -= 1
            k += 1
        if n == ordinal:
            c = match_close(t, k)
            item.text = t[:c + 1] + ins('\n' + ghost + '\n') + t[c + 1:]
            return item
        n += 1
        i = k


def lib_inside(t, pos):
    a = t.rfind(INS_O, 0, pos)
    return a >= 0 and t.find(INS_C, a) > pos


def populate_deps(ctx, sk):
    """part 1: FilterDependencies against the abstract graph view"""
    wu = Source('write/unit.rs', ctx)
    # UnitSectionOffset: core's R-ATTR reduced its derive list; the map key / sort need the Hash/PartialOrd/Ord derives
    # that the source has.  Their meaning is the TRUSTED axiom pair ax::axiom_uso_key / ax::axiom_uso_ord.
    uso = [c[0] for c in sk.mods['common']['chunks'] if isinstance(c[0], Item) and 'UnitSectionOffset' in c[0].header_re][0]
    if not re.search(r'#\[derive\([^\]]*\bOrd\b[^\]]*\bHash\b', uso.orig):
        raise Lost('common.rs: UnitSectionOffset no longer derives Ord + Hash')
    uso.prepend('#[derive(Hash, PartialOrd, Ord)]')
    ctx.custom.append(('R-DERIVE', 'common.rs:UnitSectionOffset', '(derives dropped by R-ATTR)', '#[derive(Hash, PartialOrd, Ord)] re-added'))
    ctx.count('R-DERIVE')

    sk.module('fspec', '''use std::collections::HashMap;
use vstd::std_specs::hash::*;
use vstd::iset::ISet;
use crate::common::UnitSectionOffset;''')
    sk.add('fspec', core.rd('specs/filter.rs'), label='fspec')

    sk.module('write', '')
    sk.module('write::unit', '')
    sk.module('write::unit::convert', '''use crate::common::UnitSectionOffset;
use crate::fspec::*;
use vstd::std_specs::hash::*;
broadcast use {vstd::std_specs::hash::group_hash_axioms, crate::fspec::ax::axiom_uso_key};''')
    M = 'write::unit::convert'

    # R-MAP: hashbrown + fnv are dependencies outside the verified text; std's HashMap has a vstd model
    fm = wu.item(r'^    type FnvHashMap<K, V> =', within=CONVERT, label='FnvHashMap')
    fm.custom('R-MAP', 'hashbrown::HashMap<K, V, fnv::FnvBuildHasher>', 'std::collections::HashMap<K, V>')
    sk.add(M, fm.clean())

    st = wu.item(r'^    struct FilterDependencies \{', within=CONVERT, label='FilterDependencies(struct)').clean()
    sk.add(M, st)

    # R-SELF: `mut self` by value is outside Verus -> free fn with `self` renamed `this` (DESIGN 3.1.2)
    gr = wu.item(r'^        fn get_reachable\(mut self\)', within=r'^    impl FilterDependencies \{', label='get_reachable')
    gr.custom('R-SELF', 'fn get_reachable(mut self)', 'fn get_reachable(mut this: FilterDependencies)')
    gr.custom_re('R-SELF', r'\bself\b', 'this')
    gr.clean()
    gr.own(['C19'])
    gr.insert_after('for entry in ', 'it: ')      # names the ghost iterator of the `for` (Verus syntax, no code)
    G, REQ = 'this.graph()', 'this.req()'
    gr.splice('get_reachable', ret='res', ensures=[
        f'[C19:reach-registered] reach_valid({G}, res@)',
        f'[C19:reach-required] reach_required({G}, {REQ}, res@)',
        f'[C19:reach-closed] reach_closed({G}, res@)',
        f'[C19:reach-minimal] reach_minimal({G}, {REQ}, res@)',
        '[C19:reach-sorted] sorted_by_offset(res@)',
        '[C19:reach-nodup] res@.no_duplicates()'],
        loops={
            0: '''invariant
                qprev == queue@,
                inv_part(g, this.edges@, reachable@),
                inv_closed(g, req, reachable@, queue@, Seq::empty()),
                inv_min(g, req, reachable@, queue@, Seq::empty()),
            ensures queue@.len() == 0,
            decreases this.edges@.dom().len(), queue@.len(),''',
            1: '''invariant
                this.edges@.dom().len() <= d0,
                queue@.len() == ql0 + (d0 - this.edges@.dom().len()),
                inv_part(g, this.edges@, reachable@),
                inv_closed(g, req, reachable@, queue@, entries@.skip(it.index as int)),
                inv_min(g, req, reachable@, queue@, entries@),'''},
        before=[
            ('let mut reachable = Vec::new();', 'let ghost g = this.edges@; let ghost req = this.required@; let ghost reqv = this.required;'),
            ('for entry in', 'let ghost d0 = this.edges@.dom().len(); let ghost ql0 = queue@.len();\n'
                             'proof { lemma_start(g, req, reachable@, qprev, entries, queue@); }'),
            ('if let Some(deps) = this.edges.remove(&entry)', '''let ghost cur0 = this.edges@;
                proof {
                    assert(entry == entries@[it.index as int]);
                    if cur0.contains_key(entry) {
                        lemma_step_some(g, req, cur0, reachable@, queue@, entries@, it.index as int);
                        assert(cur0.remove(entry).dom() == cur0.dom().remove(entry));
                    } else {
                        lemma_step_none(g, req, cur0, reachable@, queue@, entries@, it.index as int);
                        assert(cur0.remove(entry) =~= cur0);
                    }
                }'''),
            ('reachable.sort_unstable();', 'let ghost vis = reachable@; proof { assert(queue@ =~= Seq::<Vec<K>>::empty()); }'),
        ],
        after=[
            ('let mut queue = vec![this.required];', 'proof { lemma_init(g, reqv, queue@); }\nlet ghost mut qprev = queue@;'),
            ('reachable.sort_unstable();', 'proof { lemma_finish(g, req, this.edges@, vis, reachable@); }'),
        ])
    insert_after_loop(gr, 'get_reachable', 1,
                      'proof { assert(entries@.skip(entries@.len() as int) =~= Seq::<K>::empty()); qprev = queue@; }')

    imp = wu.item(r'^    impl FilterDependencies \{', within=CONVERT, label='FilterDependencies')
    imp.drop(['get_reachable'])        # emitted above as a free fn (R-SELF)
    imp.clean()
    imp.own(['C19'])
    imp.insert_after('impl FilterDependencies {', '''
        // ---- abstract graph view: registered entries = dom, deps(e) = graph()[e]@, required list
        spec fn graph(&self) -> G { self.edges@ }
        spec fn req(&self) -> Seq<K> { self.required@ }
''')
    OG, FG = 'old(self).graph()', 'final(self).graph()'
    imp.splice('add_entry',
               requires=[f'[C19:add-entry-fresh] !{OG}.contains_key(entry)'],
               ensures=[f'[C19:add-entry] {FG} == {OG}.insert(entry, deps)',
                        '[C19:add-entry] final(self).req() == old(self).req()'], canary=True)
    imp.splice('add_edge',
               requires=[f'[C19:add-edge-from-registered] {OG}.contains_key(from)'],
               ensures=[f'[C19:add-edge] {FG}.dom() == {OG}.dom()',
                        f'[C19:add-edge] {FG}[from]@ == {OG}[from]@.push(to)',
                        f'[C19:add-edge] forall|k: K| k != from && {OG}.contains_key(k) ==> #[trigger] {FG}[k] == {OG}[k]',
                        '[C19:add-edge] final(self).req() == old(self).req()'],
               after=[('self.edges.get_mut(&from).unwrap().push(to);', '''proof {
                let o = old(self).edges@; let n = self.edges@;
                assert(borrowed_key_removed(o, o.remove(from), &from));
                assert(n.remove(from) == o.remove(from));
                assert(n.dom() =~= o.dom()) by {
                    assert forall|k: K| n.contains_key(k) <==> o.contains_key(k) by {
                        if k != from { assert(n.remove(from).contains_key(k) <==> o.remove(from).contains_key(k)); }
                    }
                }
                assert forall|k: K| k != from && o.contains_key(k) implies #[trigger] n[k] == o[k] by {
                    assert(n.remove(from)[k] == o.remove(from)[k]);
                }
            }''')], canary=True)
    imp.splice('require_entry',
               ensures=['[C19:require-entry] final(self).req() == old(self).req().push(entry)',
                        f'[C19:require-entry] {FG} == {OG}'])
    sk.add(M, imp)
    sk.add(M, gr)
    return sk


def populate(ctx, sk):
    populate_deps(ctx, sk)
    return sk


def build(ctx):
    sk = FilterSkeleton(ctx, core.rd('prelude/crate.rs'))
    core.populate(ctx, sk)
    populate(ctx, sk)
    return sk
