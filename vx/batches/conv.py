"""B-conv: read -> write conversion preserves meaning or fails (DESIGN.md 6 C12, findings F7 / F11).

Postcondition shape everywhere: `Ok(out) ==> meaning(out) == meaning(in)` over mathematical integers (specs/conv.rs), so
a narrowing cast or a wrapping product that loses information makes the clause fail.  All functions are owned by C12
(write-side code: overflow / bounds / unwrap obligations are C12's too).

EXPECTED RESULT ON THE PINNED TREE: `python3 vx/run.py conv` exits 1 with exactly 21 failed obligations, all in
write/cfi.rs `mod convert`, all genuine (finding F7), each with a native reproducer:
  write::cfi::convert::CallFrameInstruction::from
      [C12:cfi-advance-loc] [C12:cfi-def-cfa] [C12:cfi-def-cfa-sf] [C12:cfi-def-cfa-offset] [C12:cfi-def-cfa-offset-sf]
      [C12:cfi-offset] [C12:cfi-offset-extended-sf] [C12:cfi-val-offset] [C12:cfi-val-offset-sf] [C12:cfi-args-size]
                                                        -> native/src/bin/f_conv_3.rs (`as i32` / `as u32` narrowings)
      8 x "possible arithmetic underflow/overflow": `*offset += delta * caf as u32` (product and sum),
      4 x `factored_offset * daf`, 2 x `factored_offset as i64 * daf`          -> native/src/bin/f_conv_4.rs
  write::cfi::convert::CommonInformationEntry::from   [C12:cie-code-alignment] [C12:cie-data-alignment]  -> f_conv_1.rs
  write::cfi::convert::FrameDescriptionEntry::from    [C12:fde-length]                                     -> f_conv_2.rs
Everything else is discharged, including the `*-inrange` twins of the failing clauses (exactness on the sub-domain the
write-side operand types can represent), which keep guarding the mapping while the unconditional clauses fail.
Finding F11 (line program conversion, `ConvertLineProgram::read_row`) is reproduced natively only: f_conv_5.rs.

Functions under contract (real text, verified):
  write/cfi.rs  convert::CallFrameInstruction::from   per read-side instruction kind (DWARF 5 6.4.2): same CfiSem (CFA / register
                                                      rule in unfactored units), set_loc must fail, advance_loc adds delta*caf to
                                                      the location, nop emits nothing; expression operands are the converted block
                convert::CommonInformationEntry::from factors, RA register, encoding, augmentation, personality, and the initial
                                                      instruction sequence (loop invariant over the decoded sequence)
                convert::FrameDescriptionEntry::from  address, length, LSDA, and the (location, rule) sequence of the instructions
                CommonInformationEntry::new, FrameDescriptionEntry::new
  write/range.rs convert::RangeList::from             every raw entry kind -> write-side entry, base-address disambiguation rule
                                                      (`have_base_address` == CU low_pc != 0 or a base entry seen), only empty
                                                      ranges may be left out, order kept (loop invariant rng_list_rel)
  write/loc.rs   convert::LocationList::from          same for location lists incl. the location description of each entry
  write/mod.rs   From<read::Error> for ConvertError;  write/unit.rs NoConvertDebugInfoRef (both methods)
  read/cfi.rs    CIE accessors encoding/code_alignment_factor/data_alignment_factor/return_address_register, FDE accessors
                 cie/initial_address/len, UnwindExpression::get (window of the section)            [owner C05, helper facts]

Rewrites beyond the standard rules (all logged as custom rules in the evidence):
  R-DYN    `convert_address: &dyn Fn(u64) -> Option<Address>` -> generic `&ConvAddr`, `ConvAddr: Fn(u64) -> Option<Address>` in
           the where clause (Verus has no `dyn Fn`); bodies unchanged.
  R-DERIVE types containing the mutually recursive write::Expression/Operation keep only derive(Debug).
  closures `|x| ...` get a parameter type, a contract and (where the body is a bare expression) braces - insertions only.
  clean_guarded(): lib.r_letchain cannot scan items ending in `if` match guards; same rules applied without R-LETCHAIN.
  wsource(): `#[cfg(debug_assertions)]` evaluated as true (as batches/wcore.py does).

ASSUMED (TRUSTED ledger; reason each is outside this batch / Verus):
  from (write::op::convert::Expression::from)  R-EXTBODY: Cow (`to_slice()?.into_owned().into()`), `Vec::binary_search`, `&dyn`
        trait object, recursion through EntryValue, read::OperationIter.  Contract: Ok(e) ==> expr_conv(bytes, encoding, has_unit, e)
        with `expr_conv` UNINTERPRETED: the CFI / location-list layers only prove that the right block is handed to it and its
        result is stored in the right place.  The per-operation mapping (Piece bits->bytes, deref_size == address_size,
        branch-target remap) is NOT DECIDED here.
  CallFrameInstructionIter / RawRngListIter / RawLocListIter + next  models: a ghost sequence `rest()` popped by `next`
        (decoding is C05/C06/C08's business; those batches own the real iterators).
  instructions (CIE/FDE), lsda_encoding, personality_with_encoding, fde_address_encoding, is_signal_trampoline, lsda
        read-side accessors using Option::and_then/is_some_and closures or building the iterator: contracts = field values.
  encoding, address (UnitRef model)  read::UnitRef is modelled (low_pc field, encoding(), address(index) = uninterpreted
        function of unit and index): the real type derefs twice (UnitRef -> &Unit -> UnitHeader) and reads .debug_addr.
  write-side id types (UnitId, UnitEntryId, BaseId) are hand expansions of `define_id!`.
  Helper preconditions on the caller's address function: it may be called on every address (`CA_TOTAL`), and
  [C12:convert-address-constant-identity] it leaves unrelocated values unchanged (`ca(a) == Some(Constant(c)) ==> c == a`):
  gimli passes list *offsets* through it and documents only that these "will be Address::Constant"; an offset-changing
  function would silently shift every offset pair.  This is an undocumented API requirement, recorded as an assumption.

NOT DECIDED: FrameTable::from (hashbrown entry API, `Section::cie_from_offset` fn item, CfiEntriesIter); Expression::from body;
ConvertLineProgram::{new, read_row, convert_row, read_sequence, convert} (need models of the whole reader-side line state
machine; F11 is shown natively); ConvertUnit*/entry-id maps; idempotence of a second conversion; an advance_loc inside CIE
initial instructions is dropped by CommonInformationEntry::from (ill-formed input; the CIE clause compares rules only);
K-CFICONV (Kani) was not built: the native reproducers already give concrete counterexamples for every narrowing finding.
"""
from lib import *
from batches import core

TRUSTED = list(core.TRUSTED) + ['encoding', 'address', 'from', 'CallFrameInstructionIter', 'next', 'lsda_encoding', 'personality_with_encoding', 'fde_address_encoding', 'is_signal_trampoline', 'instructions', 'lsda', 'RawRngListIter', 'RawLocListIter']
VERUS_ARGS = ['--rlimit', '40']
# CallFrameInstruction::from alone has 18 genuine failing obligations (finding F7): report all of them, not the first 3
MULTIPLE_ERRORS = 40

OWN = ['C12']

R_DYN_ADDR = ('&dyn Fn(u64) -> Option<Address>', '&ConvAddr')


def wsource(rel, ctx):
    """Source(rel, ctx) for files that use `#[cfg(debug_assertions)]` (write/mod.rs), which lib.eval_cfg does not know:
    R-CFG evaluates it as TRUE (debug profile, the one in which overflow checks/debug_assert!s - which Verus checks - are
    on).  Same helper as batches/wcore.py (copied so that this batch only depends on core)."""
    import re as _re
    import lib as _lib
    key = (_lib.SRC, rel)
    if key not in _lib._src_cache:
        raw = _lib.strip_comments(open(_lib.SRC + rel).read())
        raw = _re.sub(r'#\[cfg\(not\(debug_assertions\)\)\]', '#[cfg(test)]', raw)
        raw = _re.sub(r'#\[cfg\(debug_assertions\)\]', '#[cfg(not(test))]', raw)
        log = {}
        _lib._src_cache[key] = (_lib.apply_cfg(raw, log), log)
    return Source(rel, ctx)


CA_BOUND = 'ConvAddr: Fn(u64) -> Option<Address>,'


def r_dyn(it, generics_old, generics_new, where_old, where_new):
    """R-DYN: `convert_address: &dyn Fn(u64) -> Option<Address>` becomes a generic `&ConvAddr` with
    `ConvAddr: Fn(u64) -> Option<Address>` (Verus has no `dyn Fn`).  Static instead of dynamic dispatch; the body is
    unchanged.  Logged as a custom rewrite."""
    it.custom('R-DYN', generics_old, generics_new)
    it.custom('R-DYN', where_old, where_new)
    it.custom('R-DYN', R_DYN_ADDR[0], R_DYN_ADDR[1], count=-1)
    return it


# ------------------------------------------------------------------------------------------------ prelude text (models)
WRITE_IDS = '''
// ---- model of `define_id!` expansions (write/mod.rs macro; BaseId is the debug-assertions variant)
#[derive(Debug, Clone, Copy, PartialEq, Eq)]
pub struct BaseId(pub usize);
#[derive(Debug, Clone, Copy, PartialEq, Eq)]
pub struct UnitId { pub base_id: BaseId, pub index: usize }
#[derive(Debug, Clone, Copy, PartialEq, Eq)]
pub struct UnitEntryId { pub base_id: BaseId, pub index: usize }
'''

FROM_SPEC = '''
impl vstd::std_specs::convert::FromSpecImpl<read::Error> for ConvertError {
    open spec fn obeys_from_spec() -> bool { true }
    open spec fn from_spec(v: read::Error) -> Self { ConvertError::Read(v) }
}
'''


UNITREF_MODEL = '''
// ---- model of read::UnitRef<'a, R> (read/dwarf.rs): the real type is a Copy pair of references (&Dwarf, &Unit) that
// derefs to `Unit` (`from_unit.low_pc`, `from_unit.encoding()`); `address(index)` reads `.debug_addr` through the Dwarf.
// Only these three members are used by the extracted conversion code.  `address` is an uninterpreted function of the
// unit and the index (its decoding is property C17's business).
#[verifier::reject_recursive_types(R)]
pub struct UnitRef<'a, R: Reader> {
    pub low_pc: u64,
    pub model_encoding: Encoding,
    pub model_id: usize,
    pub model_marker: core::marker::PhantomData<&'a R>,
}
impl<'a, R: Reader> Clone for UnitRef<'a, R> {
    fn clone(&self) -> (res: Self) ensures res == *self { *self }
}
impl<'a, R: Reader> Copy for UnitRef<'a, R> {}
pub uninterp spec fn unit_address(unit_id: usize, index: usize) -> Result<u64>;
impl<'a, R: Reader> UnitRef<'a, R> {
    #[verifier::external_body]
    pub fn encoding(&self) -> (res: Encoding) ensures res == self.model_encoding { unimplemented!() }
    #[verifier::external_body]
    pub fn address(&self, index: DebugAddrIndex<R::Offset>) -> (res: Result<u64>)
        ensures res == unit_address(self.model_id, index.0.as_nat() as usize)
    { unimplemented!() }
}
'''


def clean_guarded(it, offset=True):
    """`Item.clean()` for items that end in a `match` with `if` guards: lib.r_letchain scans from every `if` to the next
    `{` and runs off the end of the text on a trailing guard (IndexError).  The same rules R-ATTR, R-ASSERT, R-CLOSURE,
    R-OFFSET are applied through lib's own rule functions; R-LETCHAIN is skipped after checking that the item has no let
    chain at all."""
    import re as _re
    assert it.base is None
    c = it.ctx
    s = r_attr(it.text, c)
    s = r_assert(s, c)
    s = r_closure(s, c)
    if _re.search(r'\bif\s+let\b[^{;]*&&', s) or _re.search(r'&&\s*let\b', s):
        raise Lost(it._where('') + ': clean_guarded on an item with a let chain')
    if offset:
        s = r_offset(s, c)
    it.text = s
    it.base = s
    return it


def debug_only(it):
    """R-DERIVE: a datatype that (transitively) contains the recursive write::Expression/Operation pair keeps only
    `derive(Debug)`: Verus rejects the derived Clone/PartialEq of mutually recursive types as a cyclic definition.  No
    extracted function clones or compares these types."""
    return it.custom_re('R-DERIVE', r'#\[derive\([^\]]*\)\]', '#[derive(Debug)]')


# helper precondition of every converter: the caller's address function may be called on any address
CA_TOTAL = 'forall|a: u64| call_requires(convert_address, (a,))'

RI = 'read::CallFrameInstruction'
# read-side instruction kinds that map to one write-side instruction (DWARF 5 6.4.2.2 - 6.4.2.4 + GNU/AArch64 extensions)
CFI_KINDS = ['DefCfa', 'DefCfaSf', 'DefCfaRegister', 'DefCfaOffset', 'DefCfaOffsetSf', 'DefCfaExpression', 'Undefined',
             'SameValue', 'Offset', 'OffsetExtendedSf', 'ValOffset', 'ValOffsetSf', 'Register', 'Expression',
             'ValExpression', 'Restore', 'RememberState', 'RestoreState', 'ArgsSize', 'NegateRaState']


def snake(n):
    import re as _re
    return _re.sub(r'(?<!^)([A-Z])', r'-\1', n).lower()


def par(clauses):
    """parenthesize every clause body (keeps `{` of patterns/blocks inside a bracket, which the runner's fn-span
    detection relies on)"""
    out = []
    for c in clauses:
        tags, expr = parse_tags(c)
        out.append(''.join(f'[{t}]' for t in tags) + ' (' + expr + ')')
    return out


def cfi_instruction_clauses():
    sem = 'read_cfi_sem(from_instruction, from_cie.caf() as int, from_cie.daf() as int)'
    out = []
    # 6.4.2.1: DW_CFA_set_loc has no write-side form: must fail, never be dropped
    out.append(f'[C12:cfi-set-loc] from_instruction is SetLoc ==> res is Err')
    # 6.4.2.1: advance_loc: location += delta * code_alignment_factor, no instruction emitted
    out.append(f'[C12:cfi-advance-loc] from_instruction matches {RI}::AdvanceLoc {{ delta }} ==> (res is Ok ==> res == Ok::<Option<CallFrameInstruction>, ConvertError>(None) '
               '&& *final(offset) as int == *old(offset) as int + delta as int * from_cie.caf() as int)')
    out.append(f'[C12:cfi-nop] from_instruction is Nop ==> res == Ok::<Option<CallFrameInstruction>, ConvertError>(None) && *final(offset) == *old(offset)')
    for k in CFI_KINDS:
        out.append(f'[C12:cfi-{snake(k)}] from_instruction is {k} ==> (res matches Ok(r) ==> (r matches Some(w) && write_cfi_sem(w) == {sem} && *final(offset) == *old(offset)))')
    out.append('[C12:cfi-expr] res matches Ok(Some(w)) ==> (read_cfi_expr(from_instruction) matches Some(ue) ==> (write_cfi_expr(w) matches Some(e) && '
               '({ let s = frame.section_rv(); ue.offset + ue.length <= s.len && expr_conv(RView { root: s.root, start: s.start + ue.offset as nat, len: ue.length as nat, be: s.be }, from_cie.enc(), false, e) })))')
    # exactness on the representable sub-domain (holds on the pinned tree; guards the mapping while the clauses above fail)
    out.append(f'[C12:cfi-inrange-exact] cfi_in_range(from_instruction, from_cie.caf() as int, from_cie.daf() as int, *old(offset) as int) ==> (res matches Ok(r) ==> (match r {{ '
               f'Some(w) => write_cfi_sem(w) == {sem} && *final(offset) == *old(offset) && !(from_instruction is AdvanceLoc) && !(from_instruction is Nop), '
               f'None => (from_instruction is Nop && *final(offset) == *old(offset)) || (from_instruction matches {RI}::AdvanceLoc {{ delta }} && *final(offset) as int == *old(offset) as int + delta as int * from_cie.caf() as int) }}))')
    return par(out)


def populate_write_base(ctx, sk):
    wm = wsource('write/mod.rs', ctx)
    wu = Source('write/unit.rs', ctx)
    sk.module('cspec', 'use crate::vspec::*;\nuse crate::read::reader::ReaderOffset;')
    sk.add('cspec', core.rd('specs/conv.rs'), label='cspec')
    sk.module('write', '''use core::result;
use crate::constants;
use crate::read;
use crate::common::*;
pub use self::unit::*;
pub use self::op::*;
pub use self::cfi::*;''')
    sk.add('write', wm.item(r'^pub enum Address \{').clean())
    sk.add('write', wm.item(r'^pub enum Error \{').clean())
    sk.add('write', wm.item(r'^pub type Result<T>').clean())
    sk.add('write', wm.item(r'^    pub enum ConvertError \{', within=r'^mod convert \{').clean())
    sk.add('write', FROM_SPEC, label='FromSpecImpl')
    fr = wm.item(r'^    impl From<read::Error> for ConvertError', within=r'^mod convert \{', label='From<read::Error>').clean()
    fr.own(OWN)
    sk.add('write', fr)
    sk.add('write', wm.item(r'^    pub type ConvertResult<T>', within=r'^mod convert \{').clean())
    sk.add('write', WRITE_IDS, label='define_id')
    # write::unit: the reference-conversion trait and the CFI instance that converts nothing
    sk.module('write::unit', '''use crate::read;
use crate::common::DebugInfoOffset;
use crate::write::{ConvertError, ConvertResult, UnitId, UnitEntryId};''')
    sk.add('write::unit', wu.item(r'^pub enum DebugInfoRef \{').clean())
    tr = wu.item(r'^    pub\(crate\) trait ConvertDebugInfoRef', within=r'^pub\(crate\) mod convert \{', label='ConvertDebugInfoRef').clean()
    sk.add('write::unit', tr)
    sk.add('write::unit', wu.item(r'^    pub\(crate\) struct NoConvertDebugInfoRef', within=r'^pub\(crate\) mod convert \{').clean())
    nr = wu.item(r'^    impl ConvertDebugInfoRef for NoConvertDebugInfoRef', within=r'^pub\(crate\) mod convert \{', label='NoConvertDebugInfoRef').clean()
    nr.own(OWN)
    sk.add('write::unit', nr)


CFI_ITER_MODEL = '''
// ---- model of read::CallFrameInstructionIter<'a, R> (read/cfi.rs; decoding is property C05/C06's business): the
// iterator is a ghost sequence `rest()` of the instructions that still decode; `next` pops it, a decode error ends it.
#[verifier::external_body]
#[verifier::reject_recursive_types(R)]
pub struct CallFrameInstructionIter<'a, R: Reader> { input: R, marker: core::marker::PhantomData<&'a R> }
impl<'a, R: Reader<Offset = usize>> CallFrameInstructionIter<'a, R> {
    pub uninterp spec fn rest(&self) -> Seq<CallFrameInstruction<usize>>;
    #[verifier::external_body]
    pub fn next(&mut self) -> (res: Result<Option<CallFrameInstruction<R::Offset>>>)
        ensures
            res matches Ok(Some(i)) ==> old(self).rest().len() > 0 && i == old(self).rest()[0] && final(self).rest() == old(self).rest().skip(1),
            res matches Ok(None) ==> old(self).rest().len() == 0 && final(self).rest() == old(self).rest(),
            res is Err ==> final(self).rest().len() == 0,
    { unimplemented!() }
}
'''


def populate_read_cfi(ctx, sk):
    rc = Source('read/cfi.rs', ctx)
    ro = Source('read/op.rs', ctx)
    sk.mods['read']['uses'] += '\npub use self::cfi::*;\npub use self::op::*;'
    sk.module('read::op', '''use crate::common::Encoding;
use crate::read::{Error, Reader, ReaderOffset, Result, UnitOffset};
use crate::read::reader_clone;
use crate::vspec::*;''')
    sk.add('read::op', ro.item(r'^pub struct Expression<R: Reader>').clean(offset=False))
    sk.module('read::cfi', '''use core::fmt::Debug;
use crate::common::{Encoding, Format, Register, Vendor, DebugFrameOffset, EhFrameOffset};
use crate::constants::{self, DwEhPe};
use crate::read::{Error, Expression, Reader, ReaderOffset, Result};
use crate::read::reader_clone;
use crate::vspec::*;''')
    sk.add('read::cfi', rc.item(r'^pub trait UnwindOffset<T = usize>').clean(offset=False))
    priv = rc.item(r'^pub trait _UnwindSectionPrivate<R: Reader>', label='_UnwindSectionPrivate')
    priv.drop(['has_zero_terminator', 'is_cie', 'cie_offset_encoding', 'resolve_cie_offset', 'has_address_and_segment_sizes'])
    priv.clean(offset=False)
    priv.insert_members('    spec fn section_rv(&self) -> RView;')
    priv.splice('section', ret='res', ensures=['res.rv() == self.section_rv()'])
    sk.add('read::cfi', priv)
    us = rc.item(r'^pub trait UnwindSection<R: Reader>', label='UnwindSection')
    us.keep_only([])
    us.clean(offset=False)
    sk.add('read::cfi', us)
    sk.add('read::cfi', rc.item(r'^pub enum Pointer \{').clean())
    sk.add('read::cfi', rc.item(r'^pub struct Augmentation \{').clean())
    sk.add('read::cfi', rc.item(r'^pub struct CommonInformationEntry<R, Offset').clean(offset=False, rejrec=['R', 'Offset']))
    cie = rc.item(r'^impl<R: Reader> CommonInformationEntry<R> \{\s*pub fn offset', label='CommonInformationEntry')
    cie.keep_only(['encoding', 'code_alignment_factor', 'data_alignment_factor', 'return_address_register',
                   'lsda_encoding', 'personality_with_encoding', 'fde_address_encoding', 'is_signal_trampoline', 'instructions'])
    # bodies outside the subset (Option::and_then / is_some_and with closures, struct literal of the iterator with borrowed
    # parameters): read-side code of property C05; only their contracts are used here
    cie.extbody(['lsda_encoding', 'personality_with_encoding', 'fde_address_encoding', 'is_signal_trampoline', 'instructions'])
    cie.clean()
    cie.insert_members('''    pub closed spec fn caf(&self) -> u64 { self.code_alignment_factor }
    pub closed spec fn daf(&self) -> i64 { self.data_alignment_factor }
    pub closed spec fn ra(&self) -> Register { self.return_address_register }
    pub closed spec fn enc(&self) -> Encoding { Encoding { format: self.format, version: self.version as u16, address_size: self.address_size } }''')
    cie.splice('encoding', ret='res', ensures=['res == self.enc()'])
    cie.splice('code_alignment_factor', ret='res', ensures=['res == self.caf()'])
    cie.splice('data_alignment_factor', ret='res', ensures=['res == self.daf()'])
    cie.splice('return_address_register', ret='res', ensures=['res == self.ra()'])
    cie.insert_members('''    pub closed spec fn aug_lsda(&self) -> Option<constants::DwEhPe> { match self.augmentation { Some(a) => a.lsda, None => None } }
    pub closed spec fn aug_personality(&self) -> Option<(constants::DwEhPe, Pointer)> { match self.augmentation { Some(a) => a.personality, None => None } }
    pub closed spec fn aug_fde_enc(&self) -> Option<constants::DwEhPe> { match self.augmentation { Some(a) => a.fde_address_encoding, None => None } }
    pub closed spec fn aug_signal(&self) -> bool { match self.augmentation { Some(a) => a.is_signal_trampoline, None => false } }
    pub uninterp spec fn insn_seq(&self) -> Seq<CallFrameInstruction<usize>>;''')
    cie.splice('lsda_encoding', ret='res', ensures=['res == self.aug_lsda()'])
    cie.splice('personality_with_encoding', ret='res', ensures=['res == self.aug_personality()'])
    cie.splice('fde_address_encoding', ret='res', ensures=['res == self.aug_fde_enc()'])
    cie.splice('is_signal_trampoline', ret='res', ensures=['res == self.aug_signal()'])
    cie.splice('instructions', ret='res', ensures=['res.rest() == self.insn_seq()'])
    cie.own(['C05'])
    sk.add('read::cfi', cie)
    sk.add('read::cfi', rc.item(r'^pub enum CallFrameInstruction<T: ReaderOffset>').clean(rejrec=['T']))
    sk.add('read::cfi', CFI_ITER_MODEL, label='CallFrameInstructionIter(model)')
    sk.add('read::cfi', rc.item(r'^pub struct SectionBaseAddresses \{').clean())
    sk.add('read::cfi', rc.item(r'^pub struct BaseAddresses \{').clean())
    sk.add('read::cfi', rc.item(r'^struct AugmentationData \{').clean())
    sk.add('read::cfi', rc.item(r'^pub struct FrameDescriptionEntry<R, Offset').clean(offset=False, rejrec=['R', 'Offset']))
    fde = rc.item(r'^impl<R: Reader> FrameDescriptionEntry<R> \{\s*pub fn offset', label='FrameDescriptionEntry')
    fde.keep_only(['cie', 'instructions', 'initial_address', 'len', 'lsda'])
    fde.extbody(['instructions', 'lsda'])
    fde.clean()
    fde.insert_members('''    pub closed spec fn cie_v(&self) -> CommonInformationEntry<R> { self.cie }
    pub closed spec fn initial(&self) -> u64 { self.initial_address }
    pub closed spec fn range(&self) -> u64 { self.address_range }
    pub closed spec fn lsda_v(&self) -> Option<Pointer> { match self.augmentation { Some(a) => a.lsda, None => None } }
    pub uninterp spec fn insn_seq(&self) -> Seq<CallFrameInstruction<usize>>;''')
    fde.splice('cie', ret='res', ensures=['*res == self.cie_v()'])
    fde.splice('initial_address', ret='res', ensures=['res == self.initial()'])
    fde.splice('len', ret='res', ensures=['res == self.range()'])
    fde.splice('lsda', ret='res', ensures=['res == self.lsda_v()'])
    fde.splice('instructions', ret='res', ensures=['res.rest() == self.insn_seq()'])
    fde.own(['C05'])
    sk.add('read::cfi', fde)
    sk.add('read::cfi', rc.item(r'^pub struct UnwindExpression<T: ReaderOffset>').clean(rejrec=['T']))
    ue = rc.item(r'^impl<T: ReaderOffset> UnwindExpression<T> \{', label='UnwindExpression')
    ue.custom('R-CLONE', 'section.section().clone()', 'reader_clone(section.section())')
    ue.clean(offset=False)
    ue.splice('get', ret='res', ensures=[
        'res matches Ok(e) ==> window(section.section_rv(), e.0.rv(), self.offset.as_nat(), self.length.as_nat())'])
    ue.own(['C05'])
    sk.add('read::cfi', ue)


def populate_read_dwarf(ctx, sk):
    sk.mods['read']['uses'] += '\npub use self::dwarf::*;'
    sk.module('read::dwarf', '''use crate::common::{DebugAddrIndex, Encoding};
use crate::read::{Error, Reader, ReaderOffset, Result};''')
    sk.add('read::dwarf', UNITREF_MODEL, label='UnitRef(model)')


def populate_write_op(ctx, sk):
    wo = Source('write/op.rs', ctx)
    sk.module('write::op::convert', '''use super::*;
use crate::read::{self, Reader};
use crate::write::{ConvertDebugInfoRef, ConvertError, ConvertResult};
use crate::vspec::*;
use crate::cspec::*;''')
    CONV = r'^pub\(crate\) mod convert \{'
    ex = wo.item(r'^    impl Expression \{', within=CONV, label='Expression')
    r_dyn(ex, 'fn from<R: Reader<Offset = usize>>(', 'fn from<R: Reader<Offset = usize>, ConvAddr>(', ') -> ConvertResult<Expression> {', ') -> ConvertResult<Expression> where ' + CA_BOUND + ' {')
    ex.extbody(['from'])
    ex.clean()
    ex.own(OWN)
    ex.splice('from', ret='res', requires=[CA_TOTAL], ensures=[
        '[C12:expr-conv] res matches Ok(e) ==> expr_conv(from_expression.0.rv(), encoding, unit is Some, e)'])
    sk.add('write::op::convert', ex)


def iter_model(name, entry, generic_entry):
    return f'''
// ---- model of read::{name}<R> (decoding of the raw list is property C08's business): a ghost sequence `rest()` of the
// entries that still decode; `next` pops it; end of list / decode error end it.
#[verifier::external_body]
#[verifier::reject_recursive_types(R)]
pub struct {name}<R: Reader> {{ input: R }}
impl<R: Reader<Offset = usize>> {name}<R> {{
    pub uninterp spec fn rest(&self) -> Seq<{entry}>;
    #[verifier::external_body]
    pub fn next(&mut self) -> (res: Result<Option<{generic_entry}>>)
        ensures
            res matches Ok(Some(i)) ==> old(self).rest().len() > 0 && i == old(self).rest()[0] && final(self).rest() == old(self).rest().skip(1),
            res matches Ok(None) ==> old(self).rest().len() == 0 && final(self).rest() == old(self).rest(),
            res is Err ==> final(self).rest().len() == 0,
    {{ unimplemented!() }}
}}
'''


# helper precondition: the caller's address function leaves an unrelocated (Constant) value unchanged.  gimli applies it
# to range/location-list *offsets* as well (they are parsed with read_address) and documents that these "will be
# Address::Constant"; an offset must not change, so the function has to be the identity on what it maps to Constant.
CA_CONST_ID = '[C12:convert-address-constant-identity] forall|a: u64, c: u64| call_ensures(convert_address, (a,), Some(Address::Constant(c))) ==> c == a'


def populate_lists(ctx, sk):
    rr = Source('read/rnglists.rs', ctx)
    wr = Source('write/range.rs', ctx)
    sk.mods['read']['uses'] += '\npub use self::rnglists::*;'
    sk.module('read::rnglists', '''use crate::common::{DebugAddrIndex, Encoding};
use crate::read::{Error, Reader, ReaderOffset, Result};''')
    sk.add('read::rnglists', rr.item(r'^pub enum RawRngListEntry<T>').clean())
    sk.add('read::rnglists', iter_model('RawRngListIter', 'RawRngListEntry<usize>', 'RawRngListEntry<R::Offset>'), label='RawRngListIter(model)')
    sk.mods['write']['uses'] += '\npub use self::range::*;'
    sk.add('write', 'unsafe impl Structural for Address {}', label='Structural(Address)')
    sk.module('write::range', '''use crate::common::Encoding;
use crate::write::{Address, Error, Result};''')
    sk.add('write::range', wr.item(r'^pub struct RangeList\(').clean())
    sk.add('write::range', wr.item(r'^pub enum Range \{').clean())
    sk.module('write::range::convert', '''use super::*;
use crate::read::{self, Reader};
use crate::write::{ConvertError, ConvertResult};
use crate::vspec::*;
use crate::cspec::*;''')
    rl = wr.item(r'^    impl RangeList \{', within=r'^mod convert \{', label='RangeList')
    r_dyn(rl, 'fn from<R: Reader<Offset = usize>>(', 'fn from<R: Reader<Offset = usize>, ConvAddr>(', ') -> ConvertResult<Self> {', ') -> ConvertResult<Self> where ' + CA_BOUND + ' {')
    clean_guarded(rl)
    rl.own(OWN)
    rl.insert_after('let convert_address = |x|', ' -> (cr: ConvertResult<Address>)\n requires ' + CA_TOTAL + '\n ensures cr matches Ok(a) ==> conv_addr(convert_address, x, a)\n{')
    rl.insert_after('convert_address(x).ok_or(ConvertError::InvalidAddress)', ' }')
    rl.insert_after('let convert_address = |x', ': u64')
    U = 'from_unit.model_id'
    rl.splice('from', ret='res', canary=True, requires=[CA_TOTAL, CA_CONST_ID], ensures=par([
        f'[C12:rnglist-entries] res matches Ok(l) ==> rng_list_rel(convert_address, {U}, from.rest(), from_unit.low_pc != 0, l.0@)',
    ]), loops={0: f'invariant 0 <= k <= full.len(), from.rest() == full.skip(k), forall|a: u64| call_requires(ca, (a,)), '
                  'forall|a: u64, c: u64| call_ensures(ca, (a,), Some(Address::Constant(c))) ==> c == a, '
                  'forall|x: u64| call_requires(convert_address, (x,)), forall|x: u64, r: ConvertResult<Address>| call_ensures(convert_address, (x,), r) ==> (r matches Ok(a) ==> conv_addr(ca, x, a)), '
                  f'have_base_address == rng_hb(full.take(k), hb0), rng_list_rel(ca, {U}, full.take(k), hb0, ranges@),\n'
                  ' ensures k == full.len(),\n decreases full.len() - k'},
        before=[('let convert_address = |x', 'let ghost ca = convert_address; let ghost full = from.rest(); let ghost hb0 = from_unit.low_pc != 0; let ghost mut k: int = 0;'),
                ('let range = match from_range {', 'let ghost hb_pre = have_base_address; proof { k = k + 1; assert(full.take(k).drop_last() =~= full.take(k - 1)); assert(full.take(k).last() == full[k - 1]); '
                 'assert(full.skip(k - 1).skip(1) =~= full.skip(k)); assert(full.skip(k - 1)[0] == full[k - 1]); }'),
                ('match range {', f'proof {{ assert(range_entry_rel(ca, {U}, full[k - 1], hb_pre, range)); }}'),
                ('ranges.push(range);', 'let ghost old_ranges = ranges@;'),
                ('Ok(RangeList(ranges))', 'proof { assert(full.take(k) =~= full); }')],
        after=[('ranges.push(range);', 'proof { assert(ranges@.drop_last() =~= old_ranges); }')])
    sk.add('write::range::convert', rl)


def populate_loc(ctx, sk):
    rl = Source('read/loclists.rs', ctx)
    wl = Source('write/loc.rs', ctx)
    sk.mods['read']['uses'] += '\npub use self::loclists::*;'
    sk.module('read::loclists', '''use crate::common::{DebugAddrIndex, Encoding};
use crate::read::{Error, Expression, Reader, ReaderOffset, Result};''')
    sk.add('read::loclists', rl.item(r'^pub enum RawLocListEntry<R: Reader>').clean(offset=False, rejrec=['R']))
    sk.add('read::loclists', iter_model('RawLocListIter', 'RawLocListEntry<R>', 'RawLocListEntry<R>'), label='RawLocListIter(model)')
    sk.mods['write']['uses'] += '\npub use self::loc::*;'
    sk.module('write::loc', '''use crate::common::Encoding;
use crate::write::{Address, Error, Expression, Result};''')
    sk.add('write::loc', debug_only(wl.item(r'^pub struct LocationList\(')).clean())
    sk.add('write::loc', debug_only(wl.item(r'^pub enum Location \{')).clean())
    sk.module('write::loc::convert', '''use super::*;
use crate::read::{self, Reader};
use crate::write::{ConvertDebugInfoRef, ConvertError, ConvertResult};
use crate::vspec::*;
use crate::cspec::*;''')
    ll = wl.item(r'^    impl LocationList \{', within=r'^mod convert \{', label='LocationList')
    r_dyn(ll, 'fn from<R: Reader<Offset = usize>>(', 'fn from<R: Reader<Offset = usize>, ConvAddr>(', ') -> ConvertResult<Self> {', ') -> ConvertResult<Self> where ' + CA_BOUND + ' {')
    clean_guarded(ll)
    ll.own(OWN)
    ll.insert_after('let convert_expression = |x|', ' -> (cr: ConvertResult<Expression>)\n requires ' + CA_TOTAL + '\n ensures cr matches Ok(e) ==> expr_conv(x.0.rv(), from_unit.model_encoding, true, e)\n')
    ll.insert_after('let convert_expression = |x', ': read::Expression<R>')
    ll.insert_after('let convert_address = |x|', ' -> (cr: ConvertResult<Address>)\n requires ' + CA_TOTAL + '\n ensures cr matches Ok(a) ==> conv_addr(convert_address, x, a)\n{')
    ll.insert_after('convert_address(x).ok_or(ConvertError::InvalidAddress)', ' }')
    ll.insert_after('let convert_address = |x', ': u64')
    U, E = 'from_unit.model_id', 'from_unit.model_encoding'
    ll.splice('from', ret='res', canary=True, requires=[CA_TOTAL, CA_CONST_ID], ensures=par([
        f'[C12:loclist-entries] res matches Ok(l) ==> loc_list_rel(convert_address, {U}, {E}, from.rest(), from_unit.low_pc != 0, l.0@)',
    ]), loops={0: f'invariant 0 <= k <= full.len(), from.rest() == full.skip(k), forall|a: u64| call_requires(ca, (a,)), '
                  'forall|a: u64, c: u64| call_ensures(ca, (a,), Some(Address::Constant(c))) ==> c == a, '
                  'forall|x: u64| call_requires(convert_address, (x,)), forall|x: u64, r: ConvertResult<Address>| call_ensures(convert_address, (x,), r) ==> (r matches Ok(a) ==> conv_addr(ca, x, a)), '
                  'forall|x: read::Expression<R>| call_requires(convert_expression, (x,)), '
                  f'forall|x: read::Expression<R>, r: ConvertResult<Expression>| call_ensures(convert_expression, (x,), r) ==> (r matches Ok(e) ==> expr_conv(x.0.rv(), {E}, true, e)), '
                  f'have_base_address == loc_hb(full.take(k), hb0), loc_list_rel(ca, {U}, {E}, full.take(k), hb0, loc_list@),\n'
                  ' ensures k == full.len(),\n decreases full.len() - k'},
        before=[('let convert_expression = |x', 'let ghost ca = convert_address; let ghost full = from.rest(); let ghost hb0 = from_unit.low_pc != 0; let ghost mut k: int = 0;'),
                ('let loc = match from_loc {', 'let ghost hb_pre = have_base_address; proof { k = k + 1; assert(full.take(k).drop_last() =~= full.take(k - 1)); assert(full.take(k).last() == full[k - 1]); '
                 'assert(full.skip(k - 1).skip(1) =~= full.skip(k)); assert(full.skip(k - 1)[0] == full[k - 1]); }'),
                ('match loc {', f'proof {{ assert(loc_entry_rel(ca, {U}, {E}, full[k - 1], hb_pre, loc)); }}'),
                ('loc_list.push(loc);', 'let ghost old_list = loc_list@;'),
                ('Ok(LocationList(loc_list))', 'proof { assert(full.take(k) =~= full); }')],
        after=[('loc_list.push(loc);', 'proof { assert(loc_list@.drop_last() =~= old_list); }')])
    sk.add('write::loc::convert', ll)


def populate_write_cfi(ctx, sk):
    wc = Source('write/cfi.rs', ctx)
    wo = Source('write/op.rs', ctx)
    sk.module('write::op', '''use crate::common::{Encoding, Register, DebugInfoOffset};
use crate::constants::{self, DwOp};
use crate::write::{Address, DebugInfoRef, UnitEntryId};''')
    sk.add('write::op', debug_only(wo.item(r'^pub struct Expression \{')).clean())
    sk.add('write::op', debug_only(wo.item(r'^enum Operation \{')).clean())
    sk.module('write::cfi', '''use crate::common::{Encoding, Format, Register};
use crate::constants;
use crate::write::{Address, Error, Expression, Result};''')
    sk.module('write::cfi::convert', '''use super::*;
use crate::read::{self, Reader};
use crate::write::{ConvertError, ConvertResult, NoConvertDebugInfoRef};
use crate::vspec::*;
use crate::cspec::*;''')
    sk.add('write::cfi', debug_only(wc.item(r'^pub struct CommonInformationEntry \{')).clean())
    cn = wc.item(r'^impl CommonInformationEntry \{', label='CommonInformationEntry')
    cn.keep_only(['new'])
    cn.clean()
    cn.own(OWN)
    cn.insert_members('''    pub closed spec fn enc(&self) -> Encoding { self.encoding }
    pub closed spec fn caf(&self) -> u8 { self.code_alignment_factor }
    pub closed spec fn daf(&self) -> i8 { self.data_alignment_factor }
    pub closed spec fn ra(&self) -> Register { self.return_address_register }
    pub closed spec fn insns(&self) -> Seq<CallFrameInstruction> { self.instructions@ }
    pub closed spec fn pers(&self) -> Option<(constants::DwEhPe, Address)> { self.personality }
    pub closed spec fn lsda_enc(&self) -> Option<constants::DwEhPe> { self.lsda_encoding }
    pub closed spec fn fde_enc(&self) -> constants::DwEhPe { self.fde_address_encoding }
    pub closed spec fn signal(&self) -> bool { self.signal_trampoline }''')
    cn.splice('new', ret='res', ensures=[
        'res.enc() == encoding && res.caf() == code_alignment_factor && res.daf() == data_alignment_factor && res.ra() == return_address_register',
        'res.pers() is None && res.lsda_enc() is None && res.fde_enc() == constants::DW_EH_PE_absptr && !res.signal() && res.insns().len() == 0'])
    sk.add('write::cfi', cn)
    sk.add('write::cfi', debug_only(wc.item(r'^pub struct FrameDescriptionEntry \{')).clean())
    fn = wc.item(r'^impl FrameDescriptionEntry \{', label='FrameDescriptionEntry')
    fn.keep_only(['new'])
    fn.clean()
    fn.own(OWN)
    fn.insert_members('''    pub closed spec fn addr(&self) -> Address { self.address }
    pub closed spec fn len(&self) -> u32 { self.length }
    pub closed spec fn insns(&self) -> Seq<(u32, CallFrameInstruction)> { self.instructions@ }
    pub closed spec fn lsda_w(&self) -> Option<Address> { self.lsda }''')
    fn.splice('new', ret='res', ensures=['res.addr() == address && res.len() == length && res.lsda_w() is None && res.insns().len() == 0'])
    sk.add('write::cfi', fn)
    sk.add('write::cfi', debug_only(wc.item(r'^pub enum CallFrameInstruction \{')).clean())
    CONV = r'^pub\(crate\) mod convert \{'
    ci = wc.item(r'^    impl CallFrameInstruction \{', within=CONV, label='CallFrameInstruction')
    r_dyn(ci, 'fn from<R, Section>(', 'fn from<R, Section, ConvAddr>(', 'where\n            R: Reader<Offset = usize>,', 'where\n            ' + CA_BOUND + '\n            R: Reader<Offset = usize>,')
    ci.clean()
    ci.own(OWN)
    # the closure gets its parameter type and a contract (insertions only): it returns what Expression::from returns
    ci.insert_after('let convert_expression = |x|', ' -> (cr: ConvertResult<Expression>)\n requires CA_TOTAL\n ensures cr matches Ok(e) ==> expr_conv(x.0.rv(), from_cie.enc(), false, e)\n'.replace('CA_TOTAL', CA_TOTAL))
    ci.insert_after('let convert_expression = |x', ': read::Expression<R>')
    ci.splice('from', ret='res', canary=True, requires=[CA_TOTAL], ensures=cfi_instruction_clauses())
    sk.add('write::cfi::convert', ci)

    CAF, DAF = 'from_cie.caf() as int', 'from_cie.daf() as int'
    LOOP_TOP = ('proof { k = k + 1; assert(full.take(k).drop_last() =~= full.take(k - 1)); assert(full.take(k).last() == full[k - 1]); '
                'assert(full.skip(k - 1).skip(1) =~= full.skip(k)); assert(full.skip(k - 1)[0] == full[k - 1]); }')
    LOOP_END = 'proof { assert(k == full.len()); assert(full.take(k) =~= full); }'
    # ---- CommonInformationEntry::from
    cc = wc.item(r'^    impl CommonInformationEntry \{', within=CONV, label='CommonInformationEntry')
    r_dyn(cc, 'fn from<R, Section>(', 'fn from<R, Section, ConvAddr>(', 'where\n            R: Reader<Offset = usize>,', 'where\n            ' + CA_BOUND + '\n            R: Reader<Offset = usize>,')
    cc.clean()
    cc.own(OWN)
    cc.splice('from', ret='res', canary=True, requires=[CA_TOTAL], ensures=par([
        '[C12:cie-code-alignment] res matches Ok(c) ==> c.caf() as int == from_cie.caf() as int',
        '[C12:cie-data-alignment] res matches Ok(c) ==> c.daf() as int == from_cie.daf() as int',
        '[C12:cie-factors-inrange] res matches Ok(c) ==> (from_cie.caf() <= 255 ==> c.caf() as int == from_cie.caf() as int) && (-128 <= from_cie.daf() <= 127 ==> c.daf() as int == from_cie.daf() as int)',
        '[C12:cie-return-address-register] res matches Ok(c) ==> c.ra() == from_cie.ra()',
        '[C12:cie-encoding] res matches Ok(c) ==> c.enc() == from_cie.enc()',
        '[C12:cie-augmentation] res matches Ok(c) ==> c.lsda_encoding == from_cie.aug_lsda() && c.signal_trampoline == from_cie.aug_signal() && '
        'c.fde_address_encoding == (match from_cie.aug_fde_enc() { Some(e) => e, None => constants::DW_EH_PE_absptr })',
        '[C12:cie-personality] res matches Ok(c) ==> (match from_cie.aug_personality() { Some(pp) => (c.personality matches Some(cp) && cp.0 == pp.0 && conv_addr(convert_address, pointer_value(pp.1), cp.1)), None => c.personality is None })',
        f'[C12:cie-instructions] res matches Ok(c) ==> wcie_sems(c.insns()) =~= row_sems(cfi_rows(from_cie.insn_seq(), {CAF}, {DAF}))',
    ]), loops={0: f'invariant 0 <= k <= full.len(), full == from_cie.insn_seq(), from_instructions.rest() == full.skip(k), {CA_TOTAL}, '
                  f'offset as int == cfi_loc(full.take(k), {CAF}), wcie_sems(cie.insns()) =~= row_sems(cfi_rows(full.take(k), {CAF}, {DAF})), '
                  'cie.caf() as int == (from_cie.caf() as u8) as int, cie.daf() as int == (from_cie.daf() as i8) as int, cie.ra() == from_cie.ra(), cie.enc() == from_cie.enc(), '
                  'cie.lsda_encoding == from_cie.aug_lsda(), cie.signal_trampoline == from_cie.aug_signal(), '
                  'cie.fde_address_encoding == (match from_cie.aug_fde_enc() { Some(e) => e, None => constants::DW_EH_PE_absptr }), '
                  '(match from_cie.aug_personality() { Some(pp) => (cie.personality matches Some(cp) && cp.0 == pp.0 && conv_addr(convert_address, pointer_value(pp.1), cp.1)), None => cie.personality is None }),\n'
                  ' ensures k == full.len(),\n decreases full.len() - k'},
        before=[('let mut offset = 0;', 'let ghost full = from_cie.insn_seq(); let ghost mut k: int = 0;'),
                ('if let Some(instruction) = CallFrameInstruction::from(', LOOP_TOP),
                ('cie.instructions.push(instruction);', f'proof {{ let rr = cfi_rows(full.take(k - 1), {CAF}, {DAF}); let x = (cfi_loc(full.take(k - 1), {CAF}), read_cfi_sem(full[k - 1], {CAF}, {DAF})); assert(row_sems(rr.push(x)) =~= row_sems(rr).push(x.1)); }}'),
                ('Ok(cie)', LOOP_END)])
    sk.add('write::cfi::convert', cc)
    # ---- FrameDescriptionEntry::from
    fc = wc.item(r'^    impl FrameDescriptionEntry \{', within=CONV, label='FrameDescriptionEntry')
    r_dyn(fc, 'fn from<R, Section>(', 'fn from<R, Section, ConvAddr>(', 'where\n            R: Reader<Offset = usize>,', 'where\n            ' + CA_BOUND + '\n            R: Reader<Offset = usize>,')
    fc.clean()
    fc.own(OWN)
    FCAF, FDAF = 'from_fde.cie_v().caf() as int', 'from_fde.cie_v().daf() as int'
    fc.splice('from', ret='res', canary=True, requires=[CA_TOTAL], ensures=par([
        '[C12:fde-address] res matches Ok(f) ==> conv_addr(convert_address, from_fde.initial(), f.addr())',
        '[C12:fde-length] res matches Ok(f) ==> f.len() as int == from_fde.range() as int',
        '[C12:fde-length-inrange] res matches Ok(f) ==> (from_fde.range() <= 0xffff_ffff ==> f.len() as int == from_fde.range() as int)',
        '[C12:fde-lsda] res matches Ok(f) ==> (match from_fde.lsda_v() { Some(p) => (f.lsda matches Some(a) && conv_addr(convert_address, pointer_value(p), a)), None => f.lsda is None })',
        f'[C12:fde-instructions] res matches Ok(f) ==> wfde_rows(f.insns()) =~= cfi_rows(from_fde.insn_seq(), {FCAF}, {FDAF})',
    ]), loops={0: f'invariant 0 <= k <= full.len(), full == from_fde.insn_seq(), from_instructions.rest() == full.skip(k), {CA_TOTAL}, *from_cie == from_fde.cie_v(), '
                  f'offset as int == cfi_loc(full.take(k), {FCAF}), wfde_rows(fde.insns()) =~= cfi_rows(full.take(k), {FCAF}, {FDAF}), '
                  'conv_addr(convert_address, from_fde.initial(), fde.addr()), fde.len() as int == (from_fde.range() as u32) as int, '
                  '(match from_fde.lsda_v() { Some(p) => (fde.lsda matches Some(a) && conv_addr(convert_address, pointer_value(p), a)), None => fde.lsda is None }),\n'
                  ' ensures k == full.len(),\n decreases full.len() - k'},
        before=[('let mut offset = 0;', 'let ghost full = from_fde.insn_seq(); let ghost mut k: int = 0;'),
                ('if let Some(instruction) = CallFrameInstruction::from(', LOOP_TOP),
                ('Ok(fde)', LOOP_END)])
    sk.add('write::cfi::convert', fc)


def populate(ctx, sk):
    populate_write_base(ctx, sk)
    populate_read_cfi(ctx, sk)
    populate_read_dwarf(ctx, sk)
    populate_write_cfi(ctx, sk)
    populate_write_op(ctx, sk)
    populate_lists(ctx, sk)
    populate_loc(ctx, sk)
    return sk


def build(ctx):
    sk = Skeleton(ctx, core.rd('prelude/crate.rs'))
    core.populate(ctx, sk)
    populate(ctx, sk)
    return sk
