"""B-conv-line: write::line::convert::ConvertLineProgram::read_row  (DESIGN.md 6 C12, anchor "line program re-generation
from executed rows: src/write/line.rs ConvertLineProgram::{new,read_row,convert_row,convert}").

Builds on batch `line` (`line.populate` runs first and unchanged): the read-side register machine
`read::LineRow::{execute, reset, end_sequence, address}` and `LineInstructions::next_instruction` are THE SAME items with
the same contracts over the ghost register record `regs()`; everything of batch `line` is re-verified here (its known
finding F-line-3 = [C04:monotone-rows] on `LineRows::next_row` therefore fails here too, under the same label and C04
tag - it is not C12's; `python3 vx/run.py conv_line` exits 1 with exactly that one ERR line on the pinned tree, as batch
line_hdr does; every C12 clause and every obligation of the functions owned by C12 is discharged).

Property clause: "the same line rows ... or it fails with an error; it never silently drops ... anything".  read_row is
the state machine that turns executed rows into ConvertLineRow::{SetAddress, Row, EndSequence} and SUPPRESSES the rows of
a sequence whose DW_LNE_set_address operand is the all-ones tombstone of the header's address size.  What is stated is the
TOMBSTONE DISCIPLINE, over three ghost locals of read_row maintained by inserted ghost code that reads only the
instruction operand / the row register (never the code's own flag):
    in_tomb   the latest DW_LNE_set_address of the current sequence had operand ones(address_size); cleared when a row with
              end_sequence is reported (the next sequence starts clean)
    pend      operand of the latest non-tombstone DW_LNE_set_address of the current sequence that was not handed out yet
    live      a row was reported by `execute` while !in_tomb (it must be handed out, not passed over)

Functions under contract (real text of /repo/src/write/line.rs, `mod convert`):
  ConvertLineProgram::read_row   loop invariant (every `continue` re-establishes it):
        [C12:line-tombstone-cleared-at-end] tombstone ==> in_tomb   (the flag does not outlive the end_sequence row of
                                            the tombstoned sequence) and !in_tomb ==> self.address == pend (no stale address
                                            leaks into the next sequence)
        [C12:line-tombstone-set]            in_tomb ==> tombstone
        [C12:line-row-emitted]              !live: no reported row of a non-tombstoned sequence is `continue`d past
        [C12:line-set-address-pending]      !in_tomb ==> self.address == pend (a non-tombstone operand stays pending)
      postconditions:
        [C12:line-row-emitted]  state ReadRow: Ok(Some(v)) ==> (v is EndSequence <==> the row register has end_sequence)
        [C12:line-row-not-invented]  EndSequence(a) ==> row register has end_sequence && a == its address; state ReadRow:
                                Ok(Some(_)) ==> at least one instruction was consumed
        [C12:line-none-only-at-end]  Ok(None) ==> no instruction is left
        [C12:line-set-address-pending]  mid-point: where the pending address is tested, self.address == pend;
                                SetAddress(_) ==> next state ConvertRow, nothing pending; Row(_) ==> nothing pending
        [C12:line-row-after-address]  state ConvertRow: Ok(Some(v)) ==> v is Row, registers and cursor untouched
      + built-in obligations (shift/overflow of `!0 >> (64 - address_size * 8)`, callee preconditions of execute /
        next_instruction / reset, termination on the instruction cursor), helper invariant wf().
  LineProgramHeader::encoding (read), write::LineProgram::encoding

Assumed (TRUSTED = line.TRUSTED +):
  convert_row       R-EXTBODY, NO contract (result uninterpreted): body uses read::LineRow::line()/column() = NonZeroU64
                    (outside Verus).  Nothing is claimed about the CONTENT of a Row here (see Not decided).
  convert_file      R-EXTBODY, no contract: Cow / to_slice / LineString::new (IndexSet) underneath
  add_file          R-EXTBODY, no contract: FnvIndexMap (indexmap) - outside Verus
  Dwarf, LineStringTable, StringTable, LineString, FileInfo    opaque type models (external_body structs): only passed
                    through to convert_file / add_file
Custom rewrites (logged): R-FIELDS x3 on write::LineProgram (directories / files: indexmap types; instructions:
  Vec<LineInstruction> - no extracted function touches them).

Self-attack (scratch copy /tmp/conv_line-repo, `GIMLI_REPO=.. python3 vx/run.py conv_line`): see the final report /
  SELFTEST below.
SELFTEST
  m1  tombstone branch: `self.from_row.reset(..)` moved before the `if self.from_row.end_sequence()` test
                                                     -> loop invariant [C12:line-tombstone-cleared-at-end]
  m2  `self.address = None;` dropped there           -> loop invariant [C12:line-tombstone-cleared-at-end][C12:line-set-address-pending]
  m3  `if !tombstone` inverted when storing address  -> loop invariant [C12:line-tombstone-cleared-at-end][C12:line-set-address-pending]
                                                        (the `!in_tomb ==> self.address == pend` conjunct, at the arm's `continue`)
  m4  Row returned instead of EndSequence            -> [C12:line-row-emitted] (+ [C12:line-set-address-pending] postcondition)
  every run: status ok, exit 1, the listed obligations + the known C04 finding; the unmutated tree: only the latter.

Not decided here: ConvertLineProgram::{new, convert_file, convert_string, read_sequence, set_address, generate_row,
  end_sequence, program}; convert_row (register-by-register copy, file index mapping, InvalidFileIndex cases): assumed
  WITHOUT contract, so "the Row carries the registers" is not claimed; that the VALUE of SetAddress(a) is the pending
  operand beyond `self.address == pend` at the test (the `take()` in between is vstd's Option::take); the trace-level
  statement "rows(read_row*) == rows(read::LineRows) minus tombstoned sequences"; write::LineProgram::add_file's
  documented panics (empty / NUL-containing file name) reachable from DefineFile through convert_file.

FINDING F24 (added by the main session): `add_file` now carries its documented panics as the precondition [C01:add-file-name-nonempty];
  the call in read_row cannot establish it (DW_LNE_define_file "" in a DWARF <= 4 program: native/src/bin/f_conv_6.rs panics in add_file).
  Listed in known_findings.json for C01 and C12; the obligation stays live.
"""
from lib import *
from batches import core
from batches import line

TRUSTED = list(line.TRUSTED) + ['convert_row', 'convert_file', 'add_file', 'Dwarf', 'LineStringTable', 'StringTable',
                                'LineString', 'FileInfo']
VERUS_ARGS = ['--rlimit', '40']
RETRY_RLIMIT = 120
OWN = ['C12']
M = 'write::line'
MC = 'write::line::convert'

FROM_SPEC = '''
impl vstd::std_specs::convert::FromSpecImpl<read::Error> for ConvertError {
    open spec fn obeys_from_spec() -> bool { true }
    open spec fn from_spec(v: read::Error) -> Self { ConvertError::Read(v) }
}
'''

READ_DWARF_MODEL = '''
// ---- opaque model of read::Dwarf<R> (read/dwarf.rs): ConvertLineProgram only hands the reference to convert_file
#[derive(Debug)]
#[verifier::external_body]
#[verifier::reject_recursive_types(R)]
pub struct Dwarf<R> { model_marker: core::marker::PhantomData<R> }
'''

WRITE_MODELS = '''
// ---- opaque models of write::{LineStringTable, StringTable} (IndexSet<Vec<u8>>): only passed through to convert_file
#[derive(Debug)]
#[verifier::external_body]
pub struct LineStringTable { model: () }
#[derive(Debug)]
#[verifier::external_body]
pub struct StringTable { model: () }
'''

LINE_MODELS = '''
// ---- opaque models of write::{LineString, FileInfo}: results of convert_file handed to LineProgram::add_file
#[derive(Debug)]
#[verifier::external_body]
pub struct LineString { model: () }
impl LineString {
    /// `LineString::String(v)` with an empty `v` / with a NUL byte in `v` (the two cases `add_file` documents as panics)
    pub uninterp spec fn is_empty_string(&self) -> bool;
    pub uninterp spec fn has_nul(&self) -> bool;
}
#[derive(Debug)]
#[verifier::external_body]
pub struct FileInfo { model: () }
'''

GHOST = '''
        /// the state machine is about to read instructions / has a converted row pending after a SetAddress
        pub closed spec fn st_read_row(&self) -> bool { self.state is ReadRow }
        pub closed spec fn st_convert_row(&self) -> bool { self.state is ConvertRow }
        /// the address of a DW_LNE_set_address that was not handed out yet
        pub closed spec fn pending(&self) -> Option<u64> { self.address }
        /// registers of the source row under construction / last reported
        pub closed spec fn row_regs(&self) -> LineRegs { self.from_row.regs() }
        /// the source instructions still to be executed
        pub closed spec fn instrs(&self) -> RView { self.from_instructions.iv() }
        pub closed spec fn lh(&self) -> LineHdr { read::LineProgram::hdr(&self.from_program).lh() }
        /// invariant: valid source header, register invariant
        pub closed spec fn wf(&self) -> bool {
            valid_line_hdr(read::LineProgram::hdr(&self.from_program).lh())
            && line_regs_wf(read::LineProgram::hdr(&self.from_program).lh(), self.from_row.regs())
        }
'''

BV = ('assert(!0u64 >> 56u64 == 0xff) by (bit_vector); assert(!0u64 >> 48u64 == 0xffff) by (bit_vector); '
      'assert(!0u64 >> 32u64 == 0xffff_ffff) by (bit_vector); assert(!0u64 >> 0u64 == 0xffff_ffff_ffff_ffff) by (bit_vector);')


def populate_write(ctx, sk):
    wm = Source('write/mod.rs', ctx)
    wl = Source('write/line.rs', ctx)
    sk.mods['read']['uses'] += '\npub use self::dwarf::*;'
    sk.module('read::dwarf', 'use crate::read::Reader;')
    sk.add('read::dwarf', READ_DWARF_MODEL, label='Dwarf(model)')

    sk.module('write', '''use core::result;
use crate::constants;
use crate::read;
use crate::common::*;
pub use self::line::*;''')
    sk.add('write', wm.item(r'^pub enum Address \{').clean())
    sk.add('write', wm.item(r'^pub enum Error \{').clean())
    sk.add('write', wm.item(r'^pub type Result<T>').clean())
    sk.add('write', wm.item(r'^    pub enum ConvertError \{', within=r'^mod convert \{').clean())
    sk.add('write', FROM_SPEC, label='FromSpecImpl')
    fr = wm.item(r'^    impl From<read::Error> for ConvertError', within=r'^mod convert \{', label='From<read::Error>').clean()
    fr.own(OWN)
    sk.add('write', fr)
    sk.add('write', wm.item(r'^    pub type ConvertResult<T>', within=r'^mod convert \{').clean())
    sk.add('write', WRITE_MODELS, label='write-models')

    sk.module(M, '''use crate::common::{Encoding, LineEncoding};
pub use self::convert::*;''')
    sk.add(M, LINE_MODELS, label='line-models')
    sk.add(M, wl.item(r'^pub struct DirectoryId\(').clean())
    sk.add(M, wl.item(r'^    pub struct FileId\(', within=r'^mod id \{').clean())
    sk.add(M, wl.item(r'^pub struct LineRow \{', label='LineRow(write)').clean())
    lp = wl.item(r'^pub struct LineProgram \{', label='LineProgram(write)')
    # R-FIELDS: indexmap tables and the instruction list; no extracted function mentions them
    lp.custom('R-FIELDS', 'directories: FnvIndexSet<LineString>,', '')
    lp.custom('R-FIELDS', 'files: FnvIndexMap<(LineString, DirectoryId), FileInfo>,', '')
    lp.custom('R-FIELDS', 'instructions: Vec<LineInstruction>,', '')
    sk.add(M, lp.clean())
    im = wl.item(r'^impl LineProgram \{', label='LineProgram(write impl)')
    im.keep_only(['encoding', 'add_file'])
    im.extbody(['add_file'])
    im.clean()
    im.own(OWN)
    # the documented panics of add_file ("Panics if 'file' is empty or contains a null byte": two assert!s, R-ASSERT would make them
    # obligations if the body were extracted) as its precondition: C01 requires that conversion of ANY section bytes does not panic,
    # so every call reachable from section bytes must establish it.  read_row does not (finding F24: DW_LNE_define_file "" in a
    # DWARF <= 4 program, native/src/bin/f_conv_6.rs).
    im.insert_members('    pub closed spec fn enc_v(&self) -> Encoding { self.encoding }')
    im.splice('add_file', requires=['[C01:add-file-name-nonempty] (old(self).enc_v().version <= 4 ==> !file.is_empty_string()) && !file.has_nul()'])
    sk.add(M, im)


def populate_convert(ctx, sk):
    wl = Source('write/line.rs', ctx)
    ln = Source('read/line.rs', ctx)
    # read-side accessor batch `line` does not keep
    he = ln.item(r'^impl<R, Offset> LineProgramHeader<R, Offset>', label='LineProgramHeader(encoding)')
    he.keep_only(['encoding'])
    he.clean(offset=False)
    he.own(OWN)
    he.splice('encoding', ret='res', ensures=['res.address_size as int == self.lh().address_size && res.version as int == self.lh().version'])
    sk.add('read::line', he)

    sk.module(MC, '''use super::*;
use crate::read::{self, Reader};
use crate::write::{self, ConvertError, ConvertResult};
use crate::vspec::*;
use crate::vspec_line::*;''')
    W = r'^mod convert \{'
    sk.add(MC, wl.item(r'^    pub enum ConvertLineRow \{', within=W).clean(offset=False))
    sk.add(MC, wl.item(r'^    enum ConvertLineState \{', within=W).clean(offset=False))
    sk.add(MC, wl.item(r"^    pub struct ConvertLineProgram<'a, R: Reader> \{", within=W).clean(offset=False).prepend('#[verifier::reject_recursive_types(R)]'))
    cp = wl.item(r"^    impl<'a, R: Reader \+ 'a> ConvertLineProgram<'a, R> \{", within=W, label='ConvertLineProgram')
    # (keep_only needs an unindented impl header; the item sits inside `mod convert`: the other methods are dropped by name)
    cp.drop(['new', 'convert_string', 'read_sequence', 'begin_sequence', 'set_address', 'end_sequence', 'in_sequence',
             'generate_row', 'program', 'convert'])
    cp.extbody(['convert_file', 'convert_row'])
    cp.clean(offset=False)
    cp.insert_after("impl<'a, R: Reader + 'a> ConvertLineProgram<'a, R> {", GHOST)
    cp.own(OWN)
    SZ = 'read::LineProgram::hdr(&self.from_program).lh().address_size as u8'
    RD = 'old(self).st_read_row()'
    cp.splice('read_row', ret='res', canary=True, requires=['[C12:line-wf] old(self).wf()'], ensures=[
        'final(self).wf()',
        f'[C12:line-row-emitted] {RD} ==> (res matches Ok(Some(v)) ==> (v is EndSequence <==> final(self).row_regs().end_sequence))',
        '[C12:line-row-not-invented] res matches Ok(Some(ConvertLineRow::EndSequence(a))) ==> final(self).row_regs().end_sequence && a as int == final(self).row_regs().address',
        f'[C12:line-row-not-invented] {RD} ==> (res matches Ok(Some(v)) ==> final(self).instrs().len < old(self).instrs().len)',
        '[C12:line-none-only-at-end] res matches Ok(None) ==> final(self).instrs().len == 0',
        '[C12:line-set-address-pending] res matches Ok(Some(ConvertLineRow::SetAddress(a))) ==> final(self).st_convert_row() && final(self).pending() is None',
        f'[C12:line-set-address-pending] {RD} ==> (res matches Ok(Some(ConvertLineRow::Row(r))) ==> final(self).st_read_row() && final(self).pending() is None)',
        '[C12:line-row-after-address] old(self).st_convert_row() ==> (res matches Ok(Some(v)) ==> v is Row) && final(self).row_regs() == old(self).row_regs() && final(self).instrs() == old(self).instrs()',
    ], after=[
        ('let mut tombstone = false;', 'let ghost mut in_tomb = false; let ghost mut pend: Option<u64> = None; let ghost mut live = false;'),
    ], before=[
        # the first `continue;` of the body ends the DW_LNE_set_address arm: the ghost state follows the OPERAND
        ('continue;', f'proof {{ {BV}\n in_tomb = (val == ones({SZ})); pend = if in_tomb {{ None }} else {{ Some(val) }}; }}'),
        # a row was reported by `execute` (the `if !execute {{ continue }}` is behind us); the ghost state follows the ROW REGISTER
        # (anchored with its 16-space indentation: the statement level of the loop body, not a nested `if tombstone`)
        ('\n                if tombstone {', 'proof { live = !in_tomb; if self.from_row.regs().end_sequence { in_tomb = false; pend = None; } }'),
        ('\n                if let Some(address) = self.address.take() {', 'proof {\n assert(self.address == pend); // [C12:line-set-address-pending]\n }'),
    ], loops={0: '''invariant
                self.wf(),
                tombstone ==> in_tomb, // [C12:line-tombstone-cleared-at-end]
                in_tomb ==> tombstone, // [C12:line-tombstone-set]
                !in_tomb ==> self.address == pend, // [C12:line-tombstone-cleared-at-end][C12:line-set-address-pending]
                !live, // [C12:line-row-emitted]
                self.state is ReadRow, old(self).state is ReadRow,
                self.from_instructions.iv().len <= old(self).from_instructions.iv().len,
            ensures
                self.from_instructions.iv().len == 0, // [C12:line-none-only-at-end]
            decreases self.from_instructions.iv().len'''})
    sk.add(MC, cp)


def populate(ctx, sk):
    populate_write(ctx, sk)
    populate_convert(ctx, sk)
    return sk


def build(ctx):
    sk = Skeleton(ctx, core.rd('prelude/crate.rs'))
    core.populate(ctx, sk)
    line.populate(ctx, sk)
    populate(ctx, sk)
    return sk
