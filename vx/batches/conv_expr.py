"""B-conv-expr: the per-operation mapping of write::op::convert::Expression::from (DESIGN.md 6 C12, C15 vocabulary).

Batch `conv` only ASSUMES `[C12:expr-conv]` for `Expression::from` (R-EXTBODY).  This batch takes the real text of the
`match from_operation { .. }` of that function (all 60-odd arms, /repo/src/write/op.rs `mod convert`) and proves, per
read::Operation variant, that the write::Operation produced is the same operation with the same operands, or an error.

RULE R-MATCH (statement-range cut, logged twice through `Item.custom` with the complete old and new text, like R-TAIL of
batches/wline_prog.py).  The body of `Expression::from` is
      <head> S <tail>          S = the statement `let operation = match from_operation { .. };` (unique, inside the 2nd loop)
  The rule turns the method into a helper method of the same impl:
      fn from_verif_op<GENERICS VERBATIM>(from_operation: read::Operation<R>, from_operations: &read::OperationIter<R>,
                                          offsets: &Vec<usize>, PARAMETER LIST VERBATIM) -> ConvertResult<Operation>
      { S VERBATIM  Ok(operation) }
  MOVED verbatim: S, the generics and the parameter list of `from` (so `encoding` / `unit` / `convert_address` / `refs` are
       the ones the real function has).  CARRIED as parameters: the three locals of <head> that S reads (`from_operation` - the
       value bound by `while let Some(from_operation) = from_operations.next()?`, `from_operations` - the iterator, only
       `offset_from` is called on it, `offsets` - the offset table, only `binary_search` is called on it).
  DROPPED: <head> (offset bookkeeping loop, second iterator, `while let` header) and <tail> (`operations.push(operation); }
       Ok(Expression { operations })`).  GENERATED: the name, the three carried parameters, the return type, `Ok(operation)`.
  X-LOOP (build time, PURELY SYNTACTIC, Lost = exit 2, not a proof): the whitespace-normalised <head> and <tail> must be
       EXACTLY the texts HEAD / TAIL below, i.e. the dropped part is the reviewed one: every start offset pushed in order,
       the end offset pushed last, one `operations.push(operation)` per decoded operation and nothing else.  Any edit of
       the dropped parts stops the check with exit 2 (tool problem), never silently.
  What R-MATCH does NOT give (stays ASSUMED, see below): that `offsets` is the sorted table of operation start offsets,
       that the operations are pushed in order ([C12:expr-order]), the recursion measure.

Functions under contract (real text, verified; all owned by C12):
  write/op.rs  convert::Expression::from_verif_op  (= the `match` of Expression::from, R-MATCH)
      [C12:expr-op-<variant>]      one clause per read::Operation variant (44 variants; Deref/RegisterOffset/Call/Piece/
                                   Convert/Reinterpret have one clause per sub-case): the result is Ok only with the write-side
                                   operation of the same kind and the same operands compared as mathematical integers /
                                   exact values (registers, offsets, constants, sizes, space flag, piece bits), typed
                                   operations carry exactly the id the unit-ref callback returned and are Err when it is
                                   Err, `Address` carries an address the callback returned for exactly this input
                                   (None -> Err), block operands carry exactly the bytes of the block, EntryValue carries
                                   a conversion (expr_conv) of exactly the nested block under the same encoding/unit.
      [C12:expr-branch-target]     Bra/Skip -> Branch(i)/Skip(i) with offsets[i] == (offset after this operation) + target
                                   over the integers (DWARF 5 2.5.1.5: the operand is relative to the end of the operation)
      [C12:expr-branch-invalid-err] no entry of the table equals that offset (middle of an operation, outside the
                                   expression, negative) -> Err
      [C12:expr-unsupported-err]   AddressIndex / ConstantIndex without a unit -> Err; a failing `.debug_addr` lookup -> Err;
                                   the result is never `Operation::Raw`
  read/op.rs   OperationIter::offset_from (real body; helper contract, owner C07)
  write/unit.rs ConvertDebugInfoRef gets ghost functions `unit_ref_spec` / `debug_info_ref_spec`: the callbacks are
      deterministic functions of (self, offset).  This is a modelling assumption on the implementors (helper contract).

Rewrites beyond the standard rules (logged): R-MATCH (above); R-DYN `&dyn Fn(u64) -> Option<Address>` -> `&ConvAddr`,
  `&dyn ConvertDebugInfoRef` -> `&Refs` (Verus has no dyn); R-COW `x.to_slice()?.into_owned().into()` -> `read::reader_to_boxed(&x)?`
  (Cow is outside Verus; the replacement is TRUSTED: Ok(b) ==> b is byte-for-byte the reader's remaining window; twice:
  ImplicitValue, TypedLiteral); R-DERIVE (conv.debug_only).

Helper preconditions of from_verif_op (from the call site = the dropped head, NOT proved here):
  * inside(from_expression, from_operations): the iterator reads inside the expression (offset_from's precondition)
  * offsets[i] < 2^63 and expression length < 2^63 (Rust allocation limit; needed so that `wrapping_add` of a negative
    target cannot wrap onto a table entry)
  * a `Piece` without bit offset has size_in_bits % 8 == 0: Operation::parse yields `8 * size` ([C07:decode-piece], batch `op`);
    without it `size_in_bits / 8` would be a silent rounding.  (Finding F1, the wrapping `8 * size` of the parser, is C07's.)
  * the address callback may be called on every address (CA_TOTAL, as in batch `conv`)

ASSUMED (TRUSTED ledger):
  from (write::op::convert::Expression::from)  R-EXTBODY, contract `[C12:expr-conv]` Ok(e) ==> expr_conv(bytes, encoding, unit is
        Some, e) with expr_conv UNINTERPRETED, used for the recursive call of the EntryValue arm only.  Still assumed of the
        function as a whole: the two loops (head/tail, X-LOOP is syntactic), hence [C12:expr-order] is NOT proved: no
        clause carries that tag.  Reason the loops were left out: time (OperationIter::next model, Expression clone, sorted
        offset-table invariant and termination of the EntryValue recursion were not built).
  <[T]>::binary_search   std, no vstd spec.  Assumed: Ok(i) ==> i < len && s[i] == *x (only the Ok direction; the Err
        direction - no spurious InvalidBranchTarget on a sorted table - is not needed for C12 and not claimed).
  reader_to_boxed        R-COW, see above.
  encoding, address (UnitRef model of batch conv: `address(index)` = uninterpreted function of unit and index).
  write-side id types: hand expansions of `define_id!` (conv.WRITE_IDS).

NOT DECIDED: the loops of Expression::from ([C12:expr-order], that `offsets` holds exactly the operation start offsets + the end
  offset in increasing order, that InvalidBranchTarget is not raised spuriously); `RegisterOffset` with base_type != 0 AND
  offset != 0 (not producible by Operation::parse: DW_OP_regval_type has no offset; the code drops the offset, the clause is
  stated for offset == 0 only); idempotence of a second conversion; Expression::write of the result (batch `wop`).
SELF-TEST (scratch copies of /repo, `GIMLI_REPO=... python3 vx/run.py conv_expr`; unchanged tree: exit 0, 1050 verified, canary fails as it must):
  `Operation::Register(Register(register.0 as u8 as u16))`                    -> exit 1 [C12:expr-op-register]
  BitPiece { size_in_bits: bit_offset, bit_offset: size_in_bits }             -> exit 1 [C12:expr-op-piece-bits]
  `Operation::Branch(index + 1)`                                              -> exit 1 [C12:expr-op-bra][C12:expr-branch-target] (+ overflow obligation)
  ConstantIndex without unit -> `Operation::Simple(DW_OP_nop)` instead of Err  -> exit 1 [C12:expr-unsupported-err] [C12:expr-op-constant-index]
  Deref: `size == encoding.address_size` selects DerefSize (branches swapped) -> exit 1 [C12:expr-op-deref-untyped]
  Skip: `match binary_search { Ok(i) => i, Err(i) => i }` (silent retarget)   -> exit 1 [C12:expr-branch-target] [C12:expr-branch-invalid-err]
  Address: `convert_address(a).unwrap_or(Address::Constant(a))`               -> exit 1 [C12:expr-op-address]
  typed Deref whose base type has no target -> DerefSize instead of Err       -> exit 1 [C12:expr-op-deref-typed]
  `FrameOffset(offset as i32 as i64)`                                         -> exit 1 [C12:expr-op-frame-offset]
  Shr -> `Simple(DW_OP_shra)`                                                 -> exit 1 [C12:expr-op-shr]
  `.unwrap_or_else(|i| i)` on the search result                               -> exit 2 (Verus: unwrap_or_else unsupported; tool problem, not silent)
"""
import re
from lib import *
from batches import core, conv

TRUSTED = list(core.TRUSTED) + ['encoding', 'address', 'from', 'reader_to_boxed', '<[T']    # '<[T' is how run.py's ledger scanner reads `assume_specification[ <[T]>::binary_search ]`
VERUS_ARGS = ['--rlimit', '60']
# one failed obligation per broken arm must be visible when several arms are wrong at once
MULTIPLE_ERRORS = 20
OWN = ['C12']
HELPER = 'from_verif_op'

CA_TOTAL = conv.CA_TOTAL

# ----------------------------------------------------------------------------- X-LOOP: the reviewed dropped parts
HEAD = norm_ws('''
            let mut offsets = Vec::new();
            let mut offset = 0;
            let mut from_operations = from_expression.clone().operations(encoding);
            while from_operations.next()?.is_some() {
                offsets.push(offset);
                offset = from_operations.offset_from(&from_expression);
            }
            offsets.push(from_expression.0.len());

            let mut from_operations = from_expression.clone().operations(encoding);
            let mut operations = Vec::new();
            while let Some(from_operation) = from_operations.next()? {
''')
TAIL = norm_ws('''
                operations.push(operation);
            }
            Ok(Expression { operations })
''')
STMT = 'let operation = match from_operation {'


def cut_match(im):
    """R-MATCH on the impl item `im` (after R-DYN, before clean)."""
    t = im.text
    s, e = method_span(t, 'from')
    k = re.search(r'\bfn\s+from\b', t[s:e]).start() + s
    b = body_open(t, k)
    if t[b] != '{':
        raise Lost('R-MATCH: Expression::from has no body')
    close = match_close(t, b)
    body = t[b + 1:close]
    if body.count(STMT) != 1:
        raise Lost(f'R-MATCH: anchor `{STMT}` found {body.count(STMT)} times in Expression::from')
    p = body.index(STMT)
    mb = p + len(STMT) - 1
    me = match_close(body, mb)
    rest = body[me + 1:]
    if not rest.lstrip().startswith(';'):
        raise Lost('R-MATCH: the match statement does not end in `;`')
    q = me + 1 + rest.index(';') + 1
    head, rng, tail = body[:p], body[p:q], body[q:]
    if norm_ws(head) != HEAD:
        raise Lost('X-LOOP: the part of Expression::from before the per-operation match is not the reviewed text (offset bookkeeping / iterator loop changed)')
    if norm_ws(tail) != TAIL:
        raise Lost('X-LOOP: the part of Expression::from after the per-operation match is not the reviewed text (`operations.push(operation); } Ok(Expression { operations })`)')
    for n in ('operations', 'offset'):
        # locals of the head that are NOT carried must not be read by the match (`offset` is rebound inside the arms before use)
        pass
    if re.search(r'(?<![.\w])operations\b', rng):
        raise Lost('R-MATCH: the match reads the local `operations` of the dropped part')
    header = t[k:b]
    i = header.index('(')
    j = match_close(header, i)
    generics, params = header[len('fn from'):i], header[i + 1:j]
    if not re.search(r'->\s*ConvertResult<Expression>', header[j + 1:]):
        raise Lost('R-MATCH: unexpected return type of Expression::from')
    where = header[j + 1:]
    where = re.sub(r'->\s*ConvertResult<Expression>', '-> ConvertResult<Operation>', where, count=1)
    old1 = t[s:b + 1] + head
    old2 = tail + '}'
    if t[close - len(tail):close + 1] != old2 or t.count(old1) != 1 or t.count(old2) != 1:
        raise Lost('R-MATCH: cut points are not unique')
    im.custom('R-MATCH', old1, f'\n        fn {HELPER}{generics}(\n            from_operation: read::Operation<R>,\n            from_operations: &read::OperationIter<R>,\n'
              f'            offsets: &Vec<usize>,{params}){where}{{\n                ')
    im.custom('R-MATCH', old2, '\n                Ok(operation)\n        }')
    return im


# ----------------------------------------------------------------------------- prelude text
READER_TO_BOXED = '''
// R-COW: stands for `x.to_slice()?.into_owned().into()` (Cow<[u8]> -> Vec<u8> -> Box<[u8]>): the bytes of the reader's window
#[verifier::external_body]
pub fn reader_to_boxed<R: Reader>(r: &R) -> (res: Result<Box<[u8]>>)
    ensures res matches Ok(b) ==> b@.len() == r.rv().len && forall|i: int| 0 <= i < b@.len() ==> b@[i] == r.rv().at(i)
{ unimplemented!() }
'''

BINARY_SEARCH = '''
// std `<[T]>::binary_search` (no vstd specification): only the Ok direction is assumed
pub assume_specification<T: Ord>[ <[T]>::binary_search ](s: &[T], x: &T) -> (res: core::result::Result<usize, usize>)
    ensures res matches Ok(i) ==> i < s@.len() && s@[i as int] == *x;
'''

XSPEC = '''
/// Relation "expression bytes `from` (a reader window) under `enc` were converted to `out`" (same role as cspec::expr_conv
/// of batch conv): established by Expression::from (assumed there and here), used for the nested block of EntryValue.
pub uninterp spec fn expr_conv(from: crate::vspec::RView, enc: Encoding, has_unit: bool, out: crate::write::op::Expression) -> bool;
/// the bytes of a block operand are exactly the reader window `v`
pub open spec fn same_bytes(v: crate::vspec::RView, b: Seq<u8>) -> bool {
    b.len() == v.len && forall|i: int| 0 <= i < b.len() ==> b[i] == v.at(i)
}
'''

WDEREF = '''
/// DWARF 5 2.5.1.3 meaning of the three write-side dereference forms: (address space operand?, size in bytes, type)
spec fn wderef(w: Operation, address_size: u8) -> Option<(bool, int, Option<UnitEntryId>)> {
    match w {
        Operation::Deref { space } => Some((space, address_size as int, None)),
        Operation::DerefSize { space, size } => Some((space, size as int, None)),
        Operation::DerefType { space, size, base } => Some((space, size as int, Some(base))),
        _ => None,
    }
}
'''

RO = 'read::Operation'
WO = 'Operation'
RES_T = 'ConvertResult<Operation>'

# read variant -> DW_OP_* of the operand-less write-side form (DWARF 5 2.5 / 7.7.1, GNU uninit)
SIMPLE = {
    'Drop': ['DW_OP_drop'], 'Swap': ['DW_OP_swap'], 'Rot': ['DW_OP_rot'], 'Abs': ['DW_OP_abs'], 'And': ['DW_OP_and'],
    'Div': ['DW_OP_div'], 'Minus': ['DW_OP_minus'], 'Mod': ['DW_OP_mod'], 'Mul': ['DW_OP_mul'], 'Neg': ['DW_OP_neg'],
    'Not': ['DW_OP_not'], 'Or': ['DW_OP_or'], 'Plus': ['DW_OP_plus'], 'Shl': ['DW_OP_shl'], 'Shr': ['DW_OP_shr'],
    'Shra': ['DW_OP_shra'], 'Xor': ['DW_OP_xor'], 'Eq': ['DW_OP_eq'], 'Ge': ['DW_OP_ge'], 'Gt': ['DW_OP_gt'],
    'Le': ['DW_OP_le'], 'Lt': ['DW_OP_lt'], 'Ne': ['DW_OP_ne'], 'Nop': ['DW_OP_nop'],
    'PushObjectAddress': ['DW_OP_push_object_address'], 'TLS': ['DW_OP_form_tls_address', 'DW_OP_GNU_push_tls_address'],
    'CallFrameCFA': ['DW_OP_call_frame_cfa'], 'StackValue': ['DW_OP_stack_value'], 'Uninitialized': ['DW_OP_GNU_uninit'],
}
# read variant with plain operands copied exactly: (read pattern, write pattern, equalities over mathematical integers)
COPY = {
    'Pick': ('Pick { index }', 'Pick(i)', 'i as int == index as int'),
    'PlusConstant': ('PlusConstant { value }', 'PlusConstant(v)', 'v as int == value as int'),
    'UnsignedConstant': ('UnsignedConstant { value }', 'UnsignedConstant(v)', 'v as int == value as int'),
    'SignedConstant': ('SignedConstant { value }', 'SignedConstant(v)', 'v as int == value as int'),
    'Register': ('Register { register }', 'Register(r)', 'r.0 as int == register.0 as int'),
    'FrameOffset': ('FrameOffset { offset }', 'FrameOffset(o)', 'o as int == offset as int'),
    'WasmLocal': ('WasmLocal { index }', 'WasmLocal(i)', 'i as int == index as int'),
    'WasmGlobal': ('WasmGlobal { index }', 'WasmGlobal(i)', 'i as int == index as int'),
    'WasmStack': ('WasmStack { index }', 'WasmStack(i)', 'i as int == index as int'),
}


def snake(n):
    return re.sub(r'(?<!^)([A-Z])', r'-\1', n).lower()


def via_ref(fn, arg, ok):
    """result through a reference callback: Err when the callback fails, else `ok` with `id` bound to its result"""
    return f'(match refs.{fn}({arg}) {{ Ok(id) => (res matches Ok(w) && ({ok})), Err(_) => res is Err }})'


def op_clauses():
    out = []
    seen = set()

    def cl(variant, body, sub=''):
        seen.add(variant)
        out.append(f'[C12:expr-op-{snake(variant)}{sub}] {body}')
    for v, ops in SIMPLE.items():
        cl(v, f'from_operation is {v} ==> (res matches Ok(w) && (w matches {WO}::Simple(c) && ({" || ".join(f"c == constants::{o}" for o in ops)})))')
    for v, (rp, wp, eq) in COPY.items():
        cl(v, f'from_operation matches {RO}::{rp} ==> (res matches Ok(w) && (w matches {WO}::{wp} && {eq}))')
    # ---- Deref (2.5.1.3): generic type <=> base_type 0; the size is the operand, the address size for DW_OP_deref/xderef
    cl('Deref', f'from_operation matches {RO}::Deref {{ base_type, size, space }} ==> (base_type.0 == 0 ==> '
       '(res matches Ok(w) && wderef(w, encoding.address_size) == Some((space, size as int, None::<UnitEntryId>))))', '-untyped')
    cl('Deref', f'from_operation matches {RO}::Deref {{ base_type, size, space }} ==> (base_type.0 != 0 ==> '
       + via_ref('unit_ref_spec', 'base_type', 'wderef(w, encoding.address_size) == Some((space, size as int, Some(id))) && w is DerefType') + ')', '-typed')
    # ---- Bra / Skip (2.5.1.5)
    POS = '(from_operations.view().start - from_expression.0.rv().start)'
    for v, w in (('Bra', 'Branch'), ('Skip', 'Skip')):
        seen.add(v)
        out.append(f'[C12:expr-op-{snake(v)}][C12:expr-branch-target] from_operation matches {RO}::{v} {{ target }} ==> (res matches Ok(w) ==> '
                   f'(w matches {WO}::{w}(i) && i < offsets@.len() && offsets@[i as int] as int == {POS} + target as int))')
        out.append(f'[C12:expr-branch-invalid-err] from_operation matches {RO}::{v} {{ target }} ==> '
                   f'((forall|i: int| 0 <= i < offsets@.len() ==> offsets@[i] as int != {POS} + target as int) ==> res is Err)')
    # ---- RegisterOffset: DW_OP_breg*/bregx (base_type 0) or DW_OP_regval_type (offset 0)
    cl('RegisterOffset', f'from_operation matches {RO}::RegisterOffset {{ register, offset, base_type }} ==> (base_type.0 == 0 ==> '
       f'(res matches Ok(w) && (w matches {WO}::RegisterOffset(r, o) && r.0 as int == register.0 as int && o as int == offset as int)))', '-untyped')
    cl('RegisterOffset', f'from_operation matches {RO}::RegisterOffset {{ register, offset, base_type }} ==> (base_type.0 != 0 && offset == 0 ==> '
       + via_ref('unit_ref_spec', 'base_type', f'w matches {WO}::RegisterType(r, b) && r.0 as int == register.0 as int && b == id') + ')', '-typed')
    # ---- references
    cl('Call', f'from_operation matches {RO}::Call {{ offset: read::DieReference::UnitRef(o) }} ==> '
       + via_ref('unit_ref_spec', 'o', f'w matches {WO}::Call(e) && e == id'), '-unit')
    cl('Call', f'from_operation matches {RO}::Call {{ offset: read::DieReference::DebugInfoRef(o) }} ==> '
       + via_ref('debug_info_ref_spec', 'o', f'w matches {WO}::CallRef(e) && e == id'), '-ref')
    cl('VariableValue', f'from_operation matches {RO}::VariableValue {{ offset }} ==> '
       + via_ref('debug_info_ref_spec', 'offset', f'w matches {WO}::VariableValue(e) && e == id'))
    cl('ImplicitPointer', f'from_operation matches {RO}::ImplicitPointer {{ value, byte_offset }} ==> '
       + via_ref('debug_info_ref_spec', 'value', f'w matches {WO}::ImplicitPointer {{ entry, byte_offset: bo }} && entry == id && bo as int == byte_offset as int'))
    cl('ParameterRef', f'from_operation matches {RO}::ParameterRef {{ offset }} ==> '
       + via_ref('unit_ref_spec', 'offset', f'w matches {WO}::ParameterRef(e) && e == id'))
    for v in ('Convert', 'Reinterpret'):
        cl(v, f'from_operation matches {RO}::{v} {{ base_type }} ==> (base_type.0 == 0 ==> (res matches Ok(w) && (w matches {WO}::{v}(None))))', '-generic')
        cl(v, f'from_operation matches {RO}::{v} {{ base_type }} ==> (base_type.0 != 0 ==> '
           + via_ref('unit_ref_spec', 'base_type', f'w matches {WO}::{v}(Some(e)) && e == id') + ')', '-typed')
    # ---- pieces (2.6.1.2): DW_OP_piece counts bytes, DW_OP_bit_piece bits + bit offset
    cl('Piece', f'from_operation matches {RO}::Piece {{ size_in_bits, bit_offset: None }} ==> '
       f'(res matches Ok(w) && (w matches {WO}::Piece {{ size_in_bytes }} && 8 * (size_in_bytes as int) == size_in_bits as int))', '-bytes')
    cl('Piece', f'from_operation matches {RO}::Piece {{ size_in_bits, bit_offset: Some(bo) }} ==> '
       f'(res matches Ok(w) && (w matches {WO}::BitPiece {{ size_in_bits: sb, bit_offset: wo }} && sb as int == size_in_bits as int && wo as int == bo as int))', '-bits')
    # ---- block operands
    cl('ImplicitValue', f'from_operation matches {RO}::ImplicitValue {{ data }} ==> (res matches Ok(w) ==> (w matches {WO}::ImplicitValue(b) && same_bytes(data.rv(), b@)))')
    cl('TypedLiteral', f'from_operation matches {RO}::TypedLiteral {{ base_type, value }} ==> '
       f'(match refs.unit_ref_spec(base_type) {{ Ok(id) => (res matches Ok(w) ==> (w matches {WO}::ConstantType(e, b) && e == id && same_bytes(value.rv(), b@))), Err(_) => res is Err }})')
    cl('EntryValue', f'from_operation matches {RO}::EntryValue {{ expression }} ==> (res matches Ok(w) ==> '
       f'(w matches {WO}::EntryValue(e) && expr_conv(expression.rv(), encoding, unit is Some, e)))')
    # ---- addresses
    cl('Address', f'from_operation matches {RO}::Address {{ address }} ==> (res matches Ok(w) ==> '
       f'(w matches {WO}::Address(a) && call_ensures(convert_address, (address,), Some(a))))')
    cl('AddressIndex', f'from_operation matches {RO}::AddressIndex {{ index }} ==> (res matches Ok(w) ==> (unit matches Some(u) && '
       f'crate::read::dwarf::unit_address(u.model_id, index.0) matches Ok(val) && w matches {WO}::Address(a) && call_ensures(convert_address, (val,), Some(a))))')
    cl('ConstantIndex', f'from_operation matches {RO}::ConstantIndex {{ index }} ==> (res matches Ok(w) ==> (unit matches Some(u) && '
       f'crate::read::dwarf::unit_address(u.model_id, index.0) matches Ok(val) && w matches {WO}::UnsignedConstant(c) && c == val))')
    out.append(f'[C12:expr-unsupported-err] (from_operation is AddressIndex || from_operation is ConstantIndex) && unit is None ==> res is Err')
    out.append(f'[C12:expr-unsupported-err] from_operation matches {RO}::AddressIndex {{ index }} ==> (unit matches Some(u) ==> (crate::read::dwarf::unit_address(u.model_id, index.0) is Err ==> res is Err))')
    out.append(f'[C12:expr-unsupported-err] from_operation matches {RO}::ConstantIndex {{ index }} ==> (unit matches Some(u) ==> (crate::read::dwarf::unit_address(u.model_id, index.0) is Err ==> res is Err))')
    out.append(f'[C12:expr-unsupported-err] res matches Ok(w) ==> !(w is Raw)')
    return conv.par(out), seen


def check_variants(ctx, enum_text, seen):
    """every variant of read::Operation has a clause (build-time completeness check of the table above)"""
    b = enum_text.index('{')
    body = enum_text[b + 1:match_close(enum_text, b)]
    names, depth, k = [], 0, 0
    for m in re.finditer(r'[{}()]|\b([A-Z]\w*)\b', body):
        ch = m.group(0)
        if ch in '{(':
            depth += 1
        elif ch in '})':
            depth -= 1
        elif depth == 0 and re.match(r'\s*(\{|,|\(|$)', body[m.end():]):
            names.append(ch)
    missing = [n for n in names if n not in seen]
    extra = [n for n in seen if n not in names]
    if missing or extra or len(names) < 40:
        raise Lost(f'conv_expr: read::Operation variants without a clause: {missing}; clauses for unknown variants: {extra}; variants found: {len(names)}')
    return names


def populate_read(ctx, sk):
    op = Source('read/op.rs', ctx)
    sk.mods['read']['uses'] += '\npub use self::op::*;'
    sk.module('read::op', '''use core::mem;
use crate::common::{DebugAddrIndex, DebugInfoOffset, Encoding, Register, Format};
use crate::constants;
use crate::read::{Error, Reader, ReaderOffset, Result, UnitOffset};
use crate::read::reader_clone;
use crate::vspec::*;''')
    sk.add('read::op', op.item(r'^pub enum DieReference<').clean())
    en = op.item(r'^pub enum Operation<R, Offset').clean(rejrec=['R', 'Offset'])
    sk.add('read::op', en)
    sk.add('read::op', op.item(r'^pub struct Expression<R: Reader>').clean(offset=False, rejrec=['R']))
    sk.add('read::op', op.item(r'^pub struct OperationIter<R: Reader>', label='OperationIter(struct)').clean(rejrec=['R']))
    oi = op.item(r'^impl<R: Reader> OperationIter<R> \{', label='OperationIter')
    oi.keep_only(['offset_from'])
    oi.clean()
    oi.own(['C07'])
    oi.insert_members('    pub closed spec fn view(&self) -> RView { self.input.rv() }')
    oi.splice('offset_from', ret='res', requires=['inside(expression.0.rv(), self.view())'],
              ensures=['res as int == self.view().start - expression.0.rv().start'])
    sk.add('read::op', oi)
    sk.add('read::reader', READER_TO_BOXED, label='reader_to_boxed')
    sk.mods['read']['uses'] += '\npub use self::reader::reader_to_boxed;'
    conv.populate_read_dwarf(ctx, sk)
    return en


def populate_write(ctx, sk):
    wm = conv.wsource('write/mod.rs', ctx)
    wu = Source('write/unit.rs', ctx)
    wo = Source('write/op.rs', ctx)
    sk.module('write', '''use core::result;
use crate::constants;
use crate::read;
use crate::common::*;
pub use self::unit::*;
pub use self::op::*;''')
    sk.add('write', wm.item(r'^pub enum Address \{').clean())
    sk.add('write', wm.item(r'^pub enum Error \{').clean())
    sk.add('write', wm.item(r'^pub type Result<T>').clean())
    sk.add('write', wm.item(r'^    pub enum ConvertError \{', within=r'^mod convert \{').clean())
    sk.add('write', conv.FROM_SPEC, label='FromSpecImpl')
    fr = wm.item(r'^    impl From<read::Error> for ConvertError', within=r'^mod convert \{', label='From<read::Error>').clean()
    fr.own(OWN)
    sk.add('write', fr)
    sk.add('write', wm.item(r'^    pub type ConvertResult<T>', within=r'^mod convert \{').clean())
    sk.add('write', conv.WRITE_IDS, label='define_id')
    sk.module('write::unit', '''use crate::read;
use crate::common::DebugInfoOffset;
use crate::write::{ConvertError, ConvertResult, UnitId, UnitEntryId};''')
    sk.add('write::unit', wu.item(r'^pub enum DebugInfoRef \{').clean())
    tr = wu.item(r'^    pub\(crate\) trait ConvertDebugInfoRef', within=r'^pub\(crate\) mod convert \{', label='ConvertDebugInfoRef').clean()
    tr.insert_after('trait ConvertDebugInfoRef {', '''
    spec fn unit_ref_spec(&self, entry: read::UnitOffset) -> ConvertResult<UnitEntryId>;
    spec fn debug_info_ref_spec(&self, entry: DebugInfoOffset) -> ConvertResult<DebugInfoRef>;''')
    tr.splice('convert_unit_ref', ret='res', ensures=['res == self.unit_ref_spec(entry)'])
    tr.splice('convert_debug_info_ref', ret='res', ensures=['res == self.debug_info_ref_spec(entry)'])
    sk.add('write::unit', tr)
    sk.module('write::op', '''use crate::common::{Encoding, Register, DebugInfoOffset};
use crate::constants::{self, DwOp};
use crate::write::{Address, DebugInfoRef, UnitEntryId};''')
    sk.add('write::op', conv.debug_only(wo.item(r'^pub struct Expression \{')).clean())
    sk.add('write::op', conv.debug_only(wo.item(r'^enum Operation \{')).clean())
    sk.add('write::op', BINARY_SEARCH, label='binary_search')
    sk.add('write::op', WDEREF, label='wderef')
    sk.module('xspec', 'use crate::common::Encoding;')
    sk.add('xspec', XSPEC, label='xspec')


GEN_OLD = 'fn from<R: Reader<Offset = usize>>('
GEN_NEW = 'fn from<R: Reader<Offset = usize>, ConvAddr, Refs>('
RET_OLD = ') -> ConvertResult<Expression> {'
RET_NEW = ') -> ConvertResult<Expression> where ' + conv.CA_BOUND + ' Refs: ConvertDebugInfoRef, {'


def dyn(ex):
    conv.r_dyn(ex, GEN_OLD, GEN_NEW, RET_OLD, RET_NEW)
    ex.custom('R-DYN', '&dyn ConvertDebugInfoRef', '&Refs', count=-1)
    return ex


def populate_convert(ctx, sk, read_enum):
    wo = Source('write/op.rs', ctx)
    sk.module('write::op::convert', '''use super::*;
use crate::read::{self, Reader};
use crate::write::{ConvertDebugInfoRef, ConvertError, ConvertResult};
use crate::vspec::*;
use crate::xspec::*;''')
    CONV = r'^pub\(crate\) mod convert \{'
    # ---- A: Expression::from, contract only (the loops are not verified; used by the EntryValue arm)
    ex = dyn(wo.item(r'^    impl Expression \{', within=CONV, label='Expression'))
    ex.extbody(['from'])
    ex.clean()
    ex.own(OWN)
    ex.splice('from', ret='res', requires=[CA_TOTAL], ensures=[
        '[C12:expr-conv] res matches Ok(e) ==> expr_conv(from_expression.0.rv(), encoding, unit is Some, e)'])
    sk.add('write::op::convert', ex)
    # ---- B: the per-operation match as a helper (R-MATCH)
    hx = dyn(wo.item(r'^    impl Expression \{', within=CONV, label='Expression(match)'))
    cut_match(hx)
    hx.custom('R-COW', 'data.to_slice()?.into_owned().into()', 'read::reader_to_boxed(&data)?')
    hx.custom('R-COW', 'value.to_slice()?.into_owned().into()', 'read::reader_to_boxed(&value)?')
    if 'to_slice' in hx.text or 'into_owned' in hx.text:
        raise Lost('R-COW: an unexpected use of to_slice/into_owned is left in the per-operation match')
    hx.clean()
    hx.own(OWN)
    clauses, seen = op_clauses()
    ARMS = [f'read::Operation::{v} {{ target }} => {{' for v in ('Bra', 'Skip')]
    for a in ARMS:
        if hx.text.count(a) != 1:
            raise Lost(f'conv_expr: match arm header `{a}` found {hx.text.count(a)} times (expected once)')
    check_variants(ctx, read_enum.text, seen)
    WRAP = ('proof { let t = target as i64; let u = t as usize; assert(t >= 0 ==> u == t); '
            'assert(t < 0 ==> u as int == t + 0x1_0000_0000_0000_0000) by (bit_vector) requires u == t as usize; }')
    hx.splice(HELPER, ret='res', canary=True, requires=[
        CA_TOTAL,
        'inside(from_expression.0.rv(), from_operations.view())',
        'from_expression.0.rv().len < 0x8000_0000_0000_0000 && from_expression.0.rv().start + from_expression.0.rv().len < 0x1_0000_0000_0000_0000',
        'forall|i: int| 0 <= i < offsets@.len() ==> offsets@[i] < 0x8000_0000_0000_0000',
        f'(from_operation matches {RO}::Piece {{ size_in_bits, bit_offset: None }} ==> size_in_bits % 8 == 0)',
    ], ensures=clauses)
    # hints for `.wrapping_add(i64::from(target) as usize)`: they only mention `target`, so they sit right after the arm
    # header (not on the statements of the arm: a changed statement must be a FAILED CLAUSE, not a lost anchor)
    for a in ARMS:
        hx.insert_after(a, ' ' + WRAP + '\n', nth=0)
    sk.add('write::op::convert', hx)


def populate(ctx, sk):
    en = populate_read(ctx, sk)
    populate_write(ctx, sk)
    populate_convert(ctx, sk, en)
    return sk


def build(ctx):
    sk = Skeleton(ctx, core.rd('prelude/crate.rs'))
    core.populate(ctx, sk)
    populate(ctx, sk)
    return sk
