"""B-cfi_uctx_link: the assume/guarantee link between B-cfi_unwind and B-cfi_uctx, checked.

B-cfi_uctx proves the bodies of the functions B-cfi_unwind only assumes, against the same tagged clauses, but six untagged helper
clauses had to be weakened / added (cfi_uctx.DELTAS: the no-duplicate invariant of RegisterRuleMap carried by set/clear and through
row()/row_mut(), `requires wf()` on get_initial_rule, "next_row does not re-seat the context reference").  This batch regenerates
B-cfi_unwind's own file (cfi_unwind.build, unchanged) with exactly those deltas applied to the contracts of its assumed stubs, and
verifies everything B-cfi_unwind verifies (CallFrameInstruction::parse, UnwindTable::{evaluate,next_row}, the context accessors) on
top of them.  Exit 0 = the proofs of B-cfi_unwind go through with the contracts that are actually PROVED, i.e. the eleven stubs can
be discharged by B-cfi_uctx without a gap.  No new property clause is defined here; TRUSTED is B-cfi_unwind's ledger.

Mechanism: lib.Item.splice / insert_members are wrapped for the duration of cfi_unwind.build (no file of the other builder is
edited); the wrapper touches only the (item label, fn) pairs of cfi_uctx.DELTAS and the ghost members named below.
"""
from lib import *
from batches import core
from batches import cfi_unwind as cu
from batches import cfi_uctx as ux

TRUSTED = list(cu.TRUSTED)
VERUS_ARGS = list(cu.VERUS_ARGS)
RETRY_RLIMIT = cu.RETRY_RLIMIT


def build(ctx):
    orig_splice, orig_members = Item.splice, Item.insert_members
    seen = set()

    def splice(self, name, **kw):
        key = (self.label, name)
        if key in ux.DELTAS:
            seen.add(key)
            c = ux.with_delta(self.label, name, {'requires': kw.get('requires') or [], 'ensures': kw.get('ensures') or []})
            kw['requires'], kw['ensures'] = c['requires'], c['ensures']
            if key == ('UnwindTable', 'next_row'):
                # the added clause is PROVED here from the real body: it needs one more loop invariant
                inv = kw['loops'][0]
                if 'decreases self.instructions.inp().len' not in inv:
                    raise Lost('cfi_unwind.py: next_row loop invariant')
                kw['loops'] = {0: inv.replace('decreases self.instructions.inp().len', 'self.g_fctx() == old(self).g_fctx(),\n        decreases self.instructions.inp().len')}
        if self.label == 'UnwindTable' and name == 'evaluate':
            kw['ensures'] = list(kw['ensures']) + ['final(self).g_fctx() == old(self).g_fctx()']
        return orig_splice(self, name, **kw)

    def members(self, text):
        if self.label == 'RegisterRuleMap':
            text += '\n    /// representation invariant (no register twice); defined and maintained in B-cfi_uctx\n    pub uninterp spec fn inv(&self) -> bool;'
        elif self.label == 'UnwindTableRow':
            text += ux.ROW_GHOST_EXTRA
        elif self.label == 'UnwindContext':
            if ux.REPR_OLD not in text:
                raise Lost('cfi_unwind.py: UnwindContext::repr_ok')
            text = text.replace(ux.REPR_OLD, ux.REPR_NEW)
        elif self.label == 'UnwindTable':
            text += ux.UT_GHOST_EXTRA
        return orig_members(self, text)

    Item.splice, Item.insert_members = splice, members
    try:
        sk = cu.build(ctx)
    finally:
        Item.splice, Item.insert_members = orig_splice, orig_members
    missing = set(ux.DELTAS) - seen
    if missing:
        raise Lost(f'cfi_unwind.py: contracts not found for {sorted(missing)}')
    return sk
