"""B-cfi_entries: CIE/FDE decoding, pointer encodings, .eh_frame_hdr table  (DESIGN.md 6 C05 / C01 / C10).
"""
from lib import *
from batches import core

TRUSTED = list(core.TRUSTED) + ['section_clone']
VERUS_ARGS = ['--rlimit', '20']

OWN = ['C01', 'C05']
IN0 = 'old(input).rv()'
IN1 = 'final(input).rv()'
FRAME = f'[C01:frame] within({IN0}, {IN1})'


def annotate_closure(it, prefix, param, pty, rty, ens):
    """`prefix|a| body)` -> `prefix|a: pty| -> (r: rty) ensures ens { body })` by insertions only (Verus closures carry
    no implicit postcondition); `body` is left untouched and must be followed by `)` or `,`"""
    head = f'{prefix}|{param}'
    it.insert_after(head, f': {pty}')
    anchor = head + ins(f': {pty}') + '|'
    it.insert_after(anchor, f' -> (r: {rty}) ensures {ens} {{')
    k = it.text.index(anchor) + len(anchor)
    k = it.text.index(INS_C, k) + len(INS_C)
    # end of the closure body: the `)` closing the call that `prefix` opened
    depth, j = 0, k
    while True:
        c = it.text[j]
        if c in '([{':
            depth += 1
        elif c in ')]}':
            if depth == 0:
                break
            depth -= 1
        j += 1
    it.text = it.text[:j] + ins(' }') + it.text[j:]


SPEC_TEXT = core.rd('specs/cfi_entries.rs')
SPEC_MARK = '// ==== MODULE read::cfi'

GHOST_PTR = '''
/// ghost: the bases a `PointerEncodingParameters` designates (spec view for contracts)
spec fn pb<R: Reader<Offset = usize>>(p: &PointerEncodingParameters<'_, R>) -> PeBases {
    PeBases { section: p.bases.section, text: p.bases.text, data: p.bases.data, func: p.func_base }
}
pub open spec fn ptr_val(p: Pointer) -> u64 { match p { Pointer::Direct(a) => a, Pointer::Indirect(a) => a } }
/// ghost: precondition shared by every pointer parse: the input is a view into the section it is relative to
spec fn pe_params_ok<R: Reader<Offset = usize>>(p: &PointerEncodingParameters<'_, R>, input: RView) -> bool {
    valid_address_size(p.address_size) && inside(p.section.rv(), input)
}
'''


def group1(ctx, sk):
    cs = Source('constants.rs', ctx)
    cfi = Source('read/cfi.rs', ctx)
    sk.module('vspec_cfi')
    sk.add('vspec_cfi', SPEC_TEXT.split(SPEC_MARK)[0], label='vspec_cfi')
    sk.module('constants', 'use crate::vspec_cfi::*;')
    # derive(PartialEq) on the dw! newtypes is structural equality (Verus gives derived `==` no meaning otherwise)
    sk.add('constants', 'unsafe impl Structural for DwEhPe {}', label='Structural(DwEhPe)')
    sk.add('constants', cs.item(r'^const DW_EH_PE_FORMAT_MASK').clean())
    sk.add('constants', cs.item(r'^const DW_EH_PE_APPLICATION_MASK').clean())
    pe = cs.item(r'^impl DwEhPe \{', label='DwEhPe').clean().own(OWN)
    pe.splice('format', ret='res', ensures=['[C05:pe-format] res.0 == pe_format(self.0)'],
              before=[('DwEhPe(self.0 & DW_EH_PE_FORMAT_MASK)', 'proof { let x = self.0; assert(x & 0x0fu8 == x % 16u8) by (bit_vector); }')])
    pe.splice('application', ret='res', ensures=['[C05:pe-application] res.0 == pe_app(self.0)'],
              before=[('DwEhPe(self.0 & DW_EH_PE_APPLICATION_MASK)', 'proof { let x = self.0; assert(x & 0x70u8 == ((x / 16u8) % 8u8) * 16u8) by (bit_vector); }')])
    pe.splice('is_absent', ret='res', ensures=['[C05:pe-omit] res == pe_omit(self.0)'])
    pe.splice('is_indirect', ret='res', ensures=['[C05:pe-indirect] res == pe_indirect(self.0)'],
              before=[('self.0 & DW_EH_PE_indirect.0 != 0', 'proof { let x = self.0; assert((x & 0x80u8 != 0u8) == (x >= 0x80u8)) by (bit_vector); }')])
    pe.splice('is_valid_encoding', ret='res', ensures=['[C05:pe-valid] res == pe_valid(self.0)'])
    sk.add('constants', pe)

    sk.mods['read']['uses'] += '\npub use self::cfi::*;'
    sk.module('read::cfi', '''use core::cmp::Ordering;
use core::fmt::{self, Debug};
use core::mem;
use crate::common::{DebugFrameOffset, EhFrameOffset, Encoding, Format, Register, Vendor};
use crate::constants::{self, DwEhPe};
use crate::read::{Error, Reader, ReaderAddress, ReaderOffset, Result};
use crate::read::reader_clone;
use crate::vspec::*;
use crate::vspec_cfi::*;
broadcast use crate::vspec_cfi::group_widen;''')
    sk.add('read::cfi', cfi.item(r'^pub struct SectionBaseAddresses').clean())
    sk.add('read::cfi', cfi.item(r'^pub struct BaseAddresses').clean())
    sk.add('read::cfi', cfi.item(r'^pub enum Pointer \{').clean())
    sk.add('read::cfi', cfi.item(r'^struct PointerEncodingParameters<').clean(rejrec=['R']))
    sk.add('read::cfi', GHOST_PTR, label='ghost(pointer)')

    ppe = cfi.item(r'^fn parse_pointer_encoding<').clean().own(OWN)
    ppe.splice('parse_pointer_encoding', ret='res', ensures=[
        f'[C05:ptr-enc] res matches Ok(e) ==> e.0 == {IN0}.at(0) && pe_valid(e.0) && adv({IN0}, {IN1}, 1)',
        f'[C05:ptr-enc-accept] res is Ok <==> {IN0}.len >= 1 && pe_valid({IN0}.at(0))',
        f'[C05:ptr-enc-reject] {IN0}.len >= 1 && !pe_valid({IN0}.at(0)) ==> res == Err::<constants::DwEhPe, Error>(Error::UnknownPointerEncoding(constants::DwEhPe({IN0}.at(0))))',
        FRAME])
    sk.add('read::cfi', ppe)

    pi = cfi.item(r'^impl Pointer \{', label='Pointer').clean().own(OWN)
    pi.splice('new', ret='res', ensures=['[C05:ptr-indirect] res == (if pe_indirect(encoding.0) { Pointer::Indirect(address) } else { Pointer::Direct(address) })'])
    pi.splice('direct', ret='res', ensures=['[C05:ptr-direct] res == (match self { Pointer::Direct(p) => Ok::<u64, Error>(p), Pointer::Indirect(_) => Err::<u64, Error>(Error::UnsupportedIndirectPointer) })'])
    pi.splice('pointer', ret='res', ensures=['[C05:ptr-pointer] res == ptr_val(self)'])
    sk.add('read::cfi', pi)

    E = 'encoding.0'
    ASZ = 'parameters.address_size'
    FMT = f'pe_format({E})'
    pev = cfi.item(r'^fn parse_encoded_value<').clean().own(OWN)
    for ty in ['i16', 'i32', 'i64']:
        annotate_closure(pev, f'input.read_{ty}().map(', 'a', ty, 'u64', 'r == a as u64')
    annotate_closure(pev, 'input.read_sleb128().map(', 'a', 'i64', 'u64', 'r == a as u64')
    pev.splice('parse_encoded_value', ret='res', canary=True,
               requires=[f'[C05:valid-enc] pe_valid({E}) && !pe_omit({E})'],
               ensures=[
                   f'[C05:enc-value] res matches Ok(v) ==> v as int == twos64(pe_val({IN0}, {FMT}, {ASZ})) && adv({IN0}, {IN1}, pe_size({IN0}, {FMT}, {ASZ}))',
                   f'[C05:enc-value-addr-size] {FMT} == 0 && !valid_address_size({ASZ}) ==> res is Err',
                   f'[C05:enc-value-eof] pe_fixed({FMT}) && {IN0}.len < pe_size({IN0}, {FMT}, {ASZ}) ==> res is Err',
                   # (read_address has no eof-exact clause in the core layer, so totality is stated for the other fixed formats)
                   f'[C05:enc-value-total] pe_fixed({FMT}) && {FMT} != 0 && {IN0}.len >= pe_size({IN0}, {FMT}, {ASZ}) ==> res is Ok',
                   f'[C01:err-no-consume] res is Err && pe_fixed({FMT}) ==> unch({IN0}, {IN1})',
                   FRAME],
               before=[('match encoding.format() {', 'proof { assert(forall|a: i16| a < 0 ==> #[trigger] (a as u64) as int == a as int + 0x1_0000_0000_0000_0000) by (bit_vector); '
                        'assert(forall|a: i32| a < 0 ==> #[trigger] (a as u64) as int == a as int + 0x1_0000_0000_0000_0000) by (bit_vector); '
                        'assert(forall|a: i64| a < 0 ==> #[trigger] (a as u64) as int == a as int + 0x1_0000_0000_0000_0000) by (bit_vector); '
                        'assert(forall|a: i16| a >= 0 ==> #[trigger] (a as u64) as int == a as int) by (bit_vector); '
                        'assert(forall|a: i32| a >= 0 ==> #[trigger] (a as u64) as int == a as int) by (bit_vector); '
                        'assert(forall|a: i64| a >= 0 ==> #[trigger] (a as u64) as int == a as int) by (bit_vector); }')])
    sk.add('read::cfi', pev)

    OFF = f'({IN0}.start - parameters.section.rv().start) as nat'
    BASE = f'pe_base(pe_app({E}), pb(parameters), {OFF}, {ASZ})'
    pep = cfi.item(r'^fn parse_encoded_pointer<').clean().own(OWN)
    UN = f'unch({IN0}, {IN1})'
    ERR = 'Err::<Pointer, Error>'
    pep.splice('parse_encoded_pointer', ret='res', canary=True,
               requires=[f'pe_params_ok(parameters, {IN0})'],
               ensures=[
                   f'[C05:ptr-invalid-enc] !pe_valid({E}) ==> res == {ERR}(Error::UnknownPointerEncoding(encoding)) && {UN}',
                   f'[C05:ptr-omit] pe_omit({E}) ==> res == {ERR}(Error::CannotParseOmitPointerEncoding) && {UN}',
                   f'[C05:ptr-base-undefined] pe_valid({E}) && !pe_omit({E}) && {BASE} is None ==> {UN} && res == {ERR}('
                   f'if pe_app({E}) == 0x10 {{ Error::PcRelativePointerButSectionBaseIsUndefined }} else if pe_app({E}) == 0x20 {{ Error::TextRelativePointerButTextBaseIsUndefined }} '
                   f'else if pe_app({E}) == 0x30 {{ Error::DataRelativePointerButDataBaseIsUndefined }} else if pe_app({E}) == 0x40 {{ Error::FuncRelativePointerInBadContext }} '
                   f'else {{ Error::UnsupportedPointerEncoding(encoding) }})',
                   f'[C05:ptr-value] res matches Ok(p) ==> pe_valid({E}) && !pe_omit({E}) && ({BASE} matches Some(base) && '
                   f'ptr_val(p) as int == pe_ptr(base, pe_val({IN0}, {FMT}, {ASZ}), {ASZ})) && adv({IN0}, {IN1}, pe_size({IN0}, {FMT}, {ASZ}))',
                   f'[C05:ptr-indirect] res matches Ok(p) ==> (p is Indirect <==> pe_indirect({E}))',
                   f'[C05:ptr-eof] pe_fixed({FMT}) && {IN0}.len < pe_size({IN0}, {FMT}, {ASZ}) ==> res is Err',
                   f'[C05:ptr-total] pe_valid({E}) && !pe_omit({E}) && {BASE} is Some && pe_fixed({FMT}) && {FMT} != 0 && {IN0}.len >= pe_size({IN0}, {FMT}, {ASZ}) ==> res is Ok',
                   f'[C01:err-no-consume] res is Err && pe_fixed({FMT}) ==> {UN}',
                   FRAME])
    sk.add('read::cfi', pep)


SECTION_GHOST = """    /// ghost: which standard governs the section: true = `.eh_frame` (LSB), false = `.debug_frame` (DWARF 6.4.1)
    spec fn is_eh() -> bool;
    /// ghost: view of the section data
    spec fn sec(&self) -> RView;
    /// ghost: the configured default address size
    spec fn asz(&self) -> u8;"""

DEFAULT_MODELS = """
// models of `#[derive(Default)]` (R-ATTR drops the derive; Verus has no spec for it): all-None / false
impl Default for Augmentation {
    fn default() -> (r: Self)
        ensures r == (Augmentation { lsda: None, personality: None, fde_address_encoding: None, is_signal_trampoline: false })
    { Augmentation { lsda: None, personality: None, fde_address_encoding: None, is_signal_trampoline: false } }
}
impl Default for AugmentationData {
    fn default() -> (r: Self) ensures r == (AugmentationData { lsda: None })
    { AugmentationData { lsda: None } }
}
"""

SECTION_CLONE = """
// R-CLONE for sections: `#[derive(Clone, Copy)]` on DebugFrame/EhFrame is a bit copy; Verus gives derived Clone of a generic
// type no specification, so the clone's ghost view is assumed to be the original's
#[verifier::external_body]
pub fn section_clone<R: Reader<Offset = usize>, S: UnwindSection<R>>(s: &S) -> (res: S)
    ensures res.sec() == s.sec(), res.asz() == s.asz()
{ s.clone() }
"""

TYPE_INVS = """
impl<R, Offset> CommonInformationEntry<R, Offset> where R: Reader<Offset = Offset>, Offset: ReaderOffset {
    /// every CIE value carries a supported address size (established by from_prefix, the only constructor)
    #[verifier::type_invariant]
    spec fn inv(self) -> bool { valid_address_size(self.address_size) }
}
impl<R, Offset> FrameDescriptionEntry<R, Offset> where R: Reader<Offset = Offset>, Offset: ReaderOffset {
    #[verifier::type_invariant]
    spec fn inv(self) -> bool { valid_address_size(self.cie.address_size) }
}
"""

SEC_OK = 'valid_address_size(section.asz())'


def group2(ctx, sk):
    cfi = Source('read/cfi.rs', ctx)
    common = Source('common.rs', ctx)
    M = 'read::cfi'
    # ---- offsets
    for ty in ['DebugFrameOffset', 'EhFrameOffset']:
        sk.add('common', f"""
impl<T> vstd::std_specs::convert::FromSpecImpl<T> for {ty}<T> {{
    open spec fn obeys_from_spec() -> bool {{ true }}
    open spec fn from_spec(o: T) -> Self {{ {ty}(o) }}
}}""", label=f'ghost(From for {ty})')
        sk.add('common', common.item(r'^impl<T> From<T> for %s<T>' % ty).clean().own(OWN))
    sk.add(M, cfi.item(r'^pub enum CieOffsetEncoding').clean())
    uo = cfi.item(r'^pub trait UnwindOffset<', label='UnwindOffset').clean()
    uo.insert_members("    /// ghost: the wrapped section offset\n    spec fn off(self) -> T;\n"
                      "    /// ghost: `From<T>` wraps the offset unchanged (proved for both offset types)\n"
                      "    proof fn lemma_from(t: T, r: Self) requires call_ensures(<Self as From<T>>::from, (t,), r) ensures r.off() == t;")
    uo.splice('into', ret='res', ensures=['[C05:unwind-offset] res == self.off()'])
    sk.add(M, uo)
    for ty in ['DebugFrameOffset', 'EhFrameOffset']:
        it = cfi.item(r'^impl<T> UnwindOffset<T> for %s<T>' % ty, label=f'UnwindOffset for {ty}').clean().own(OWN)
        it.insert_members('    open spec fn off(self) -> T { self.0 }\n    proof fn lemma_from(t: T, r: Self) {}')
        sk.add(M, it)

    # ---- sections
    for ty in ['DebugFrame', 'EhFrame']:
        sk.add(M, cfi.item(r'^pub struct %s<R: Reader>' % ty).clean(rejrec=['R']))
        it = cfi.item(r'^impl<R: Reader> %s<R> \{' % ty, label=ty).clean().own(OWN)
        it.insert_members('    pub closed spec fn cfg_address_size(&self) -> u8 { self.address_size }\n    pub closed spec fn data(&self) -> RView { self.section.rv() }')
        it.splice('set_address_size', ensures=['final(self).cfg_address_size() == address_size', 'final(self).data() == old(self).data()'])
        it.splice('set_vendor', ensures=['final(self).cfg_address_size() == old(self).cfg_address_size()', 'final(self).data() == old(self).data()'])
        sk.add(M, it)
    priv = cfi.item(r'^pub trait _UnwindSectionPrivate<', label='_UnwindSectionPrivate').clean()
    priv.insert_members(SECTION_GHOST)
    priv.splice('section', ret='res', ensures=['res.rv() == self.sec()'])
    priv.splice('has_zero_terminator', ret='res', ensures=['[C05:zero-terminator] res == Self::is_eh()'])
    priv.splice('is_cie', ret='res', ensures=['[C05:cie-id] res == id_is_cie(Self::is_eh(), format == Format::Dwarf64, id as nat)'])
    priv.splice('cie_offset_encoding', ret='res', ensures=['[C05:cie-id-size] res == (if !Self::is_eh() && format == Format::Dwarf64 { CieOffsetEncoding::U64 } else { CieOffsetEncoding::U32 })'])
    priv.splice('resolve_cie_offset', ret='res', ensures=['[C05:cie-pointer] res == (if Self::is_eh() { if offset <= base { Some((base - offset) as usize) } else { None::<usize> } } else { Some(offset) })'])
    priv.splice('has_address_and_segment_sizes', ret='res', ensures=['[C05:cie-v4-sizes] res == (!Self::is_eh() && version == 4)'])
    priv.splice('address_size', ret='res', ensures=['res == self.asz()'])
    sk.add(M, priv)
    us = cfi.item(r'^pub trait UnwindSection<', label='UnwindSection')
    us.keep_only([])
    us.clean()
    sk.add(M, us)
    for ty, eh in [('DebugFrame', 'false'), ('EhFrame', 'true')]:
        it = cfi.item(r'^impl<R: Reader> _UnwindSectionPrivate<R> for %s<R>' % ty, label=f'_UnwindSectionPrivate for {ty}').clean().own(OWN)
        it.insert_members(f'    open spec fn is_eh() -> bool {{ {eh} }}\n    closed spec fn sec(&self) -> RView {{ self.section.rv() }}\n    closed spec fn asz(&self) -> u8 {{ self.address_size }}')
        sk.add(M, it)
        sk.add(M, cfi.item(r'^impl<R: Reader> UnwindSection<R> for %s<R>' % ty).clean())
    sk.add(M, SECTION_CLONE, label='section_clone')

    # ---- data types
    sk.add(M, cfi.item(r'^struct CfiEntryPrefix<R>').clean(rejrec=['R']))
    sk.add(M, cfi.item(r'^pub struct Augmentation \{').clean())
    sk.add(M, cfi.item(r'^struct AugmentationData \{').clean())
    sk.add(M, DEFAULT_MODELS, label='derive(Default) models')
    sk.add(M, cfi.item(r'^pub struct CommonInformationEntry<R, Offset').clean(rejrec=['R', 'Offset']))
    sk.add(M, cfi.item(r'^pub struct FrameDescriptionEntry<R, Offset').clean(rejrec=['R', 'Offset']))
    sk.add(M, cfi.item(r'^pub struct PartialFrameDescriptionEntry<').clean(rejrec=['R', 'Section']))
    sk.add(M, cfi.item(r'^pub enum CieOrFde<').clean(rejrec=['R', 'Section']))
    sk.add(M, TYPE_INVS + SPEC_TEXT.split(SPEC_MARK)[1], label='ghost(entries)')

    # ---- prefix
    B0 = IN0
    pp = cfi.item(r'^fn parse_cfi_entry_prefix<').clean().own(OWN)
    pp.splice('parse_cfi_entry_prefix', ret='res', canary=True,
              requires=[f'[C10:offset-from-pre] inside(section.sec(), {IN0})'],
              ensures=[
                  f'[C05:prefix][C10:view] res matches Ok(Some(p)) ==> prefix_is(p, {B0}, section.sec(), Section::is_eh()) && adv({B0}, {IN1}, px_ilen({B0}) + px_len({B0}))',
                  f'[C05:prefix-terminator] res matches Ok(None) ==> px_len({B0}) == 0 && adv({B0}, {IN1}, px_ilen({B0}))',
                  f'[C05:prefix-terminator] res is Ok && px_len({B0}) == 0 ==> res matches Ok(None)',
                  f'[C05:prefix-total] {B0}.len >= 4 && {B0}.u(0, 4) < 0xffff_fff0 && {B0}.len >= 4 + {B0}.u(0, 4) && {B0}.u(0, 4) >= 4 ==> res is Ok',
                  f'[C05:prefix-eof] {B0}.len >= 4 && ({B0}.len < px_ilen({B0}) + px_len({B0}) || 0 < px_len({B0}) < px_idsz({B0}, Section::is_eh())) ==> res is Err',
                  f'[C01:progress] res is Ok ==> {IN1}.len < {B0}.len',
                  FRAME])
    sk.add(M, pp)


def populate(ctx, sk):
    group1(ctx, sk)
    group2(ctx, sk)
    return sk


def build(ctx):
    sk = Skeleton(ctx, core.rd('prelude/crate.rs'))
    core.populate(ctx, sk)
    populate(ctx, sk)
    return sk
