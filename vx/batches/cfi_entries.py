"""B-cfi_entries: CIE/FDE decoding, DW_EH_PE_* pointer encodings, .eh_frame_hdr table  (DESIGN.md 6 C05; C01, C10).

Source: /repo/src/read/cfi.rs, DwEhPe methods of /repo/src/constants.rs, From impls of DebugFrameOffset/EhFrameOffset
(common.rs).  Spec functions (written from LSB Core generic 10.5/10.6 and DWARF 5 6.4.1, not from the code):
vx/specs/cfi_entries.rs (part 1 -> module crate::vspec_cfi; part 2, after the marker line, -> ghost text inside
crate::read::cfi because it relates gimli's private fields to the models).

FUNCTIONS UNDER CONTRACT (real bodies verified; owners C01+C05 for the built-in safety/termination obligations)
  constants: DwEhPe::{format, application, is_absent, is_indirect, is_valid_encoding}  (vs the LSB encoding table, all 256 bytes)
  pointers : parse_pointer_encoding, parse_encoded_value, parse_encoded_pointer, Pointer::{new, direct, pointer}
  sections : DebugFrame/EhFrame::{set_address_size, set_vendor}; trait _UnwindSectionPrivate (contract = the two standards,
             selected by ghost `is_eh()`) and BOTH impls: section, has_zero_terminator, is_cie, cie_offset_encoding,
             resolve_cie_offset, has_address_and_segment_sizes, address_size, vendor; UnwindOffset::into (+2 impls); From impls
  entries  : parse_cfi_entry_prefix, parse_cfi_entry, CommonInformationEntry::{parse, from_prefix} + accessors offset, encoding,
             address_size, entry_len, version, augmentation, lsda_encoding, personality_with_encoding, fde_address_encoding,
             code/data_alignment_factor, return_address_register; Augmentation::parse (fold over the string vs `aug_step`),
             AugmentationData::parse; PartialFrameDescriptionEntry::{parse_partial, from_prefix, parse, offset, cie_offset,
             entry_len}; FrameDescriptionEntry::{parse_rest, parse_addresses, offset, cie, entry_len, initial_address,
             end_address, len, contains, lsda}; CfiEntriesIter::next (iterator protocol, zero-length `continue` loop, terminator)
  hdr      : EhFrameHdr::parse, ParsedEhFrameHdr::{eh_frame_ptr, table}, EhHdrTableIter::{next, nth},
             EhHdrTable::{iter, lookup (safety, termination, encoding rejection only), pointer_to_offset}

EXPECTED RESULT ON THE PINNED TREE: exit 1 with exactly three failed obligations, all genuine defects (DESIGN F6), each
reproduced natively (native/src/bin/f_cfi_entries_{1,2,3}.rs):
  EhHdrTable::lookup `(len / 2) * row_size`, EhHdrTableIter::nth `n * row_size`, EhHdrTable::pointer_to_offset `ptr - eh_frame_ptr`.

ASSUMED (TRUSTED ledger = core's + section_clone)
  section_clone   R-CLONE for `section.clone()` in PartialFrameDescriptionEntry::from_prefix: the clone of a section has the
                  same ghost view/address size (DebugFrame/EhFrame derive Clone+Copy; Verus gives derived Clone of a generic
                  type no specification).  reader_clone (core) is used for the five `reader.clone()` sites.
  not in the ledger scan but assumptions all the same:
  `unsafe impl Structural for DwEhPe`  derive(PartialEq) on the dw! newtype is structural equality (needed for `==`)
  `#[verifier::external_derive(Clone)]` on CommonInformationEntry / FrameDescriptionEntry: the derived Clone is outside the
                  verifier (it would have to re-establish the type invariant); no extracted function clones them
  inherent `fn default()` models of `#[derive(Default)]` for Augmentation / AugmentationData (R-ATTR drops the derive)
  type invariants (checked at every construction): CIE.address_size and FDE.cie.address_size are in {1,2,4,8}
  API-misuse preconditions (explicit `requires`, not panics on untrusted data): the *configured* address size
  (EhFrameHdr::parse argument, DebugFrame/EhFrame::set_address_size) is 1, 2, 4 or 8 - otherwise ones_sized() shifts by >= 64.
  Logged one-off rewrites: R-PARAM (`_` fn parameter gets a name), R-ETA (`.map(EhFrameOffset)` eta-expanded), closure
  type/postcondition annotations and one `let mut data: Option<R>` annotation are insertions only.

DROPPED (R-DROP): every method that mentions CallFrameInstruction*/UnwindTable/UnwindContext (batch cfi_unwind), Section/From
  impls of the section types, Option::is_some_and users (CIE::has_lsda, is_signal_trampoline, FDE::is_signal_trampoline),
  `personality()` (tuple-pattern closure), FallibleIterator/Iterator adaptor impls.

NOT DECIDED here
  * group 4: UnwindSection::{entries, cie_from_offset, partial_fde_from_offset, fde_from_offset, fde_for_address,
    unwind_info_for_address} and EhHdrTable::{fde_for_address, unwind_info_for_address}: trait default methods that call generic
    fns bounded by the same trait (Verus cycle) and re-borrow an FnMut (`&mut get_cie`) in a loop.
  * EhHdrTable::lookup functional contract (sorted table => last key <= address): only safety/termination/encoding rejection.
  * "succeeds exactly when some FDE covers" / agreement of the three lookup paths / readelf agreement (DESIGN C05 ND).
  * error *values* of rejections that pass through core reads (the core layer does not constrain callee error values), totality
    (`Ok` for every well-formed input) where core contracts are Ok-direction only (read_initial_length, read_address,
    read_null_terminated_slice, LEB128).
  * that the zero-length words skipped by CfiEntriesIter::next in .debug_frame are all zero (only: the entry returned starts at
    its reported offset >= the old position, and is decoded from there).
"""
from lib import *
from batches import core

TRUSTED = list(core.TRUSTED) + ['section_clone']

OWN = ['C01', 'C05']
IN0 = 'old(input).rv()'
IN1 = 'final(input).rv()'
FRAME = f'[C01:frame] within({IN0}, {IN1})'


def annotate_closure(it, prefix, param, pty, rty, ens):
    """first not yet annotated `prefix|a| body)` -> `prefix|a: pty| -> (r: rty) ensures ens { body })`, by insertions only
    (Verus closures carry no implicit postcondition); `body` is left untouched"""
    head = f'{prefix}|{param}|'
    k = it.text.find(head)
    if k < 0:
        raise Lost(f'{it._where("")}: closure `{head}` not found')
    a = k + len(prefix) + 1 + len(param)
    # end of the closure body: the `)` closing the call that `prefix` opened
    depth, j = 0, a + 1
    while True:
        c = it.text[j]
        if c in '([{':
            depth += 1
        elif c in ')]}':
            if depth == 0:
                break
            depth -= 1
        j += 1
    t = it.text
    it.text = t[:a] + ins(f': {pty}') + '|' + ins(f' -> (r: {rty}) ensures {ens} {{') + t[a + 1:j] + ins(' }') + t[j:]


SPEC_TEXT = core.rd('specs/cfi_entries.rs')
SPEC_MARK = '// ==== MODULE read::cfi'

GHOST_PTR = '''
/// ghost: the bases a `PointerEncodingParameters` designates (spec view for contracts)
spec fn pb<R: Reader<Offset = usize>>(p: &PointerEncodingParameters<'_, R>) -> PeBases {
    PeBases { section: p.bases.section, text: p.bases.text, data: p.bases.data, func: p.func_base }
}
pub open spec fn ptr_val(p: Pointer) -> u64 { match p { Pointer::Direct(a) => a, Pointer::Indirect(a) => a } }
/// ghost: precondition shared by every pointer parse: the input is a view into the section it is relative to
spec fn pe_params_ok<R: Reader<Offset = usize>>(p: &PointerEncodingParameters<'_, R>, input: RView) -> bool {
    valid_address_size(p.address_size) && inside(p.section.rv(), input)
}
'''


def group1(ctx, sk):
    cs = Source('constants.rs', ctx)
    cfi = Source('read/cfi.rs', ctx)
    sk.module('vspec_cfi')
    sk.add('vspec_cfi', SPEC_TEXT.split(SPEC_MARK)[0], label='vspec_cfi')
    sk.module('constants', 'use crate::vspec_cfi::*;')
    # derive(PartialEq) on the dw! newtypes is structural equality (Verus gives derived `==` no meaning otherwise)
    sk.add('constants', 'unsafe impl Structural for DwEhPe {}', label='Structural(DwEhPe)')
    sk.add('constants', cs.item(r'^const DW_EH_PE_FORMAT_MASK').clean())
    sk.add('constants', cs.item(r'^const DW_EH_PE_APPLICATION_MASK').clean())
    pe = cs.item(r'^impl DwEhPe \{', label='DwEhPe').clean().own(OWN)
    pe.splice('format', ret='res', ensures=['[C05:pe-format] res.0 == pe_format(self.0)'],
              before=[('DwEhPe(self.0 & DW_EH_PE_FORMAT_MASK)', 'proof { let x = self.0; assert(x & 0x0fu8 == x % 16u8) by (bit_vector); }')])
    pe.splice('application', ret='res', ensures=['[C05:pe-application] res.0 == pe_app(self.0)'],
              before=[('DwEhPe(self.0 & DW_EH_PE_APPLICATION_MASK)', 'proof { let x = self.0; assert(x & 0x70u8 == ((x / 16u8) % 8u8) * 16u8) by (bit_vector); }')])
    pe.splice('is_absent', ret='res', ensures=['[C05:pe-omit] res == pe_omit(self.0)'])
    pe.splice('is_indirect', ret='res', ensures=['[C05:pe-indirect] res == pe_indirect(self.0)'],
              before=[('self.0 & DW_EH_PE_indirect.0 != 0', 'proof { let x = self.0; assert((x & 0x80u8 != 0u8) == (x >= 0x80u8)) by (bit_vector); }')])
    pe.splice('is_valid_encoding', ret='res', ensures=['[C05:pe-valid] res == pe_valid(self.0)'])
    sk.add('constants', pe)

    sk.mods['read']['uses'] += '\npub use self::cfi::*;'
    sk.module('read::cfi', '''use core::cmp::Ordering;
use core::fmt::{self, Debug};
use core::mem;
use crate::common::{DebugFrameOffset, EhFrameOffset, Encoding, Format, Register, Vendor};
use crate::constants::{self, DwEhPe};
use crate::read::{Error, Reader, ReaderAddress, ReaderOffset, Result};
use crate::read::reader_clone;
use crate::vspec::*;
use crate::vspec_cfi::*;
broadcast use crate::vspec_cfi::group_widen;''')
    sk.add('read::cfi', cfi.item(r'^pub struct SectionBaseAddresses').clean())
    sk.add('read::cfi', cfi.item(r'^pub struct BaseAddresses').clean())
    sk.add('read::cfi', cfi.item(r'^pub enum Pointer \{').clean())
    sk.add('read::cfi', cfi.item(r'^struct PointerEncodingParameters<').clean(rejrec=['R']))
    sk.add('read::cfi', GHOST_PTR, label='ghost(pointer)')

    ppe = cfi.item(r'^fn parse_pointer_encoding<').clean().own(OWN)
    ppe.splice('parse_pointer_encoding', ret='res', ensures=[
        f'[C05:ptr-enc] res matches Ok(e) ==> e.0 == {IN0}.at(0) && pe_valid(e.0) && adv({IN0}, {IN1}, 1)',
        f'[C05:ptr-enc-accept] res is Ok <==> {IN0}.len >= 1 && pe_valid({IN0}.at(0))',
        f'[C05:ptr-enc-reject] {IN0}.len >= 1 && !pe_valid({IN0}.at(0)) ==> res == Err::<constants::DwEhPe, Error>(Error::UnknownPointerEncoding(constants::DwEhPe({IN0}.at(0))))',
        FRAME])
    sk.add('read::cfi', ppe)

    pi = cfi.item(r'^impl Pointer \{', label='Pointer').clean().own(OWN)
    pi.splice('new', ret='res', ensures=['[C05:ptr-indirect] res == (if pe_indirect(encoding.0) { Pointer::Indirect(address) } else { Pointer::Direct(address) })'])
    pi.splice('direct', ret='res', ensures=['[C05:ptr-direct] res == (match self { Pointer::Direct(p) => Ok::<u64, Error>(p), Pointer::Indirect(_) => Err::<u64, Error>(Error::UnsupportedIndirectPointer) })'])
    pi.splice('pointer', ret='res', ensures=['[C05:ptr-pointer] res == ptr_val(self)'])
    sk.add('read::cfi', pi)

    E = 'encoding.0'
    ASZ = 'parameters.address_size'
    FMT = f'pe_format({E})'
    pev = cfi.item(r'^fn parse_encoded_value<').clean().own(OWN)
    # every `input.read_X().map(|a| a as u64)` closure gets its (otherwise implicit) type and postcondition; which reads
    # there are is taken from the source, so that an edit of an arm is judged by the contract, not lost as an anchor
    RTY = {'sleb128': 'i64', 'uleb128': 'u64'}
    for m in re.finditer(r'input\.read_(\w+)\(\)\.map\(\|a\| a as u64\)', pev.text):
        annotate_closure(pev, f'input.read_{m.group(1)}().map(', 'a', RTY.get(m.group(1), m.group(1)), 'u64', 'r == a as u64')
    pev.splice('parse_encoded_value', ret='res', canary=True,
               requires=[f'[C05:valid-enc] pe_valid({E}) && !pe_omit({E})'],
               ensures=[
                   f'[C05:enc-value] res matches Ok(v) ==> v as int == twos64(pe_val({IN0}, {FMT}, {ASZ})) && adv({IN0}, {IN1}, pe_size({IN0}, {FMT}, {ASZ}))',
                   f'[C05:enc-value-addr-size] {FMT} == 0 && !valid_address_size({ASZ}) ==> res is Err',
                   f'[C05:enc-value-eof] pe_fixed({FMT}) && {IN0}.len < pe_size({IN0}, {FMT}, {ASZ}) ==> res is Err',
                   # (read_address has no eof-exact clause in the core layer, so totality is stated for the other fixed formats)
                   f'[C05:enc-value-total] pe_fixed({FMT}) && {FMT} != 0 && {IN0}.len >= pe_size({IN0}, {FMT}, {ASZ}) ==> res is Ok',
                   f'[C01:err-no-consume] res is Err && pe_fixed({FMT}) ==> unch({IN0}, {IN1})',
                   FRAME],
               before=[('match encoding.format() {', 'proof { assert(forall|a: i16| a < 0 ==> #[trigger] (a as u64) as int == a as int + 0x1_0000_0000_0000_0000) by (bit_vector); '
                        'assert(forall|a: i32| a < 0 ==> #[trigger] (a as u64) as int == a as int + 0x1_0000_0000_0000_0000) by (bit_vector); '
                        'assert(forall|a: i64| a < 0 ==> #[trigger] (a as u64) as int == a as int + 0x1_0000_0000_0000_0000) by (bit_vector); '
                        'assert(forall|a: i16| a >= 0 ==> #[trigger] (a as u64) as int == a as int) by (bit_vector); '
                        'assert(forall|a: i32| a >= 0 ==> #[trigger] (a as u64) as int == a as int) by (bit_vector); '
                        'assert(forall|a: i64| a >= 0 ==> #[trigger] (a as u64) as int == a as int) by (bit_vector); }')])
    sk.add('read::cfi', pev)

    OFF = f'({IN0}.start - parameters.section.rv().start) as nat'
    BASE = f'pe_base(pe_app({E}), pb(parameters), {OFF}, {ASZ})'
    pep = cfi.item(r'^fn parse_encoded_pointer<').clean().own(OWN)
    UN = f'unch({IN0}, {IN1})'
    ERR = 'Err::<Pointer, Error>'
    pep.splice('parse_encoded_pointer', ret='res', canary=True,
               requires=[f'pe_params_ok(parameters, {IN0})'],
               ensures=[
                   f'[C05:ptr-invalid-enc] !pe_valid({E}) ==> res == {ERR}(Error::UnknownPointerEncoding(encoding)) && {UN}',
                   f'[C05:ptr-omit] pe_omit({E}) ==> res == {ERR}(Error::CannotParseOmitPointerEncoding) && {UN}',
                   f'[C05:ptr-base-undefined] pe_valid({E}) && !pe_omit({E}) && {BASE} is None ==> {UN} && res == {ERR}('
                   f'if pe_app({E}) == 0x10 {{ Error::PcRelativePointerButSectionBaseIsUndefined }} else if pe_app({E}) == 0x20 {{ Error::TextRelativePointerButTextBaseIsUndefined }} '
                   f'else if pe_app({E}) == 0x30 {{ Error::DataRelativePointerButDataBaseIsUndefined }} else if pe_app({E}) == 0x40 {{ Error::FuncRelativePointerInBadContext }} '
                   f'else {{ Error::UnsupportedPointerEncoding(encoding) }})',
                   f'[C05:ptr-value] res matches Ok(p) ==> pe_valid({E}) && !pe_omit({E}) && ({BASE} matches Some(base) && '
                   f'ptr_val(p) as int == pe_ptr(base, pe_val({IN0}, {FMT}, {ASZ}), {ASZ})) && adv({IN0}, {IN1}, pe_size({IN0}, {FMT}, {ASZ}))',
                   f'[C05:ptr-indirect] res matches Ok(p) ==> (p is Indirect <==> pe_indirect({E}))',
                   f'[C05:ptr-eof] pe_fixed({FMT}) && {IN0}.len < pe_size({IN0}, {FMT}, {ASZ}) ==> res is Err',
                   f'[C05:ptr-total] pe_valid({E}) && !pe_omit({E}) && {BASE} is Some && pe_fixed({FMT}) && {FMT} != 0 && {IN0}.len >= pe_size({IN0}, {FMT}, {ASZ}) ==> res is Ok',
                   f'[C01:err-no-consume] res is Err && pe_fixed({FMT}) ==> {UN}',
                   FRAME])
    sk.add('read::cfi', pep)


SECTION_GHOST = """    /// ghost: which standard governs the section: true = `.eh_frame` (LSB), false = `.debug_frame` (DWARF 6.4.1)
    spec fn is_eh() -> bool;
    /// ghost: view of the section data
    spec fn sec(&self) -> RView;
    /// ghost: the configured default address size
    spec fn asz(&self) -> u8;"""

DEFAULT_MODELS = """
// models of `#[derive(Default)]` (R-ATTR drops the derive; Verus has no spec for it): all-None / false.
// Inherent fns (not `impl Default`) so that the contract may name the private fields; `T::default()` resolves to them.
impl Augmentation {
    fn default() -> (r: Self)
        ensures r == (Augmentation { lsda: None, personality: None, fde_address_encoding: None, is_signal_trampoline: false })
    { Augmentation { lsda: None, personality: None, fde_address_encoding: None, is_signal_trampoline: false } }
}
impl AugmentationData {
    fn default() -> (r: Self) ensures r == (AugmentationData { lsda: None })
    { AugmentationData { lsda: None } }
}
"""

SECTION_CLONE = """
// R-CLONE for sections: `#[derive(Clone, Copy)]` on DebugFrame/EhFrame is a bit copy; Verus gives derived Clone of a generic
// type no specification, so the clone's ghost view is assumed to be the original's
#[verifier::external_body]
pub fn section_clone<R: Reader<Offset = usize>, S: UnwindSection<R>>(s: &S) -> (res: S)
    ensures res.sec() == s.sec(), res.asz() == s.asz()
{ s.clone() }
"""

TYPE_INVS = """
impl<R, Offset> CommonInformationEntry<R, Offset> where R: Reader<Offset = Offset>, Offset: ReaderOffset {
    /// every CIE value carries a supported address size (established by from_prefix, the only constructor)
    #[verifier::type_invariant]
    spec fn inv(self) -> bool { valid_address_size(self.address_size) }
}
impl<R, Offset> FrameDescriptionEntry<R, Offset> where R: Reader<Offset = Offset>, Offset: ReaderOffset {
    #[verifier::type_invariant]
    spec fn inv(self) -> bool { valid_address_size(self.cie.address_size) }
}
"""

SEC_OK = 'valid_address_size(section.asz())'


def group2(ctx, sk):
    cfi = Source('read/cfi.rs', ctx)
    common = Source('common.rs', ctx)
    M = 'read::cfi'
    # ---- offsets
    for ty in ['DebugFrameOffset', 'EhFrameOffset']:
        sk.add('common', f"""
impl<T> vstd::std_specs::convert::FromSpecImpl<T> for {ty}<T> {{
    open spec fn obeys_from_spec() -> bool {{ true }}
    open spec fn from_spec(o: T) -> Self {{ {ty}(o) }}
}}""", label=f'ghost(From for {ty})')
        sk.add('common', common.item(r'^impl<T> From<T> for %s<T>' % ty).clean().own(OWN))
    sk.add(M, cfi.item(r'^pub enum CieOffsetEncoding').clean())
    uo = cfi.item(r'^pub trait UnwindOffset<', label='UnwindOffset').clean()
    uo.insert_members("    /// ghost: the wrapped section offset\n    spec fn off(self) -> T;\n"
                      "    /// ghost: `From<T>` wraps the offset unchanged (proved for both offset types)\n"
                      "    proof fn lemma_from(t: T, r: Self) requires call_ensures(<Self as From<T>>::from, (t,), r) ensures r.off() == t;")
    uo.splice('into', ret='res', ensures=['[C05:unwind-offset] res == self.off()'])
    sk.add(M, uo)
    for ty in ['DebugFrameOffset', 'EhFrameOffset']:
        it = cfi.item(r'^impl<T> UnwindOffset<T> for %s<T>' % ty, label=f'UnwindOffset for {ty}').clean().own(OWN)
        it.insert_members('    open spec fn off(self) -> T { self.0 }\n    proof fn lemma_from(t: T, r: Self) {}')
        sk.add(M, it)

    # ---- sections
    for ty in ['DebugFrame', 'EhFrame']:
        sk.add(M, cfi.item(r'^pub struct %s<R: Reader>' % ty).clean(rejrec=['R']))
        it = cfi.item(r'^impl<R: Reader> %s<R> \{' % ty, label=ty).clean().own(OWN)
        it.insert_members('    pub closed spec fn cfg_address_size(&self) -> u8 { self.address_size }\n    pub closed spec fn data(&self) -> RView { self.section.rv() }')
        it.splice('set_address_size', ensures=['final(self).cfg_address_size() == address_size', 'final(self).data() == old(self).data()'])
        it.splice('set_vendor', ensures=['final(self).cfg_address_size() == old(self).cfg_address_size()', 'final(self).data() == old(self).data()'])
        sk.add(M, it)
    priv = cfi.item(r'^pub trait _UnwindSectionPrivate<', label='_UnwindSectionPrivate').clean()
    priv.insert_members(SECTION_GHOST)
    priv.splice('section', ret='res', ensures=['res.rv() == self.sec()'])
    priv.splice('has_zero_terminator', ret='res', ensures=['[C05:zero-terminator] res == Self::is_eh()'])
    priv.splice('is_cie', ret='res', ensures=['[C05:cie-id] res == id_is_cie(Self::is_eh(), format == Format::Dwarf64, id as nat)'])
    priv.splice('cie_offset_encoding', ret='res', ensures=['[C05:cie-id-size] res == (if !Self::is_eh() && format == Format::Dwarf64 { CieOffsetEncoding::U64 } else { CieOffsetEncoding::U32 })'])
    priv.splice('resolve_cie_offset', ret='res', ensures=['[C05:cie-pointer] res == (if Self::is_eh() { if offset <= base { Some((base - offset) as usize) } else { None::<usize> } } else { Some(offset) })'])
    priv.splice('has_address_and_segment_sizes', ret='res', ensures=['[C05:cie-v4-sizes] res == (!Self::is_eh() && version == 4)'])
    priv.splice('address_size', ret='res', ensures=['res == self.asz()'])
    sk.add(M, priv)
    us = cfi.item(r'^pub trait UnwindSection<', label='UnwindSection')
    us.keep_only([])
    us.clean()
    sk.add(M, us)
    for ty, eh in [('DebugFrame', 'false'), ('EhFrame', 'true')]:
        it = cfi.item(r'^impl<R: Reader> _UnwindSectionPrivate<R> for %s<R>' % ty, label=f'_UnwindSectionPrivate for {ty}')
        # R-PARAM: Verus rejects the wildcard pattern `_` as a fn parameter; give it a name (no effect on meaning)
        if ty == 'DebugFrame':
            it.custom('R-PARAM', 'fn resolve_cie_offset(&self, _: R::Offset', 'fn resolve_cie_offset(&self, _verif_unused: R::Offset')
        else:
            it.custom('R-PARAM', 'fn is_cie(_: Format', 'fn is_cie(_verif_unused: Format')
        it.clean().own(OWN)
        it.insert_members(f'    open spec fn is_eh() -> bool {{ {eh} }}\n    closed spec fn sec(&self) -> RView {{ self.section.rv() }}\n    closed spec fn asz(&self) -> u8 {{ self.address_size }}')
        sk.add(M, it)
        sk.add(M, cfi.item(r'^impl<R: Reader> UnwindSection<R> for %s<R>' % ty).clean())
    sk.add(M, SECTION_CLONE, label='section_clone')

    # ---- data types
    sk.add(M, cfi.item(r'^struct CfiEntryPrefix<R>').clean(rejrec=['R']))
    sk.add(M, cfi.item(r'^pub struct Augmentation \{').clean())
    sk.add(M, cfi.item(r'^struct AugmentationData \{').clean())
    sk.add(M, DEFAULT_MODELS, label='derive(Default) models')
    # derive(Clone) would construct values outside the verifier's view of the type invariant: keep it external
    sk.add(M, cfi.item(r'^pub struct CommonInformationEntry<R, Offset').clean(rejrec=['R', 'Offset']).prepend('#[verifier::external_derive(Clone)]'))
    sk.add(M, cfi.item(r'^pub struct FrameDescriptionEntry<R, Offset').clean(rejrec=['R', 'Offset']).prepend('#[verifier::external_derive(Clone)]'))
    sk.add(M, cfi.item(r'^pub struct PartialFrameDescriptionEntry<').clean(rejrec=['R', 'Section']))
    sk.add(M, cfi.item(r'^pub enum CieOrFde<').clean(rejrec=['R', 'Section']))
    sk.add(M, TYPE_INVS + SPEC_TEXT.split(SPEC_MARK)[1], label='ghost(entries)')

    # ---- prefix
    B0 = IN0
    pp = cfi.item(r'^fn parse_cfi_entry_prefix<').clean().own(OWN)
    pp.splice('parse_cfi_entry_prefix', ret='res', canary=True,
              requires=[f'[C10:offset-from-pre] inside(section.sec(), {IN0})'],
              ensures=[
                  f'[C05:prefix][C10:view] res matches Ok(Some(p)) ==> prefix_is(p, {B0}, section.sec(), Section::is_eh()) && adv({B0}, {IN1}, px_ilen({B0}) + px_len({B0}))',
                  f'[C05:prefix-terminator] res matches Ok(None) ==> px_len({B0}) == 0 && adv({B0}, {IN1}, px_ilen({B0}))',
                  f'[C05:prefix-terminator] res is Ok && px_len({B0}) == 0 ==> res matches Ok(None)',
                  f'[C05:prefix-eof] {B0}.len >= 4 && ({B0}.len < px_ilen({B0}) + px_len({B0}) || 0 < px_len({B0}) < px_idsz({B0}, Section::is_eh())) ==> res is Err',
                  f'[C01:progress] res is Ok ==> {IN1}.len < {B0}.len',
                  FRAME])
    sk.add(M, pp)


def group2b(ctx, sk):
    cfi = Source('read/cfi.rs', ctx)
    M = 'read::cfi'
    SEC = 'section.sec()'
    EH = 'Section::is_eh()'
    BE = 'sb(&bases.eh_frame, None)'

    # ---- Augmentation::parse
    S0 = 'old(augmentation_str).rv()'
    au = cfi.item(r'^impl Augmentation \{', label='Augmentation').clean().own(OWN)
    AUG_INV = (f'invariant within({S0}, augmentation_str.rv()), within({IN0}, input.rv()), inside({SEC}, input.rv()), '
               f'valid_address_size(address_size), {S0}.len > 0, '
               f'parsed_first == (augmentation_str.rv().start > {S0}.start), '
               '({ let st = AugSt { lsda: opt_enc(augmentation.lsda), pers: aug_pers(augmentation.personality), fde: opt_enc(augmentation.fde_address_encoding), '
               'sig: augmentation.is_signal_trampoline, first: parsed_first, data: (match data { Some(d) => Some(d.rv()), None => None }), input: input.rv() }; '
               f'aug_fold({S0}, 0, aug_init({IN0}), {BE}, {SEC}.start, address_size) == aug_fold({S0}, (augmentation_str.rv().start - {S0}.start) as nat, st, {BE}, {SEC}.start, address_size) '
               '&& aug_is(augmentation, st) }), '
               f'(data matches Some(d) ==> inside({SEC}, d.rv())), (data is Some ==> parsed_first), '
               f'(parsed_first ==> ({S0}.at(0) == 0x7a || {S0}.at(0) == 0x53)), '
               '\n decreases augmentation_str.rv().len')
    # type annotation (insertion only): the invariant mentions `data` before rustc has inferred its type
    au.insert_after('let mut data', ': Option<R>')
    au.splice('parse', ret='res', canary=True,
              requires=[f'{S0}.len > 0', f'[C10:offset-from-pre] inside({SEC}, {IN0})', 'valid_address_size(address_size)'],
              ensures=[
                  f'[C05:aug-fold] res matches Ok(a) ==> (aug_fold({S0}, 0, aug_init({IN0}), {BE}, {SEC}.start, address_size) matches Some(st) && aug_is(a, st) && {IN1} == st.input)',
                  f'[C05:aug-unknown] ({{ let c = {S0}.at(0); c != 0x7a && c != 0x53 }}) ==> res is Err',
                  FRAME],
              loops={0: AUG_INV},
              before=[('let ch = augmentation_str.read_u8()?;', 'proof { reveal_with_fuel(aug_fold, 1); }'),
                      ('Ok(augmentation)', 'proof { reveal_with_fuel(aug_fold, 1); }')])
    sk.add(M, au)
    # 'P' consumes data: relation between exec personality and the model
    sk.add(M, 'spec fn aug_pers(p: Option<(constants::DwEhPe, Pointer)>) -> Option<(u8, int)> { match p { Some(ep) => Some((ep.0.0, ptr_val(ep.1) as int)), None => None } }',
           label='ghost(aug_pers)')

    # ---- AugmentationData::parse
    ad = cfi.item(r'^impl AugmentationData \{', label='AugmentationData').clean().own(OWN)
    ad.splice('parse', ret='res', canary=True,
              requires=[f'pe_params_ok(encoding_parameters, {IN0})'],
              ensures=[
                  f'[C05:fde-aug-data] res matches Ok(a) ==> ({{ let r2 = {IN0}; let l = r2.leb_len(0); let n = r2.uleb(0); '
                  'let d = RView { root: r2.root, be: r2.be, start: r2.start + l, len: n }; '
                  f'r2.leb_ok(0) && l + n <= r2.len && {IN1} == rv_adv(r2, l + n) && '
                  '(match augmentation.lsda { None => a.lsda is None, Some(le) => pe_valid(le.0) && !pe_omit(le.0) && '
                  '(pe_base(pe_app(le.0), pb(encoding_parameters), (d.start - encoding_parameters.section.rv().start) as nat, encoding_parameters.address_size) matches Some(lb) '
                  '&& pe_size(d, pe_format(le.0), encoding_parameters.address_size) <= d.len '
                  '&& (a.lsda matches Some(p) && ptr_is(p, le.0, pe_ptr(lb, pe_val(d, pe_format(le.0), encoding_parameters.address_size), encoding_parameters.address_size)))) }) })',
                  FRAME])
    sk.add(M, ad)


def group2c(ctx, sk):
    cfi = Source('read/cfi.rs', ctx)
    M = 'read::cfi'
    SEC = 'section.sec()'
    EH = 'Section::is_eh()'
    BE = 'sb(&bases.eh_frame, None)'
    PR = 'prefix.rest.rv()'

    # ---- CommonInformationEntry::{parse, from_prefix}
    ci = cfi.item(r'^impl<R: Reader> CommonInformationEntry<R> \{', label='CommonInformationEntry(parse)').clean().own(OWN)
    ERRC = 'Err::<CommonInformationEntry<R>, Error>'
    ci.splice('from_prefix', ret='res', canary=True,
              requires=[f'[C10:offset-from-pre] inside({SEC}, {PR})', SEC_OK],
              ensures=[
                  f'[C05:cie-fields][C10:view] res matches Ok(c) ==> (cie_model({PR}, {EH}, section.asz(), {BE}, {SEC}.start) matches Some(m) && cie_is(c, m)) '
                  '&& c.offset == prefix.offset && c.length == prefix.length && c.format == prefix.format',
                  f'[C05:cie-version] {PR}.len >= 1 && !({PR}.at(0) == 1 || {PR}.at(0) == 3 || {PR}.at(0) == 4) ==> res == {ERRC}(Error::UnknownVersion({PR}.at(0) as u64))',
                  # (the core layer's reads do not constrain their error values, so rejections are stated as `res is Err`)
                  f'[C05:cie-segment-size] ({{ let r = {PR}; let q0 = (2 + cstr_len(r, 1)) as int; '
                  f'r.len >= 1 && r.at(0) == 4 && !{EH} && q0 + 2 <= r.len && r.at(q0 + 1) != 0 ==> res is Err }})',
                  f'[C05:cie-address-size] ({{ let r = {PR}; let q0 = (2 + cstr_len(r, 1)) as int; '
                  f'r.len >= 1 && r.at(0) == 4 && !{EH} && q0 + 1 <= r.len && !valid_address_size(r.at(q0)) ==> res is Err }})',
                  f'[C10:view] res matches Ok(c) ==> inside({PR}, c.initial_instructions.rv())',
              ],
              before=[('let mut augmentation_string = rest.read_null_terminated_slice()?;', 'let ghost r1 = rest.rv();')],
              after=[('let mut augmentation_string = rest.read_null_terminated_slice()?;',
                      'proof { let n = augmentation_string.rv().len; '
                      'assert forall|k: int| r1.start <= k < r1.start + n implies #[trigger] r1.root[k] != 0 by { assert(r1.at(k - r1.start) != 0); } '
                      'lemma_cstr_len(r1.root, r1.start as int, r1.end() as int, n); }')])
    B0 = IN0
    ci.splice('parse', ret='res', canary=True,
              requires=[f'[C10:offset-from-pre] inside({SEC}, {IN0})', SEC_OK],
              ensures=[
                  f'[C05:cie-at] res matches Ok(c) ==> cie_at(c, {B0}, {SEC}, {EH}, section.asz(), bases) && adv({B0}, {IN1}, px_ilen({B0}) + px_len({B0}))',
                  f'[C05:cie-at-not-cie] {B0}.len >= px_ilen({B0}) + px_len({B0}) && px_len({B0}) >= px_idsz({B0}, {EH}) && !id_is_cie({EH}, px_is64({B0}), px_id({B0}, {EH})) ==> res is Err',
                  f'[C05:cie-at-terminator] px_len({B0}) == 0 ==> res is Err',
                  FRAME])
    sk.add(M, ci)

    # accessors (pub): ghost accessors expose the private fields to public contracts
    ca = cfi.item(r'^impl<R: Reader> CommonInformationEntry<R> \{\s*pub fn offset', label='CommonInformationEntry')
    ca.drop(['instructions', 'has_lsda', 'is_signal_trampoline', 'personality'])   # CallFrameInstructionIter (batch cfi_unwind); Option::is_some_and unsupported
    ca.clean().own(OWN)
    ca.insert_members("""    pub closed spec fn s_offset(&self) -> usize { self.offset }
    pub closed spec fn s_length(&self) -> usize { self.length }
    pub closed spec fn s_format(&self) -> Format { self.format }
    pub closed spec fn s_version(&self) -> u8 { self.version }
    pub closed spec fn s_address_size(&self) -> u8 { self.address_size }
    pub closed spec fn s_caf(&self) -> u64 { self.code_alignment_factor }
    pub closed spec fn s_daf(&self) -> i64 { self.data_alignment_factor }
    pub closed spec fn s_rar(&self) -> Register { self.return_address_register }
    pub closed spec fn s_aug(&self) -> Option<Augmentation> { self.augmentation }
    pub closed spec fn s_instructions(&self) -> RView { self.initial_instructions.rv() }""")
    for fn, sp in [('offset', 's_offset()'), ('entry_len', 's_length()'), ('version', 's_version()'),
                   ('code_alignment_factor', 's_caf()'), ('data_alignment_factor', 's_daf()'), ('return_address_register', 's_rar()')]:
        ca.splice(fn, ret='res', ensures=[f'[C05:cie-accessor] res == self.{sp}'])
    ca.splice('address_size', ret='res', before=[('self.address_size', 'proof { use_type_invariant(self); }')],
              ensures=['[C05:cie-accessor] res == self.s_address_size()', '[C01:address-size-validated] valid_address_size(res)'])
    ca.splice('encoding', ret='res', ensures=['[C05:cie-accessor] res.format == self.s_format() && res.version == self.s_version() as u16 && res.address_size == self.s_address_size()'])
    ca.splice('augmentation', ret='res', ensures=['[C05:cie-accessor] (match res { Some(a) => self.s_aug() == Some(*a), None => self.s_aug() is None })'])
    annotate_closure(ca, 'self.augmentation.and_then(', 'a', 'Augmentation', 'Option<constants::DwEhPe>', 'r == a.lsda')
    annotate_closure(ca, 'self.augmentation.and_then(', 'a', 'Augmentation', 'Option<constants::DwEhPe>', 'r == a.fde_address_encoding')
    annotate_closure(ca, 'self.augmentation.as_ref().and_then(', 'a', '&Augmentation', 'Option<(constants::DwEhPe, Pointer)>', 'r == a.personality')
    ca.splice('personality_with_encoding', ret='res', ensures=['[C05:cie-accessor] res == (match self.s_aug() { Some(a) => a.s_personality(), None => None })'])
    ca.splice('lsda_encoding', ret='res', ensures=['[C05:cie-accessor] res == (match self.s_aug() { Some(a) => a.s_lsda(), None => None })'])
    ca.splice('fde_address_encoding', ret='res', ensures=['[C05:cie-accessor] res == (match self.s_aug() { Some(a) => a.s_fde_enc(), None => None })'])
    sk.add(M, ca)
    sk.add(M, """
impl Augmentation {
    pub closed spec fn s_lsda(&self) -> Option<constants::DwEhPe> { self.lsda }
    pub closed spec fn s_fde_enc(&self) -> Option<constants::DwEhPe> { self.fde_address_encoding }
    pub closed spec fn s_personality(&self) -> Option<(constants::DwEhPe, Pointer)> { self.personality }
    pub closed spec fn s_signal(&self) -> bool { self.is_signal_trampoline }
}""", label='ghost(Augmentation accessors)')


PFDE_GHOST = """    /// ghost accessors (the fields are private)
    pub closed spec fn s_offset(&self) -> usize { self.offset }
    pub closed spec fn s_length(&self) -> usize { self.length }
    pub closed spec fn s_format(&self) -> Format { self.format }
    pub closed spec fn s_cie_ptr(&self) -> Section::Offset { self.cie_offset }
    pub closed spec fn s_rest(&self) -> RView { self.rest.rv() }
    pub closed spec fn s_section(&self) -> &Section { &self.section }
    pub closed spec fn s_bases(&self) -> &BaseAddresses { self.bases }
    /// ghost: what `parse` relies on: the remaining bytes are a view into the entry's own section, configuration valid
    pub closed spec fn wf(&self) -> bool { inside(self.section.sec(), self.rest.rv()) && valid_address_size(self.section.asz()) }
    /// ghost: `self` is the FDE whose entry starts at view `b` of its section: common fields, `rest` = the bytes after the
    /// CIE_pointer, and the CIE offset is the one the pointer designates
    pub closed spec fn at(&self, b: RView) -> bool {
        let sec = self.section.sec();
        let eh = Section::is_eh();
        self.offset as nat == b.start - sec.start && self.length as nat == px_len(b) && self.format == px_format(b)
        && !id_is_cie(eh, px_is64(b), px_id(b, eh)) && self.rest.rv() == px_rest(b, eh)
        && self.cie_offset.off() as int == px_cie_offset(b, eh, self.offset as nat)
    }"""

FDE_GHOST = """    pub closed spec fn s_offset(&self) -> usize { self.offset }
    pub closed spec fn s_length(&self) -> usize { self.length }
    pub closed spec fn s_format(&self) -> Format { self.format }
    pub closed spec fn s_cie(&self) -> CommonInformationEntry<R> { self.cie }
    pub closed spec fn s_initial(&self) -> u64 { self.initial_address }
    pub closed spec fn s_range(&self) -> u64 { self.address_range }
    pub closed spec fn s_lsda(&self) -> Option<Pointer> { match self.augmentation { Some(a) => a.lsda, None => None } }
    pub closed spec fn s_instructions(&self) -> RView { self.instructions.rv() }
    /// ghost: the address interval of the FDE (DWARF 6.4.1): [initial_location, initial_location + address_range) at the CIE's address size
    pub open spec fn covers(&self, address: u64) -> bool { fde_covers(self.s_initial(), self.s_range(), self.s_cie().s_address_size(), address) }"""

ITER_GHOST = """    pub closed spec fn inp(&self) -> RView { self.input.rv() }
    pub closed spec fn s_section(&self) -> &Section { &self.section }
    pub closed spec fn s_bases(&self) -> &BaseAddresses { self.bases }
    /// ghost: the unread input is a view into the section (or exhausted), configuration valid
    pub closed spec fn wf(&self) -> bool {
        valid_address_size(self.section.asz()) && (self.input.rv().len == 0 || inside(self.section.sec(), self.input.rv()))
    }
    /// ghost: the view of the remaining section that starts at section offset `off` (where an entry reported by `next` begins)
    pub open spec fn from_offset(&self, off: usize) -> RView {
        rv_from(self.inp(), self.s_section().sec().start + off as nat, self.inp().end())
    }"""


def group2d(ctx, sk):
    cfi = Source('read/cfi.rs', ctx)
    M = 'read::cfi'
    SEC = 'section.sec()'
    EH = 'Section::is_eh()'
    B0 = IN0

    # ---- PartialFrameDescriptionEntry
    pf = cfi.item(r"^impl<'bases, Section, R> PartialFrameDescriptionEntry<'bases, Section, R>", label='PartialFrameDescriptionEntry')
    pf.custom('R-CLONE', 'section: section.clone(),', 'section: section_clone(section),')
    pf.custom('R-CLONE', 'self.rest.clone(),', 'reader_clone(&self.rest),')
    pf.clean().own(OWN)
    pf.insert_members(PFDE_GHOST)
    ID = 'prefix.cie_id_or_offset'
    pf.splice('from_prefix', ret='res', canary=True,
              requires=[f'inside({SEC}, prefix.rest.rv())', SEC_OK],
              ensures=[
                  f'[C05:fde-cie-pointer] res matches Ok(f) ==> f.s_cie_ptr().off() as int == (if {EH} {{ prefix.cie_offset_base - {ID} }} else {{ {ID} as int }}) && ({EH} ==> {ID} <= prefix.cie_offset_base)',
                  '[C05:fde-prefix-fields][C10:view] res matches Ok(f) ==> f.s_offset() == prefix.offset && f.s_length() == prefix.length && f.s_format() == prefix.format '
                  f'&& f.s_rest() == prefix.rest.rv() && f.s_section().sec() == {SEC} && f.s_section().asz() == section.asz() && f.s_bases() == bases && f.wf()',
                  f'[C05:fde-cie-pointer-underflow] {EH} && {ID} > prefix.cie_offset_base ==> res is Err',
                  f'[C05:fde-cie-pointer-total] {ID} <= 0xffff_ffff && ({EH} ==> {ID} <= prefix.cie_offset_base) ==> res is Ok'],
              after=[('bases,\n        };', 'proof { Section::Offset::lemma_from(cie_offset, fde.cie_offset); }')])
    pf.splice('parse_partial', ret='res', canary=True,
              requires=[f'[C10:offset-from-pre] inside({SEC}, {IN0})', SEC_OK],
              ensures=[
                  f'[C05:pfde-at][C10:view] res matches Ok(f) ==> f.at({B0}) && f.wf() && f.s_section().sec() == {SEC} && f.s_section().asz() == section.asz() && f.s_bases() == bases && adv({B0}, {IN1}, px_ilen({B0}) + px_len({B0}))',
                  f'[C05:pfde-at-is-cie] {B0}.len >= 4 && (px_len({B0}) == 0 || id_is_cie({EH}, px_is64({B0}), px_id({B0}, {EH}))) ==> res is Err',
                  FRAME])
    pf.splice('parse', ret='res', canary=True,
              requires=['self.wf()', 'get_cie.requires((self.s_section(), self.s_bases(), self.s_cie_ptr()))'],
              ensures=[
                  '[C05:fde-cie-binding] res matches Ok(f) ==> get_cie.ensures((self.s_section(), self.s_bases(), self.s_cie_ptr()), Ok::<CommonInformationEntry<R>, Error>(f.s_cie()))',
                  '[C05:fde-fields][C10:view] res matches Ok(f) ==> f.s_offset() == self.s_offset() && f.s_length() == self.s_length() && f.s_format() == self.s_format() '
                  '&& fde_body(f, self.s_rest(), self.s_section().sec(), self.s_bases()) && inside(self.s_rest(), f.s_instructions())'])
    for fn, sp in [('offset', 's_offset()'), ('cie_offset', 's_cie_ptr()'), ('entry_len', 's_length()')]:
        pf.splice(fn, ret='res', ensures=[f'[C05:fde-accessor] res == self.{sp}'])
    sk.add(M, pf)

    # ---- FrameDescriptionEntry::{parse_rest, parse_addresses}
    fp = cfi.item(r'^impl<R: Reader> FrameDescriptionEntry<R> \{\s*fn parse_rest', label='FrameDescriptionEntry(parse)')
    fp.drop(['rows', 'unwind_info_for_address'])   # UnwindTable / UnwindContext: batch cfi_unwind
    fp.clean().own(OWN)
    annotate_closure(fp, 'cie.augmentation().and_then(', 'a', '&Augmentation', 'Option<constants::DwEhPe>', 'r == a.fde_address_encoding')
    ASZ = 'cie.address_size'
    ENC = 'opt_enc(match cie.augmentation { Some(a) => a.fde_address_encoding, None => None })'
    fp.splice('parse_addresses', ret='res', canary=True,
              requires=[f'pe_params_ok(parameters, {IN0})', f'parameters.address_size == {ASZ}'],
              ensures=[
                  f'[C05:fde-addresses] res matches Ok(p) ==> ({{ let r = {IN0}; match {ENC} {{ '
                  f'None => p.0 as nat == r.u(0, {ASZ} as int) && p.1 as nat == rv_adv(r, {ASZ} as nat).u(0, {ASZ} as int) && {IN1} == rv_adv(rv_adv(r, {ASZ} as nat), {ASZ} as nat) && 2 * {ASZ} <= r.len, '
                  f'Some(e) => ({{ let f = pe_format(e); let s1 = pe_size(r, f, {ASZ}); let r1 = rv_adv(r, s1); let s2 = pe_size(r1, f, {ASZ}); '
                  f'pe_valid(e) && !pe_omit(e) && s1 + s2 <= r.len && {IN1} == rv_adv(r1, s2) '
                  f'&& (pe_base(pe_app(e), pb(parameters), (r.start - parameters.section.rv().start) as nat, {ASZ}) matches Some(b) && p.0 as int == pe_ptr(b, pe_val(r, f, {ASZ}), {ASZ})) '
                  f'&& p.1 as int == twos64(pe_val(r1, f, {ASZ})) }}) }} }})',
                  FRAME])
    fp.splice('parse_rest', ret='res', canary=True,
              requires=[f'[C10:offset-from-pre] inside({SEC}, rest.rv())', 'get_cie.requires((section, bases, cie_pointer))'],
              ensures=[
                  '[C05:fde-cie-binding] res matches Ok(f) ==> get_cie.ensures((section, bases, cie_pointer), Ok::<CommonInformationEntry<R>, Error>(f.cie))',
                  f'[C05:fde-fields][C10:view] res matches Ok(f) ==> f.offset == offset && f.length == length && f.format == format && fde_body(f, rest.rv(), {SEC}, bases) && inside(rest.rv(), f.instructions.rv())'],
              after=[('let cie = get_cie(section, bases, cie_pointer)?;', 'proof { use_type_invariant(&cie); }')])
    sk.add(M, fp)

    fa = cfi.item(r'^impl<R: Reader> FrameDescriptionEntry<R> \{\s*pub fn offset', label='FrameDescriptionEntry')
    fa.drop(['instructions', 'is_signal_trampoline', 'personality'])
    fa.clean().own(OWN)
    fa.insert_members(FDE_GHOST)
    for fn, sp in [('offset', 's_offset()'), ('entry_len', 's_length()'), ('initial_address', 's_initial()'), ('len', 's_range()')]:
        fa.splice(fn, ret='res', ensures=[f'[C05:fde-accessor] res == self.{sp}'])
    fa.splice('cie', ret='res', ensures=['[C05:fde-accessor] *res == self.s_cie()'])
    annotate_closure(fa, 'self.augmentation.as_ref().and_then(', 'a', '&AugmentationData', 'Option<Pointer>', 'r == a.lsda')
    fa.splice('lsda', ret='res', ensures=['[C05:fde-accessor] res == self.s_lsda()'])
    fa.splice('end_address', ret='res', ensures=['[C05:fde-end] res as int == fde_end(self.s_initial(), self.s_range(), self.s_cie().s_address_size())'],
              before=[('self.initial_address\n', 'proof { use_type_invariant(self); }')])
    fa.splice('contains', ret='res', ensures=['[C05:fde-contains] res == self.covers(address)'])
    sk.add(M, fa)

    # ---- parse_cfi_entry
    pe = cfi.item(r"^fn parse_cfi_entry<'bases, Section, R>").clean().own(OWN)
    pe.splice('parse_cfi_entry', ret='res', canary=True,
              requires=[f'[C10:offset-from-pre] inside({SEC}, {IN0})', SEC_OK],
              ensures=[
                  f'[C05:entry-cie] res matches Ok(Some(CieOrFde::Cie(c))) ==> cie_at(c, {B0}, {SEC}, {EH}, section.asz(), bases)',
                  f'[C05:entry-fde][C10:view] res matches Ok(Some(CieOrFde::Fde(f))) ==> f.at({B0}) && f.wf() && f.s_section().sec() == {SEC} && f.s_section().asz() == section.asz() && f.s_bases() == bases',
                  f'[C05:entry-consumed] res matches Ok(Some(e)) ==> adv({B0}, {IN1}, px_ilen({B0}) + px_len({B0}))',
                  f'[C05:entry-terminator] res matches Ok(None) ==> px_len({B0}) == 0 && adv({B0}, {IN1}, px_ilen({B0}))',
                  f'[C05:entry-terminator] res is Ok && px_len({B0}) == 0 ==> res matches Ok(None)',
                  f'[C01:progress] res is Ok ==> {IN1}.len < {B0}.len',
                  FRAME])
    sk.add(M, pe)

    # ---- CfiEntriesIter::next
    sk.add(M, cfi.item(r"^pub struct CfiEntriesIter<'bases, Section, R>").clean(rejrec=['R', 'Section']))
    it = cfi.item(r"^impl<'bases, Section, R> CfiEntriesIter<'bases, Section, R>", label='CfiEntriesIter').clean().own(OWN)
    it.insert_members(ITER_GHOST)
    O, F = 'old(self)', 'final(self)'
    it.splice('next', ret='res', canary=True,
              requires=[f'{O}.wf()'],
              ensures=[
                  f'{F}.wf() && {F}.s_section() == {O}.s_section() && {F}.s_bases() == {O}.s_bases()',
                  f'[C01:iter-empty] {O}.inp().len == 0 ==> (res matches Ok(None)) && {F}.inp() == {O}.inp()',
                  f'[C01:iter-err-empties] res is Err ==> {F}.inp().len == 0',
                  f'[C01:iter-progress] res matches Ok(Some(e)) ==> {F}.inp().len < {O}.inp().len && within({O}.inp(), {F}.inp())',
                  f'[C01:iter-none-final] res matches Ok(None) ==> {F}.inp().len == 0',
                  f'[C05:iter-entry-cie] res matches Ok(Some(CieOrFde::Cie(c))) ==> cie_at(c, {O}.from_offset(c.s_offset()), {O}.s_section().sec(), Section::is_eh(), {O}.s_section().asz(), {O}.s_bases()) '
                  f'&& {O}.inp().start <= {O}.s_section().sec().start + c.s_offset() && {F}.inp() == rv_adv({O}.from_offset(c.s_offset()), px_ilen({O}.from_offset(c.s_offset())) + c.s_length() as nat)',
                  f'[C05:iter-entry-fde][C10:view] res matches Ok(Some(CieOrFde::Fde(f))) ==> f.at({O}.from_offset(f.s_offset())) && f.wf() && f.s_section().sec() == {O}.s_section().sec() && f.s_bases() == {O}.s_bases() '
                  f'&& {O}.inp().start <= {O}.s_section().sec().start + f.s_offset() && {F}.inp() == rv_adv({O}.from_offset(f.s_offset()), px_ilen({O}.from_offset(f.s_offset())) + f.s_length() as nat)',
                  f'[C05:iter-eh-terminator] Section::is_eh() && {O}.inp().len >= 4 && px_len({O}.inp()) == 0 ==> !(res matches Ok(Some(_)))',
              ],
              loops={0: f'invariant within({O}.input.rv(), self.input.rv()), self.wf(), self.section == {O}.section, self.bases == {O}.bases, '
                        f'({O}.input.rv().len > 0 ==> inside(self.section.sec(), self.input.rv())), '
                        f'(Section::is_eh() ==> self.input.rv() == {O}.input.rv()),\n decreases self.input.rv().len'})
    sk.add(M, it)


HDR_GHOST = """    pub closed spec fn s_address_size(&self) -> u8 { self.address_size }
    pub closed spec fn s_section(&self) -> RView { self.section.rv() }
    pub closed spec fn s_eh_frame_ptr(&self) -> Pointer { self.eh_frame_ptr }
    pub closed spec fn s_fde_count(&self) -> u64 { self.fde_count }
    pub closed spec fn s_table_enc(&self) -> u8 { self.table_enc.0 }
    pub closed spec fn s_table(&self) -> RView { self.table.rv() }
    /// ghost: established by EhFrameHdr::parse, relied on by the table methods
    pub closed spec fn wf(&self) -> bool {
        valid_address_size(self.address_size) && inside(self.section.rv(), self.table.rv()) && pe_valid(self.table_enc.0)
    }"""

HDR_SPEC = """
/// `.eh_frame_hdr` (LSB 10.6.2): version 1, three encoding bytes, eh_frame_ptr, fde_count, then the search table
pub closed spec fn hdr_is<R: Reader<Offset = usize>>(h: ParsedEhFrameHdr<R>, b: RView, bases: &BaseAddresses, asz: u8) -> bool {
    let e1 = b.at(1); let e2 = b.at(2); let e3 = b.at(3);
    let pbs = sb(&bases.eh_frame_hdr, None);
    let r1 = rv_adv(b, 4);
    let s1 = pe_size(r1, pe_format(e1), asz);
    let r2 = rv_adv(r1, s1);
    b.len >= 4 && b.at(0) == 1 && pe_valid(e1) && pe_valid(e2) && pe_valid(e3) && !pe_omit(e1)
    && h.address_size == asz && h.section.rv() == b && h.table_enc.0 == e3
    // eh_frame_ptr: encoded pointer right after the four header bytes (a pc-relative one is relative to its own position, 4)
    && (pe_base(pe_app(e1), pbs, 4, asz) matches Some(base) && ptr_is(h.eh_frame_ptr, e1, pe_ptr(base, pe_val(r1, pe_format(e1), asz), asz)))
    && 4 + s1 <= b.len
    // fde_count: absent (0, no table) if its encoding or the table encoding is omit; otherwise a plain value
    && (if pe_omit(e2) || pe_omit(e3) { h.fde_count == 0 && h.table.rv() == r2 }
        else { e2 == pe_format(e2) && h.fde_count as int == twos64(pe_val(r2, e2, asz)) && pe_size(r2, e2, asz) <= r2.len && h.table.rv() == rv_adv(r2, pe_size(r2, e2, asz)) })
}
/// size of one field of a table row for the fixed-size encodings the table supports (None: not binary-searchable)
pub open spec fn hdr_field_size(enc: u8) -> Option<nat> {
    let f = pe_format(enc);
    if f == 2 || f == 0xa { Some(2nat) } else if f == 3 || f == 0xb { Some(4nat) } else if f == 4 || f == 0xc { Some(8nat) } else { None }
}
/// decoded pointer stored at the read position of `t` (a view into the .eh_frame_hdr section `sec`)
pub open spec fn hdr_ptr_at(t: RView, enc: u8, bases: &BaseAddresses, sec: RView, asz: u8) -> Option<int> {
    match pe_base(pe_app(enc), sb(&bases.eh_frame_hdr, None), (t.start - sec.start) as nat, asz) {
        Some(base) => Some(pe_ptr(base, pe_val(t, pe_format(enc), asz), asz)),
        None => None,
    }
}
"""

TAB_GHOST = """    pub closed spec fn s_hdr(&self) -> &ParsedEhFrameHdr<R> { self.hdr }"""

HITER_GHOST = """    pub closed spec fn s_hdr(&self) -> &ParsedEhFrameHdr<R> { self.hdr }
    pub closed spec fn s_table(&self) -> RView { self.table.rv() }
    pub closed spec fn s_bases(&self) -> &BaseAddresses { self.bases }
    pub closed spec fn s_remain(&self) -> u64 { self.remain }
    pub closed spec fn wf(&self) -> bool { self.hdr.wf() && inside(self.hdr.section.rv(), self.table.rv()) }"""


def group3(ctx, sk):
    cfi = Source('read/cfi.rs', ctx)
    M = 'read::cfi'
    sk.add(M, cfi.item(r'^pub struct EhFrameHdr<R: Reader>').clean(rejrec=['R']))
    sk.add(M, cfi.item(r'^pub struct ParsedEhFrameHdr<R: Reader>').clean(rejrec=['R']))
    sk.add(M, cfi.item(r"^pub struct EhHdrTableIter<'a, 'bases, R: Reader>").clean(rejrec=['R']))
    sk.add(M, cfi.item(r"^pub struct EhHdrTable<'a, R: Reader>").clean(rejrec=['R']))
    sk.add(M, HDR_SPEC, label='ghost(eh_frame_hdr)')

    B = 'self.0.rv()'
    hp = cfi.item(r'^impl<R: Reader> EhFrameHdr<R> \{', label='EhFrameHdr')
    hp.custom('R-CLONE', 'let mut reader = self.0.clone();', 'let mut reader = reader_clone(&self.0);')
    hp.custom('R-CLONE', 'section: self.0.clone(),', 'section: reader_clone(&self.0),')
    hp.clean().own(OWN)
    hp.insert_members('    pub closed spec fn data(&self) -> RView { self.0.rv() }')
    hp.splice('parse', ret='res', canary=True,
              requires=['[C01:address-size-config] valid_address_size(address_size)'],
              ensures=[
                  '[C05:hdr-fields][C10:view] res matches Ok(h) ==> hdr_is(h, self.data(), bases, address_size) && h.wf()',
                  '[C05:hdr-version] self.data().len >= 1 && self.data().at(0) != 1 ==> res is Err',
                  '[C05:hdr-encodings] self.data().len >= 4 && (!pe_valid(self.data().at(1)) || !pe_valid(self.data().at(2)) || !pe_valid(self.data().at(3)) || pe_omit(self.data().at(1))) ==> res is Err',
                  '[C05:hdr-count-encoding] self.data().len >= 4 && !pe_omit(self.data().at(2)) && !pe_omit(self.data().at(3)) && self.data().at(2) >= 16 ==> res is Err'])
    sk.add(M, hp)

    ph = cfi.item(r'^impl<R: Reader> ParsedEhFrameHdr<R> \{', label='ParsedEhFrameHdr').clean().own(OWN)
    ph.insert_members(HDR_GHOST)
    ph.splice('eh_frame_ptr', ret='res', ensures=['[C05:hdr-accessor] res == self.s_eh_frame_ptr()'])
    ph.splice('table', ret='res', ensures=['[C05:hdr-table] (res matches Some(t) ==> t.s_hdr() == self) && (res is Some <==> self.s_fde_count() != 0)'])
    sk.add(M, ph)

    # ---- EhHdrTableIter
    O, F = 'old(self)', 'final(self)'
    hi = cfi.item(r"^impl<'a, 'bases, R: Reader> EhHdrTableIter<'a, 'bases, R> \{", label='EhHdrTableIter').clean().own(OWN)
    hi.insert_members(HITER_GHOST)
    ROW = (f'({{ let h = {O}.s_hdr(); let t = {O}.s_table(); let e = h.s_table_enc(); let asz = h.s_address_size(); '
           f'let s1 = pe_size(t, pe_format(e), asz); let t1 = rv_adv(t, s1); let s2 = pe_size(t1, pe_format(e), asz); '
           f'(hdr_ptr_at(t, e, {O}.s_bases(), h.s_section(), asz) matches Some(a) && ptr_is(p.0, e, a)) && '
           f'(hdr_ptr_at(t1, e, {O}.s_bases(), h.s_section(), asz) matches Some(a) && ptr_is(p.1, e, a)) && '
           f's1 + s2 <= t.len && {F}.s_table() == rv_adv(t1, s2) }})')
    KEEP = f'{F}.wf() && {F}.s_hdr() == {O}.s_hdr() && {F}.s_bases() == {O}.s_bases()'
    hi.splice('next', ret='res', canary=True, requires=[f'{O}.wf()'],
              ensures=[KEEP,
                       f'[C01:iter-empty] {O}.s_remain() == 0 ==> (res matches Ok(None)) && {F}.s_table() == {O}.s_table() && {F}.s_remain() == 0',
                       f'[C01:iter-progress] {O}.s_remain() > 0 ==> {F}.s_remain() == {O}.s_remain() - 1 && !(res matches Ok(None))',
                       f'[C01:frame] within({O}.s_table(), {F}.s_table())',
                       f'[C05:hdr-row] res matches Ok(Some(p)) ==> {ROW}'])
    hi.splice('nth', ret='res', canary=True, requires=[f'{O}.wf()'],
              ensures=[KEEP,
                       f'[C01:iter-progress] {F}.s_remain() <= {O}.s_remain()',
                       f'[C01:frame] within({O}.s_table(), {F}.s_table())',
                       f'[C05:hdr-nth] res matches Ok(Some(p)) ==> (hdr_field_size({O}.s_hdr().s_table_enc()) matches Some(sz) && '
                       f'n < {O}.s_remain() && {F}.s_remain() == {O}.s_remain() - n - 1 && '
                       f'(hdr_ptr_at(rv_adv({O}.s_table(), n as nat * (sz * 2)), {O}.s_hdr().s_table_enc(), {O}.s_bases(), {O}.s_hdr().s_section(), {O}.s_hdr().s_address_size()) matches Some(a) && ptr_is(p.0, {O}.s_hdr().s_table_enc(), a)) && '
                       f'(hdr_ptr_at(rv_adv(rv_adv({O}.s_table(), n as nat * (sz * 2)), sz), {O}.s_hdr().s_table_enc(), {O}.s_bases(), {O}.s_hdr().s_section(), {O}.s_hdr().s_address_size()) matches Some(a) && ptr_is(p.1, {O}.s_hdr().s_table_enc(), a)))'])
    sk.add(M, hi)

    # ---- EhHdrTable
    ht = cfi.item(r"^impl<'a, R: Reader \+ 'a> EhHdrTable<'a, R> \{", label='EhHdrTable')
    ht.drop(['fde_for_address', 'unwind_info_for_address'])   # group 4 / batch cfi_unwind
    ht.custom('R-CLONE', 'table: self.hdr.table.clone(),', 'table: reader_clone(&self.hdr.table),')
    ht.custom('R-CLONE', 'let mut reader = self.hdr.table.clone();', 'let mut reader = reader_clone(&self.hdr.table);')
    ht.custom('R-CLONE', 'let tail = reader.clone();', 'let tail = reader_clone(&reader);')
    # R-ETA: Verus cannot take a tuple-struct constructor as a function value; eta-expand it (same function)
    ht.custom('R-ETA', '.map(EhFrameOffset)', '.map(|o: usize| -> (r: EhFrameOffset<usize>) ensures r.0 == o { EhFrameOffset(o) })')
    ht.clean().own(OWN)
    ht.insert_members(TAB_GHOST)
    ht.splice('iter', ret='res', requires=['self.s_hdr().wf()'],
              ensures=['[C05:hdr-iter] res.wf() && res.s_hdr() == self.s_hdr() && res.s_bases() == bases && res.s_remain() == self.s_hdr().s_fde_count() && res.s_table() == self.s_hdr().s_table()'])
    H = 'self.s_hdr()'
    ht.splice('lookup', ret='res', canary=True, requires=[f'{H}.wf()'],
              ensures=[
                  f'[C05:lookup-encoding] hdr_field_size({H}.s_table_enc()) is None ==> res is Err',
                  ],
              loops={0: 'invariant self.hdr.wf(), size == 2 || size == 4 || size == 8, row_size == 2 * size, '
                        'pe_params_ok(&parameters, reader.rv()), inside(self.hdr.table.rv(), reader.rv()),\n decreases len'})
    PT = 'ptr'
    ht.splice('pointer_to_offset', ret='res', requires=[f'{H}.wf()'],
              ensures=[f'[C05:ptr-to-offset] res matches Ok(o) ==> (ptr matches Pointer::Direct(p) && {H}.s_eh_frame_ptr() matches Pointer::Direct(e) && p >= e && o.0 == p - e)',
                       f'[C05:ptr-to-offset-indirect] ptr is Indirect || {H}.s_eh_frame_ptr() is Indirect ==> res is Err'])
    sk.add(M, ht)


def populate(ctx, sk):
    group1(ctx, sk)
    group2(ctx, sk)
    group2b(ctx, sk)
    group2c(ctx, sk)
    group2d(ctx, sk)
    group3(ctx, sk)
    return sk


def build(ctx):
    sk = Skeleton(ctx, core.rd('prelude/crate.rs'))
    core.populate(ctx, sk)
    populate(ctx, sk)
    return sk
