"""B-units: unit headers, abbreviation tables, DIE readers  (DESIGN.md 6 C02, C20 entry-buffer / re-rooting clauses; C01, C10).

Sources: /repo/src/read/unit.rs, /repo/src/read/abbrev.rs (+ `SectionId` from common.rs, `Expression` from read/op.rs).
Spec functions (written from DWARF 5 section 7.5.1 / 7.5.2 / 7.5.3, not from the code): vx/specs/units.rs.

FUNCTIONS UNDER CONTRACT (verified with their real bodies unless marked)
  unit headers    parse_unit_header  (layout table 7.5.1: versions 2-4 / 5, every DW_UT_*, 32/64-bit; `entries_buf` = rest of unit)
                  UnitHeader::{new, section, offset, size_of_header, unit_length, length_including_self, encoding, version, type_,
                  debug_abbrev_offset, address_size, format, header_size, root_offset, is_in_bounds, range, range_from, range_to,
                  entries, entries_at_offset};  representation invariant `wf()`: hdr_size() + entries_buf.len == il + unit_length
                  DebugInfo::{units, header_from_offset}, DebugTypes::units, Debug{Info,Types}UnitHeadersIter::next (iterator protocol)
  abbreviations   AttributeSpecification::{new, name, form, implicit_const_value, parse}, Attributes::{new, push}, Deref for Attributes,
                  Abbreviation::{new, code, tag, has_children, attributes, parse_tag, parse_has_children, parse_attributes, parse},
                  Abbreviations::{empty, insert, get, parse} against the abstract view `IMap<u64, Abbreviation>` (vstd's `Map` is
                  finite-only in this Verus; `IMap` is the classical map) with the representation invariant of DESIGN C02;
                  `parse` against the table as a function of the bytes (decl_start/decl_code/.., duplicates rejected)
  entries         DebuggingInformationEntry::{new, null, is_null, set_null, depth, offset, tag, has_children, attrs, attr_value, sibling},
                  Attribute::{name, form, raw_value},
                  EntriesRaw::{new, empty, is_empty, seek_forward, next_offset, next_depth, read_entry, read_abbreviation, read_attribute,
                  read_attribute_inline, read_attributes, skip_attributes}   (step relation `die_step`)
  navigation      EntriesCursor::{new, current, offset, depth, next_offset, next_depth, next_entry, next_dfs, next_sibling},
                  EntriesTree::{new, root, next}, EntriesTreeNode::{new, entry, children}, EntriesTreeIter::{new, next}

REWRITES BEYOND THE STANDARD RULES (all logged in the evidence)
  R-OFFSET  the `<R, Offset> where R: Reader<Offset = Offset>, Offset: ReaderOffset` shape is specialised to `Offset = usize`
            (impl/fn header only; a module alias `type Offset = usize` keeps the bodies verbatim).
  R-CTORFN  `.map(DebugAbbrevOffset)` etc.: a tuple-struct constructor used as a function value is eta-expanded to a closure with a
            verified `ensures` (Verus has no function values for constructors).
  R-ORD     `assert!(idx.start <= idx.end)` -> compares the `.0` fields (derived PartialOrd of a one-field tuple struct; derive dropped).
  R-ENTRY   `match self.map.entry(k) { Occupied(_) => Err(()), Vacant(e) => { e.insert(v); Ok(()) } }` ->
            `if self.map.contains_key(&k) { Err(()) } else { self.map.insert(k, v); Ok(()) }`: the documented meaning of the std Entry API.
            The hidden `&mut` inside the Entry types cannot be specified (DESIGN P20); with the rewrite the whole body of
            `Abbreviations::insert` (dense/sparse split, `code_usize - 1`) is verified instead of being R-EXTBODY.  ASSUMPTION A-ENTRY.
  R-IMPL    `impl Deref for Attributes` is verified verbatim as an impl of the local trait `DerefImpl` (same signature plus the
            precondition `inv()`, which a `core::ops::Deref` impl cannot carry); the `Deref` impl that auto-deref needs is an R-STUB
            delegating to it.
  R-ATTR    derive(Debug/PartialEq/Eq/Default) removed from Abbreviation, Abbreviations, EntriesRaw, EntriesCursor, EntriesTree(+Node/Iter)
            (they go through hand-written `Debug`/`PartialEq` impls on `Attributes` that are not extracted).
  Structural  `dw!` newtypes DwChildren/DwTag/DwAt/DwForm get `derive(Structural)` (exec `==` gets its spec meaning; checked by Verus);
            their one-line struct definitions move to the crate root because Verus 0.2026.09.13 crashes on derive(Structural) in a
            nested module.

ASSUMED (TRUSTED; each is outside Verus' subset or owned by another batch)
  core.TRUSTED                       reader layer (see B-core)
  `<[T]>::to_vec` ('<[T')            std: a copy of the slice (used by Attributes::push when spilling to the heap)
  Deref for Attributes::deref        R-STUB: "under inv() the result is the view"; the real body is verified as DerefImpl::deref
  parse_attribute, skip_attributes   batch `attrs` (C03).  Assumed here: `within(old, final)`; parse_attribute returns the spec's name and form
  Attribute::value                   batch `attrs` (600-line normalisation); no contract
  DebuggingInformationEntry::attr    `iter().find(closure)`; no contract (so `sibling` is proved for *any* attribute lookup result)
  vstd's BTreeMap model              `new/is_empty/contains_key/get/insert` on `BTreeMap<u64, V>` with view `Map<u64, V>` (vstd std_specs)
  A-ENTRY                            see R-ENTRY
  LENFITS                            `rv().len <= usize::MAX` (parse_unit_header, header_from_offset) and `<= isize::MAX` (EntriesRaw::new,
                                     UnitHeader::entries*): true of every reader (a Rust allocation has at most isize::MAX bytes) but the
                                     core layer exposes it only through a call of `len()`; stated as preconditions, discharged by callers that
                                     do call `len()` (the unit header iterators).  Suggested core.py change: a trait-level axiom.

NOT DECIDED
  * "errors *only* for unknown version / unit type / address size / short length" (no spurious error): core's contracts of
    read_initial_length / read_address_size / read_word are one-directional (Ok => value), so only `Ok ==> well-formed header` is proved.
  * whole-forest equality of the five traversal styles (DESIGN C02 ND): step contracts only.  next_sibling: same depth, forward only,
    stable at the end of a sibling list; *not* "skips only deeper entries" (needs a reader/entry coherence invariant that the end-of-input
    path of next_entry breaks).  Validity of DW_AT_sibling targets is an input assumption.
  * UnitHeader::{entry, entries_tree, entries_raw} (closure `unwrap_or_else(|| self.root_offset())`), the UnitOffset/DebugInfoOffset
    conversion helpers, AbbreviationsCache, DebugAbbrev::abbreviations, FallibleIterator/Iterator adaptor impls: not extracted.
  * attribute *values* (C03, batch attrs).  Reader positions on EndianSlice (Kani K-ESLICE).

FINDINGS
  F-units-1 (C01)  EntriesRaw::new: documented "`offset` may be any value", computes `offset.0 + input.len()` unchecked -> debug-build
                   panic / release wrap (native/src/bin/f_units_1.rs).  This is the one obligation that fails on the pinned tree.
  observation      EntriesCursor::next_sibling doc: "The depth of the cursor is never changed if this method returns Ok"; on a unit
                   truncated inside a child list it returns Ok(None) with depth() of the last deeper entry (clause stated conditionally).
  observation      UnitHeader::range panics (assert!) for start > end: undocumented; stated as `requires [C02:range-ordered]`.
"""
import re
from lib import *
from batches import core

TRUSTED = list(core.TRUSTED) + ['<[T', 'deref', 'attr', 'parse_attribute', 'skip_attributes', 'value']   # '<[T' is how the ledger scanner names `assume_specification [<[T]>::to_vec]`
VERUS_ARGS = ['--rlimit', '30']

OFFSET_RULE = 'R-OFFSET'


def offset_usize(it):
    """R-OFFSET for the `<R, Offset> ... where R: Reader<Offset = Offset>, Offset: ReaderOffset` shape: the item is
    specialised to Offset = usize (module alias `type Offset = usize;` keeps the body verbatim)."""
    if re.search(r'impl<R, Offset> \w+<R, Offset>', it.text):
        it.custom_re(OFFSET_RULE, r'impl<R, Offset> (\w+)<R, Offset>', r'impl<R> \1<R, usize>')
    else:
        it.custom_re(OFFSET_RULE, r'(fn \w+)<R, Offset>\(', r'\1<R>(')
    it.custom_re(OFFSET_RULE, r'R: Reader<Offset = Offset>,\s*Offset: ReaderOffset,', 'R: Reader<Offset = usize>,')
    return it


def ctorfn(it, ctor, pty, rty):
    """R-CTORFN: a tuple-struct constructor used as a function value (`.map(Ctor)`) is eta-expanded to a closure whose
    (verified) ensures states what the constructor does; Verus has no function values for datatype constructors."""
    it.custom('R-CTORFN', f'.map({ctor})', f'.map(|verif_v: {pty}| -> (verif_r: {rty}) ensures verif_r.0 == verif_v {{ {ctor}(verif_v) }})', count=99)
    return it


def structural(sk, labels):
    """derive(Structural) on mechanically emitted `dw!` newtypes gives exec `==` on them its spec meaning (the derive is
    checked by Verus, it is not an assumption). Verus 0.2026.09.13 crashes on derive(Structural) inside a nested module
    (internal error: thir_body query before erasure), so the one-line struct definitions move to the crate root and are
    re-exported from `crate::constants`; the constants themselves stay where they are."""
    chunks = sk.mods['constants']['chunks']
    for i, (item, label, owners) in enumerate(chunks):
        if isinstance(item, str) and label in labels:
            m = re.match(r'#\[derive\(([^)]*)\)\]\n(pub struct (\w+)\(pub \w+\);)\n', item)
            if not m or m.group(3) != label:
                raise Lost('structural: unexpected shape of dw! type ' + label)
            sk.crate_prelude += f'\n#[derive(Structural, {m.group(1)})]\n{m.group(2)}\n'
            chunks[i] = (f'pub use crate::{label};\n' + item[m.end():], label, owners)
            labels = [l for l in labels if l != label]
    if labels:
        raise Lost('structural: constants not found: ' + ', '.join(labels))


LENFITS = '{}.rv().len <= usize::MAX'
B0 = 'old(input).rv()'
LAY = 'unit_hdr_layout(old(input).rv(), section == SectionId::DebugTypes)'


def populate(ctx, sk):
    common = Source('common.rs', ctx)
    un = Source('read/unit.rs', ctx)
    structural(sk, ['DwChildren', 'DwTag', 'DwAt', 'DwForm'])
    sk.add('common', common.item(r'^pub enum SectionId \{').clean())
    sk.mods['read']['uses'] += '\npub use self::unit::*;'
    sk.module('read::unit', '''use core::ops::{Range, RangeFrom, RangeTo};
use crate::common::{DebugAbbrevOffset, DebugInfoOffset, DebugTypeSignature, DebugTypesOffset, DwoId, Encoding, Format, SectionId, UnitSectionOffset};
use crate::constants;
use crate::read::{Error, Reader, ReaderOffset, Result, UnitOffset};
use crate::read::reader_clone;
use crate::vspec::*;
pub type Offset = usize;''')
    sk.add('read::unit', core.rd('specs/units.rs'), label='units-spec')

    # ---------------------------------------------------------------- unit headers
    sk.add('read::unit', un.item(r'^pub enum UnitType<Offset>').clean(rejrec=['Offset']))
    sk.add('read::unit', un.item(r'^pub struct UnitHeader<R, Offset').clean(rejrec=['R', 'Offset']))
    GHOST_UH = """    pub closed spec fn g_encoding(&self) -> Encoding { self.encoding }
    pub closed spec fn g_unit_length(&self) -> nat { self.unit_length as nat }
    pub closed spec fn g_unit_type(&self) -> UnitType<usize> { self.unit_type }
    pub closed spec fn g_abbrev_offset(&self) -> nat { self.debug_abbrev_offset.0 as nat }
    pub closed spec fn g_section(&self) -> SectionId { self.section }
    pub closed spec fn g_unit_offset(&self) -> nat { self.unit_offset.0 as nat }
    pub closed spec fn g_buf(&self) -> RView { self.entries_buf.rv() }
    /// size of the initial length field of the unit's format
    pub open spec fn g_il(&self) -> nat { match self.g_encoding().format { Format::Dwarf32 => 4, Format::Dwarf64 => 12 } }
    /// header size by the layout formula of DWARF 7.5.1
    pub open spec fn hdr_size(&self) -> nat {
        unit_hdr_size(self.g_encoding().format, self.g_encoding().version,
            self.g_unit_type() is Type || self.g_unit_type() is SplitType,
            self.g_unit_type() is Skeleton || self.g_unit_type() is SplitCompilation)
    }
    /// representation invariant established by the parser: the entries buffer is exactly the unit minus its header,
    /// i.e. what the parser consumed is what the size formula says
    pub open spec fn wf(&self) -> bool {
        self.g_il() + self.g_unit_length() <= usize::MAX && self.hdr_size() + self.g_buf().len == self.g_il() + self.g_unit_length()
    }
    /// `o` addresses a byte of the unit's entries (offsets are relative to the start of the unit, incl. the header)
    pub open spec fn in_bounds(&self, o: nat) -> bool { self.hdr_size() <= o < self.hdr_size() + self.g_buf().len }"""
    uhn = un.item(r'^impl<R, Offset> UnitHeader<R, Offset>', label='UnitHeader(new)')
    offset_usize(uhn).clean()
    uhn.insert_members(GHOST_UH)
    uhn.splice('new', ret='res', ensures=[
        'res.g_encoding() == encoding && res.g_unit_length() == unit_length && res.g_unit_type() == unit_type && res.g_abbrev_offset() == debug_abbrev_offset.0 '
        '&& res.g_section() == section && res.g_unit_offset() == unit_offset.0 && res.g_buf() == entries_buf.rv()'], owners=['C01', 'C02'])
    sk.add('read::unit', uhn)

    uh = un.item(r'^impl<R, Offset> UnitHeader<R, Offset>\s*where\s*R: Reader<Offset = Offset>,\s*Offset: ReaderOffset,\s*\{\s*pub fn section', label='UnitHeader')
    uh.keep_only(['section', 'offset', 'size_of_header', 'unit_length', 'length_including_self', 'encoding', 'version',
                  'type_', 'debug_abbrev_offset', 'address_size', 'format', 'header_size', 'root_offset', 'is_in_bounds',
                  'range', 'range_from', 'range_to'])
    offset_usize(uh)
    uh.custom('R-CLONE', 'self.entries_buf.clone()', 'reader_clone(&self.entries_buf)', count=3)
    # derived PartialOrd on the one-field tuple struct UnitOffset is the order of its field (the derive is dropped by R-ATTR)
    uh.custom('R-ORD', 'assert!(idx.start <= idx.end);', 'assert!(idx.start.0 <= idx.end.0);')
    uh.clean()
    uh.own(['C01', 'C02'])
    ACC = '[C02:hdr-accessor] '
    uh.splice('section', ret='res', ensures=[ACC + 'res == self.g_section()'])
    uh.splice('offset', ret='res', ensures=[ACC + 'res.0 == self.g_unit_offset()'])
    uh.splice('size_of_header', ret='res', ensures=['[C02:size-of-header] res == self.hdr_size()'])
    uh.splice('unit_length', ret='res', ensures=[ACC + 'res == self.g_unit_length()'])
    uh.splice('length_including_self', ret='res', requires=['self.g_il() + self.g_unit_length() <= usize::MAX'],
              ensures=['[C02:length-including-self] res == self.g_il() + self.g_unit_length()'], canary=True)
    uh.splice('encoding', ret='res', ensures=[ACC + 'res == self.g_encoding()'])
    uh.splice('version', ret='res', ensures=[ACC + 'res == self.g_encoding().version'])
    uh.splice('type_', ret='res', ensures=[ACC + 'res == self.g_unit_type()'])
    uh.splice('debug_abbrev_offset', ret='res', ensures=[ACC + 'res.0 == self.g_abbrev_offset()'])
    uh.splice('address_size', ret='res', ensures=[ACC + 'res == self.g_encoding().address_size'])
    uh.splice('format', ret='res', ensures=[ACC + 'res == self.g_encoding().format'])
    WF = '[C02:hdr-wf] self.wf()'
    uh.splice('header_size', ret='res', requires=[WF], ensures=[
        '[C02:header-size] res == self.hdr_size()',
        '[C02:header-size] res + self.g_buf().len == self.g_il() + self.g_unit_length()'], canary=True)
    uh.splice('root_offset', ret='res', requires=[WF], ensures=['[C02:root-offset] res.0 == self.hdr_size()'])
    uh.splice('is_in_bounds', ret='res', requires=[WF], ensures=['[C02:in-bounds] res == self.in_bounds(offset.0 as nat)'], canary=True)
    uh.splice('range', ret='res', requires=[WF, '[C02:range-ordered] idx.start.0 <= idx.end.0'], ensures=[
        '[C02:range][C10:view] res matches Ok(r) ==> window(self.g_buf(), r.rv(), (idx.start.0 - self.hdr_size()) as nat, (idx.end.0 - idx.start.0) as nat)',
        '[C02:range-bounds] res is Err <==> !self.in_bounds(idx.start.0 as nat) || !self.in_bounds(idx.end.0 as nat)',
        '[C02:range-bounds] res matches Err(e) ==> e == (if !self.in_bounds(idx.start.0 as nat) { Error::OffsetOutOfBounds(idx.start.0 as u64) } else { Error::OffsetOutOfBounds(idx.end.0 as u64) })'],
        canary=True)
    uh.splice('range_from', ret='res', requires=[WF], ensures=[
        '[C02:range][C10:view] res matches Ok(r) ==> adv(self.g_buf(), r.rv(), (idx.start.0 - self.hdr_size()) as nat)',
        '[C02:range-bounds] res is Err <==> !self.in_bounds(idx.start.0 as nat)',
        '[C02:range-bounds] res matches Err(e) ==> e == Error::OffsetOutOfBounds(idx.start.0 as u64)'], canary=True)
    uh.splice('range_to', ret='res', requires=[WF], ensures=[
        '[C02:range][C10:view] res matches Ok(r) ==> trunc(self.g_buf(), r.rv(), (idx.end.0 - self.hdr_size()) as nat)',
        '[C02:range-bounds] res is Err <==> !self.in_bounds(idx.end.0 as nat)',
        '[C02:range-bounds] res matches Err(e) ==> e == Error::OffsetOutOfBounds(idx.end.0 as u64)'], canary=True)
    sk.add('read::unit', uh)

    puh = un.item(r'^fn parse_unit_header<R, Offset>\(', label='parse_unit_header')
    offset_usize(puh)
    ctorfn(puh, 'DebugAbbrevOffset', 'usize', 'DebugAbbrevOffset<usize>')
    ctorfn(puh, 'constants::DwUt', 'u8', 'constants::DwUt')
    ctorfn(puh, 'DebugTypeSignature', 'u64', 'DebugTypeSignature')
    ctorfn(puh, 'UnitOffset', 'usize', 'UnitOffset<usize>')
    ctorfn(puh, 'DwoId', 'u64', 'DwoId')
    puh.clean()
    OKH = 'res matches Ok(h) ==> '
    # LENFITS: true of every reader (`len()` returns the length as an Offset = usize); the core layer exposes the fact only
    # through a call of `len()`, so parsers that never call it take it as a precondition and callers discharge it
    puh.splice('parse_unit_header', ret='res', requires=[LENFITS.format('old(input)')], canary=True, ensures=[
        f'[C02:hdr-reject] res is Ok ==> unit_hdr_ok({B0}, section == SectionId::DebugTypes)',
        f'[C02:hdr-length] {OKH} h.g_unit_length() == {LAY}.len && h.g_encoding().format == {LAY}.fmt',
        f'[C02:hdr-version] {OKH} h.g_encoding().version == {LAY}.version',
        f'[C02:hdr-address-size] {OKH} h.g_encoding().address_size == {LAY}.addr_size && valid_address_size(h.g_encoding().address_size)',
        f'[C02:hdr-abbrev-offset] {OKH} h.g_abbrev_offset() == {LAY}.abbrev',
        f'[C02:hdr-unit-type] {OKH} ({{ let l = {LAY}; match h.g_unit_type() {{ '
        'UnitType::Compilation => l.ut == 0x01, '
        'UnitType::Type { type_signature, type_offset } => l.ut == 0x02 && type_signature.0 == l.id && type_offset.0 == l.type_off, '
        'UnitType::Partial => l.ut == 0x03, '
        'UnitType::Skeleton(id) => l.ut == 0x04 && id.0 == l.id, '
        'UnitType::SplitCompilation(id) => l.ut == 0x05 && id.0 == l.id, '
        'UnitType::SplitType { type_signature, type_offset } => l.ut == 0x06 && type_signature.0 == l.id && type_offset.0 == l.type_off } })',
        f'[C02:hdr-entries-buf][C10:view] {OKH} window({B0}, h.g_buf(), {LAY}.total(), ({LAY}.unit_end() - {LAY}.total()) as nat)',
        f'[C02:hdr-consume] {OKH} adv({B0}, final(input).rv(), {LAY}.unit_end())',
        f'[C02:hdr-origin] {OKH} h.g_section() == section && h.g_unit_offset() == unit_offset.0',
        f'[C02:hdr-size-agrees] {OKH} h.wf() && h.hdr_size() == {LAY}.total()',
        f'[C01:frame] within({B0}, final(input).rv())',
        f'[C01:progress] res is Ok ==> final(input).rv().len < {B0}.len',
    ], owners=['C01', 'C02'])
    sk.add('read::unit', puh)

    # ---------------------------------------------------------------- section wrappers and unit header iterators
    for (sec, secfield, itname, secid, ts) in [('DebugInfo', 'debug_info_section', 'DebugInfoUnitHeadersIter', 'SectionId::DebugInfo', 'false'),
                                                ('DebugTypes', 'debug_types_section', 'DebugTypesUnitHeadersIter', 'SectionId::DebugTypes', 'true')]:
        sk.add('read::unit', un.item(rf'^pub struct {sec}<R> \{{').clean())
        sk.add('read::unit', un.item(rf'^pub struct {itname}<R: Reader>').clean(rejrec=['R']))
        di = un.item(rf'^impl<R: Reader> {sec}<R> \{{', label=sec)
        di.custom('R-CLONE', f'self.{secfield}.clone()', f'reader_clone(&self.{secfield})', count=2)
        di.clean()
        di.own(['C01', 'C02'])
        di.insert_members(f'    pub closed spec fn g_sec(&self) -> RView {{ self.{secfield}.rv() }}')
        di.splice('units', ret='res', ensures=['[C02:units-start] res.g_input() == self.g_sec() && res.g_offset() == 0'])
        if sec == 'DebugInfo':
            AT = 'advanced(self.g_sec(), offset.0 as nat)'
            di.splice('header_from_offset', ret='res', requires=[LENFITS.format('self.g_sec()').replace('.rv()', '')], canary=True, ensures=[
                f'[C02:hdr-at-offset] res matches Ok(h) ==> offset.0 <= self.g_sec().len && unit_hdr_ok({AT}, false) && h.g_unit_offset() == offset.0 && h.g_section() == SectionId::DebugInfo '
                f'&& h.wf() && h.g_unit_length() == unit_hdr_layout({AT}, false).len && h.g_encoding().version == unit_hdr_layout({AT}, false).version '
                f'&& window({AT}, h.g_buf(), unit_hdr_layout({AT}, false).total(), (unit_hdr_layout({AT}, false).unit_end() - unit_hdr_layout({AT}, false).total()) as nat)',
                '[C02:hdr-at-offset] offset.0 > self.g_sec().len ==> res is Err'])
        sk.add('read::unit', di)
        ui = un.item(rf'^impl<R: Reader> {itname}<R> \{{', label=itname).clean()
        ui.own(['C01', 'C02'])
        ui.insert_members("""    pub closed spec fn g_input(&self) -> RView { self.input.rv() }
    pub closed spec fn g_offset(&self) -> nat { self.offset.0 as nat }
    /// the section offset never overflows: it is the distance of `input` from the start of the section
    pub open spec fn inv(&self) -> bool { self.g_offset() + self.g_input().len <= usize::MAX }""")
        OI, FI = 'old(self).g_input()', 'final(self).g_input()'
        L = f'unit_hdr_layout({OI}, {ts})'
        ui.splice('next', ret='res', requires=['[C02:units-inv] old(self).inv()'], canary=True, ensures=[
            '[C02:units-inv] final(self).inv()',
            f'[C01:iter-end] {OI}.len == 0 ==> (res matches Ok(None)) && {FI} == {OI} && final(self).g_offset() == old(self).g_offset()',
            f'[C01:iter-end] res matches Ok(None) ==> {OI}.len == 0',
            f'[C01:iter-err-empties] res is Err ==> {FI}.len == 0',
            f'[C01:iter-progress] res matches Ok(Some(_)) ==> {FI}.len < {OI}.len',
            f'[C01:frame] res is Ok ==> within({OI}, {FI})',
            f'[C01:frame] {FI}.root == {OI}.root && {FI}.be == {OI}.be',
            f'[C02:units-header] res matches Ok(Some(h)) ==> unit_hdr_ok({OI}, {ts}) && h.wf() && h.g_section() == {secid} '
            f'&& h.g_unit_length() == {L}.len && h.g_encoding().format == {L}.fmt && h.g_encoding().version == {L}.version '
            f'&& h.g_encoding().address_size == {L}.addr_size && h.g_abbrev_offset() == {L}.abbrev '
            f'&& window({OI}, h.g_buf(), {L}.total(), ({L}.unit_end() - {L}.total()) as nat)',
            f'[C02:units-next-unit] res matches Ok(Some(h)) ==> adv({OI}, {FI}, {L}.unit_end())',
            '[C02:unit-offset] res matches Ok(Some(h)) ==> h.g_unit_offset() == old(self).g_offset()',
            f'[C02:unit-offset] res matches Ok(Some(h)) ==> final(self).g_offset() - {FI}.start == old(self).g_offset() - {OI}.start',
        ])
        sk.add('read::unit', ui)

    populate_abbrev(ctx, sk)
    populate_entries(ctx, sk, un)
    return sk


ABBREV_PRELUDE = """
// std semantics assumed (listed in TRUSTED): a slice's to_vec is a copy of the slice
pub assume_specification<T: Clone>[<[T]>::to_vec](s: &[T]) -> (r: Vec<T>)
    ensures r@ == s@;
"""

# one attribute specification / the list: DWARF 5 section 7.5.3 -- (uleb name, uleb form[, sleb value if DW_FORM_implicit_const]) ... (0, 0)
AS_AT = 'aspec_at(old(input).rv(), 0)'


def populate_abbrev(ctx, sk):
    ab = Source('read/abbrev.rs', ctx)
    sk.mods['read']['uses'] += '\npub use self::abbrev::*;'
    sk.module('read::abbrev', """use std::collections::btree_map;
use std::vec::Vec;
use core::convert::TryFrom;
use crate::common::{DebugAbbrevOffset, Encoding, SectionId};
use crate::constants;
use crate::read::{Error, Reader, ReaderOffset, Result};
use crate::read::reader_clone;
use crate::vspec::*;
use crate::read::unit::{ASpec, aspec_at, aspec_size, aspec_end_marker, aspecs, aspecs_size, lemma_aspecs_shift, decl_size, decl_start, decl_code, decl_tag, decl_children, decl_specs, table_ends, advanced};""")
    sk.add('read::abbrev', ABBREV_PRELUDE, label='abbrev-prelude')
    O, F = 'old(input).rv()', 'final(input).rv()'
    FRAME = f'[C01:frame] within({O}, {F})'
    PROGRESS = f'[C01:progress] res is Ok ==> {F}.len < {O}.len'

    # ---- AttributeSpecification
    sk.add('read::abbrev', ab.item(r'^pub struct AttributeSpecification \{').clean())
    asi = ab.item(r'^impl AttributeSpecification \{', label='AttributeSpecification')
    asi.drop(['size'])
    asi.clean()
    asi.own(['C01', 'C02'])
    asi.insert_members("""    /// the (name, form, implicit const) triple this specification stands for
    pub closed spec fn sp(&self) -> ASpec { ASpec { name: self.name.0 as nat, form: self.form.0 as nat, ic: self.implicit_const_value as int } }""")
    asi.splice('new', ret='res', requires=[
        '[C02:aspec-new-pre] (form == constants::DW_FORM_implicit_const && implicit_const_value is Some) || (form != constants::DW_FORM_implicit_const && implicit_const_value is None)'],
        ensures=['res.sp() == (ASpec { name: name.0 as nat, form: form.0 as nat, ic: (match implicit_const_value { Some(v) => v as int, None => 0 }) })'], canary=True)
    asi.splice('name', ret='res', ensures=['[C02:aspec-accessor] res.0 == self.sp().name'])
    asi.splice('form', ret='res', ensures=['[C02:aspec-accessor] res.0 == self.sp().form'])
    asi.splice('implicit_const_value', ret='res', ensures=['[C02:aspec-accessor] res == (if self.sp().form == 0x21 { Some(self.sp().ic as i64) } else { None::<i64> })'])
    asi.splice('parse', ret='res', ensures=[
        f'[C02:aspec-value] res matches Ok(Some(a)) ==> a.sp() == {AS_AT} && !aspec_end_marker({AS_AT}) && adv({O}, {F}, aspec_size({O}, 0))',
        f'[C02:aspec-end] res matches Ok(None) ==> aspec_end_marker({AS_AT}) && adv({O}, {F}, aspec_size({O}, 0))',
        f'[C02:aspec-zero] res is Ok ==> ({AS_AT}.name == 0 <==> {AS_AT}.form == 0)',
        FRAME, PROGRESS])
    sk.add('read::abbrev', asi)

    # ---- Attributes (small-vector of specifications)
    sk.add('read::abbrev', ab.item(r'^const MAX_ATTRIBUTES_INLINE').clean())
    sk.add('read::abbrev', ab.item(r'^pub\(crate\) enum Attributes \{').clean())
    ati = ab.item(r'^impl Attributes \{', label='Attributes').clean()
    ati.own(['C01', 'C02'])
    ati.insert_members("""    pub closed spec fn view(&self) -> Seq<AttributeSpecification> {
        match self { Attributes::Inline { buf, len } => buf@.take(*len as int), Attributes::Heap(list) => list@ }
    }
    pub open spec fn spv(&self) -> Seq<ASpec> { Seq::new(self.view().len(), |i: int| self.view()[i].sp()) }
    /// representation invariant of the small-vector
    pub closed spec fn inv(&self) -> bool {
        match self { Attributes::Inline { buf, len } => *len <= 5, Attributes::Heap(list) => true }
    }""")
    ati.splice('new', ret='res', ensures=['res.inv() && res.view() == Seq::<AttributeSpecification>::empty()'])
    ati.splice('push', requires=['old(self).inv()'], ensures=['final(self).inv()', '[C02:attrs-push] final(self).view() == old(self).view().push(attr)'])
    sk.add('read::abbrev', ati)
    # `impl Deref for Attributes`: a trait-impl method cannot carry a `requires`, and the slice `&buf[..*len]` is only in bounds under
    # the representation invariant.  R-IMPL (as in B-eslice): the real impl block is verified verbatim as an impl of the local trait
    # `DerefImpl` (same signature + precondition `inv()`); the `core::ops::Deref` impl that auto-deref call sites need is an R-STUB
    # delegating to it, with the assumed contract "under inv() the result is the view".
    sk.add('read::abbrev', """
pub trait DerefImpl {
    type Target: ?Sized;
    spec fn deref_pre(&self) -> bool;
    fn deref(&self) -> &Self::Target requires self.deref_pre();
}
mod deref_stub {
    use vstd::prelude::*;
    use super::{Attributes, AttributeSpecification};
    impl core::ops::Deref for Attributes {
        type Target = [AttributeSpecification];
        #[verifier::external_body]
        fn deref(&self) -> (res: &[AttributeSpecification])
            ensures self.inv() ==> res@ == self.view()
        { <Self as super::DerefImpl>::deref(self) }
    }
}
""", label='DerefImpl')
    atd = ab.item(r'^impl Deref for Attributes \{', label='Deref for Attributes')
    atd.custom('R-IMPL', 'impl Deref for Attributes', 'impl DerefImpl for Attributes')
    atd.clean()
    atd.own(['C01', 'C02'])
    atd.insert_members('    open spec fn deref_pre(&self) -> bool { self.inv() }')
    atd.splice('deref', ret='res', ensures=['[C02:attrs-deref] res@ == self.view()'])
    sk.add('read::abbrev', atd)

    # ---- Abbreviation
    # Debug/PartialEq/Eq of Abbreviation(s) go through hand-written impls on Attributes (fmt, slice ==) that are not extracted
    sk.add('read::abbrev', ab.item(r'^pub struct Abbreviation \{').custom('R-ATTR', '#[derive(Debug, Clone, PartialEq, Eq)]', '#[derive(Clone)]').clean())
    abi = ab.item(r'^impl Abbreviation \{', label='Abbreviation').clean()
    abi.own(['C01', 'C02'])
    abi.insert_members("""    pub closed spec fn g_code(&self) -> u64 { self.code }
    pub closed spec fn g_tag(&self) -> u16 { self.tag.0 }
    pub closed spec fn g_children(&self) -> u8 { self.has_children.0 }
    pub closed spec fn g_attrs(&self) -> Seq<AttributeSpecification> { self.attributes.view() }
    pub closed spec fn g_specs(&self) -> Seq<ASpec> { self.attributes.spv() }
    /// the attribute list satisfies its representation invariant
    pub closed spec fn wf(&self) -> bool { self.attributes.inv() }""")
    abi.splice('new', ret='res', requires=['[C02:abbrev-code-nonzero] code != 0', 'attributes.inv()'], canary=True, ensures=[
        'res.wf() && res.g_code() == code && res.g_tag() == tag.0 && res.g_children() == has_children.0 && res.g_attrs() == attributes.view() && res.g_specs() == attributes.spv()'])
    abi.splice('code', ret='res', ensures=['[C02:abbrev-accessor] res == self.g_code()'])
    abi.splice('tag', ret='res', ensures=['[C02:abbrev-accessor] res.0 == self.g_tag()'])
    abi.splice('has_children', ret='res', ensures=['[C02:abbrev-has-children] res == (self.g_children() == 0x01)'])
    abi.splice('attributes', ret='res', requires=['self.wf()'], ensures=['[C02:abbrev-accessor] res@ == self.g_attrs()'])
    abi.splice('parse_tag', ret='res', ensures=[
        f'[C02:abbrev-tag] res matches Ok(t) ==> t.0 == {O}.uleb(0) && t.0 != 0 && adv({O}, {F}, {O}.leb_len(0))', FRAME, PROGRESS])
    abi.splice('parse_has_children', ret='res', ensures=[
        f'[C02:abbrev-children] res matches Ok(c) ==> c.0 == {O}.at(0) && adv({O}, {F}, 1)',
        f'[C02:abbrev-children] res is Err <==> {O}.len < 1 || {O}.at(0) > 1', FRAME, PROGRESS])
    abi.splice('parse_attributes', ret='res', ensures=[
        f'[C02:abbrev-attrs] res matches Ok(a) ==> a.inv() && a.spv() == aspecs({O}, 0) && adv({O}, {F}, aspecs_size({O}, 0))', FRAME, PROGRESS],
        loops={0: f'invariant_except_break attrs.inv(), within({O}, input.rv()), aspecs({O}, 0) == attrs.spv() + aspecs({O}, input.rv().start - {O}.start), '
                  f'aspecs_size({O}, 0) == (input.rv().start - {O}.start) + aspecs_size({O}, input.rv().start - {O}.start),\n'
                  f' ensures attrs.inv(), attrs.spv() == aspecs({O}, 0), adv({O}, input.rv(), aspecs_size({O}, 0)),\n decreases input.rv().len'})
    P1 = f'{O}.leb_len(0) as int'
    P2 = f'({O}.leb_len(0) + {O}.leb_len({O}.leb_len(0) as int)) as int'
    abi.splice('parse', ret='res', ensures=[
        f'[C02:abbrev-end] {O}.len == 0 ==> (res matches Ok(None)) && {F} == {O}',
        f'[C02:abbrev-end] res matches Ok(None) ==> {O}.len == 0 || ({O}.uleb(0) == 0 && adv({O}, {F}, {O}.leb_len(0)))',
        f'[C02:abbrev-decl] res matches Ok(Some(a)) ==> a.wf() && a.g_code() == {O}.uleb(0) && a.g_code() != 0 && a.g_tag() == {O}.uleb({P1}) && a.g_tag() != 0 '
        f'&& a.g_children() == {O}.at({P2}) && a.g_children() <= 1 && a.g_specs() == aspecs({O}, {P2} + 1) && adv({O}, {F}, ({P2} + 1 + aspecs_size({O}, {P2} + 1)) as nat)',
        FRAME, f'[C01:progress] res matches Ok(Some(_)) ==> {F}.len < {O}.len'],
        before=[('let attributes = Self::parse_attributes(input)?;', 'let ghost verif_w = input.rv();'),
                ('let abbrev = Abbreviation::new(', f'proof {{ lemma_aspecs_shift({O}, verif_w, 0); }}')])
    sk.add('read::abbrev', abi)

    # ---- Abbreviations
    sk.add('read::abbrev', ab.item(r'^pub struct Abbreviations \{').custom('R-ATTR', '#[derive(Debug, Default, Clone)]', '#[derive(Clone)]').clean())
    abs_ = ab.item(r'^impl Abbreviations \{', label='Abbreviations')
    # R-ENTRY: `match map.entry(k) { Occupied(_) => A, Vacant(e) => { e.insert(v); B } }` is, by the documented semantics of
    # the std Entry API, `if map.contains_key(&k) { A } else { map.insert(k, v); B }`.  The Entry types hold a hidden `&mut` to the
    # map whose effect cannot be specified in Verus (DESIGN P20); with this logged rewrite the whole body of `insert` stays verified.
    abs_.custom_re('R-ENTRY',
                   r'match self\.map\.entry\(abbrev\.code\) \{\s*btree_map::Entry::Occupied\(_\) => Err\(\(\)\),\s*btree_map::Entry::Vacant\(entry\) => \{\s*entry\.insert\(abbrev\);\s*Ok\(\(\)\)\s*\}\s*\}',
                   'if self.map.contains_key(&abbrev.code) { Err(()) } else { self.map.insert(abbrev.code, abbrev); Ok(()) }')
    abs_.clean()
    abs_.own(['C01', 'C02'])
    abs_.insert_members("""    /// abstract view: code -> declaration
    pub closed spec fn view(&self) -> IMap<u64, Abbreviation> {
        IMap::new(|c: u64| (1 <= c <= self.vec@.len()) || self.map@.contains_key(c),
                 |c: u64| if 1 <= c <= self.vec@.len() { self.vec@[c - 1] } else { self.map@[c] })
    }
    /// representation invariant (DESIGN C02): dense vector for codes 1..=len, map for the rest, every declaration stored under its own code
    pub closed spec fn inv(&self) -> bool {
        &&& forall|i: int| 0 <= i < self.vec@.len() ==> (#[trigger] self.vec@[i]).g_code() == i + 1 && self.vec@[i].wf() && self.vec@[i].g_tag() != 0
        &&& forall|k: u64| #[trigger] self.map@.contains_key(k) ==> k > self.vec@.len() && self.map@[k].g_code() == k && self.map@[k].wf() && self.map@[k].g_tag() != 0
    }""")
    abs_.splice('empty', ret='res', ensures=['[C02:abbrevs-empty] res.inv() && res.view() =~= IMap::<u64, Abbreviation>::empty()'])
    abs_.splice('insert', ret='res', requires=['[C02:abbrevs-inv] old(self).inv()', '[C02:abbrev-code-nonzero] abbrev.g_code() != 0', 'abbrev.wf()', '[C02:abbrev-tag-nonzero] abbrev.g_tag() != 0'], canary=True, ensures=[
        '[C02:abbrevs-inv] final(self).inv()',
        '[C02:abbrevs-insert-dup] res is Err <==> old(self).view().contains_key(abbrev.g_code())',
        '[C02:abbrevs-insert] res is Ok ==> final(self).view() =~= old(self).view().insert(abbrev.g_code(), abbrev)',
        '[C02:abbrevs-insert-dup] res is Err ==> final(self).view() =~= old(self).view()'])
    abs_.splice('get', ret='res', requires=['[C02:abbrevs-inv] self.inv()'], canary=True, ensures=[
        '[C02:abbrevs-get] res matches Some(a) ==> self.view().contains_key(code) && *a == self.view()[code] && a.g_code() == code && a.wf() && a.g_tag() != 0',
        '[C02:abbrevs-get] res is None ==> !self.view().contains_key(code)',
        '[C02:abbrevs-get] self.view().contains_key(0) == false'])
    # the table as a function of the bytes: the i-th declaration is stored under its code, nothing else is stored, codes are distinct
    HOLDS = ('(forall|i: nat| #![trigger decl_code({v}, i)] i < {n} ==> decl_code({v}, i) != 0 && {a}.view().contains_key(decl_code({v}, i) as u64) '
             '&& {a}.view()[decl_code({v}, i) as u64].g_code() == decl_code({v}, i) && {a}.view()[decl_code({v}, i) as u64].g_tag() == decl_tag({v}, i) '
             '&& {a}.view()[decl_code({v}, i) as u64].g_children() == decl_children({v}, i) && {a}.view()[decl_code({v}, i) as u64].g_specs() == decl_specs({v}, i))')
    ONLY = '(forall|c: u64| #![trigger {a}.view().contains_key(c)] {a}.view().contains_key(c) ==> exists|i: nat| #![trigger decl_code({v}, i)] i < {n} && decl_code({v}, i) == c)'
    DISTINCT = '(forall|i: nat, j: nat| #![trigger decl_code({v}, i), decl_code({v}, j)] i < j < {n} ==> decl_code({v}, i) != decl_code({v}, j))'
    abs_.splice('parse', ret='res', ensures=[
        '[C02:abbrevs-inv] res matches Ok(a) ==> a.inv()',
        f'[C02:abbrevs-table] res matches Ok(a) ==> exists|n: nat| #![trigger table_ends({O}, n)] table_ends({O}, n) && {HOLDS.format(v=O, n="n", a="a")} && {ONLY.format(v=O, n="n", a="a")}',
        f'[C02:abbrevs-dup-rejected] res matches Ok(a) ==> exists|n: nat| #![trigger table_ends({O}, n)] table_ends({O}, n) && {DISTINCT.format(v=O, n="n")}',
        FRAME],
        before=[('while let', 'let ghost mut verif_n: nat = 0;'),
                ('let code = abbrev.code;', f'proof {{ let w0 = advanced({O}, decl_start({O}, verif_n) as nat); let p1 = w0.leb_len(0) as int; let p2 = p1 + w0.leb_len(p1); lemma_aspecs_shift({O}, w0, p2 + 1); }}'),
                ],
        after=[('return Err(Error::DuplicateAbbreviationCode(code));\n            }', 'proof { verif_n = verif_n + 1; }')],
        loops={0: f'invariant_except_break abbrevs.inv(), within({O}, input.rv()), input.rv().start - {O}.start == decl_start({O}, verif_n), '
                  f'{HOLDS.format(v=O, n="verif_n", a="abbrevs")}, {ONLY.format(v=O, n="verif_n", a="abbrevs")}, {DISTINCT.format(v=O, n="verif_n")},\n'
                  f' ensures abbrevs.inv(), within({O}, input.rv()), table_ends({O}, verif_n), {HOLDS.format(v=O, n="verif_n", a="abbrevs")}, {ONLY.format(v=O, n="verif_n", a="abbrevs")}, {DISTINCT.format(v=O, n="verif_n")},\n'
                  ' decreases input.rv().len'})
    sk.add('read::abbrev', abs_)
    return sk


DBOUND = 'isize::MIN + {0}.g_input().len <= {0}.g_depth() && {0}.g_depth() + {0}.g_input().len <= isize::MAX'


def populate_entries(ctx, sk, un):
    op = Source('read/op.rs', ctx)
    sk.mods['read::unit']['uses'] += """
use std::vec::Vec;
use crate::common::{DebugAddrBase, DebugAddrIndex, DebugLineOffset, DebugLineStrOffset, DebugLocListsBase, DebugLocListsIndex, DebugMacinfoOffset,
    DebugMacroOffset, DebugRngListsBase, DebugRngListsIndex, DebugStrOffset, DebugStrOffsetsBase, DebugStrOffsetsIndex, LocationListsOffset, RawRangeListsOffset};
use crate::read::{Abbreviation, Abbreviations, AttributeSpecification};"""
    sk.add('read::unit', op.item(r'^pub struct Expression<R: Reader>\(').clean(offset=False, rejrec=['R']))
    sk.add('read::unit', un.item(r'^pub enum AttributeValue<R, Offset').clean(rejrec=['R', 'Offset']))
    sk.add('read::unit', un.item(r'^pub struct Attribute<R: Reader> \{').clean(offset=False, rejrec=['R']))
    ai = un.item(r'^impl<R: Reader> Attribute<R> \{', label='Attribute')
    ai.keep_only(['name', 'form', 'raw_value', 'value'])
    ai.extbody(['value'])       # the 600-line normalisation belongs to batch `attrs` (C03); only its existence is needed here
    ai.clean()
    ai.own(['C01', 'C02'])
    ai.insert_members("""    pub closed spec fn g_name(&self) -> u16 { self.name.0 }
    pub closed spec fn g_form(&self) -> u16 { self.form.0 }""")
    ai.splice('name', ret='res', ensures=['res.0 == self.g_name()'])
    ai.splice('form', ret='res', ensures=['res.0 == self.g_form()'])
    sk.add('read::unit', ai)
    # parse_attribute / skip_attributes belong to batch `attrs` (C03): contract-only stubs, frame + the name/form copy
    pa = un.item(r'^pub\(crate\) fn parse_attribute<R: Reader>\(', label='parse_attribute')
    pa.extbody(['parse_attribute'])
    pa.clean()
    pa.splice('parse_attribute', ret='res', ensures=[
        'within(old(input).rv(), final(input).rv())',
        'res matches Ok(a) ==> a.g_name() == spec.sp().name && a.g_form() == spec.sp().form'])
    sk.add('read::unit', pa)
    sa = un.item(r'^pub\(crate\) fn skip_attributes<R: Reader>\(', label='skip_attributes')
    sa.extbody(['skip_attributes'])
    sa.clean()
    sa.splice('skip_attributes', ret='res', ensures=['within(old(input).rv(), final(input).rv())'])
    sk.add('read::unit', sa)

    # ---------------------------------------------------------------- DebuggingInformationEntry
    sk.add('read::unit', un.item(r'^pub struct DebuggingInformationEntry<R, Offset').clean(rejrec=['R', 'Offset']))
    de = un.item(r'^impl<R, Offset> DebuggingInformationEntry<R, Offset>', label='DebuggingInformationEntry')
    de.keep_only(['new', 'null', 'is_null', 'set_null', 'depth', 'offset', 'tag', 'has_children', 'attrs', 'attr', 'attr_value', 'sibling'])
    de.extbody(['attr'])        # `self.attrs.iter().find(|attr| ..)`: iterator adapter
    offset_usize(de)
    de.clean()
    de.own(['C01', 'C02'])
    de.splice('new', ret='res', ensures=['res.tag == tag && res.has_children == has_children && res.attrs == attrs && res.offset == offset && res.depth == 0'])
    de.splice('null', ret='res', ensures=['[C20:null-entry] res.tag.0 == 0 && !res.has_children && res.attrs@.len() == 0 && res.offset.0 == 0 && res.depth == 0'])
    de.splice('is_null', ret='res', ensures=['[C02:die-accessor] res == (self.tag.0 == 0)'])
    de.splice('set_null', ensures=[
        '[C20:null-reset] final(self).tag.0 == 0 && !final(self).has_children && final(self).attrs@.len() == 0',
        '[C20:null-reset] final(self).offset == old(self).offset && final(self).depth == old(self).depth'])
    de.splice('depth', ret='res', ensures=['[C02:die-accessor] res == self.depth'])
    de.splice('offset', ret='res', ensures=['[C02:die-accessor] res == self.offset'])
    de.splice('tag', ret='res', ensures=['[C02:die-accessor] res == self.tag'])
    de.splice('has_children', ret='res', ensures=['[C02:die-accessor] res == self.has_children'])
    de.splice('attrs', ret='res', ensures=['[C02:die-accessor] res@ == self.attrs@'])
    de.own(['C01', 'C02', 'C20'], fn='set_null')
    de.splice('sibling', ret='res', ensures=['[C02:sibling-forward] res matches Some(o) ==> o.0 > self.offset.0'])
    sk.add('read::unit', de)

    # ---------------------------------------------------------------- EntriesRaw
    # derive(Debug) would need Debug for Abbreviations (hand-written impls on Attributes, not extracted)
    sk.add('read::unit', un.item(r'^pub struct EntriesRaw<\'abbrev, R>').custom('R-ATTR', '#[derive(Clone, Debug)]', '#[derive(Clone)]').clean(rejrec=['R']))
    er = un.item(r"^impl<'abbrev, R: Reader> EntriesRaw<'abbrev, R> \{", label='EntriesRaw')
    er.custom('R-CLONE', 'self.input.clone()', 'reader_clone(&self.input)')
    er.clean()
    er.own(['C01', 'C02'])
    er.insert_members("""    pub closed spec fn g_input(&self) -> RView { self.input.rv() }
    pub closed spec fn g_encoding(&self) -> Encoding { self.encoding }
    pub closed spec fn g_abbrevs(&self) -> Abbreviations { *self.abbreviations }
    pub closed spec fn g_end(&self) -> nat { self.end_offset.0 as nat }
    pub closed spec fn g_depth(&self) -> int { self.depth as int }
    /// unit offset of the next byte to be read: end_offset - input.len
    pub open spec fn pos(&self) -> int { self.g_end() - self.g_input().len }
    /// invariant: the offset bookkeeping cannot underflow, the abbreviation table satisfies its representation invariant and the depth
    /// counter (which changes by at most one per byte read) cannot leave the isize range
    pub open spec fn inv(&self) -> bool {
        &&& self.g_input().len <= self.g_end()
        &&& self.g_abbrevs().inv()
        &&& isize::MIN + self.g_input().len <= self.g_depth() && self.g_depth() + self.g_input().len <= isize::MAX
    }
    /// one `read_entry` step as a relation: from read position `iv` (a view whose end is unit offset `end`) at depth `d`, with table `ab`,
    /// the entry `e` is read (`nonnull` = its code is not 0), leaving read position `fv` and depth `fd`   (DWARF 5 section 7.5.2:
    /// an entry is an abbreviation code + the attribute values its declaration lists; code 0 is a null entry ending a sibling chain)
    pub open spec fn die_step(iv: RView, d: int, end: nat, ab: Abbreviations, fv: RView, fd: int, e: DebuggingInformationEntry<R>, nonnull: bool) -> bool {
        let code = iv.uleb(0);
        &&& within(iv, fv) && fv.len < iv.len
        &&& e.offset.0 == end - iv.len && e.depth == d
        &&& nonnull == (code != 0)
        &&& !nonnull ==> e.tag.0 == 0 && !e.has_children && e.attrs@.len() == 0 && fd == d - 1 && adv(iv, fv, iv.leb_len(0))
        &&& nonnull ==> ab.view().contains_key(code as u64) && ({ let a = ab.view()[code as u64];
                e.tag.0 == a.g_tag() && e.tag.0 != 0 && e.has_children == (a.g_children() == 0x01) && e.attrs@.len() == a.g_attrs().len()
                && fd == d + (if e.has_children { 1int } else { 0int }) })
    }
    /// everything except input and depth
    pub open spec fn same_unit(&self, o: &Self) -> bool {
        self.g_end() == o.g_end() && self.g_abbrevs() == o.g_abbrevs() && self.g_encoding() == o.g_encoding()
    }""")
    OS, FS = 'old(self)', 'final(self)'
    OI, FI = 'old(self).g_input()', 'final(self).g_input()'
    CODE = f'{OI}.uleb(0)'
    # NOTE (finding F-units-1): the doc comment of this public constructor says "`offset` may be any value", so there is no
    # precondition relating `offset` to `input.len()`; the overflow obligation of `offset.0 + input.len()` therefore FAILS on the
    # pinned tree (native reproducer native/src/bin/f_units_1.rs).  The two preconditions below are the table's representation
    # invariant and LENFITS-ISIZE (a reader never holds more than isize::MAX bytes: the depth counter changes by one per byte).
    er.splice('new', ret='res', requires=['abbreviations.inv()', 'input.rv().len <= isize::MAX'], ensures=[
        '[C02:raw-new] res.inv() && res.g_input() == input.rv() && res.g_encoding() == encoding && res.g_abbrevs() == *abbreviations && res.g_depth() == 0 && res.pos() == offset.0'])
    er.splice('empty', ensures=[f'{FI}.len == 0 && {FI}.root == {OI}.root && {FI}.be == {OI}.be && {FS}.same_unit({OS}) && {FS}.g_depth() == {OS}.g_depth()'])
    er.splice('is_empty', ret='res', ensures=['[C02:raw-is-empty] res == (self.g_input().len == 0)'])
    er.splice('seek_forward', ret='res', requires=[f'{OS}.g_input().len <= {OS}.g_end()'], canary=True, ensures=[
        f'[C02:seek-forward] res ==> offset.0 >= {OS}.pos() && adv({OI}, {FI}, (offset.0 - {OS}.pos()) as nat) && {FS}.g_depth() == depth && {FS}.pos() == offset.0',
        f'[C02:seek-untouched] !res ==> {FI} == {OI} && {FS}.g_depth() == {OS}.g_depth()',
        f'[C02:seek-inside-unit] res <==> {OS}.pos() <= offset.0 <= {OS}.g_end()',
        f'[C02:seek-untouched] {FS}.same_unit({OS})'])
    er.splice('next_offset', ret='res', requires=['self.g_input().len <= self.g_end()'], ensures=['[C02:next-offset] res.0 == self.pos()'], canary=True)
    er.splice('next_depth', ret='res', ensures=['[C02:next-depth] res == self.g_depth()'])
    er.splice('read_abbreviation', ret='res', requires=[f'[C02:raw-inv] {OS}.inv()'], canary=True, ensures=[
        f'[C02:raw-inv] {FS}.inv() && {FS}.same_unit({OS})',
        f'[C02:depth-null] res matches Ok(None) ==> {CODE} == 0 && {FS}.g_depth() == {OS}.g_depth() - 1 && adv({OI}, {FI}, {OI}.leb_len(0))',
        f'[C02:abbrev-for-code] res matches Ok(Some(a)) ==> {CODE} != 0 && {OS}.g_abbrevs().view().contains_key({CODE} as u64) && *a == {OS}.g_abbrevs().view()[{CODE} as u64] && a.g_code() == {CODE} && a.wf() && a.g_tag() != 0 && adv({OI}, {FI}, {OI}.leb_len(0))',
        f'[C02:depth-children] res matches Ok(Some(a)) ==> {FS}.g_depth() == {OS}.g_depth() + (if a.g_children() == 0x01 {{ 1int }} else {{ 0int }})',
        f'[C02:depth-err] res is Err ==> {FS}.g_depth() == {OS}.g_depth()',
        f'[C01:frame] within({OI}, {FI})',
        f'[C01:progress] res is Ok ==> {FI}.len < {OI}.len'])
    FR = f'[C01:frame] within({OI}, {FI}) && {FS}.same_unit({OS}) && {FS}.g_depth() == {OS}.g_depth()'
    er.splice('read_attribute', ret='res', ensures=[FR, 'res matches Ok(a) ==> a.g_name() == spec.sp().name && a.g_form() == spec.sp().form'])
    er.splice('read_attribute_inline', ret='res', ensures=[FR, 'res matches Ok(a) ==> a.g_name() == spec.sp().name && a.g_form() == spec.sp().form'])
    er.splice('read_attributes', ret='res', ensures=[
        FR,
        '[C20:attrs-cleared][C02:entry-attrs] res is Ok ==> final(attrs)@.len() == specs@.len() && forall|i: int| 0 <= i < specs@.len() ==> '
        '(#[trigger] final(attrs)@[i]).g_name() == specs@[i].sp().name && final(attrs)@[i].g_form() == specs@[i].sp().form'],
        loops={0: f'invariant within({OI}, self.g_input()), self.same_unit({OS}), self.g_depth() == {OS}.g_depth(), attrs@.len() == verif_it.index@, '
                  'forall|i: int| 0 <= i < verif_it.index@ ==> (#[trigger] attrs@[i]).g_name() == specs@[i].sp().name && attrs@[i].g_form() == specs@[i].sp().form'})
    er.insert_after('for spec in ', 'verif_it: ')   # names the ghost iterator of the verbatim `for spec in specs` (insertion only)
    er.splice('skip_attributes', ret='res', ensures=[FR])
    ABV = f'{OS}.g_abbrevs().view()[{CODE} as u64]'
    er.splice('read_entry', ret='res', requires=[f'[C02:raw-inv] {OS}.inv()'], canary=True, ensures=[
        f'[C02:raw-inv] {FS}.inv() && {FS}.same_unit({OS})',
        f'[C02:entry-position] res is Ok ==> final(entry).offset.0 == {OS}.pos() && final(entry).depth == {OS}.g_depth()',
        f'[C02:entry-null][C20:entry-reuse] res matches Ok(false) ==> {CODE} == 0 && final(entry).tag.0 == 0 && !final(entry).has_children && final(entry).attrs@.len() == 0 '
        f'&& {FS}.g_depth() == {OS}.g_depth() - 1 && adv({OI}, {FI}, {OI}.leb_len(0))',
        f'[C02:entry-from-abbrev][C20:entry-reuse] res matches Ok(true) ==> {CODE} != 0 && {OS}.g_abbrevs().view().contains_key({CODE} as u64) '
        f'&& final(entry).tag.0 == {ABV}.g_tag() && final(entry).has_children == ({ABV}.g_children() == 0x01) '
        f'&& final(entry).attrs@.len() == {ABV}.g_attrs().len() '
        f'&& (forall|i: int| 0 <= i < {ABV}.g_attrs().len() ==> (#[trigger] final(entry).attrs@[i]).g_name() == {ABV}.g_attrs()[i].sp().name && final(entry).attrs@[i].g_form() == {ABV}.g_attrs()[i].sp().form)',
        f'[C02:depth-children] res matches Ok(true) ==> {FS}.g_depth() == {OS}.g_depth() + (if final(entry).has_children {{ 1int }} else {{ 0int }})',
        f'[C02:entry-step] res matches Ok(b) ==> Self::die_step({OI}, {OS}.g_depth(), {OS}.g_end(), {OS}.g_abbrevs(), {FI}, {FS}.g_depth(), *final(entry), b)',
        f'[C01:frame] within({OI}, {FI})',
        f'[C01:progress] res is Ok ==> {FI}.len < {OI}.len'])
    for fn in ['read_attributes', 'read_entry']:
        er.own(['C01', 'C02', 'C20'], fn=fn)
    sk.add('read::unit', er)
    populate_cursor(ctx, sk, un)
    return sk


def populate_cursor(ctx, sk, un):
    # ---------------------------------------------------------------- EntriesCursor
    sk.add('read::unit', un.item(r"^pub struct EntriesCursor<'abbrev, R>").custom('R-ATTR', '#[derive(Clone, Debug)]', '#[derive(Clone)]').clean(rejrec=['R']))
    ec = un.item(r"^impl<'abbrev, R: Reader> EntriesCursor<'abbrev, R> \{", label='EntriesCursor')
    ec.clean()
    ec.own(['C01', 'C02'])
    ec.insert_members("""    pub closed spec fn g_raw(&self) -> EntriesRaw<'abbrev, R> { self.input }
    pub closed spec fn g_cur(&self) -> DebuggingInformationEntry<R> { self.cached_current }
    /// invariant: the raw reader's invariant, and the cached entry's depth (which `next_sibling` hands back to `seek_forward`) obeys the same
    /// bound as the raw reader's depth counter
    pub open spec fn inv(&self) -> bool {
        &&& self.g_raw().inv()
        &&& isize::MIN + self.g_raw().g_input().len <= self.g_cur().depth && self.g_cur().depth + self.g_raw().g_input().len <= isize::MAX
    }
    pub open spec fn cur_is_null(&self) -> bool { self.g_cur().tag.0 == 0 }""")
    OS, FS = 'old(self)', 'final(self)'
    OR, FR = 'old(self).g_raw()', 'final(self).g_raw()'
    OI, FI = 'old(self).g_raw().g_input()', 'final(self).g_raw().g_input()'
    INV = [f'[C02:cursor-inv] {OS}.inv()']
    KEEP = f'[C02:cursor-inv] {FS}.inv() && {FR}.same_unit(&{OR})'
    STEP = f"EntriesRaw::<'abbrev, R>::die_step"
    ec.splice('new', ret='res', requires=['abbreviations.inv()', 'input.rv().len <= isize::MAX', 'offset.0 + input.rv().len <= usize::MAX'], ensures=[
        '[C02:cursor-new] res.inv() && res.cur_is_null() && res.g_raw().g_input() == input.rv() && res.g_raw().g_encoding() == encoding && res.g_raw().g_abbrevs() == *abbreviations '
        '&& res.g_raw().g_depth() == 0 && res.g_raw().pos() == offset.0'])
    ec.splice('current', ret='res', ensures=['[C02:cursor-current] match res { Some(e) => !self.cur_is_null() && *e == self.g_cur(), None => self.cur_is_null() }'])
    ec.splice('offset', ret='res', ensures=['[C02:cursor-accessor] res == self.g_cur().offset'])
    ec.splice('depth', ret='res', ensures=['[C02:cursor-accessor] res == self.g_cur().depth'])
    ec.splice('next_offset', ret='res', requires=['self.g_raw().g_input().len <= self.g_raw().g_end()'], ensures=['[C02:next-offset] res.0 == self.g_raw().pos()'])
    ec.splice('next_depth', ret='res', ensures=['[C02:next-depth] res == self.g_raw().g_depth()'])
    ec.splice('next_entry', ret='res', requires=INV, canary=True, ensures=[
        KEEP,
        f'[C01:iter-end] {OI}.len == 0 ==> (res matches Ok(false)) && {FS}.cur_is_null() && {FI} == {OI} && {FR}.g_depth() == {OR}.g_depth()',
        f'[C01:iter-end] res matches Ok(false) ==> {OI}.len == 0',
        f'[C01:iter-err-empties] res is Err ==> {FI}.len == 0 && {FS}.cur_is_null()',
        f'[C01:iter-progress] res matches Ok(true) ==> {FI}.len < {OI}.len',
        f'[C02:cursor-step] res matches Ok(true) ==> {STEP}({OI}, {OR}.g_depth(), {OR}.g_end(), {OR}.g_abbrevs(), {FI}, {FR}.g_depth(), {FS}.g_cur(), !{FS}.cur_is_null())',
        f'[C20:null-reset] res matches Ok(false) ==> {FS}.g_cur().attrs@.len() == 0 && !{FS}.g_cur().has_children',
        f'[C01:frame] res is Ok ==> within({OI}, {FI})'])
    ec.splice('next_dfs', ret='res', requires=INV, canary=True, ensures=[
        KEEP,
        f'[C02:dfs-step] res matches Ok(Some(e)) ==> *e == {FS}.g_cur() && !{FS}.cur_is_null() && {FI}.len < {OI}.len && exists|k: nat| #![trigger null_run_ok({OI}, k)] '
        f'null_run_ok({OI}, k) && e.depth == {OR}.g_depth() - k && e.offset.0 == {OR}.pos() + null_run_end({OI}, k) '
        f'&& {STEP}(advanced({OI}, null_run_end({OI}, k) as nat), {OR}.g_depth() - k, {OR}.g_end(), {OR}.g_abbrevs(), {FI}, {FR}.g_depth(), *e, true)',
        f'[C02:dfs-end] res matches Ok(None) ==> {FI}.len == 0 && {FS}.cur_is_null() && exists|k: nat| #![trigger null_run_ok({OI}, k)] null_run_ok({OI}, k) && null_run_end({OI}, k) == {OI}.len',
        f'[C01:iter-err-empties] res is Err ==> {FI}.len == 0 && {FS}.cur_is_null()',
        f'[C01:frame] res is Ok ==> within({OI}, {FI})'],
        before=[('loop', 'let ghost mut verif_k: nat = 0;'), ('} else {', 'proof { verif_k = verif_k + 1; }')],
        loops={0: f'invariant self.inv(), self.g_raw().same_unit(&{OR}), within({OI}, self.g_raw().g_input()), null_run_ok({OI}, verif_k), '
                  f'self.g_raw().g_input().start - {OI}.start == null_run_end({OI}, verif_k), self.g_raw().g_depth() == {OR}.g_depth() - verif_k,\n decreases self.g_raw().g_input().len'})
    ec.splice('next_sibling', ret='res', requires=INV, canary=True, ensures=[
        KEEP,
        f'[C02:sibling-same-depth] res matches Ok(Some(e)) ==> *e == {FS}.g_cur() && !{FS}.cur_is_null() && e.depth == {OS}.g_cur().depth',
        f'[C02:sibling-forward] res matches Ok(Some(e)) ==> e.offset.0 >= {OR}.pos() && {FI}.len < {OI}.len',
        f'[C02:sibling-at-end] {OS}.cur_is_null() ==> (res matches Ok(None)) && {FS}.g_cur() == {OS}.g_cur() && {FI} == {OI} && {FR}.g_depth() == {OR}.g_depth()',
        f'[C02:sibling-none] res matches Ok(None) && !{OS}.cur_is_null() ==> {FS}.cur_is_null() && ({FI}.len == 0 || {FS}.g_cur().depth == {OS}.g_cur().depth)',
        f'[C01:iter-err-empties] res is Err ==> {FI}.len == 0 && {FS}.cur_is_null()',
        f'[C01:frame] res is Ok ==> within({OI}, {FI})'],
        loops={0: f'invariant self.inv(), self.g_raw().same_unit(&{OR}), within({OI}, self.g_raw().g_input()), !{OS}.cur_is_null(), current_depth == {OS}.g_cur().depth,\n decreases self.g_raw().g_input().len'})
    sk.add('read::unit', ec)
    populate_tree(ctx, sk, un)

    # ---------------------------------------------------------------- UnitHeader -> cursor (start of unit / positioned read)
    uc = un.item(r'^impl<R, Offset> UnitHeader<R, Offset>\s*where\s*R: Reader<Offset = Offset>,\s*Offset: ReaderOffset,\s*\{\s*pub fn section', label='UnitHeader(entries)')
    uc.keep_only(['entries', 'entries_at_offset'])
    offset_usize(uc)
    uc.custom('R-CLONE', 'self.entries_buf.clone()', 'reader_clone(&self.entries_buf)')
    uc.clean()
    uc.own(['C01', 'C02'])
    PRE = ['[C02:hdr-wf] self.wf()', '[C02:abbrevs-inv] abbreviations.inv()', 'self.g_buf().len <= isize::MAX']
    uc.splice('entries', ret='res', requires=PRE, canary=True, ensures=[
        '[C02:entries-start] res.inv() && res.cur_is_null() && res.g_raw().g_input() == self.g_buf() && res.g_raw().g_depth() == 0 && res.g_raw().pos() == self.hdr_size() '
        '&& res.g_raw().g_abbrevs() == *abbreviations && res.g_raw().g_encoding() == self.g_encoding()'])
    uc.splice('entries_at_offset', ret='res', requires=PRE, canary=True, ensures=[
        '[C02:entries-at-offset] res matches Ok(c) ==> self.in_bounds(offset.0 as nat) && c.inv() && c.cur_is_null() && adv(self.g_buf(), c.g_raw().g_input(), (offset.0 - self.hdr_size()) as nat) '
        '&& c.g_raw().g_depth() == 0 && c.g_raw().pos() == offset.0 && c.g_raw().g_abbrevs() == *abbreviations && c.g_raw().g_encoding() == self.g_encoding()',
        '[C02:entries-at-offset] res is Err <==> !self.in_bounds(offset.0 as nat)'])
    sk.add('read::unit', uc)
    return sk


def populate_tree(ctx, sk, un):
    # ---------------------------------------------------------------- EntriesTree / EntriesTreeNode / EntriesTreeIter
    sk.add('read::unit', un.item(r"^pub struct EntriesTree<'abbrev, R>").custom('R-ATTR', '#[derive(Clone, Debug)]', '#[derive(Clone)]').clean(rejrec=['R']))
    et = un.item(r"^impl<'abbrev, R: Reader> EntriesTree<'abbrev, R> \{", label='EntriesTree')
    et.custom('R-CLONE', 'root.clone()', 'reader_clone(&root)')
    et.custom('R-CLONE', 'self.root.clone()', 'reader_clone(&self.root)')
    et.clean()
    et.own(['C01', 'C02'])
    et.insert_members("""    pub closed spec fn g_root(&self) -> RView { self.root.rv() }
    pub closed spec fn g_raw(&self) -> EntriesRaw<'abbrev, R> { self.input }
    pub closed spec fn g_entry(&self) -> DebuggingInformationEntry<R> { self.entry }
    /// invariant: as for the cursor, plus: the root view ends where the raw reader's input ends (same unit), so re-rooting keeps the offset bookkeeping valid
    pub open spec fn inv(&self) -> bool {
        &&& self.g_raw().inv()
        &&& isize::MIN + self.g_raw().g_input().len <= self.g_entry().depth && self.g_entry().depth + self.g_raw().g_input().len <= isize::MAX
        &&& self.g_root().len <= self.g_raw().g_end() && self.g_root().len <= isize::MAX
        // coherence of the current entry with the reader: a null entry has no children; right after an entry with children the next depth is one more
        &&& (self.g_entry().tag.0 == 0 ==> !self.g_entry().has_children)
        &&& (self.g_entry().has_children ==> self.g_raw().g_depth() == self.g_entry().depth + 1)
    }""")
    OS, FS = 'old(self)', 'final(self)'
    OR, FR = 'old(self).g_raw()', 'final(self).g_raw()'
    OI, FI = 'old(self).g_raw().g_input()', 'final(self).g_raw().g_input()'
    STEP = "EntriesRaw::<'abbrev, R>::die_step"
    et.splice('new', ret='res', requires=['abbreviations.inv()', 'root.rv().len <= isize::MAX', 'offset.0 + root.rv().len <= usize::MAX'], ensures=[
        '[C02:tree-new] res.inv() && res.g_root() == root.rv() && res.g_raw().g_input() == root.rv() && res.g_raw().g_encoding() == encoding && res.g_raw().g_abbrevs() == *abbreviations '
        '&& res.g_raw().g_depth() == 0 && res.g_raw().pos() == offset.0 && res.g_entry().tag.0 == 0'])
    et.splice('root', ret='res', requires=[f'[C02:tree-inv] {OS}.inv()'], canary=True, ensures=[
        f'[C20:reroot] res matches Ok(n) ==> {STEP}({OS}.g_root(), 0, {OR}.g_end(), {OR}.g_abbrevs(), n.g_tree().g_raw().g_input(), n.g_tree().g_raw().g_depth(), n.g_tree().g_entry(), true)',
        f'[C20:reroot] res matches Ok(n) ==> n.g_tree().g_entry().offset.0 == {OR}.g_end() - {OS}.g_root().len && n.g_tree().g_entry().depth == 0 && n.g_depth() == 1',
        f'[C02:tree-inv] res matches Ok(n) ==> n.g_tree().inv() && n.g_tree().g_root() == {OS}.g_root() && n.g_tree().g_raw().same_unit(&{OR})',
        f'[C02:tree-inv] res is Err ==> {FS}.g_root() == {OS}.g_root() && {FR}.same_unit(&{OR})'])
    et.own(['C01', 'C02', 'C20'], fn='root')
    et.splice('next', ret='res', requires=[f'[C02:tree-inv] {OS}.inv()', f'[C02:tree-next-pre] {OS}.g_entry().depth < depth ==> {OS}.g_entry().depth + 1 == depth'], canary=True, ensures=[
        f'[C02:tree-inv] {FS}.inv() && {FS}.g_root() == {OS}.g_root() && {FR}.same_unit(&{OR})',
        f'[C02:tree-step] res matches Ok(true) ==> {FS}.g_entry().tag.0 != 0 && {FS}.g_entry().depth == depth && {FS}.g_entry().depth < isize::MAX && {FS}.g_entry().offset.0 >= {OR}.pos() && {FI}.len < {OI}.len',
        f'[C02:tree-first-child] res matches Ok(true) && {OS}.g_entry().depth < depth ==> {STEP}({OI}, {OR}.g_depth(), {OR}.g_end(), {OR}.g_abbrevs(), {FI}, {FR}.g_depth(), {FS}.g_entry(), true)',
        f'[C02:tree-no-children] {OS}.g_entry().depth < depth && !{OS}.g_entry().has_children ==> (res matches Ok(false)) && {FI} == {OI} && {FS}.g_entry() == {OS}.g_entry() && {FR}.g_depth() == {OR}.g_depth()',
        f'[C02:tree-end] res matches Ok(false) ==> ({OS}.g_entry().depth < depth && !{OS}.g_entry().has_children) || {FS}.g_entry().tag.0 == 0',
        f'[C01:iter-err-empties] res is Err ==> {FI}.len == 0 && {FS}.g_entry().tag.0 == 0',
        f'[C01:frame] res is Ok ==> within({OI}, {FI})'],
        loops={0: f'invariant self.inv(), self.g_root() == {OS}.g_root(), self.g_raw().same_unit(&{OR}), within({OI}, self.g_raw().g_input()), {OS}.g_entry().depth >= depth, '
                  f'self.g_raw().g_input().len < {OI}.len || self.g_entry() == {OS}.g_entry(),\n decreases self.g_raw().g_input().len'})
    sk.add('read::unit', et)
    sk.add('read::unit', un.item(r"^pub struct EntriesTreeNode<'abbrev, 'tree, R: Reader>").custom('R-ATTR', '#[derive(Debug)]', '').clean(rejrec=['R']))
    tn = un.item(r"^impl<'abbrev, 'tree, R: Reader> EntriesTreeNode<'abbrev, 'tree, R> \{", label='EntriesTreeNode').clean().own(['C01', 'C02'])
    tn.insert_members("""    pub closed spec fn g_tree(&self) -> EntriesTree<'abbrev, R> { *self.tree }
    pub closed spec fn g_depth(&self) -> isize { self.depth }""")
    tn.splice('new', ret='res', requires=['[C02:node-nonnull] old(tree).g_entry().tag.0 != 0'], ensures=['res.g_tree() == *old(tree) && res.g_depth() == depth'])
    tn.splice('entry', ret='res', ensures=['[C02:node-entry] *res == self.g_tree().g_entry()'])
    tn.splice('children', ret='res', ensures=['[C02:node-children] res.g_tree() == self.g_tree() && res.g_depth() == self.g_depth() && !res.g_empty()'])
    sk.add('read::unit', tn)
    sk.add('read::unit', un.item(r"^pub struct EntriesTreeIter<'abbrev, 'tree, R: Reader>").custom('R-ATTR', '#[derive(Debug)]', '').clean(rejrec=['R']))
    ti = un.item(r"^impl<'abbrev, 'tree, R: Reader> EntriesTreeIter<'abbrev, 'tree, R> \{", label='EntriesTreeIter').clean().own(['C01', 'C02'])
    ti.insert_members("""    pub closed spec fn g_tree(&self) -> EntriesTree<'abbrev, R> { *self.tree }
    pub closed spec fn g_depth(&self) -> isize { self.depth }
    pub closed spec fn g_empty(&self) -> bool { self.empty }""")
    ti.splice('new', ret='res', ensures=['res.g_tree() == *old(tree) && res.g_depth() == depth && !res.g_empty()'])
    OT, FT = 'old(self).g_tree()', 'final(self).g_tree()'
    ti.splice('next', ret='res', requires=[f'[C02:tree-inv] {OT}.inv()', f'[C02:tree-next-pre] {OT}.g_entry().depth < old(self).g_depth() ==> {OT}.g_entry().depth + 1 == old(self).g_depth()'], canary=True, ensures=[
        f'[C01:iter-end] old(self).g_empty() ==> (res matches Ok(None))',
        f'[C02:tree-iter-step] res matches Ok(Some(n)) ==> n.g_depth() == old(self).g_depth() + 1 && n.g_tree().inv() && n.g_tree().g_entry().tag.0 != 0 && n.g_tree().g_entry().depth == old(self).g_depth() '
        f'&& n.g_tree().g_raw().g_input().len < {OT}.g_raw().g_input().len && n.g_tree().g_root() == {OT}.g_root()',
        f'[C02:tree-iter-end] res matches Ok(None) ==> final(self).g_empty() && final(self).g_depth() == old(self).g_depth()'])
    sk.add('read::unit', ti)
    return sk


def build(ctx):
    sk = Skeleton(ctx, core.rd('prelude/crate.rs'))
    core.populate(ctx, sk)
    populate(ctx, sk)
    return sk
