"""B-units: unit headers, abbreviation tables, DIE readers (DESIGN.md 6 C02 / C20 / C01 / C10).  WORK IN PROGRESS
"""
import re
from lib import *
from batches import core

TRUSTED = list(core.TRUSTED) + []
VERUS_ARGS = ['--rlimit', '30']

OFFSET_RULE = 'R-OFFSET'


def offset_usize(it):
    """R-OFFSET for the `<R, Offset> ... where R: Reader<Offset = Offset>, Offset: ReaderOffset` shape: the item is
    specialised to Offset = usize (module alias `type Offset = usize;` keeps the body verbatim)."""
    if re.search(r'impl<R, Offset> \w+<R, Offset>', it.text):
        it.custom_re(OFFSET_RULE, r'impl<R, Offset> (\w+)<R, Offset>', r'impl<R> \1<R, usize>')
    else:
        it.custom_re(OFFSET_RULE, r'(fn \w+)<R, Offset>\(', r'\1<R>(')
    it.custom_re(OFFSET_RULE, r'R: Reader<Offset = Offset>,\s*Offset: ReaderOffset,', 'R: Reader<Offset = usize>,')
    return it


def ctorfn(it, ctor, pty, rty):
    """R-CTORFN: a tuple-struct constructor used as a function value (`.map(Ctor)`) is eta-expanded to a closure whose
    (verified) ensures states what the constructor does; Verus has no function values for datatype constructors."""
    it.custom('R-CTORFN', f'.map({ctor})', f'.map(|verif_v: {pty}| -> (verif_r: {rty}) ensures verif_r.0 == verif_v {{ {ctor}(verif_v) }})', count=99)
    return it


def structural(sk, labels):
    """derive(Structural) on mechanically emitted `dw!` newtypes gives exec `==` on them its spec meaning (the derive is
    checked by Verus, it is not an assumption). Verus 0.2026.09.13 crashes on derive(Structural) inside a nested module
    (internal error: thir_body query before erasure), so the one-line struct definitions move to the crate root and are
    re-exported from `crate::constants`; the constants themselves stay where they are."""
    chunks = sk.mods['constants']['chunks']
    for i, (item, label, owners) in enumerate(chunks):
        if isinstance(item, str) and label in labels:
            m = re.match(r'#\[derive\(([^)]*)\)\]\n(pub struct (\w+)\(pub \w+\);)\n', item)
            if not m or m.group(3) != label:
                raise Lost('structural: unexpected shape of dw! type ' + label)
            sk.crate_prelude += f'\n#[derive(Structural, {m.group(1)})]\n{m.group(2)}\n'
            chunks[i] = (f'pub use crate::{label};\n' + item[m.end():], label, owners)
            labels = [l for l in labels if l != label]
    if labels:
        raise Lost('structural: constants not found: ' + ', '.join(labels))


LENFITS = '{}.rv().len <= usize::MAX'
B0 = 'old(input).rv()'
LAY = 'unit_hdr_layout(old(input).rv(), section == SectionId::DebugTypes)'


def populate(ctx, sk):
    common = Source('common.rs', ctx)
    un = Source('read/unit.rs', ctx)
    structural(sk, ['DwChildren', 'DwTag', 'DwAt', 'DwForm'])
    sk.add('common', common.item(r'^pub enum SectionId \{').clean())
    sk.mods['read']['uses'] += '\npub use self::unit::*;'
    sk.module('read::unit', '''use core::ops::{Range, RangeFrom, RangeTo};
use crate::common::{DebugAbbrevOffset, DebugInfoOffset, DebugTypeSignature, DebugTypesOffset, DwoId, Encoding, Format, SectionId, UnitSectionOffset};
use crate::constants;
use crate::read::{Error, Reader, ReaderOffset, Result, UnitOffset};
use crate::read::reader_clone;
use crate::vspec::*;
pub type Offset = usize;''')
    sk.add('read::unit', core.rd('specs/units.rs'), label='units-spec')

    # ---------------------------------------------------------------- unit headers
    sk.add('read::unit', un.item(r'^pub enum UnitType<Offset>').clean(rejrec=['Offset']))
    sk.add('read::unit', un.item(r'^pub struct UnitHeader<R, Offset').clean(rejrec=['R', 'Offset']))
    GHOST_UH = """    pub closed spec fn g_encoding(&self) -> Encoding { self.encoding }
    pub closed spec fn g_unit_length(&self) -> nat { self.unit_length as nat }
    pub closed spec fn g_unit_type(&self) -> UnitType<usize> { self.unit_type }
    pub closed spec fn g_abbrev_offset(&self) -> nat { self.debug_abbrev_offset.0 as nat }
    pub closed spec fn g_section(&self) -> SectionId { self.section }
    pub closed spec fn g_unit_offset(&self) -> nat { self.unit_offset.0 as nat }
    pub closed spec fn g_buf(&self) -> RView { self.entries_buf.rv() }
    /// size of the initial length field of the unit's format
    pub open spec fn g_il(&self) -> nat { match self.g_encoding().format { Format::Dwarf32 => 4, Format::Dwarf64 => 12 } }
    /// header size by the layout formula of DWARF 7.5.1
    pub open spec fn hdr_size(&self) -> nat {
        unit_hdr_size(self.g_encoding().format, self.g_encoding().version,
            self.g_unit_type() is Type || self.g_unit_type() is SplitType,
            self.g_unit_type() is Skeleton || self.g_unit_type() is SplitCompilation)
    }
    /// representation invariant established by the parser: the entries buffer is exactly the unit minus its header,
    /// i.e. what the parser consumed is what the size formula says
    pub open spec fn wf(&self) -> bool {
        self.g_il() + self.g_unit_length() <= usize::MAX && self.hdr_size() + self.g_buf().len == self.g_il() + self.g_unit_length()
    }
    /// `o` addresses a byte of the unit's entries (offsets are relative to the start of the unit, incl. the header)
    pub open spec fn in_bounds(&self, o: nat) -> bool { self.hdr_size() <= o < self.hdr_size() + self.g_buf().len }"""
    uhn = un.item(r'^impl<R, Offset> UnitHeader<R, Offset>', label='UnitHeader(new)')
    offset_usize(uhn).clean()
    uhn.insert_members(GHOST_UH)
    uhn.splice('new', ret='res', ensures=[
        'res.g_encoding() == encoding && res.g_unit_length() == unit_length && res.g_unit_type() == unit_type && res.g_abbrev_offset() == debug_abbrev_offset.0 '
        '&& res.g_section() == section && res.g_unit_offset() == unit_offset.0 && res.g_buf() == entries_buf.rv()'], owners=['C01', 'C02'])
    sk.add('read::unit', uhn)

    uh = un.item(r'^impl<R, Offset> UnitHeader<R, Offset>\s*where\s*R: Reader<Offset = Offset>,\s*Offset: ReaderOffset,\s*\{\s*pub fn section', label='UnitHeader')
    uh.keep_only(['section', 'offset', 'size_of_header', 'unit_length', 'length_including_self', 'encoding', 'version',
                  'type_', 'debug_abbrev_offset', 'address_size', 'format', 'header_size', 'root_offset', 'is_in_bounds',
                  'range', 'range_from', 'range_to'])
    offset_usize(uh)
    uh.custom('R-CLONE', 'self.entries_buf.clone()', 'reader_clone(&self.entries_buf)', count=3)
    # derived PartialOrd on the one-field tuple struct UnitOffset is the order of its field (the derive is dropped by R-ATTR)
    uh.custom('R-ORD', 'assert!(idx.start <= idx.end);', 'assert!(idx.start.0 <= idx.end.0);')
    uh.clean()
    uh.own(['C01', 'C02'])
    ACC = '[C02:hdr-accessor] '
    uh.splice('section', ret='res', ensures=[ACC + 'res == self.g_section()'])
    uh.splice('offset', ret='res', ensures=[ACC + 'res.0 == self.g_unit_offset()'])
    uh.splice('size_of_header', ret='res', ensures=['[C02:size-of-header] res == self.hdr_size()'])
    uh.splice('unit_length', ret='res', ensures=[ACC + 'res == self.g_unit_length()'])
    uh.splice('length_including_self', ret='res', requires=['self.g_il() + self.g_unit_length() <= usize::MAX'],
              ensures=['[C02:length-including-self] res == self.g_il() + self.g_unit_length()'], canary=True)
    uh.splice('encoding', ret='res', ensures=[ACC + 'res == self.g_encoding()'])
    uh.splice('version', ret='res', ensures=[ACC + 'res == self.g_encoding().version'])
    uh.splice('type_', ret='res', ensures=[ACC + 'res == self.g_unit_type()'])
    uh.splice('debug_abbrev_offset', ret='res', ensures=[ACC + 'res.0 == self.g_abbrev_offset()'])
    uh.splice('address_size', ret='res', ensures=[ACC + 'res == self.g_encoding().address_size'])
    uh.splice('format', ret='res', ensures=[ACC + 'res == self.g_encoding().format'])
    WF = '[C02:hdr-wf] self.wf()'
    uh.splice('header_size', ret='res', requires=[WF], ensures=[
        '[C02:header-size] res == self.hdr_size()',
        '[C02:header-size] res + self.g_buf().len == self.g_il() + self.g_unit_length()'], canary=True)
    uh.splice('root_offset', ret='res', requires=[WF], ensures=['[C02:root-offset] res.0 == self.hdr_size()'])
    uh.splice('is_in_bounds', ret='res', requires=[WF], ensures=['[C02:in-bounds] res == self.in_bounds(offset.0 as nat)'], canary=True)
    uh.splice('range', ret='res', requires=[WF, '[C02:range-ordered] idx.start.0 <= idx.end.0'], ensures=[
        '[C02:range][C10:view] res matches Ok(r) ==> window(self.g_buf(), r.rv(), (idx.start.0 - self.hdr_size()) as nat, (idx.end.0 - idx.start.0) as nat)',
        '[C02:range-bounds] res is Err <==> !self.in_bounds(idx.start.0 as nat) || !self.in_bounds(idx.end.0 as nat)',
        '[C02:range-bounds] res matches Err(e) ==> e == (if !self.in_bounds(idx.start.0 as nat) { Error::OffsetOutOfBounds(idx.start.0 as u64) } else { Error::OffsetOutOfBounds(idx.end.0 as u64) })'],
        canary=True)
    uh.splice('range_from', ret='res', requires=[WF], ensures=[
        '[C02:range][C10:view] res matches Ok(r) ==> adv(self.g_buf(), r.rv(), (idx.start.0 - self.hdr_size()) as nat)',
        '[C02:range-bounds] res is Err <==> !self.in_bounds(idx.start.0 as nat)',
        '[C02:range-bounds] res matches Err(e) ==> e == Error::OffsetOutOfBounds(idx.start.0 as u64)'], canary=True)
    uh.splice('range_to', ret='res', requires=[WF], ensures=[
        '[C02:range][C10:view] res matches Ok(r) ==> trunc(self.g_buf(), r.rv(), (idx.end.0 - self.hdr_size()) as nat)',
        '[C02:range-bounds] res is Err <==> !self.in_bounds(idx.end.0 as nat)',
        '[C02:range-bounds] res matches Err(e) ==> e == Error::OffsetOutOfBounds(idx.end.0 as u64)'], canary=True)
    sk.add('read::unit', uh)

    puh = un.item(r'^fn parse_unit_header<R, Offset>\(', label='parse_unit_header')
    offset_usize(puh)
    ctorfn(puh, 'DebugAbbrevOffset', 'usize', 'DebugAbbrevOffset<usize>')
    ctorfn(puh, 'constants::DwUt', 'u8', 'constants::DwUt')
    ctorfn(puh, 'DebugTypeSignature', 'u64', 'DebugTypeSignature')
    ctorfn(puh, 'UnitOffset', 'usize', 'UnitOffset<usize>')
    ctorfn(puh, 'DwoId', 'u64', 'DwoId')
    puh.clean()
    OKH = 'res matches Ok(h) ==> '
    # LENFITS: true of every reader (`len()` returns the length as an Offset = usize); the core layer exposes the fact only
    # through a call of `len()`, so parsers that never call it take it as a precondition and callers discharge it
    puh.splice('parse_unit_header', ret='res', requires=[LENFITS.format('old(input)')], canary=True, ensures=[
        f'[C02:hdr-reject] res is Ok ==> unit_hdr_ok({B0}, section == SectionId::DebugTypes)',
        f'[C02:hdr-length] {OKH} h.g_unit_length() == {LAY}.len && h.g_encoding().format == {LAY}.fmt',
        f'[C02:hdr-version] {OKH} h.g_encoding().version == {LAY}.version',
        f'[C02:hdr-address-size] {OKH} h.g_encoding().address_size == {LAY}.addr_size && valid_address_size(h.g_encoding().address_size)',
        f'[C02:hdr-abbrev-offset] {OKH} h.g_abbrev_offset() == {LAY}.abbrev',
        f'[C02:hdr-unit-type] {OKH} ({{ let l = {LAY}; match h.g_unit_type() {{ '
        'UnitType::Compilation => l.ut == 0x01, '
        'UnitType::Type { type_signature, type_offset } => l.ut == 0x02 && type_signature.0 == l.id && type_offset.0 == l.type_off, '
        'UnitType::Partial => l.ut == 0x03, '
        'UnitType::Skeleton(id) => l.ut == 0x04 && id.0 == l.id, '
        'UnitType::SplitCompilation(id) => l.ut == 0x05 && id.0 == l.id, '
        'UnitType::SplitType { type_signature, type_offset } => l.ut == 0x06 && type_signature.0 == l.id && type_offset.0 == l.type_off } })',
        f'[C02:hdr-entries-buf][C10:view] {OKH} window({B0}, h.g_buf(), {LAY}.total(), ({LAY}.unit_end() - {LAY}.total()) as nat)',
        f'[C02:hdr-consume] {OKH} adv({B0}, final(input).rv(), {LAY}.unit_end())',
        f'[C02:hdr-origin] {OKH} h.g_section() == section && h.g_unit_offset() == unit_offset.0',
        f'[C02:hdr-size-agrees] {OKH} h.wf() && h.hdr_size() == {LAY}.total()',
        f'[C01:frame] within({B0}, final(input).rv())',
        f'[C01:progress] res is Ok ==> final(input).rv().len < {B0}.len',
    ], owners=['C01', 'C02'])
    sk.add('read::unit', puh)
    return sk


def build(ctx):
    sk = Skeleton(ctx, core.rd('prelude/crate.rs'))
    core.populate(ctx, sk)
    populate(ctx, sk)
    return sk
