"""B-line-hdr: the HEADER side of read::line  (DESIGN.md 6 C04 "header decode incl. v5 entry formats", C01 "header
validation"; carrier 4 of batch `line`, which this batch extends: `line.populate` is run unchanged, so `LineHdr`,
`valid_line_hdr`, `LineProgramHeader::lh()` ... are THE SAME definitions the machine of batch `line` requires).

WORK IN PROGRESS header - completed at the end of the file's development.
"""
import re
from lib import *
from batches import core
from batches import line
from batches import attrs

TRUSTED = list(line.TRUSTED)
VERUS_ARGS = ['--rlimit', '40']
RETRY_RLIMIT = 120
OWN = ['C01', 'C04']
M = 'read::line'


# ---------------------------------------------------------------------------------------------------------------------
# forms: ONE table (attrs.FORMS, written from DWARF 5 table 7.5/7.6 with numeric codes) generates the size functions
# (fixed_size / var_len / known_form of module aspec), the per-form clauses of unit.rs parse_attribute (batch attrs) and
# the per-form clauses of line.rs parse_attribute here.
def aspec_text():
    """module aspec = head of vx/specs/attrs.rs (cstr_len, ...) + the GENERATED size functions + form_len"""
    t = core.rd('specs/attrs.rs')
    a = t.find('/*GENERATED*/')
    b = t.find('/// offset just past an attribute of abbreviation form')
    c = t.find('/// DW_FORM_indirect (7.5.3)')
    d = t.find('/// Attributes that DWARF 2/3 allows to hold a section offset')
    if min(a, b, c, d) < 0 or not (c < d < a < b):
        raise Lost('specs/attrs.rs: layout markers not found')
    # without DW_FORM_indirect (no abbreviation in a line table) and without attrs_end (needs AttributeSpecification)
    return t[:c] + t[d:a] + attrs.gen_specs() + t[a + len('/*GENERATED*/'):b]


OFFSET_KINDS = dict(attrs.VARIANTS)


def form_conjuncts():
    """[(short name, code, spec expression over b0 / encoding / val)]: what an Ok result of line.rs parse_attribute for a
    field of that form is (DWARF 5 7.5.5, 7.5.6).  Differences to the DIE attribute decoder that follow from the context:
    no abbreviation (implicit_const has no value; indirect is not a content form), no attribute name (data4/data8 are
    always constants), DW_FORM_data16 (MD5) is handed out as a 16-byte view."""
    out = []
    for code, name, kind, pat, cons in attrs.FORMS:
        short = name[8:]
        if kind in ('indirect', 'implicit'):
            out.append((short, code, 'false'))
            continue
        if kind in ('data4', 'data8'):
            n = attrs.FIXED[kind]
            out.append((short, code, f'({{ let o = b0.u(0, {n}); val matches AttributeValue::Data{n}(x) && x as nat == o }})'))
            continue
        if name == 'DW_FORM_data16':
            out.append((short, code, '(val matches AttributeValue::Block(r) && window(b0, r.rv(), 0, 16))'))
            continue
        var = re.match(r'AttributeValue::(\w+)', pat).group(1)
        k = OFFSET_KINDS[var]
        if k == 'off' or k.startswith('wo:'):
            if cons != attrs.OFF:
                raise Lost(f'attrs.FORMS: unexpected constraint for {name}')
            cons = 'x.as_nat() == o'       # this batch is generic in Reader::Offset (no R-OFFSET)
        out.append((short, code, f'({{ let p = 0int; {attrs.operand_lets(kind)} (val matches {pat} && ({cons})) }})'))
    return out


def attr_ok_text():
    body = '\n'.join(f'    &&& form == {code:#x} ==> {expr}   // DW_FORM_{short}' for short, code, expr in form_conjuncts())
    return f'''/// GENERATED from attrs.FORMS: `val` is the decoded value of the field of form `form` at the read position of b0
pub open spec fn line_attr_ok<R: Reader<Offset = Offset>, Offset: ReaderOffset>(b0: RView, encoding: Encoding, form: nat, val: AttributeValue<R, Offset>) -> bool {{
{body}
    &&& known_form(form)
}}
'''


# DWARF 5 6.2.4.1: forms a producer may use for the standard content types (path: string/line_strp/strp/strp_sup and, in
# split units, strx*; directory_index: data1/data2/udata; timestamp: udata/data4/data8/block; size: udata/data1/2/4/8;
# MD5: data16).  A complete, well-formed field of one of these must decode (totality; where the reader primitives have an
# exact error condition in the contract layer).
STD_LINE_FORMS = ['DW_FORM_string', 'DW_FORM_line_strp', 'DW_FORM_strp', 'DW_FORM_strp_sup', 'DW_FORM_strx', 'DW_FORM_strx1',
                  'DW_FORM_strx2', 'DW_FORM_strx3', 'DW_FORM_strx4', 'DW_FORM_data1', 'DW_FORM_data2', 'DW_FORM_data4',
                  'DW_FORM_data8', 'DW_FORM_data16', 'DW_FORM_udata', 'DW_FORM_block']


def attr_clauses():
    out = []
    for short, code, expr in form_conjuncts():
        view = '[C10:view]' if 'window' in expr else ''
        out.append(f'[C04:attr-{short}]{view} res matches Ok(val) ==> ({{ let b0 = old(input).rv(); form.0 == {code:#x} ==> {expr} }})')
    out.append('[C04:attr-unknown-form] !known_form(form.0 as nat) ==> res is Err')
    out.append('res matches Ok(val) ==> line_attr_ok(old(input).rv(), encoding, form.0 as nat, val)')
    out.append('[C04:attr-len] res is Ok ==> adv(old(input).rv(), final(input).rv(), form_len(old(input).rv(), encoding, form.0 as nat, 0))')
    for c in attrs.total_clauses():
        m = re.match(r'\[C03:decode-total-(\w+)\] spec\.sform\(\)\.0 == ', c)
        if 'DW_FORM_' + m.group(1) in STD_LINE_FORMS and 'sec_offset_attr' not in c:
            out.append(c.replace('[C03:decode-total-', '[C04:attr-total-').replace('spec.sform().0 ==', 'form.0 =='))
    for n in (4, 8):
        out.append(f'[C04:attr-total-data{n}] form.0 == {0x06 if n == 4 else 0x07:#x} ==> (old(input).rv().len >= {n} ==> res is Ok)')
    out.append('[C01:frame] within(old(input).rv(), final(input).rv())')
    return out


GHOST_IMPLS = '''
impl<R, Offset> FileEntry<R, Offset>
where
    R: Reader<Offset = Offset>,
    Offset: ReaderOffset,
{
    pub closed spec fn md5_v(&self) -> [u8; 16] { self.md5 }
}
'''

# R-U8ARRAY: `Reader::read_u8_array::<[u8; 16]>()` (generic over `A: Default + AsMut<[u8]>`, dropped from the trait by
# batch core: outside Verus) is replaced by its instantiation at [u8; 16]
READ_MD5 = '''
/// R-U8ARRAY: `Reader::read_u8_array::<[u8; 16]>` = `let mut val = Default::default(); self.read_slice(val.as_mut())?; Ok(val)`
#[verifier::external_body]
pub fn verif_read_u8_array16<R: Reader>(r: &mut R) -> (res: Result<[u8; 16]>)
    ensures
        res matches Ok(a) ==> adv(old(r).rv(), final(r).rv(), 16) && (forall|k: int| 0 <= k < 16 ==> a[k] == old(r).rv().at(k)),
        res is Err ==> unch(old(r).rv(), final(r).rv()),
        res is Err <==> old(r).rv().len < 16,
{
    let mut val = [0u8; 16];
    r.read_slice(&mut val)?;
    Ok(val)
}
'''


def populate(ctx, sk):
    ln = Source('read/line.rs', ctx)
    sk.add('constants', attrs.derived_eq('DwLnct'), label='derived-eq')
    sk.module('aspec', 'use crate::vspec::*;')
    sk.add('aspec', aspec_text(), label='aspec')
    sk.module(M, '''use crate::common::*;
use crate::read::{Expression, UnitOffset};
use crate::aspec::*;''')
    sk.add(M, GHOST_IMPLS, label='ghost-accessors')
    sk.add(M, core.rd('specs/line_hdr.rs').replace('/*ATTR_OK*/', attr_ok_text()), label='vspec_line_hdr', owners=OWN)
    sk.add(M, READ_MD5, label='verif_read_u8_array16')

    B0 = 'old(input).rv()'
    FIN = 'final(input).rv()'

    # ---- FileEntryFormat::parse (6.2.4.1 items 9/10 and 11/12 of the v5 header)
    ff = ln.item(r'^impl FileEntryFormat \{', label='FileEntryFormat')
    ff.custom('R-CLOSURE', 'for _ in 0..format_count {', 'for _verif_i in 0..format_count {')
    ff.clean(offset=False)
    ff.own(OWN)
    ff.splice('parse', ret='res', ensures=[
        # for EVERY format_count, 0 included: an Ok result has exactly one DW_LNCT_path descriptor
        f'[C04:entry-format][C01:entry-format-one-path] res matches Ok(v) ==> v@.len() == {B0}.at(0) && one_path(v@)',
        f'[C04:entry-format-fields] res matches Ok(v) ==> forall|i: int| 0 <= i < v@.len() ==> fmt_entry_ok({B0}, i, #[trigger] v@[i])',
        f'[C04:entry-format-len] res is Ok ==> adv({B0}, {FIN}, 1 + lebs_len({B0}, 1, (2 * {B0}.at(0)) as nat))',
        f'[C01:frame] within({B0}, {FIN})'],
        loops={0: f'''invariant
                old(input).rv().len >= 1, format_count == {B0}.at(0),
                adv({B0}, input.rv(), 1 + lebs_len({B0}, 1, (2 * _verif_i) as nat)),
                format@.len() == _verif_i,
                forall|i: int| 0 <= i < _verif_i ==> fmt_entry_ok({B0}, i, #[trigger] format@[i]),
                path_count == count_ct(format@, lnct_path(), _verif_i as int), 0 <= path_count <= _verif_i,'''},
        before=[('let content_type = input.read_uleb128()?;', 'proof { reveal_with_fuel(lebs_len, 3); }'),
                ('format.push(FileEntryFormat { content_type, form });',
                 'proof { lemma_count_push(format@, FileEntryFormat { content_type, form }, lnct_path(), _verif_i as int); '
                 'assert forall|i: int| 0 <= i < _verif_i implies fmt_entry_ok(old(input).rv(), i, #[trigger] format@.push(FileEntryFormat { content_type, form })[i]) by { assert(format@.push(FileEntryFormat { content_type, form })[i] == format@[i]); } }')])
    sk.add(M, ff)

    # ---- parse_attribute (line-table variant of the form decoder)
    pa = ln.item(r'^fn parse_attribute<').clean(offset=False)
    pa.splice('parse_attribute', ret='res', ensures=attr_clauses(), owners=OWN,
              before=[('let string = input.read_null_terminated_slice()?;', 'let ghost v0 = input.rv();')],
              after=[('let string = input.read_null_terminated_slice()?;', 'proof { lemma_cstr_len0(v0, string.rv().len); }')])
    sk.add(M, pa)

    # ---- parse_directory_v5 / parse_file_v5
    ONE = '[C01:path-unwrap] one_path(formats@)'
    N = 'formats@.len() as int'
    FL = lambda j: f'fields_len({B0}, encoding, formats@, {j})'
    pd = ln.item(r'^fn parse_directory_v5<')
    pd.clean(offset=False)
    pd.insert_after('for format in ', 'it: ')
    pd.splice('parse_directory_v5', ret='res', owners=OWN, canary=True, requires=[ONE], ensures=[
        f'[C04:directory-v5] res matches Ok(p) ==> fe_path_ok({B0}, encoding, formats@, p)',
        f'[C04:directory-v5-len] res is Ok ==> adv({B0}, {FIN}, {FL(N)})',
        f'[C01:frame] within({B0}, {FIN})'],
        loops={0: f'''invariant
                adv({B0}, input.rv(), {FL('it.index as int')}),
                ({{ let j = last_ct(formats@, lnct_path(), it.index as int);
                   if j < 0 {{ path_name is None }} else {{ path_name matches Some(x) && line_attr_ok(field_view({B0}, encoding, formats@, j), encoding, formats@[j].form.0 as nat, x) }} }}),'''},
        before=[('Ok(path_name.unwrap())', f'proof {{ lemma_count_last(formats@, lnct_path(), {N}); }}')])
    sk.add(M, pd)
    return sk


def build(ctx):
    sk = Skeleton(ctx, core.rd('prelude/crate.rs'))
    core.populate(ctx, sk)
    line.populate(ctx, sk)
    populate(ctx, sk)
    return sk
