"""B-line-hdr: the HEADER side of read::line  (DESIGN.md 6 C04 "header decode incl. v5 entry formats", "sequence slicing";
C01 "header validation of zero/unsupported parameters", no panic on any bytes).  Carrier 4 of batch `line`, which this
batch extends: `line.populate` runs first and unchanged, so `LineHdr`, `valid_line_hdr`, `LineProgramHeader::lh()`,
`FileEntry::parse`, `LineRows::next_row`, `remove_trailing` ... are THE SAME definitions / contracts; everything of batch
`line` is re-verified here (its known finding F-line-3 = [C04:monotone-rows] on `LineRows::next_row` therefore also fails
here, under the same function label and tag).

Spec: vx/specs/line_hdr.rs (loaded into crate::read::line; written from DWARF 5 6.2.4, 6.2.4.1, table 7.27 and DWARF 2-4
6.2.4) + module `aspec` = head of vx/specs/attrs.rs and the size functions GENERATED from `attrs.FORMS` (one table for
unit.rs parse_attribute in batch attrs and line.rs parse_attribute here).  Every spec fn takes the reader view positioned
at the item it describes; `view_at(v, k)` is v after k bytes.

Functions under contract (real text of /repo/src/read/line.rs; generic in Reader::Offset, no R-OFFSET):
  FileEntryFormat::parse        [C04:entry-format][C01:entry-format-one-path] Ok(v) ==> v.len == format_count byte &&
                                exactly one DW_LNCT_path descriptor - for EVERY format_count, 0 included;
                                [C04:entry-format-fields] descriptor i = ULEB pair number i (content type kept in a u16:
                                codes > 0xffff become an unknown code; form codes > 0xffff are rejected); [C04:entry-format-len]
  parse_attribute (line-table form decoder)   [C04:attr-<form>] per form of attrs.FORMS: value class + exact value (7.5.5/7.5.6),
                                [C04:attr-len] exact consumption == form_len (the generated size functions),
                                [C04:attr-unknown-form], [C04:attr-total-<form>] a complete field of a form that 6.2.4.1
                                names for the standard content types decodes
  parse_directory_v5            requires [C01:path-unwrap] one_path(formats): the `path_name.unwrap()` obligation is PROVED
                                from it; [C04:directory-v5] the result is the decoded DW_LNCT_path field; [C04:directory-v5-len]
  parse_file_v5                 same unwrap obligation; [C04:file-v5-path|-directory-index|-timestamp|-size|-md5|-source|-len]:
                                each component is the decoded value of the (last) field of its content type - unsigned reading
                                of data1/2/4/8, udata, non-negative sdata; MD5 = the 16 bytes of a data16 / 16-byte block;
                                0 / zeros / None when absent; unknown content types are skipped by their form
  LineProgramHeader::parse      versions 2-5: [C04:header-fields] (unit_length/format, version 2..=5, v5 address_size +
                                segment_selector_size == 0, header_length, minimum_instruction_length,
                                maximum_operations_per_instruction from version 4 on else 1, default_is_stmt, line_base (i8),
                                line_range, opcode_base: predicate `lp_fixed_def`), [C04:header-opcode-lengths]
                                standard_opcode_lengths = opcode_base - 1 bytes as a VIEW, [C04:header-program] program_buf =
                                the rest of the unit after header_length as a VIEW, [C04:header-valid][C01:header-valid]
                                `valid_line_hdr(h.lh())` (0 rejected for min_inst_len / max_ops / line_range / opcode_base),
                                [C04:header-machine] h.lh() == lp_lh, [C04:header-dirs-v4] / [C04:header-files-v4] the
                                null-terminated lists entry by entry incl. the terminator, [C04:header-dir-format-v5] /
                                [C04:header-dirs-v5] / [C04:header-file-format-v5] / [C04:header-files-v5] the entry-format
                                driven tables entry by entry (count == ULEB count), [C04:header-comp] entry 0 of versions 2-4,
                                [C04:header-offset], [C04:header-consumed] exactly initial length + unit_length consumed,
                                [C01:frame]; all four Vec-building loops: length + per-element invariants, termination
  DebugLine::program            [C04:program-header] the header parsed at `offset` (`parsed_from`), [C04:header-valid],
                                [C04:program-view]
  IncompleteLineProgram::sequences   [C04:sequences-header] header unchanged but for define_file, [C04:sequences-slices] the
                                instruction slices tile a prefix of the program in order without gaps/overlaps (each >= 1
                                byte: `remove_trailing` between the two cursor positions), [C04:sequence-bounds] (tagged
                                mid-point assertion over the ghost trace of rows handed out by next_row since the previous
                                sequence ended: end == address of the end_sequence row, start == address of the first row
                                or 0 if the end_sequence row is the only one), termination (cursor length)
  LineRows::next_row            (item of batch line) + one frame clause `!(res is Err) ==> within(old cursor, new cursor)`
                                and its loop invariant (`strengthen_next_row`): needed for remove_trailing's precondition

Assumed (TRUSTED = line.TRUSTED + 1):
  verif_read_u8_array16         R-U8ARRAY: `Reader::read_u8_array::<[u8; 16]>()` (generic over `A: Default + AsMut<[u8]>`, dropped
                                from the trait by batch core) at its only instantiation, body = read_slice into [0u8; 16];
                                contract: 16 bytes consumed, a[k] == byte k.  Cannot be proved from core's `read_slice` contract
                                (RView has no `start + len <= root.len()` invariant, so `subrange` cannot be indexed)
  A-DERIVE-EQ (ghost text)      `==` of #[derive(PartialEq)] DwLnct is structural (attrs.derived_eq)
  closure contract of `comp_name.map(|name| FileEntry {..})`: inserted annotation, verified against the closure body
Custom rewrites (logged): R-CLONE x4 (reader_clone / instructions_clone), R-CLOSURE x3 (`for _ in` gets a name),
  R-U8ARRAY x1.  `hide(..)` of the four table predicates at the start of `parse` (revealed inside the table loops).

Findings: none new (every obligation of the new functions is discharged on the pinned tree).  Observations, each with a
native program (native/src/bin/f_line_hdr_<n>.rs):
  O-line-hdr-1  versions 2-4 store the caller-supplied `address_size` unchecked; 0 or > 8 makes the machine panic in
                `ones_sized` (shift overflow).  It is an API argument, not section bytes (unit headers validate it), hence
                the explicit `requires [C04:address-size-pre] valid_address_size(address_size)` on parse / program.
  O-line-hdr-2  a v5 header with format_count == 0 and entry count == 0 (allowed by the text of 6.2.4 items 9/11) is
                rejected with MissingFileEntryFormatPath; the exactly-one-path check is what makes the unwraps safe.

Self-attack (scratch copies of /repo/src, `GIMLI_REPO=.. python3 vx/run.py line_hdr` for m1-m5, the same generator + Verus on
the touched function for the rest; every run: status ok, exit 1, the known finding + the listed obligations):
  m1  FileEntryFormat::parse check relaxed to `format_count != 0 && path_count != 1`   -> [C04:entry-format][C01:entry-format-one-path]
  m2  `line_range == 0` accepted                                       -> mid-point assert [C04:header-fields][C04:header-valid]
  m3  maximum_operations_per_instruction read for version >= 3         -> mid-point assert [C04:header-fields] (max_ops / position)
  m4  standard_opcode_lengths one byte short                           -> mid-point assert [C04:header-opcode-lengths]
  m5  DW_FORM_data2 read as u8 (v5 directory_index)                    -> [C04:attr-data2], [C04:attr-len]
  m6  v2-4 directory loop pushes the terminating empty string          -> loop invariant [C04:header-dirs-v4]
  m7  DW_LNCT_timestamp stored into `size`                             -> loop invariant [C04:file-v5-timestamp]
  m8  file entries decoded with the DIRECTORY entry format             -> [C01:path-unwrap] precondition + [C04:header-files-v5]
  m9  `program_buf.skip(header_length)` dropped / m10 `rest.truncate(header_length)` dropped -> [C04:header-fields][C04:header-program]
  m11 parse_directory_v5 keys the path on DW_LNCT_directory_index      -> [C04:directory-v5][C01:path-unwrap]
  m12 LineSequence.start := end address                                -> [C04:sequence-bounds]
  m13 `instructions` cursor not advanced after a sequence              -> [C04:sequences-slices]
  m14 v2-4 file loop does not stop at the empty name                   -> [C04:header-files-v4]
  m15 v5 directories_count read as u8                                  -> [C04:header-dirs-v5]

Not decided here: the row-level functional statement (rows == iterate line_step) and with it "resuming a sequence yields
the rows of the straight run" beyond slices + fresh registers ([C04:resume] of batch line); start <= end of a sequence
(false on the pinned tree: F-line-3); LineProgramHeader accessors (directory(), file(), file_has_*); the Section /
borrow plumbing of DebugLine; acceptance (totality) of whole headers; llvm-dwarfdump agreement.  `sequences` has no canary
twin (its search hits the rlimit in the whole-module run; its only `requires` is the canary-guarded valid_line_hdr).
"""
import re
from lib import *
from batches import core
from batches import line
from batches import attrs

TRUSTED = list(line.TRUSTED) + ['verif_read_u8_array16']
VERUS_ARGS = ['--rlimit', '40']
RETRY_RLIMIT = 120
OWN = ['C01', 'C04']
M = 'read::line'


# ---------------------------------------------------------------------------------------------------------------------
# forms: ONE table (attrs.FORMS, written from DWARF 5 table 7.5/7.6 with numeric codes) generates the size functions
# (fixed_size / var_len / known_form of module aspec), the per-form clauses of unit.rs parse_attribute (batch attrs) and
# the per-form clauses of line.rs parse_attribute here.
def aspec_text():
    """module aspec = head of vx/specs/attrs.rs (cstr_len, ...) + the GENERATED size functions + form_len"""
    t = core.rd('specs/attrs.rs')
    a = t.find('/*GENERATED*/')
    b = t.find('/// offset just past an attribute of abbreviation form')
    c = t.find('/// DW_FORM_indirect (7.5.3)')
    d = t.find('/// Attributes that DWARF 2/3 allows to hold a section offset')
    if min(a, b, c, d) < 0 or not (c < d < a < b):
        raise Lost('specs/attrs.rs: layout markers not found')
    # without DW_FORM_indirect (no abbreviation in a line table) and without attrs_end (needs AttributeSpecification)
    return t[:c] + t[d:a] + attrs.gen_specs() + t[a + len('/*GENERATED*/'):b]


OFFSET_KINDS = dict(attrs.VARIANTS)


def form_conjuncts():
    """[(short name, code, spec expression over b0 / encoding / val)]: what an Ok result of line.rs parse_attribute for a
    field of that form is (DWARF 5 7.5.5, 7.5.6).  Differences to the DIE attribute decoder that follow from the context:
    no abbreviation (implicit_const has no value; indirect is not a content form), no attribute name (data4/data8 are
    always constants), DW_FORM_data16 (MD5) is handed out as a 16-byte view."""
    out = []
    for code, name, kind, pat, cons in attrs.FORMS:
        short = name[8:]
        if kind in ('indirect', 'implicit'):
            out.append((short, code, 'false'))
            continue
        if kind in ('data4', 'data8'):
            n = attrs.FIXED[kind]
            out.append((short, code, f'({{ let o = b0.u(0, {n}); val matches AttributeValue::Data{n}(x) && x as nat == o }})'))
            continue
        if name == 'DW_FORM_data16':
            out.append((short, code, '(val matches AttributeValue::Block(r) && window(b0, r.rv(), 0, 16))'))
            continue
        var = re.match(r'AttributeValue::(\w+)', pat).group(1)
        k = OFFSET_KINDS[var]
        if k == 'off' or k.startswith('wo:'):
            if cons != attrs.OFF:
                raise Lost(f'attrs.FORMS: unexpected constraint for {name}')
            cons = 'x.as_nat() == o'       # this batch is generic in Reader::Offset (no R-OFFSET)
        out.append((short, code, f'({{ let p = 0int; {attrs.operand_lets(kind)} (val matches {pat} && ({cons})) }})'))
    return out


def attr_ok_text():
    body = '\n'.join(f'    &&& form == {code:#x} ==> {expr}   // DW_FORM_{short}' for short, code, expr in form_conjuncts())
    return f'''/// GENERATED from attrs.FORMS: `val` is the decoded value of the field of form `form` at the read position of b0
pub open spec fn line_attr_ok<R: Reader<Offset = Offset>, Offset: ReaderOffset>(b0: RView, encoding: Encoding, form: nat, val: AttributeValue<R, Offset>) -> bool {{
{body}
    &&& known_form(form)
}}
'''


# DWARF 5 6.2.4.1: forms a producer may use for the standard content types (path: string/line_strp/strp/strp_sup and, in
# split units, strx*; directory_index: data1/data2/udata; timestamp: udata/data4/data8/block; size: udata/data1/2/4/8;
# MD5: data16).  A complete, well-formed field of one of these must decode (totality; where the reader primitives have an
# exact error condition in the contract layer).
STD_LINE_FORMS = ['DW_FORM_string', 'DW_FORM_line_strp', 'DW_FORM_strp', 'DW_FORM_strp_sup', 'DW_FORM_strx', 'DW_FORM_strx1',
                  'DW_FORM_strx2', 'DW_FORM_strx3', 'DW_FORM_strx4', 'DW_FORM_data1', 'DW_FORM_data2', 'DW_FORM_data4',
                  'DW_FORM_data8', 'DW_FORM_data16', 'DW_FORM_udata', 'DW_FORM_block']


def attr_clauses():
    out = []
    for short, code, expr in form_conjuncts():
        view = '[C10:view]' if 'window' in expr else ''
        out.append(f'[C04:attr-{short}]{view} res matches Ok(val) ==> ({{ let b0 = old(input).rv(); form.0 == {code:#x} ==> {expr} }})')
    out.append('[C04:attr-unknown-form] !known_form(form.0 as nat) ==> res is Err')
    out.append('res matches Ok(val) ==> line_attr_ok(old(input).rv(), encoding, form.0 as nat, val)')
    out.append('[C04:attr-len] res is Ok ==> adv(old(input).rv(), final(input).rv(), form_len(old(input).rv(), encoding, form.0 as nat, 0))')
    for c in attrs.total_clauses():
        m = re.match(r'\[C03:decode-total-(\w+)\] spec\.sform\(\)\.0 == ', c)
        if 'DW_FORM_' + m.group(1) in STD_LINE_FORMS and 'sec_offset_attr' not in c:
            out.append(c.replace('[C03:decode-total-', '[C04:attr-total-').replace('spec.sform().0 ==', 'form.0 =='))
    for n in (4, 8):
        out.append(f'[C04:attr-total-data{n}] form.0 == {0x06 if n == 4 else 0x07:#x} ==> (old(input).rv().len >= {n} ==> res is Ok)')
    out.append('[C01:frame] within(old(input).rv(), final(input).rv())')
    return out



def header_clauses(h):
    """[(tags, spec expression over b0 (view at the unit_length field), given (address size passed in), h (the header))]:
    what an Ok result of LineProgramHeader::parse is, field by field and table by table (DWARF 5 6.2.4 / DWARF 2-4 6.2.4)"""
    TV = 'lp_tables(b0)'
    ND = f'{h}.include_directories@.len() as int'
    FV4 = f'view_at({TV}, strs_len({TV}, {ND}) as int + 1)'
    DV5 = f'entries_view({TV})'
    FV5 = f'view_at({DV5}, entries_len({DV5}, {h}.encoding, {h}.directory_entry_format@, {ND}) as int)'
    V4, V5 = 'lp_version(b0) <= 4', 'lp_version(b0) >= 5'
    return [
        # the fixed part: every field is the encoded field, the rejected values are absent (lp_fixed_ok, specs/line_hdr.rs)
        ('[C04:header-fields][C04:header-opcode-lengths][C04:header-program][C10:view]',
         f'lp_fixed_ok(b0, given, {h}.encoding, {h}.unit_length.as_nat(), {h}.header_length.as_nat(), {h}.line_encoding, {h}.opcode_base, {h}.sol(), {h}.program_view())'),
        ('[C04:header-valid][C01:header-valid]', f'valid_line_hdr({h}.lh())'),
        ('[C04:header-machine]', f'{h}.lh() == lp_lh(b0, given)'),
        ('[C04:header-dirs-v4][C10:view]', f'{V4} ==> dirs_v4_ok({TV}, {h}.include_directories@) && table_end_v4({TV}, strs_len({TV}, {ND}) as int) && {h}.directory_entry_format@.len() == 0'),
        ('[C04:header-files-v4][C10:view]', f'{V4} ==> files_v4_ok({FV4}, {h}.file_names@) && table_end_v4({FV4}, files_v4_len({FV4}, {h}.file_names@.len() as int) as int) && {h}.file_name_entry_format@.len() == 0'),
        ('[C04:header-dir-format-v5]', f'{V5} ==> fmts_ok({TV}, {h}.directory_entry_format@)'),
        ('[C04:header-dirs-v5][C10:view]', f'{V5} ==> {h}.include_directories@.len() == entries_count({TV}) && dirs_v5_ok({DV5}, {h}.encoding, {h}.directory_entry_format@, {h}.include_directories@)'),
        ('[C04:header-file-format-v5]', f'{V5} ==> fmts_ok({FV5}, {h}.file_name_entry_format@)'),
        ('[C04:header-files-v5][C10:view]', f'{V5} ==> {h}.file_names@.len() == entries_count({FV5}) && files_v5_ok(entries_view({FV5}), {h}.encoding, {h}.file_name_entry_format@, {h}.file_names@)'),
    ]


def parsed_from_text():
    body = '\n'.join(f'        &&& ({b})   // {tags}' for tags, b in header_clauses('self'))
    return f"""    /// this header is the decoding of the line number program header that starts at the read position of b0
    /// (`given`: the address size passed in for versions 2-4): the conjunction of the tagged clauses of `parse`
    pub closed spec fn parsed_from(&self, b0: RView, given: u8) -> bool {{
{body}
    }}
    /// what the line number machine requires follows from what the parser ensures
    pub proof fn lemma_parsed_valid(&self, b0: RView, given: u8)
        requires self.parsed_from(b0, given)
        ensures valid_line_hdr(self.lh()), self.lh() == lp_lh(b0, given), self.program_view() == lp_program(b0), self.sol() == lp_sol(b0), lp_fits(b0)
    {{
        lemma_fixed_valid(b0, given, self.encoding, self.unit_length.as_nat(), self.header_length.as_nat(), self.line_encoding, self.opcode_base, self.sol(), self.program_view());
    }}
"""


SEQ_SPEC = """
/// position just past the last sequence (the start of the program if there is none)
pub open spec fn seqs_end<R: Reader>(pv: RView, s: Seq<LineSequence<R>>) -> nat {
    if s.len() == 0 { pv.start } else { s.last().iv().start + s.last().iv().len }
}
/// the instruction slices of the sequences tile the window [pv.start, upto) of the program view pv: in order, no gaps,
/// no overlaps, each at least one byte long
pub open spec fn seqs_tile<R: Reader>(pv: RView, s: Seq<LineSequence<R>>, upto: nat) -> bool {
    &&& forall|i: int| 0 <= i < s.len() ==> inside(pv, (#[trigger] s[i]).iv()) && s[i].iv().len >= 1
    &&& s.len() > 0 ==> s[0].iv().start == pv.start
    // (two-trigger form: instantiated only for index terms that already exist - no matching loop through s[i - 1])
    &&& forall|i: int, j: int| 0 <= i && j == i + 1 && j < s.len() ==> (#[trigger] s[j]).iv().start == (#[trigger] s[i]).iv().start + s[i].iv().len
    &&& upto == seqs_end(pv, s)
}
"""


def strengthen_next_row(sk):
    """`sequences` hands the cursor of the row iterator to `remove_trailing`, whose precondition needs the cursor to have
    moved FORWARD inside the same buffer.  Batch line's contract of `LineRows::next_row` exports root and length only; one
    frame clause (and its loop invariant) is added to that item here - inside its contract insertion, so the provenance
    check of the item is unaffected - and is proved with the rest of next_row in this batch."""
    for item, label, owners in sk.mods[M]['chunks']:
        if isinstance(item, Item) and item.label == 'LineRows':
            a1 = '    final(self).wf(), // [C04:rows-wf]\n'
            a2 = 'self.instructions.iv().root == old(self).instructions.iv().root, '
            if item.text.count(a1) < 1 or item.text.count(a2) < 1:
                raise Lost('line.LineRows::next_row: contract anchors not found')
            item.text = item.text.replace(a1, a1 + '    !(res is Err) ==> within(old(self).instrs(), final(self).instrs()), // [C01:frame]\n', 1)
            item.text = item.text.replace(a2, a2 + 'within(old(self).instructions.iv(), self.instructions.iv()), ', 1)
            return
    raise Lost('line.LineRows item not found')

GHOST_IMPLS = '''
impl<R, Offset> FileEntry<R, Offset>
where
    R: Reader<Offset = Offset>,
    Offset: ReaderOffset,
{
    pub closed spec fn md5_v(&self) -> [u8; 16] { self.md5 }
}
'''

# R-U8ARRAY: `Reader::read_u8_array::<[u8; 16]>()` (generic over `A: Default + AsMut<[u8]>`, dropped from the trait by
# batch core: outside Verus) is replaced by its instantiation at [u8; 16]
READ_MD5 = '''
/// R-U8ARRAY: `Reader::read_u8_array::<[u8; 16]>` = `let mut val = Default::default(); self.read_slice(val.as_mut())?; Ok(val)`
#[verifier::external_body]
pub fn verif_read_u8_array16<R: Reader>(r: &mut R) -> (res: Result<[u8; 16]>)
    ensures
        res matches Ok(a) ==> adv(old(r).rv(), final(r).rv(), 16) && (forall|k: int| 0 <= k < 16 ==> a[k] == old(r).rv().at(k)),
        res is Err ==> unch(old(r).rv(), final(r).rv()),
        res is Err <==> old(r).rv().len < 16,
{
    let mut val = [0u8; 16];
    r.read_slice(&mut val)?;
    Ok(val)
}
'''


def populate(ctx, sk):
    ln = Source('read/line.rs', ctx)
    sk.add('constants', attrs.derived_eq('DwLnct'), label='derived-eq')
    sk.module('aspec', 'use crate::vspec::*;')
    sk.add('aspec', aspec_text(), label='aspec')
    sk.module(M, '''use crate::common::*;
use crate::read::{Expression, UnitOffset};
use crate::aspec::*;''')
    sk.add(M, GHOST_IMPLS, label='ghost-accessors')
    sk.add(M, core.rd('specs/line_hdr.rs').replace('/*ATTR_OK*/', attr_ok_text()), label='vspec_line_hdr', owners=OWN)
    sk.add(M, READ_MD5, label='verif_read_u8_array16')

    B0 = 'old(input).rv()'
    FIN = 'final(input).rv()'

    # ---- FileEntryFormat::parse (6.2.4.1 items 9/10 and 11/12 of the v5 header)
    ff = ln.item(r'^impl FileEntryFormat \{', label='FileEntryFormat')
    ff.custom('R-CLOSURE', 'for _ in 0..format_count {', 'for _verif_i in 0..format_count {')
    ff.clean(offset=False)
    ff.own(OWN)
    ff.splice('parse', ret='res', ensures=[
        # for EVERY format_count, 0 included: an Ok result has exactly one DW_LNCT_path descriptor
        f'[C04:entry-format][C01:entry-format-one-path] res matches Ok(v) ==> v@.len() == {B0}.at(0) && one_path(v@)',
        f'[C04:entry-format-fields] res matches Ok(v) ==> forall|i: int| 0 <= i < v@.len() ==> fmt_entry_ok({B0}, i, #[trigger] v@[i])',
        f'[C04:entry-format-len] res is Ok ==> adv({B0}, {FIN}, 1 + lebs_len({B0}, 1, (2 * {B0}.at(0)) as nat))',
        f'[C01:frame] within({B0}, {FIN})'],
        loops={0: f'''invariant
                old(input).rv().len >= 1, format_count == {B0}.at(0),
                adv({B0}, input.rv(), 1 + lebs_len({B0}, 1, (2 * _verif_i) as nat)), // [C04:entry-format-len]
                format@.len() == _verif_i, // [C04:entry-format]
                forall|i: int| 0 <= i < _verif_i ==> fmt_entry_ok({B0}, i, #[trigger] format@[i]), // [C04:entry-format-fields]
                0 <= path_count <= _verif_i,
                path_count == count_ct(format@, lnct_path(), _verif_i as int), // [C04:entry-format][C01:entry-format-one-path]'''},
        before=[('let content_type = input.read_uleb128()?;', 'proof { reveal_with_fuel(lebs_len, 3); }'),
                ('format.push(FileEntryFormat { content_type, form });',
                 'proof { lemma_count_push(format@, FileEntryFormat { content_type, form }, lnct_path(), _verif_i as int); '
                 'assert forall|i: int| 0 <= i < _verif_i implies fmt_entry_ok(old(input).rv(), i, #[trigger] format@.push(FileEntryFormat { content_type, form })[i]) by { assert(format@.push(FileEntryFormat { content_type, form })[i] == format@[i]); } }')])
    sk.add(M, ff)

    # ---- parse_attribute (line-table variant of the form decoder)
    pa = ln.item(r'^fn parse_attribute<').clean(offset=False)
    pa.splice('parse_attribute', ret='res', ensures=attr_clauses(), owners=OWN,
              before=[('let string = input.read_null_terminated_slice()?;', 'let ghost v0 = input.rv();')],
              after=[('let string = input.read_null_terminated_slice()?;', 'proof { lemma_cstr_len0(v0, string.rv().len); }')])
    sk.add(M, pa)

    # ---- parse_directory_v5 / parse_file_v5
    ONE = '[C01:path-unwrap] one_path(formats@)'
    N = 'formats@.len() as int'
    FL = lambda j: f'fields_len({B0}, encoding, formats@, {j})'
    pd = ln.item(r'^fn parse_directory_v5<')
    pd.clean(offset=False)
    pd.insert_after('for format in ', 'it: ')
    pd.splice('parse_directory_v5', ret='res', owners=OWN, canary=True, requires=[ONE], ensures=[
        f'[C04:directory-v5] res matches Ok(p) ==> fe_path_ok({B0}, encoding, formats@, p)',
        f'[C04:directory-v5-len] res is Ok ==> adv({B0}, {FIN}, {FL(N)})',
        f'[C01:frame] within({B0}, {FIN})'],
        loops={0: f'''invariant
                adv({B0}, input.rv(), {FL('it.index as int')}), // [C04:directory-v5-len]
                ({{ let j = last_ct(formats@, lnct_path(), it.index as int);
                   if j < 0 {{ path_name is None }} else {{ path_name matches Some(x) && line_attr_ok(field_view({B0}, encoding, formats@, j), encoding, formats@[j].form.0 as nat, x) }} }}), // [C04:directory-v5][C01:path-unwrap]'''},
        before=[('Ok(path_name.unwrap())', f'proof {{ lemma_count_last(formats@, lnct_path(), {N}); }}')])
    sk.add(M, pd)

    pf = ln.item(r'^fn parse_file_v5<')
    # R-U8ARRAY (see READ_MD5): the generic `read_u8_array::<[u8; 16]>` at its only instantiation
    pf.custom('R-U8ARRAY', 'md5 = value.read_u8_array()?;', 'md5 = verif_read_u8_array16(&mut value)?;')
    pf.clean(offset=False)
    pf.insert_after('for format in ', 'it: ')
    NUM = lambda ct, j: f'num_upto({B0}, encoding, formats@, {ct}, {j})'
    IDX = 'it.index as int'
    pf.splice('parse_file_v5', ret='res', owners=OWN, canary=True, requires=[ONE], ensures=[
        f'[C04:file-v5-path] res matches Ok(e) ==> fe_path_ok({B0}, encoding, formats@, e.path_v())',
        f'[C04:file-v5-directory-index] res matches Ok(e) ==> e.dir_v() as nat == {NUM("lnct_directory_index()", N)}',
        f'[C04:file-v5-timestamp] res matches Ok(e) ==> e.time_v() as nat == {NUM("lnct_timestamp()", N)}',
        f'[C04:file-v5-size] res matches Ok(e) ==> e.size_v() as nat == {NUM("lnct_size()", N)}',
        f'[C04:file-v5-md5] res matches Ok(e) ==> fe_md5_ok({B0}, encoding, formats@, e.md5_v())',
        f'[C04:file-v5-source] res matches Ok(e) ==> fe_source_ok({B0}, encoding, formats@, e.source_v())',
        f'res matches Ok(e) ==> file_v5_ok({B0}, encoding, formats@, e)',
        f'[C04:file-v5-len] res is Ok ==> adv({B0}, {FIN}, {FL(N)})',
        f'[C01:frame] within({B0}, {FIN})'],
        loops={0: f'''invariant
                adv({B0}, input.rv(), {FL(IDX)}), // [C04:file-v5-len]
                ({{ let j = last_ct(formats@, lnct_path(), {IDX});
                   if j < 0 {{ path_name is None }} else {{ path_name matches Some(x) && line_attr_ok(field_view({B0}, encoding, formats@, j), encoding, formats@[j].form.0 as nat, x) }} }}), // [C04:file-v5-path][C01:path-unwrap]
                ({{ let j = last_ct(formats@, lnct_llvm_source(), {IDX});
                   if j < 0 {{ source is None }} else {{ source matches Some(x) && line_attr_ok(field_view({B0}, encoding, formats@, j), encoding, formats@[j].form.0 as nat, x) }} }}), // [C04:file-v5-source]
                directory_index as nat == {NUM("lnct_directory_index()", IDX)}, // [C04:file-v5-directory-index]
                timestamp as nat == {NUM("lnct_timestamp()", IDX)}, // [C04:file-v5-timestamp]
                size as nat == {NUM("lnct_size()", IDX)}, // [C04:file-v5-size]
                ({{ let m = md5_upto({B0}, encoding, formats@, {IDX});
                   if m < 0 {{ forall|k: int| 0 <= k < 16 ==> md5[k] == 0 }} else {{ forall|k: int| 0 <= k < 16 ==> md5[k] == {B0}.at(m + k) }} }}), // [C04:file-v5-md5]'''},
        before=[('Ok(FileEntry {', f'proof {{ lemma_count_last(formats@, lnct_path(), {N}); }}')])
    sk.add(M, pf)

    # ---- LineProgramHeader::parse
    hp = ln.item(r'^impl<R, Offset> LineProgramHeader<R, Offset>', label='LineProgramHeader(parse)')
    hp.keep_only(['parse'])
    hp.custom('R-CLONE', 'let mut program_buf = rest.clone();', 'let mut program_buf = reader_clone(rest);')
    # same as R-CLOSURE: the wildcard loop variable gets a name so that the loop invariants can count entries
    hp.custom('R-CLOSURE', 'for _ in 0..count {', 'for _verif_i in 0..count {', count=2)
    hp.clean(offset=False)
    hp.own(OWN)
    HB0 = 'old(input).rv()'
    FIX = ('lp_fixed_ok(b0, given, encoding, unit_length.as_nat(), header_length.as_nat(), line_encoding, opcode_base, '
           'standard_opcode_lengths.rv(), program_buf.rv()), b0 == old(input).rv(), adv(b0, input.rv(), il_size(b0) + il_len(b0)), tv == lp_tables(b0)')
    hp.insert_members(parsed_from_text())
    # the table predicates are atoms in the straight-line part of `parse` (revealed inside the four table loops)
    hp.insert_after(') -> Result<LineProgramHeader<R, Offset>> {', '\n        hide(dirs_v4_ok); hide(files_v4_ok); hide(dirs_v5_ok); hide(files_v5_ok);')
    # closure contract (inserted text, verified against the closure body): Verus does not infer closure postconditions
    ZERO_ENTRY = ('e.path_v() == AttributeValue::<R, Offset>::String(name) && e.dir_v() == 0 && e.time_v() == 0 && e.size_v() == 0 '
                  '&& e.source_v() is None && (forall|k: int| 0 <= k < 16 ==> e.md5_v()[k] == 0)')
    hp.insert_after('                source: None,\n            }', ' }')
    hp.insert_after('comp_name.map(|name', ': R')
    hp.insert_before('FileEntry {\n                path_name: AttributeValue::String(name),', f'-> (e: FileEntry<R, Offset>) ensures {ZERO_ENTRY} {{ ')
    # (spinoff_prover: a fresh solver instance for this function - its cost then does not depend on what the shared
    # instance has seen from the other 90 functions of the module; measured 75-90M rlimit units instead of 170M)
    hp.splice('parse', ret='res', attrs='#[verifier::spinoff_prover]', requires=[
        # versions 2-4 have no address_size field: the caller passes the address size of the unit (validated by the unit
        # header parser).  DebugLine::program documents "must match the compilation unit"; see observation O-line-hdr-1
        '[C04:address-size-pre] valid_address_size(address_size)'],
        ensures=[f'{tags} res matches Ok(h) ==> ({{ let b0 = {HB0}; let given = address_size; {body} }})' for tags, body in header_clauses('h')] + [
        f'[C04:header-offset] res matches Ok(h) ==> h.offset == offset',
        # versions 2-4 number directories and files from 1; entry 0 is the unit's DW_AT_comp_dir / DW_AT_name, passed in by
        # the caller.  Version 5 tables carry entry 0 themselves.
        f'[C04:header-comp] res matches Ok(h) ==> (lp_version({HB0}) >= 5 ==> h.comp_dir is None && h.comp_file is None) && (lp_version({HB0}) <= 4 ==> h.comp_dir == comp_dir && '
        f'(match comp_name {{ None => h.comp_file is None, Some(name) => h.comp_file matches Some(e) && {ZERO_ENTRY} }}))',
        f'res matches Ok(h) ==> h.parsed_from({HB0}, address_size)',
        f'[C04:header-consumed] res is Ok ==> adv({HB0}, {FIN}, il_size({HB0}) + il_len({HB0}))',
        f'[C01:frame] within({HB0}, {FIN})'],
        before=[('let (unit_length, format) = input.read_initial_length()?;', 'let ghost b0 = input.rv(); let ghost given = address_size; let ghost tv = lp_tables(b0);'),
                ('let minimum_instruction_length = rest.read_u8()?;', 'proof {\n assert(header_length.as_nat() == lp_header_length(b0) && rest.rv() == lp_hdr(b0) && program_buf.rv() == lp_program(b0)); // [C04:header-fields][C04:header-program]\n }'),
                ('if maximum_operations_per_instruction == 0 {', 'proof {\n assert(minimum_instruction_length as int == lp_lh(b0, given).min_inst_len && maximum_operations_per_instruction as int == lp_lh(b0, given).max_ops '
                 '&& rest.rv() == view_at(lp_hdr(b0), lp_q(b0))); // [C04:header-fields]\n }'),
                ('if opcode_base == 0 {', 'proof {\n assert(line_encoding.default_is_stmt == lp_lh(b0, given).default_is_stmt && line_encoding.line_base as int == lp_lh(b0, given).line_base '
                 '&& line_encoding.line_range as int == lp_lh(b0, given).line_range && opcode_base as int == lp_lh(b0, given).opcode_base && rest.rv() == view_at(lp_hdr(b0), lp_q(b0) + 4)); // [C04:header-fields]\n }'),
                ('let directory = rest.read_null_terminated_slice()?;', 'let ghost vb = rest.rv(); proof { reveal(dirs_v4_ok); }'),
                ('include_directories.push(parse_directory_v5(', 'proof { reveal(dirs_v5_ok); }'),
                ('file_names.push(parse_file_v5(', 'proof { reveal(files_v5_ok); }'),
                ('let comp_file;', 'let ghost fv = rest.rv();'),
                ('let path_name = rest.read_null_terminated_slice()?;', 'let ghost vb = rest.rv(); proof { reveal(files_v4_ok); }'),
                ('let header = LineProgramHeader {', 'proof { lemma_fixed_valid(b0, given, encoding, unit_length.as_nat(), header_length.as_nat(), line_encoding, opcode_base, standard_opcode_lengths.rv(), program_buf.rv()); }')],
        after=[('directory_entry_format = Vec::new();', 'proof { lemma_dirs_v4_empty(tv, include_directories@); }'),
               ('directory_entry_format = FileEntryFormat::parse(rest)?;', 'proof { lemma_dirs_v5_empty(entries_view(tv), encoding, directory_entry_format@, include_directories@); }'),
               ('file_name_entry_format = Vec::new();', 'proof { lemma_files_v4_empty(fv, file_names@); }'),
               ('file_name_entry_format = FileEntryFormat::parse(rest)?;', 'proof { lemma_files_v5_empty(entries_view(fv), encoding, file_name_entry_format@, file_names@); }'),
               ('let standard_opcode_lengths = rest.split(standard_opcode_count)?;',
                # mid-point obligations (a failed assert is assumed afterwards, so they carry the tags of the clauses they feed)
                'proof {\n assert(standard_opcode_lengths.rv() == lp_sol(b0) && rest.rv() == lp_tables(b0)); // [C04:header-opcode-lengths]\n'
                ' assert(lp_fixed_def(b0, given, encoding, unit_length.as_nat(), header_length.as_nat(), line_encoding, opcode_base, standard_opcode_lengths.rv(), program_buf.rv())); // [C04:header-fields][C04:header-valid]\n'
                ' lemma_fixed_intro(b0, given, encoding, unit_length.as_nat(), header_length.as_nat(), line_encoding, opcode_base, standard_opcode_lengths.rv(), program_buf.rv());\n }'),
               # stepping stones: the three nested windows (unit, header proper, program)
               ('let rest = &mut input.split(unit_length)?;', 'proof {\n assert(rest.rv() == lp_unit(b0) && il_size(b0) + il_len(b0) <= b0.len && format == il_format(b0) && unit_length.as_nat() == il_len(b0)); // [C04:header-fields]\n }'),

               ('let directory = rest.read_null_terminated_slice()?;', 'proof { lemma_cstr_len0(vb, directory.rv().len); }'),
               ('let path_name = rest.read_null_terminated_slice()?;', 'proof { lemma_cstr_len0(vb, path_name.rv().len); }')],
        loops={0: f'''invariant_except_break
                adv(tv, rest.rv(), strs_len(tv, include_directories@.len() as int)), // [C04:header-dirs-v4]
            invariant
                {FIX}, encoding.version <= 4,
                directory_entry_format@.len() == 0,
                dirs_v4_ok(tv, include_directories@), // [C04:header-dirs-v4]
            ensures
                adv(tv, rest.rv(), strs_len(tv, include_directories@.len() as int) + 1), // [C04:header-dirs-v4]
                table_end_v4(tv, strs_len(tv, include_directories@.len() as int) as int), // [C04:header-dirs-v4]
            decreases rest.rv().len''',
               1: f'''invariant
                {FIX}, encoding.version >= 5,
                fmts_ok(tv, directory_entry_format@), // [C04:header-dir-format-v5]
                count as nat == entries_count(tv), // [C04:header-dirs-v5]
                adv(entries_view(tv), rest.rv(), entries_len(entries_view(tv), encoding, directory_entry_format@, _verif_i as int)), // [C04:header-dirs-v5]
                include_directories@.len() == _verif_i,
                dirs_v5_ok(entries_view(tv), encoding, directory_entry_format@, include_directories@), // [C04:header-dirs-v5]''',
               2: f'''invariant_except_break
                adv(fv, rest.rv(), files_v4_len(fv, file_names@.len() as int)), // [C04:header-files-v4]
            invariant
                {FIX}, encoding.version <= 4,
                file_name_entry_format@.len() == 0,
                files_v4_ok(fv, file_names@), // [C04:header-files-v4]
            ensures
                table_end_v4(fv, files_v4_len(fv, file_names@.len() as int) as int), // [C04:header-files-v4]
            decreases rest.rv().len''',
               3: f'''invariant
                {FIX}, encoding.version >= 5,
                fmts_ok(fv, file_name_entry_format@), // [C04:header-file-format-v5]
                count as nat == entries_count(fv), // [C04:header-files-v5]
                adv(entries_view(fv), rest.rv(), entries_len(entries_view(fv), encoding, file_name_entry_format@, _verif_i as int)), // [C04:header-files-v5]
                file_names@.len() == _verif_i,
                files_v5_ok(entries_view(fv), encoding, file_name_entry_format@, file_names@), // [C04:header-files-v5]'''})
    sk.add(M, hp)

    # ---- DebugLine::program (the public entry point: header at `offset` of .debug_line)
    sk.add(M, ln.item(r'^pub struct DebugLine<R>').clean(offset=False))
    dl = ln.item(r'^impl<R: Reader> DebugLine<R> \{', label='DebugLine')
    dl.custom('R-CLONE', 'self.debug_line_section.clone()', 'reader_clone(&self.debug_line_section)')
    dl.clean(offset=False)
    dl.own(OWN)
    dl.insert_members('    /// ghost: the .debug_line section\n    pub closed spec fn sv(&self) -> RView { self.debug_line_section.rv() }')
    AT = 'view_at(self.sv(), offset.0.as_nat() as int)'
    dl.splice('program', ret='res', canary=True, requires=['[C04:address-size-pre] valid_address_size(address_size)'], ensures=[
        f'[C04:program-header] res matches Ok(p) ==> offset.0.as_nat() <= self.sv().len && p.hdr().parsed_from({AT}, address_size)',
        # what IncompleteLineProgram::rows / sequences and the whole machine of batch `line` require
        '[C04:header-valid][C01:header-valid] res matches Ok(p) ==> valid_line_hdr(p.hdr().lh())',
        f'[C04:program-view][C10:view] res matches Ok(p) ==> p.hdr().program_view() == lp_program({AT}) && inside(self.sv(), p.hdr().program_view())'],
        before=[('let header = LineProgramHeader::parse(', 'let ghost hv = input.rv();'),
                ('let program = IncompleteLineProgram { header };', 'proof { header.lemma_parsed_valid(hv, address_size); }')])
    sk.add(M, dl)

    # ---- IncompleteLineProgram::sequences (the loop batch `line` left undecided)
    strengthen_next_row(sk)
    sk.add(M, SEQ_SPEC, label='seqs_tile')
    sq = ln.item(r'^impl<R, Offset> IncompleteLineProgram<R, Offset>', label='IncompleteLineProgram(sequences)')
    sq.keep_only(['sequences'])
    sq.custom('R-CLONE', 'rows.instructions.clone()', 'instructions_clone(&rows.instructions)', count=2)
    sq.clean(offset=False)
    sq.own(OWN)
    PV = 'self.hdr().program_view()'
    sq.splice('sequences', ret='res', requires=['[C04:valid-header] valid_line_hdr(self.hdr().lh())'], ensures=[
        # DW_LNE_define_file may have appended to the file table; nothing else of the header changes
        '[C04:sequences-header] res matches Ok(p) ==> (&p.0).hdr().same_but_files(&self.hdr())',
        # "instructions = the slice between the two cursor positions": the sequences tile a prefix of the program, in order,
        # without gaps or overlaps, each at least one instruction (its DW_LNE_end_sequence) long
        f'[C04:sequences-slices][C10:view] res matches Ok(p) ==> seqs_tile({PV}, p.1@, seqs_end({PV}, p.1@))'],
        before=[('let mut sequences = Vec::new();', 'let ghost pv = self.hdr().program_view(); let ghost h0 = self.hdr();'),
                ('let row = &rows.row;', 'proof { trace = trace.push(rows.row_regs()); }'),
                ('sequences.push(LineSequence {', 'let ghost cut = rows.instrs().start;'),
                ('sequence_start_addr = None;\n            instructions =',
                 # mid-point obligation: "each sequence's reported address bounds are its first and end addresses", over the
                 # rows next_row handed out since the previous sequence ended (trace)
                 'proof {\n assert(({ let s = sequences@.last(); let n = trace.len() as int; n >= 1 && trace[n - 1].end_sequence && s.end as int == trace[n - 1].address '
                 '&& (forall|i: int| 0 <= i < n - 1 ==> !(#[trigger] trace[i]).end_sequence) && s.start as int == (if n >= 2 { trace[0].address } else { 0 }) '
                 '&& s.iv().start + s.iv().len == cut })); // [C04:sequence-bounds]\n trace = Seq::empty();\n }')],
        after=[('let mut sequence_start_addr = None;', 'let ghost mut trace: Seq<LineRegs> = Seq::empty();')],
        loops={0: '''invariant
                rows.wf(), rows.prog().hdr().same_but_files(&h0),
                within(pv, rows.instrs()), within(pv, instructions.iv()), instructions.iv().start <= rows.instrs().start,
                seqs_tile(pv, sequences@, instructions.iv().start), // [C04:sequences-slices]
                forall|i: int| 0 <= i < trace.len() ==> !(#[trigger] trace[i]).end_sequence && 0 <= trace[i].address <= 0xffff_ffff_ffff_ffff, // [C04:sequence-bounds]
                sequence_start_addr == (if trace.len() == 0 { None::<u64> } else { Some(trace[0].address as u64) }), // [C04:sequence-bounds]
            decreases rows.instrs().len'''})
    sk.add(M, sq)
    return sk


def build(ctx):
    sk = Skeleton(ctx, core.rd('prelude/crate.rs'))
    core.populate(ctx, sk)
    line.populate(ctx, sk)
    populate(ctx, sk)
    return sk
