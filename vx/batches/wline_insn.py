"""B-wline-insn: write::line, the BYTE LEVEL of the line-program writer (DESIGN.md 6 C13 "V `LineInstruction::write` <->
`read::LineInstruction::parse` per instruction (emit_trace for `SetAddress`)", the carrier batch `wline` left "not started";
C18 for the two relocatable fields).  Build = core.populate; wcore.populate; populate.  Source: /repo/src/write/line.rs.

THE TABLE.  `INSNS` below maps every variant of the writer's `enum LineInstruction` to the encoding DWARF 5 section 6.2.5
prescribes: special opcode = the single byte; standard opcode (6.2.5.2) = opcode byte + operands (ULEB128 / SLEB128 / the one
uhalf of DW_LNS_fixed_advance_pc); extended opcode (6.2.5.3) = `0x00, ULEB128 length, sub-opcode, operands` where the length
counts the sub-opcode byte and the operand bytes EXACTLY.  The per-variant FIELD contracts of `LineInstruction::write` (in the
field log of wcore: `WOp`, `emitted*`), the size function `insn_size` and the length operand are GENERATED from it.
The table is CROSS-CHECKED MECHANICALLY AT BUILD TIME (`cross_check`, a disagreement raises TableMismatch = Lost = exit 2):
  * against the READER's decode table of batch `line` (`line.STD_OPS` / `line.decode_bodies()`, from which the postconditions
    of `read::LineInstruction::parse` are generated): every standard opcode is a row of STD_OPS with the same operand KIND
    and the same decoded machine instruction (`LineOp::X`); its value (constants.rs) is its 1-based row number of 6.2.5.2 and
    is below the OPCODE_BASE the writer puts in the header (else the reader decodes a special opcode); every extended opcode
    has a clause tagged `C04:decode-<name>` selecting on `w.at(0) == constants::<name>.0`, decoding to the same `LineOp`, with the
    operand where this table puts it (set_address: `w.u(1, address_size)`, set_discriminator: `sub_view(w, 1, n - 1).uleb(0)`),
    and the framing clause `C04:decode-extended-length` is `0, n = uleb(1), consumed = 1 + leb_len(1) + n`;
  * against the writer-side SEMANTIC model of batch `wline` (`wl_op` in wline.ADAPTERS: writer instruction -> machine
    instruction, against which generate_row's opcode choice is stated): same `LineOp` constructor, same operand expression
    (SetFile: the file REGISTER value `reg(version)`, SetAddress: `wl_address`);
  * against the source: the variants of `enum LineInstruction` are exactly the non-optional rows (the optional row
    `FixedAddPc` = DW_LNS_fixed_advance_pc, which gimli's writer does not have, is generated only if the variant appears).
So "the reader decodes what the writer meant" holds by construction of the three tables; each side is verified against its own.

FUNCTIONS UNDER CONTRACT (real text, owner C13)
  LineInstruction::write     [C13:insn-<variant>] (15) fields per variant, `SetAddress` operand = relocatable `WOp::Address`
                             [C18:line-set-address]; [C13:insn-len] len grows by exactly insn_size; [C13:insn-frame]
  LineString::write / form   [C13:string-inline] bytes + NUL, [C13:string-strp] / [C13:string-line-strp] `.debug_str` /
                             `.debug_line_str` reference through the relocatable `write_offset` [C18:line-string-ref] with the
                             offset the string table reports, word size of the format; [C13:string-form-mismatch],
                             [C13:string-ref-needs-v5] (exact error values, nothing written), [C13:string-len], [C13:string-form]
  FileId::{raw, new, index, initial_state}   as in wline ([C13:file-id-raw]: 1-based for version <= 4, 0-based for 5)
  DebugLine<W>::{offset, deref, deref_mut}   define_section! expanded mechanically (R-MACRO)
  leb128::write::Leb128::unsigned            wcore's item, STRENGTHENED here from outside (insertions only, provenance intact):
                             [C13:leb-bytes] the bytes are `uleb_bytes(val)` = byte j is bits 7j..7j+6 of val, continuation bit
                             set iff higher bits remain (DWARF 5 7.6, closed form, no recursion), PROVED on the real loop.
                             This is what makes the DW_LNE_set_discriminator operand (written with `w.write(val.bytes())`, a
                             `WOp::Bytes` field) content-exact and not only length-exact.
ASSUMED (TRUSTED)
  `offset` (StringTable::offset, LineStringTable::offset): MODEL of the two string tables (IndexSet + Vec of offsets, outside
  Verus; wunit's model text): `offset(id)` is a function of (table, id) (`off`).  + wcore's/core's.
  Helper precondition A-MEM [C13:insn-file-pre]: `SetFile(f)`: `f.reg(version) <= u64::MAX` (`self.0 as u64 + 1` in FileId::raw;
  ids are indices into an in-memory IndexMap).  `debug_assert!(!val.is_empty())` of LineString::write (version <= 4) is the
  documented precondition of add_directory/add_file, stated as [C13:string-nonempty-pre].
NOT DECIDED
  * `LineProgram::write` (header, directory/file tables, the loop over `instructions`, the two length patches): IndexMap /
    IndexSet iteration and a capturing closure (`write_file`) are outside Verus; therefore also FileInfo emission (timestamp /
    size / MD5 / source are written inside that closure: NOT a separable function) and that the header's
    standard_opcode_lengths literal `[0,1,1,1,1,0,0,0,1,0,0,1]` matches the operand counts of STD_OPS.
  * That `Special(op)` has `opcode_base <= op`: the field contract is "the single byte"; the range is wline's
    [C13:special-range] (`line_ops_wf`) on everything generate_row/end_sequence push.
  * That inline strings contain no NUL (asserted by add_directory/add_file with `contains`, not extracted).
  * That the bytes of a `Uleb`/`Sleb`/`U` field are the DWARF encodings (K-WPRIM/K-LEB), and that `uleb_bytes(v)` decodes to v
    (K-LEB `k_leb_uleb_roundtrip_all`: Leb128::unsigned(x).bytes() reads back as x for every u64).
  * `Ok` is never guaranteed (a Writer may fail for its own reasons).
SELF-ATTACK (scratch copy of /repo/src, GIMLI_REPO; 2026-09-24; all caught by a TAGGED clause unless marked):
  set_address length `2 + address_size` -> insn-set_address, insn-len, C18:line-set-address | end_sequence length 0 -> insn-end_sequence
  AdvanceLine as ULEB -> insn-advance_line, insn-len | SetColumn as SLEB -> insn-set_column, insn-len
  new variant FixedAddPc(u16) written as ULEB -> insn-fixed_advance_pc, insn-len (written with write_u16: passes, as it must)
  SetAddress through write_udata -> insn-set_address, C18:line-set-address | set_discriminator sub-opcode := DW_LNE_define_file ->
  insn-set_discriminator (:= DW_LNS_set_file has the SAME value 4: equivalent text, passes) | its length without the sub-opcode
  byte -> insn-set_discriminator | its operand `Leb128::unsigned(val ^ 1)` -> insn-set_discriminator, insn-len
  SetFile writes the 0-based index -> insn-set_file | Copy with the opcode of negate_stmt -> insn-copy
  StringRef through write_udata -> string-strp, C18:line-string-ref | inline string without NUL -> string-inline, string-len
  LineStringRef against .debug_str -> string-line-strp, C18:line-string-ref | refs allowed in version 4 -> string-ref-needs-v5
  form check dropped -> string-form-mismatch | Leb128::unsigned continuation bit `if val > 1` -> leb-bytes
  FileId::raw `version < 4` -> file-id-raw
OBSERVATION (not a failing obligation)  LineString::write checks `form != self.form()` before anything else, so an inline
  string under DW_FORM_strp is an error, never a silent mis-encoding.
"""
import re
from lib import *
from lib import _inside_insertion
from batches import core, wcore, line as rline, wline, wunit, wlists

TRUSTED = list(wcore.TRUSTED) + ['offset']
OWN = ['C13']
VERUS_ARGS = ['--rlimit', '40']
RETRY_RLIMIT = 120


class TableMismatch(Lost):
    """the writer's table disagrees with the reader's table (line.py), wline's model or the source -> exit 2 at build time"""


# ----------------------------------------------------------------------------- the table (DWARF 5 section 6.2.5)
# (variant, binder pattern, class, opcode constant, operands [(kind, spec value over the binder `val` / `encoding`)],
#  decoded machine instruction LineOp::<ctor>, wline-model operand expression over `val` (None = no operand), optional)
# operand kinds: uleb | sleb | u2 (reader's vocabulary, line.STD_OPS) | addr (address_size bytes, relocatable) |
#                ulebbytes (the ULEB128 encoding written as raw bytes: reader kind uleb)
def row(variant, pat, cls, opcode, operands, lineop, model, optional=False):
    return {'variant': variant, 'pat': pat, 'cls': cls, 'opcode': opcode, 'operands': operands, 'lineop': lineop,
            'model': model, 'optional': optional}


LI = 'LineInstruction::'
INSNS = [
    row('Special', LI + 'Special(val)', 'special', None, [], 'Special', 'val as int'),
    row('Copy', LI + 'Copy', 'std', 'DW_LNS_copy', [], 'Copy', None),
    row('AdvancePc', LI + 'AdvancePc(val)', 'std', 'DW_LNS_advance_pc', [('uleb', 'val')], 'AdvancePc', 'val as int'),
    row('AdvanceLine', LI + 'AdvanceLine(val)', 'std', 'DW_LNS_advance_line', [('sleb', 'val')], 'AdvanceLine', 'val as int'),
    # the operand is the value of the file REGISTER (1-based up to version 4, 0-based from 5: FileId::raw)
    row('SetFile', LI + 'SetFile(val)', 'std', 'DW_LNS_set_file', [('uleb', 'val.reg(encoding.version) as u64')], 'SetFile', 'val.reg(encoding.version)'),
    row('SetColumn', LI + 'SetColumn(val)', 'std', 'DW_LNS_set_column', [('uleb', 'val')], 'SetColumn', 'val as int'),
    row('NegateStatement', LI + 'NegateStatement', 'std', 'DW_LNS_negate_stmt', [], 'NegateStmt', None),
    row('SetBasicBlock', LI + 'SetBasicBlock', 'std', 'DW_LNS_set_basic_block', [], 'SetBasicBlock', None),
    row('ConstAddPc', LI + 'ConstAddPc', 'std', 'DW_LNS_const_add_pc', [], 'ConstAddPc', None),
    # 6.2.5.2 #9: "takes a single uhalf (unencoded) operand".  gimli's writer has no such variant ("not supported"); the row is
    # generated only if one appears
    row('FixedAddPc', LI + 'FixedAddPc(val)', 'std', 'DW_LNS_fixed_advance_pc', [('u2', 'val')], 'FixedAdvancePc', 'val as int', optional=True),
    row('SetPrologueEnd', LI + 'SetPrologueEnd', 'std', 'DW_LNS_set_prologue_end', [], 'SetPrologueEnd', None),
    row('SetEpilogueBegin', LI + 'SetEpilogueBegin', 'std', 'DW_LNS_set_epilogue_begin', [], 'SetEpilogueBegin', None),
    row('SetIsa', LI + 'SetIsa(val)', 'std', 'DW_LNS_set_isa', [('uleb', 'val')], 'SetIsa', 'val as int'),
    row('EndSequence', LI + 'EndSequence', 'ext', 'DW_LNE_end_sequence', [], 'EndSequence', None),
    # 6.2.5.3 #2: "a relocatable address as its operand. The size of the operand is the size of an address on the target machine"
    row('SetAddress', LI + 'SetAddress(val)', 'ext', 'DW_LNE_set_address', [('addr', 'val')], 'SetAddress', 'wl_address(val)'),
    row('SetDiscriminator', LI + 'SetDiscriminator(val)', 'ext', 'DW_LNE_set_discriminator', [('ulebbytes', 'val')], 'SetDiscriminator', 'val as int'),
]
READER_KIND = {'ulebbytes': 'uleb'}
# where the reader's extended-opcode clauses put the operand (w = the `n` bytes after the length; text of line.decode_bodies)
EXT_OPERAND = {'addr': 'w.u(1, header.lh().address_size)', 'ulebbytes': 'sub_view(w, 1, (n - 1) as nat).uleb(0)'}


def tag_of(r):
    return (r['opcode'] or 'special').replace('DW_LNS_', '').replace('DW_LNE_', '')


def enum_variants(item_text):
    body = item_text[item_text.index('{') + 1:item_text.rindex('}')]
    return [m.group(1) for m in re.finditer(r'^\s*([A-Z]\w*)\s*(?:\(|,|$)', body, re.M)]


def active_rows(variants):
    rows = []
    for r in INSNS:
        if r['variant'] in variants:
            rows.append(r)
        elif not r['optional']:
            raise TableMismatch(f'table row {r["variant"]} is not a variant of write::LineInstruction')
    extra = [v for v in variants if v not in [r['variant'] for r in INSNS]]
    if extra:
        raise TableMismatch(f'write::LineInstruction has variants without a table row: {extra}')
    return rows


def dw_values(ty):
    return {n: int(v.replace('_', ''), 0) for n, v in
            re.findall(r'pub const (\w+): %s = %s\((0x[0-9a-fA-F_]+|\d+)\);' % (ty, ty), dw_consts(Ctx('x'), ty))}


def cross_check(ctx, rows, opcode_base):
    """the writer's table against the reader's (line.STD_OPS, line.decode_bodies) and wline's model (wl_op)"""
    lns, lne = dw_values('DwLns'), dw_values('DwLne')
    std = {n: (i + 1, kind, term) for i, (n, kind, term) in enumerate(rline.STD_OPS)}
    bodies = {}
    for tags, body in rline.decode_bodies():
        for t in re.findall(r'\[(C04:[^\]]+)\]', tags):
            bodies[t] = body
    # the reader's own framing of 6.2.5.1 / 6.2.5.3
    sp = bodies.get('C04:decode-special', '')
    if 'b0.at(0) >= header.lh().opcode_base' not in sp or 'LineOp::Special(b0.at(0) as int)' not in sp or 'adv(b0, fin, 1)' not in sp:
        raise TableMismatch(f'reader: special opcode clause changed: `{sp}`')
    fr = bodies.get('C04:decode-extended-length', '')
    if not ('b0.at(0) == 0' in fr and 'let n = b0.uleb(1); let p = 1 + b0.leb_len(1);' in fr and 'adv(b0, fin, p + n)' in fr
            and 'let w = sub_view(b0, p, n);' in fr):
        raise TableMismatch(f'reader: extended opcode framing clause changed: `{fr}`')
    # wline's semantic model of the writer's instructions
    model = {}
    m = re.search(r'spec fn wl_op\(v: u16, i: LineInstruction\) -> LineOp \{\s*match i \{(.*?)\n    \}', wline.ADAPTERS, re.S)
    if not m:
        raise TableMismatch('wline.ADAPTERS: wl_op not found')
    for v, b, ctor, arg in re.findall(r'LineInstruction::(\w+)(?:\((\w+)\))? => LineOp::(\w+)(?:\((.*)\))?,', m.group(1)):
        model[v] = (b, ctor, arg)
    n = 0
    for r in rows:
        v, cls, name = r['variant'], r['cls'], r['opcode']
        kinds = [READER_KIND.get(k, k) for k, _ in r['operands']]
        if cls == 'special':
            if name is not None or kinds:
                raise TableMismatch(f'{v}: a special opcode is the single byte')
        elif cls == 'std':
            if name not in std:
                raise TableMismatch(f'{v}: {name} is not in the reader\'s table STD_OPS')
            num, kind, term = std[name]
            if kinds != ([kind] if kind else []):
                raise TableMismatch(f'{v}/{name}: operand kinds {kinds} != reader\'s {kind}')
            if lns.get(name) != num:
                raise TableMismatch(f'{v}/{name}: value {lns.get(name)} is not its number {num} in DWARF 5 6.2.5.2')
            if not num < opcode_base:
                raise TableMismatch(f'{v}/{name}: {num} is not below the OPCODE_BASE {opcode_base} the writer announces: the reader would decode a special opcode')
            want = f'LineOp::{r["lineop"]}' + ('(o0)' if kind else '')
            if term != want:
                raise TableMismatch(f'{v}/{name}: reader decodes `{term}`, table says `{want}`')
        elif cls == 'ext':
            t = 'C04:decode-' + name.replace('DW_LNE_', '')
            if name not in lne or t not in bodies:
                raise TableMismatch(f'{v}/{name}: no reader clause [{t}]')
            b = bodies[t]
            if f'w.at(0) == constants::{name}.0' not in b:
                raise TableMismatch(f'{v}/{name}: reader clause does not select on the sub-opcode: `{b}`')
            if len(r['operands']) > 1:
                raise TableMismatch(f'{v}/{name}: more than one operand')
            if r['operands']:
                k = r['operands'][0][0]
                want = f'op_view(i) == LineOp::{r["lineop"]}({EXT_OPERAND[k]} as int)'
            else:
                want = f'op_view(i) == LineOp::{r["lineop"]}'
            if want not in b:
                raise TableMismatch(f'{v}/{name}: reader clause `{b}` does not contain `{want}`')
            if r['operands'] and r['operands'][0][0] == 'addr' and 'n >= 1 + header.lh().address_size' not in b:
                raise TableMismatch(f'{v}/{name}: reader does not require the length to cover the address')
        else:
            raise TableMismatch(f'{v}: class {cls}')
        # wline's model: same machine instruction, same operand
        if r['optional'] and v not in model:
            n += 1
            continue
        if v not in model:
            raise TableMismatch(f'{v}: wline.wl_op has no arm')
        b, ctor, arg = model[v]
        if ctor != r['lineop']:
            raise TableMismatch(f'{v}: wline models it as LineOp::{ctor}, table says LineOp::{r["lineop"]}')
        mine = r['model']
        theirs = None
        if arg:
            theirs = re.sub(r'\b%s\b' % b, 'val', arg)
            theirs = re.sub(r'\bv\b', 'encoding.version', theirs)
        if norm_ws(mine or '') != norm_ws(theirs or ''):
            raise TableMismatch(f'{v}: wline models the operand as `{theirs}`, table says `{mine}`')
        n += 1
    ctx.count('X-TABLE', n)
    return n


# ----------------------------------------------------------------------------- generation
W0 = 'old(w).0.wv()'
W1 = 'final(w).0.wv()'


def operand_field(kind, v):
    """(field, size)"""
    if kind == 'uleb':
        return f'WOp::Uleb({v})', f'uleb_size(({v}) as nat)'
    if kind == 'sleb':
        return f'WOp::Sleb({v})', f'sleb_size(({v}) as int)'
    if kind == 'u2':
        return f'wu(({v}) as nat, 2)', '2'
    if kind == 'addr':
        return f'WOp::Address {{ address: {v}, size: encoding.address_size }}', 'encoding.address_size as nat'
    if kind == 'ulebbytes':
        return f'WOp::Bytes(uleb_bytes({v}))', f'uleb_size(({v}) as nat)'
    raise TableMismatch('operand kind ' + kind)


def fields_of(r):
    ops = [operand_field(k, v) for k, v in r['operands']]
    opsz = ' + '.join([s for _, s in ops]) if ops else '0'
    if r['cls'] == 'special':
        return ['wu(val as nat, 1)'], '1nat'
    if r['cls'] == 'std':
        return [f'wu(constants::{r["opcode"]}.0 as nat, 1)'] + [f for f, _ in ops], f'1nat + {opsz}'
    # extended: 0, ULEB128(1 + operand bytes), sub-opcode, operands
    ln = f'(1 + {opsz})'
    return (['wu(0, 1)', f'WOp::Uleb({ln} as u64)', f'wu(constants::{r["opcode"]}.0 as nat, 1)'] + [f for f, _ in ops],
            f'1nat + uleb_size({ln} as nat) + 1 + {opsz}')


def gen_insn_size(rows):
    arms = '\n'.join(f'        {r["pat"]} => {fields_of(r)[1]},' for r in rows)
    return ('''
/// GENERATED from INSNS (vx/batches/wline_insn.py): number of bytes of the DWARF 5 6.2.5 encoding of `i`
spec fn insn_size(i: LineInstruction, encoding: Encoding) -> nat {
    match i {
''' + arms + '''
    }
}
''')


def insn_clauses(rows):
    out = []
    for r in rows:
        fs, _ = fields_of(r)
        n = len(fs)
        em = f'emitted{n if n > 1 else ""}({W0}, {W1}, {", ".join(fs)})'
        tags = f'[C13:insn-{tag_of(r)}]'
        if any(k == 'addr' for k, _ in r['operands']):
            tags += '[C18:line-set-address]'
        out.append(f'{tags} res is Ok ==> (self matches {r["pat"]} ==> {em})')
    out.append(f'[C13:insn-len] res is Ok ==> {W1}.len == {W0}.len + insn_size(self, encoding)')
    out.append(f'[C13:insn-frame] grew({W0}, {W1})')
    return out


# ULEB128 in closed form (DWARF 5 section 7.6): group j = bits 7j..7j+6, continuation bit iff higher bits remain
def _ub(j):
    cur = 'v' if j == 0 else f'(v >> {7 * j}u64)'
    nxt = f'(v >> {7 * j + 7}u64)' if j < 9 else '0u64'
    return f'uleb_group({cur}, {nxt})'


ULEB_SPEC = '''
        /// one LEB128 group: the low 7 bits of `cur`, continuation bit set iff `next` (the remaining higher bits) is not zero
        pub open spec fn uleb_group(cur: u64, next: u64) -> u8 {
            let lo = (cur & 0x7f) as u8;
            if next != 0 { lo | 0x80u8 } else { lo }
        }
        /// byte j of the unsigned LEB128 encoding of v (DWARF 5 section 7.6), closed form
        pub open spec fn uleb_byte(v: u64, j: int) -> u8 {
            ''' + ' else '.join(f'if j == {j} {{ {_ub(j)} }}' for j in range(9)) + ' else { ' + _ub(9) + ''' }
        }
        /// the unsigned LEB128 encoding of v
        pub open spec fn uleb_bytes(v: u64) -> Seq<u8> {
            Seq::new(uleb_size(v as nat), |j: int| uleb_byte(v, j))
        }
'''


def strengthen_leb(sk):
    """[C13:leb-bytes] on wcore's `Leb128::unsigned`: additions to the contract / loop invariant that wcore inserted, and new
    ghost insertions; the source text is untouched (the provenance check of that item still holds)"""
    lw = None
    for c in sk.mods['leb128']['chunks']:
        if isinstance(c[0], Item) and c[0].label == 'write':
            lw = c[0]
    if lw is None:
        raise Lost('wcore: item leb128::write not found')

    def rep(old, new):
        if lw.text.count(old) != 1 or not _inside_insertion(lw.text, lw.text.index(old)):
            raise Lost(f'wcore leb128::write: contract anchor `{old[:70]}` not found exactly once inside an insertion')
        lw.text = lw.text.replace(old, new)
    size_clause = 'res.count() == uleb_size(val as nat), // [' + 'C09:leb-size]'     # wcore's clause (its tag is not quoted literally:
    rep(size_clause, size_clause + '\n    res.seq() == uleb_bytes(val), // [C13:leb-bytes]')   # vx/registry.py discovers properties by tag text)
    inv = f'invariant {wcore.inv_unsigned("len")}, len <= 9, decreases 10 - len'
    rep(inv, f'invariant {wcore.inv_unsigned("len")}, len <= 9, forall|j: int| 0 <= j < len ==> #[trigger] bytes@[j] == uleb_byte(v0, j), decreases 10 - len')
    lw.insert_before('impl Leb128 {', ULEB_SPEC + '\n    ')
    # ghost hints in the body of `unsigned` (its statements come first in the module: nth=0 of every anchor)
    lw.insert_before('let mut byte = low_bits_of_u64(val);', 'let ghost vprev = val;\n                ')
    # (a failing hint is reported at the hint: each hint line carries the tag of the clause it feeds)
    lw.insert_before('bytes[len] = byte;', 'proof { assert(1u8 << 7 == 0x80u8) by (bit_vector); assert(byte == uleb_group(vprev, val)); '
                     'assert(uleb_byte(v0, len as int) == uleb_group(vprev, val)); } // [C13:leb-bytes]\n                ')
    lw.insert_after('len += 1;', '\n                assert(forall|j: int| 0 <= j < len ==> #[trigger] bytes@[j] == uleb_byte(v0, j)); // [C13:leb-bytes]')
    lw.insert_before('return Leb128 {', 'proof { assert(bytes@.take((len as u8) as int) =~= uleb_bytes(v0)); } // [C13:leb-bytes]\n                    ')
    return lw


LS_GHOST = '''
    /// the form this string is written in (DWARF 5 6.2.4.1: inline string, `.debug_str` or `.debug_line_str` reference)
    pub open spec fn spec_form(&self) -> constants::DwForm {
        match *self {
            LineString::String(_) => constants::DW_FORM_string,
            LineString::StringRef(_) => constants::DW_FORM_strp,
            LineString::LineStringRef(_) => constants::DW_FORM_line_strp,
        }
    }
    /// bytes `write` emits
    pub open spec fn spec_len(&self, encoding: Encoding) -> nat {
        match *self {
            LineString::String(val) => val@.len() + 1,
            _ => word_size(encoding.format),
        }
    }
'''


def populate(ctx, sk):
    wl = Source('write/line.rs', ctx)
    wmod = wcore.wsource('write/mod.rs', ctx)
    sec = Source('write/section.rs', ctx)

    enum_it = wl.item(r'^enum LineInstruction \{', label='LineInstruction')
    rows = active_rows(enum_variants(enum_it.text))
    ob = re.search(r'^const OPCODE_BASE: u8 = (\d+);', wl.text, re.M)
    if not ob:
        raise Lost('write/line.rs: OPCODE_BASE')
    cross_check(ctx, rows, int(ob.group(1)))

    for ty in ['DwForm']:
        wcore.ensure_structural(sk, 'constants', ty)
    lw = strengthen_leb(sk)

    # ---- ids and the string tables (models, as in wunit)
    sk.mods['write']['uses'] += '\npub use self::line::*;\npub use self::str::*;'
    sk.add('write', wmod.item(r'^struct BaseId\(usize\);', label='BaseId').clean())
    wcore.ensure_structural(sk, 'write', 'BaseId')
    sk.module('write::str', 'use super::BaseId;\nuse crate::common::{DebugStrOffset, DebugLineStrOffset};')
    for it in wunit.define_id(ctx, 'StringId') + wunit.define_id(ctx, 'LineStringId'):
        sk.add('write::str', it)
    sk.add('write::str', wunit.table_model('StringTable', 'offset', 'StringId', 'DebugStrOffset', '`StringTable` (IndexSet + Vec of offsets)'), label='StringTable(model)')
    sk.add('write::str', wunit.table_model('LineStringTable', 'offset', 'LineStringId', 'DebugLineStrOffset', '`LineStringTable`'), label='LineStringTable(model)')

    sk.module('write::line', '''use core::ops::{Deref, DerefMut};
use crate::common::{DebugLineOffset, Encoding, Format, LineEncoding, SectionId};
use crate::constants;
use crate::leb128::write::{Leb128, uleb_bytes, uleb_byte, uleb_group};
use crate::write::{Address, Error, LineStringId, LineStringTable, Result, StringId, StringTable, Writer};
use crate::vspec::*;
use crate::wspec::*;
pub use self::id::*;''')
    M = 'write::line'

    # ---- define_section!(DebugLine, DebugLineOffset, ..)
    wlists.check_invocation(wl, 'define_section', ['DebugLine,', 'DebugLineOffset,'])
    x = wlists.expand(ctx, sec, 'define_section', {'name': 'DebugLine', 'offset': 'DebugLineOffset'})
    sk.add(M, x.item(r'^pub struct DebugLine<', label='DebugLine').clean())
    im = x.item(r'^impl<W: Writer> DebugLine<W> \{', label='DebugLine(impl)').clean()
    im.own(OWN)
    im.splice('offset', ret='res', ensures=['res.0 as nat == self.0.wv().len'])
    sk.add(M, im)
    d = x.item(r'^impl<W: Writer> Deref for DebugLine<W>', label='DebugLine(Deref)').clean()
    d.own(OWN)
    d.splice('deref', ret='res', ensures=['*res == self.0'])
    sk.add(M, d)
    dm = x.item(r'^impl<W: Writer> DerefMut for DebugLine<W>', label='DebugLine(DerefMut)').clean()
    dm.own(OWN)
    dm.splice('deref_mut', ret='res', ensures=['*res == old(self).0', 'final(self).0 == *final(res)'])
    sk.add(M, dm)
    for h in ['From<W> for', 'Section<W> for']:
        ctx.dropped.append(f'{sec.rel}:define_section!(DebugLine)::impl {h} DebugLine<W>')
        ctx.count('R-DROP')

    # ---- FileId (contracts as in wline)
    idm = wl.item(r'^mod id \{', label='id').clean()
    idm.insert_after('mod id {', '\n    use vstd::prelude::*;\n')
    idm.insert_after('impl FileId {', wline.ID_GHOST)
    idm.insert_before('impl FileId {', 'unsafe impl Structural for FileId {}\n\n    ')
    idm.own(OWN)
    idm.splice('new', ret='res', ensures=['res.idx() == index'])
    idm.splice('index', ret='res', ensures=['res == self.idx()'])
    idm.splice('initial_state', ret='res', ensures=['[C13:initial-state] 2 <= version <= 5 ==> res.reg(version) == 1'])
    idm.splice('raw', ret='res', requires=['self.reg(version) <= u64::MAX'], ensures=['[C13:file-id-raw] res as int == self.reg(version)'], canary=True)
    sk.add(M, idm)

    # ---- LineInstruction::write
    sk.add(M, enum_it.clean())
    sk.add(M, gen_insn_size(rows), label='insn_size(generated)')
    li = wl.item(r'^impl LineInstruction \{', label='LineInstruction(impl)').clean()
    li.own(OWN)
    li.splice('write', ret='res',
              requires=['[C13:insn-file-pre] self matches LineInstruction::SetFile(f) ==> f.reg(encoding.version) <= u64::MAX'],
              ensures=insn_clauses(rows), canary=True)
    sk.add(M, li)

    # ---- LineString::{form, write}
    sk.add(M, wl.item(r'^pub enum LineString \{', label='LineString').custom_re('R-DERIVE', r'#\[derive\([^\]]*\)\]', '#[derive(Debug)]').clean())
    ls = wl.item(r'^impl LineString \{', label='LineString(impl)')
    ls.keep_only(['form', 'write'])
    ls.clean()
    ls.insert_members(LS_GHOST)
    ls.own(OWN)
    ls.splice('form', ret='res', ensures=['[C13:string-form] res == self.spec_form()'])
    NOTHING = f'wunch({W0}, {W1})'
    ls.splice('write', ret='res',
              requires=['[C13:string-nonempty-pre] *self matches LineString::String(val) ==> (encoding.version <= 4 ==> val@.len() > 0)'],
              ensures=[
                  # 6.2.4.1 DW_FORM_string: "the string itself ... a sequence of contiguous non-null bytes followed by one null byte"
                  f'[C13:string-inline] res is Ok ==> (*self matches LineString::String(val) ==> form == constants::DW_FORM_string && '
                  f'emitted2({W0}, {W1}, WOp::Bytes(val@), wu(0, 1)))',
                  # DW_FORM_strp / DW_FORM_line_strp: an offset into .debug_str / .debug_line_str of the size of the format
                  # (4 / 8 bytes), DWARF 5 only; it is a section offset: the RELOCATABLE field, never a plain integer (C18)
                  f'[C13:string-strp][C18:line-string-ref] res is Ok ==> (*self matches LineString::StringRef(id) ==> form == constants::DW_FORM_strp && '
                  f'encoding.version >= 5 && emitted({W0}, {W1}, WOp::Offset {{ val: strings.off(id).0, section: SectionId::DebugStr, size: word_size(encoding.format) as u8 }}))',
                  f'[C13:string-line-strp][C18:line-string-ref] res is Ok ==> (*self matches LineString::LineStringRef(id) ==> form == constants::DW_FORM_line_strp && '
                  f'encoding.version >= 5 && emitted({W0}, {W1}, WOp::Offset {{ val: line_strings.off(id).0, section: SectionId::DebugLineStr, size: word_size(encoding.format) as u8 }}))',
                  f'[C13:string-form-mismatch] form != self.spec_form() ==> res == Err::<(), Error>(Error::LineStringFormMismatch) && {NOTHING}',
                  f'[C13:string-ref-needs-v5] form == self.spec_form() && !(*self is String) && encoding.version < 5 ==> res == Err::<(), Error>(Error::NeedVersion(5)) && {NOTHING}',
                  f'[C13:string-len] res is Ok ==> {W1}.len == {W0}.len + self.spec_len(encoding)',
                  f'[C13:string-frame] grew({W0}, {W1})'],
              canary=True)
    sk.add(M, ls)
    return sk


def build(ctx):
    sk = Skeleton(ctx, core.rd('prelude/crate.rs'))
    core.populate(ctx, sk)
    wcore.populate(ctx, sk)
    populate(ctx, sk)
    return sk
