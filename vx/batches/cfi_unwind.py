"""B-cfi_unwind: call frame instruction decode, unwind table evaluation, unwind context (DESIGN.md 6 C06 / C20 / C01).

(work in progress header, replaced at the end)
"""
import re
from lib import *
from batches import core

TRUSTED = list(core.TRUSTED) + ['parse_encoded_pointer']
VERUS_ARGS = ['--rlimit', '40']
RETRY_RLIMIT = 120

OWN = ['C01', 'C06']

# ----------------------------------------------------------------------------------------------------------------------
# 1. CallFrameInstruction::parse : decode table written from DWARF 5 section 6.4.2 and table 7.29 (section 7.24),
#    plus the two vendor extensions gimli documents (DW_CFA_GNU_args_size 0x2e, DW_CFA_AARCH64_negate_ra_state 0x2d).
#    (name, primary opcode condition over the first byte `b`, operand kinds, decoded instruction pattern, constraints)
#    operand kinds: low6 = low six bits of the opcode byte (consumes nothing); u1 u2 u4 = fixed-size unsigned;
#                   addr = target address (address_size bytes, when no pointer encoding applies);
#                   reg = ULEB128 register number (must fit 16 bits, gimli's Register); uleb / sleb; blk = ULEB128 length + bytes
# ----------------------------------------------------------------------------------------------------------------------
CFA = [
    # high-2-bit forms (6.4.2: "primary opcode" in the high 2 bits, operand in the low 6 bits)
    ('advance_loc', 'hi == 0x1', ['low6'], 'CallFrameInstruction::AdvanceLoc { delta }', 'delta == o0'),
    ('offset', 'hi == 0x2', ['low6', 'uleb'], 'CallFrameInstruction::Offset { register, factored_offset }', 'register.0 == o0 && factored_offset == o1'),
    ('restore', 'hi == 0x3', ['low6'], 'CallFrameInstruction::Restore { register }', 'register.0 == o0'),
    # extended opcodes (high 2 bits zero)
    ('nop', 'b == 0x00', [], 'CallFrameInstruction::Nop', 'true'),
    ('advance_loc1', 'b == 0x02', ['u1'], 'CallFrameInstruction::AdvanceLoc { delta }', 'delta == o0'),
    ('advance_loc2', 'b == 0x03', ['u2'], 'CallFrameInstruction::AdvanceLoc { delta }', 'delta == o0'),
    ('advance_loc4', 'b == 0x04', ['u4'], 'CallFrameInstruction::AdvanceLoc { delta }', 'delta == o0'),
    ('offset_extended', 'b == 0x05', ['reg', 'uleb'], 'CallFrameInstruction::Offset { register, factored_offset }', 'register.0 == o0 && factored_offset == o1'),
    ('restore_extended', 'b == 0x06', ['reg'], 'CallFrameInstruction::Restore { register }', 'register.0 == o0'),
    ('undefined', 'b == 0x07', ['reg'], 'CallFrameInstruction::Undefined { register }', 'register.0 == o0'),
    ('same_value', 'b == 0x08', ['reg'], 'CallFrameInstruction::SameValue { register }', 'register.0 == o0'),
    ('register', 'b == 0x09', ['reg', 'reg'], 'CallFrameInstruction::Register { dest_register, src_register }', 'dest_register.0 == o0 && src_register.0 == o1'),
    ('remember_state', 'b == 0x0a', [], 'CallFrameInstruction::RememberState', 'true'),
    ('restore_state', 'b == 0x0b', [], 'CallFrameInstruction::RestoreState', 'true'),
    ('def_cfa', 'b == 0x0c', ['reg', 'uleb'], 'CallFrameInstruction::DefCfa { register, offset }', 'register.0 == o0 && offset == o1'),
    ('def_cfa_register', 'b == 0x0d', ['reg'], 'CallFrameInstruction::DefCfaRegister { register }', 'register.0 == o0'),
    ('def_cfa_offset', 'b == 0x0e', ['uleb'], 'CallFrameInstruction::DefCfaOffset { offset }', 'offset == o0'),
    ('def_cfa_expression', 'b == 0x0f', ['blk'], 'CallFrameInstruction::DefCfaExpression { expression }', 'EXPR(expression, 0)'),
    ('expression', 'b == 0x10', ['reg', 'blk'], 'CallFrameInstruction::Expression { register, expression }', 'register.0 == o0 && EXPR(expression, 1)'),
    ('offset_extended_sf', 'b == 0x11', ['reg', 'sleb'], 'CallFrameInstruction::OffsetExtendedSf { register, factored_offset }', 'register.0 == o0 && factored_offset == o1'),
    ('def_cfa_sf', 'b == 0x12', ['reg', 'sleb'], 'CallFrameInstruction::DefCfaSf { register, factored_offset }', 'register.0 == o0 && factored_offset == o1'),
    ('def_cfa_offset_sf', 'b == 0x13', ['sleb'], 'CallFrameInstruction::DefCfaOffsetSf { factored_offset }', 'factored_offset == o0'),
    ('val_offset', 'b == 0x14', ['reg', 'uleb'], 'CallFrameInstruction::ValOffset { register, factored_offset }', 'register.0 == o0 && factored_offset == o1'),
    ('val_offset_sf', 'b == 0x15', ['reg', 'sleb'], 'CallFrameInstruction::ValOffsetSf { register, factored_offset }', 'register.0 == o0 && factored_offset == o1'),
    ('val_expression', 'b == 0x16', ['reg', 'blk'], 'CallFrameInstruction::ValExpression { register, expression }', 'register.0 == o0 && EXPR(expression, 1)'),
    ('GNU_args_size', 'b == 0x2e', ['uleb'], 'CallFrameInstruction::ArgsSize { size }', 'size == o0'),
]
# DW_CFA_set_loc (0x01) and DW_CFA_AARCH64_negate_ra_state (0x2d, vendor gated) are written out by hand below.
KNOWN_EXT = [0x00, 0x01, 0x02, 0x03, 0x04, 0x05, 0x06, 0x07, 0x08, 0x09, 0x0a, 0x0b, 0x0c, 0x0d, 0x0e, 0x0f, 0x10, 0x11, 0x12,
             0x13, 0x14, 0x15, 0x16, 0x2e]

B0 = 'old(input).rv()'
FIN = 'final(input).rv()'
HEAD = f'let b0 = {B0}; let b = b0.at(0) as int; let hi = b / 64; '


def operand_lets(kinds):
    """spec let-chain: operand values o_i, positions p_i (p0 = 1: after the opcode byte), total size, well-formedness"""
    s = 'let p0 = 1int; '
    wf = []
    for i, k in enumerate(kinds):
        p = f'p{i}'
        if k == 'low6':
            s += f'let o{i} = b % 64; let p{i + 1} = {p}; '
        elif k in ('u1', 'u2', 'u4'):
            n = int(k[1])
            s += (f'let o{i} = b0.at({p}) as int; ' if n == 1 else f'let o{i} = b0.u({p}, {n}) as int; ') + f'let p{i + 1} = {p} + {n}; '
            wf.append(f'p{i + 1} <= b0.len')
        elif k in ('uleb', 'reg'):
            s += f'let o{i} = b0.uleb({p}) as int; let p{i + 1} = {p} + b0.leb_len({p}) as int; '
            wf.append(f'b0.leb_ok({p}) && b0.leb_len({p}) <= 10 && o{i} <= ' + ('0xffff' if k == 'reg' else 'u64::MAX'))
        elif k == 'sleb':
            s += f'let o{i} = b0.sleb({p}); let p{i + 1} = {p} + b0.leb_len({p}) as int; '
            wf.append('false')       # the reader layer has no acceptance clause for SLEB128
        elif k == 'blk':
            # o_i = block length, q_i = offset of the first block byte
            s += f'let o{i} = b0.uleb({p}) as int; let q{i} = {p} + b0.leb_len({p}) as int; let p{i + 1} = q{i} + o{i}; '
            wf.append(f'b0.leb_ok({p}) && b0.leb_len({p}) <= 10 && o{i} <= 0xffff_ffff && p{i + 1} <= b0.len')
    s += f'let total = p{len(kinds)}; '
    return s, wf


def expr_view(cons):
    """EXPR(e, i): the UnwindExpression e is the (offset, length) view of block operand i: offset counted from the start of the
    section reader, the bytes are the window [q_i, q_i + o_i) of the instruction input"""
    return re.sub(r'EXPR\((\w+), (\d)\)',
                  r'(\1.length.as_nat() == o\2 && \1.offset.as_nat() + parameters.section.rv().start == b0.start + q\2 && q\2 + o\2 <= b0.len)', cons)


def parse_clauses():
    out = []
    for name, cond, kinds, pat, cons in CFA:
        lets, wf = operand_lets(kinds)
        tags = f'[C06:decode-{name}]' + ('[C10:view]' if 'EXPR' in cons else '')
        out.append(f'{tags} res matches Ok(op) ==> ({{ {HEAD} ({cond}) ==> ({{ {lets} '
                   f'(op matches {pat} && ({expr_view(cons)}) && adv(b0, {FIN}, total as nat)) }}) }})')
        if 'false' not in wf:
            w = ' && '.join(['b0.len >= 1'] + wf)
            out.append(f'[C06:accept-{name}] ({{ {HEAD} ({cond}) ==> ({{ {lets} ({w}) ==> res is Ok }}) }})')
        regs = [i for i, k in enumerate(kinds) if k == 'reg']
        if regs:
            # a register number that does not fit gimli's 16-bit Register is an error, never a truncated register
            i = regs[0]
            out.append(f'[C06:reject-wide-register-{name}] ({{ {HEAD} ({cond}) ==> ({{ {lets} b0.len >= 1 && b0.leb_ok(p{i}) && o{i} > 0xffff ==> res is Err }}) }})')
    # DW_CFA_set_loc: a target address (address_size bytes) unless an .eh_frame pointer encoding applies (then parse_encoded_pointer, owned by C05)
    out.append(f'[C06:decode-set_loc] res matches Ok(op) ==> ({{ {HEAD} b == 0x01 ==> (op matches CallFrameInstruction::SetLoc {{ address }} && '
               f'(address_encoding is None ==> address == b0.u(1, parameters.address_size as int) && valid_address_size(parameters.address_size) && adv(b0, {FIN}, 1 + parameters.address_size as nat))) }})')
    out.append(f'[C06:accept-set_loc] ({{ {HEAD} b == 0x01 && address_encoding is None && valid_address_size(parameters.address_size) && b0.len >= 1 + parameters.address_size ==> res is Ok }})')
    # vendor gate
    out.append(f'[C06:decode-AARCH64_negate_ra_state] ({{ {HEAD} b0.len >= 1 && b == 0x2d ==> '
               f'(if vendor == Vendor::AArch64 {{ res == Ok::<CallFrameInstruction<T>, Error>(CallFrameInstruction::NegateRaState) && adv(b0, {FIN}, 1) }} '
               f'else {{ res == Err::<CallFrameInstruction<T>, Error>(Error::UnknownCallFrameInstruction(constants::DwCfa(0x2d))) }}) }})')
    known = ' || '.join(f'b == {x:#04x}' for x in KNOWN_EXT)
    out.append(f'[C06:decode-unknown-opcode] ({{ {HEAD} b0.len >= 1 && hi == 0 && !({known} || b == 0x2d) ==> '
               f'res == Err::<CallFrameInstruction<T>, Error>(Error::UnknownCallFrameInstruction(constants::DwCfa(b0.at(0)))) }})')
    out.append(f'[C06:decode-empty] {B0}.len == 0 ==> res is Err')
    out.append(f'[C01:frame] within({B0}, {FIN})')
    out.append(f'[C01:progress] res is Ok ==> {FIN}.len < {B0}.len')
    return out


def shift_consts(ctx):
    """dw_consts (lib.py) only understands literal values; DW_CFA_{advance_loc,offset,restore} are written `0x0N << 6`.
    They are taken from the source text here (same mechanical emission)."""
    src = Source('constants.rs', ctx)
    out = []
    for name, val in re.findall(r'\b(DW_CFA_\w+)\s*=\s*(0x[0-9a-fA-F]+\s*<<\s*\d+)\s*,', src.text):
        out.append(f'pub const {name}: DwCfa = DwCfa({val});')
    if len(out) != 3:
        raise Lost('constants.rs: shifted DW_CFA constants')
    ctx.count('R-DW', len(out))
    return '\n'.join(out)


MASK_BV = ('proof { assert(forall|i: u8| #![auto] (i & 0b1100_0000u8) == 0x40u8 <==> i as int / 64 == 1) by (bit_vector); '
           'assert(forall|i: u8| #![auto] (i & 0b1100_0000u8) == 0x80u8 <==> i as int / 64 == 2) by (bit_vector); '
           'assert(forall|i: u8| #![auto] (i & 0b1100_0000u8) == 0xc0u8 <==> i as int / 64 == 3) by (bit_vector); '
           'assert(forall|i: u8| #![auto] (i & 0b1100_0000u8) == 0u8 <==> i as int / 64 == 0) by (bit_vector); '
           'assert(forall|i: u8| #![auto] (i & !0b1100_0000u8) as int == i as int % 64) by (bit_vector); '
           'assert(0x01u8 << 6 == 0x40u8) by (bit_vector); assert(0x02u8 << 6 == 0x80u8) by (bit_vector); assert(0x03u8 << 6 == 0xc0u8) by (bit_vector); }')


def populate(ctx, sk):
    cfi = Source('read/cfi.rs', ctx)
    sk.mods['read']['uses'] += '\npub use self::cfi::*;'
    sk.add('constants', shift_consts(ctx), label='DwCfa-shifted')
    sk.module('read::cfi', '''use core::fmt::Debug;
use crate::common::{Format, Register, Vendor};
use crate::constants::{self, DwEhPe};
use crate::read::{Error, Reader, ReaderAddress, ReaderOffset, Result};
use crate::read::reader_clone;
use crate::vspec::*;''')
    sk.add('read::cfi', cfi.item(r'^pub struct SectionBaseAddresses').clean())
    sk.add('read::cfi', cfi.item(r'^pub struct UnwindExpression<').clean())
    sk.add('read::cfi', cfi.item(r'^pub enum CallFrameInstruction<').clean(rejrec=['T']))
    sk.add('read::cfi', cfi.item(r'^const CFI_INSTRUCTION_HIGH_BITS_MASK').clean())
    sk.add('read::cfi', cfi.item(r'^const CFI_INSTRUCTION_LOW_BITS_MASK').clean())
    sk.add('read::cfi', cfi.item(r'^pub enum Pointer \{').clean())
    ptr = cfi.item(r'^impl Pointer \{', label='Pointer').keep_only(['direct']).clean()
    ptr.splice('direct', ret='res', ensures=['res matches Ok(p) ==> self == Pointer::Direct(p)', 'res is Err <==> self is Indirect'])
    ptr.own(OWN)
    sk.add('read::cfi', ptr)
    sk.add('read::cfi', cfi.item(r'^struct PointerEncodingParameters<').clean(offset=False))
    # parse_encoded_pointer is verified by the C05 batch; here only its frame is assumed (no value clause)
    pep = cfi.item(r'^fn parse_encoded_pointer<').extbody(['parse_encoded_pointer']).clean(offset=False)
    pep.splice('parse_encoded_pointer', ret='res', ensures=['within(old(input).rv(), final(input).rv())'])
    sk.add('read::cfi', pep)

    imp = cfi.item(r'^impl<T: ReaderOffset> CallFrameInstruction<T> \{', label='CallFrameInstruction').clean()
    imp.splice('parse', ret='res',
               requires=['[C10:offset-from-pre] old(input).rv().root == parameters.section.rv().root && parameters.section.rv().start <= old(input).rv().start'],
               ensures=parse_clauses(),
               before=[('let high_bits = instruction & CFI_INSTRUCTION_HIGH_BITS_MASK;', MASK_BV)],
               owners=OWN, canary=True)
    sk.add('read::cfi', imp)
    return sk


def build(ctx):
    sk = Skeleton(ctx, core.rd('prelude/crate.rs'))
    core.populate(ctx, sk)
    populate(ctx, sk)
    return sk
